/-
C03 — model of the FILE LAYOUT machinery of `oxidize-pdf-core/src/writer/pdf_writer/mod.rs`,
`writer/xref_stream_writer.rs`, `writer/object_streams.rs`  (builder b0320).

Transcription (line numbers of the pinned tree):
  * `write_bytes` (4215)                 ↦ `writeBytes`   (`out ++ d`, `pos + d.length`)
  * `write_header` (865)                 ↦ `headerBytes`
  * `write_object` (3709)                ↦ `writeObject`  (object-stream buffering branch, offset
                                            recorded BEFORE the `N 0 obj\n` header)
  * `write_object_value` Stream arm (3807) ↦ `streamBody` (`/Length` forced to `data.len()`,
                                            dictionary emitted sorted by key)
  * `flush_object_streams` (3896)        ↦ `flushObjectStreams` (sort by id, chunks of 100, ids from
                                            1 000 000 — `ObjectStreamWriter::new`, object_streams.rs:145)
  * `ObjectStream::generate_stream_data` ↦ `genStreamData`  (index `id off ` pairs, objects + ' ')
  * `write_xref` (3953)                  ↦ `classicEntries`, `classicXrefBytes`
  * `write_trailer` (4171)               ↦ `trailerBytes`
  * `write_xref_stream` (3992)           ↦ `xrefStreamEntries`, `xrefStreamObject`
  * `XRefStreamWriter::{bytes_needed, add_*_entry, write_field, encode_entries,
     create_dictionary}`                 ↦ `bytesNeeded`, `widths`, `writeField`, `encodeEntries`,
                                            `xrefStreamDict`
  * `HashMap<ObjectId,u64>` / `HashMap<ObjectId,Vec<u8>>` ↦ association LOGS, newest first; a lookup
    takes the first (= newest) match, which is `HashMap::insert`'s replace semantics.
  * `dict.iter()` of the cross-reference stream dictionary (4074) is hash order: the model takes
    an ORDER ORACLE `perm` (any function on entry lists; C20 quantifies over permutations).
  * compression is a parameter `z` (`compression::compress` / `ZlibEncoder`).
Object ids are object NUMBERS; the generation is the constant 0 (`allocate_object_id`,
`ObjectStreamWriter::add_object` only ever build `ObjectId::new(n, 0)`).
Object values are opaque byte strings (`Body.plain`); only streams are structured, because the
`/Length` correction is part of the layout.  Import-free.
-/
namespace OxiVerif.C03

/-! ## constants (ASCII) -/
/-- `" 0 obj\n"` -/
def kObj : List Nat := [32, 48, 32, 111, 98, 106, 10]
/-- `"\nendobj\n"` -/
def kEndobjNl : List Nat := [10, 101, 110, 100, 111, 98, 106, 10]
/-- `"\nstream\n"` -/
def kStream : List Nat := [10, 115, 116, 114, 101, 97, 109, 10]
/-- `"\nendstream"` -/
def kEndstream : List Nat := [10, 101, 110, 100, 115, 116, 114, 101, 97, 109]
/-- `"Length"` -/
def kLength : List Nat := [76, 101, 110, 103, 116, 104]
/-- `"%PDF-"` -/
def kPdf : List Nat := [37, 80, 68, 70, 45]
/-- `%âãÏÓ\n` (binary comment) -/
def kBinComment : List Nat := [37, 0xE2, 0xE3, 0xCF, 0xD3, 10]
/-- `"xref\n"` -/
def kXref : List Nat := [120, 114, 101, 102, 10]
/-- `"trailer\n"` -/
def kTrailer : List Nat := [116, 114, 97, 105, 108, 101, 114, 10]
/-- `"\nstartxref\n"` -/
def kStartxref : List Nat := [10, 115, 116, 97, 114, 116, 120, 114, 101, 102, 10]
/-- `"\n%%EOF\n"` -/
def kEof : List Nat := [10, 37, 37, 69, 79, 70, 10]
/-- `" n \n"` / `" f \n"` -/
def kN : List Nat := [32, 110, 32, 10]
def kF : List Nat := [32, 102, 32, 10]
/-- `" 0 R"` -/
def kRef : List Nat := [32, 48, 32, 82]
/-- `"/FlateDecode"`, `"/XRef"`, `"/ObjStm"` -/
def kFlate : List Nat := [47, 70, 108, 97, 116, 101, 68, 101, 99, 111, 100, 101]
def kXRefName : List Nat := [47, 88, 82, 101, 102]
def kObjStmName : List Nat := [47, 79, 98, 106, 83, 116, 109]
def kType : List Nat := [84, 121, 112, 101]
def kSize : List Nat := [83, 105, 122, 101]
def kRoot : List Nat := [82, 111, 111, 116]
def kInfo : List Nat := [73, 110, 102, 111]
def kW : List Nat := [87]
def kIndex : List Nat := [73, 110, 100, 101, 120]
def kFilter : List Nat := [70, 105, 108, 116, 101, 114]
def kNKey : List Nat := [78]
def kFirst : List Nat := [70, 105, 114, 115, 116]

/-! ## numbers -/
/-- `u64::to_string` -/
def dec (n : Nat) : List Nat :=
  if n < 10 then [48 + n] else dec (n / 10) ++ [48 + n % 10]
termination_by n
decreasing_by omega

/-- `format!("{:0w}", n)` -/
def padLeft (w : Nat) (l : List Nat) : List Nat := List.replicate (w - l.length) 48 ++ l
def pad10 (n : Nat) : List Nat := padLeft 10 (dec n)
def pad5 (n : Nat) : List Nat := padLeft 5 (dec n)

/-! ## dictionaries with opaque values -/
abbrev DictE := List Nat × List Nat

/-- `str::cmp` on the UTF-8 bytes -/
def keyLe : List Nat → List Nat → Bool
  | [], _ => true
  | _ :: _, [] => false
  | a :: as, b :: bs => if a < b then true else if b < a then false else keyLe as bs

/-- `entries.sort_by_key(|(k, _)| k.as_str())` -/
def sortEntries (d : List DictE) : List DictE := d.mergeSort (fun a b => keyLe a.1 b.1)

/-- `Dictionary::set` (HashMap insert) -/
def setKey (d : List DictE) (k v : List Nat) : List DictE := (k, v) :: d.filter (fun e => e.1 != k)

def emitEntries : List DictE → List Nat
  | [] => []
  | (k, v) :: r => [10, 47] ++ k ++ [32] ++ v ++ emitEntries r

/-- `<<` entries `\n>>` — the shape of both `write_object_value`'s Dictionary arm (after sorting)
and the hand-rolled loop of `write_xref_stream` (unsorted) -/
def emitDict (d : List DictE) : List Nat := [60, 60] ++ emitEntries d ++ [10, 62, 62]

/-! ## objects -/
inductive Body where
  | plain (bytes : List Nat)
  | null
  | stream (dict : List DictE) (data : List Nat)
  deriving Repr

structure Obj where
  id : Nat
  body : Body
  deriving Repr

/-- `write_object_value`, Stream arm -/
def streamBody (dict : List DictE) (data : List Nat) : List Nat :=
  emitDict (sortEntries (setKey dict kLength (dec data.length))) ++ kStream ++ data ++ kEndstream

def serBody : Body → List Nat
  | .plain b => b
  | .null => [110, 117, 108, 108]
  | .stream d data => streamBody d data

/-- `ObjectStreamWriter::can_compress` -/
def canCompress : Body → Bool
  | .plain _ => true
  | _ => false

structure Cfg where
  xrefStreams : Bool
  objStreams : Bool
  compress : Bool
  deriving Repr, DecidableEq

/-- `PdfWriter::object_streams_enabled` (repair 4d9cdfbe of C03-F2): the user's `use_object_streams`
takes effect only together with `use_xref_streams`; every function below reads the EFFECTIVE flag -/
def Cfg.effective (user : Cfg) : Cfg := { user with objStreams := user.objStreams && user.xrefStreams }

structure WState where
  out : List Nat
  pos : Nat
  /-- `xref_positions`, newest first -/
  xref : List (Nat × Nat)
  /-- `buffered_objects`, newest first -/
  buffered : List (Nat × List Nat)
  deriving Repr

def WState.init : WState := { out := [], pos := 0, xref := [], buffered := [] }

/-- `write_bytes` -/
def writeBytes (s : WState) (d : List Nat) : WState :=
  { s with out := s.out ++ d, pos := s.pos + d.length }

def objHeader (id : Nat) : List Nat := dec id ++ kObj

/-- the non-buffered branch of `write_object` -/
def writeObjectNow (s : WState) (id : Nat) (body : List Nat) : WState :=
  let s1 := { s with xref := (id, s.pos) :: s.xref }
  writeBytes (writeBytes (writeBytes s1 (objHeader id)) body) kEndobjNl

/-- `write_object` -/
def writeObject (cfg : Cfg) (s : WState) (o : Obj) : WState :=
  if cfg.objStreams && canCompress o.body then
    { s with buffered := (o.id, serBody o.body) :: s.buffered }
  else writeObjectNow s o.id (serBody o.body)

def writeObjects (cfg : Cfg) (s : WState) (os : List Obj) : WState := os.foldl (writeObject cfg) s

/-! ## object streams -/
/-- `generate_stream_data` loop: (index section, object section) -/
def genStreamData (cur : Nat) : List (Nat × List Nat) → List Nat × List Nat
  | [] => ([], [])
  | (id, d) :: r =>
    let p := genStreamData (cur + d.length + 1) r
    (dec id ++ [32] ++ dec cur ++ [32] ++ p.1, d ++ [32] ++ p.2)

/-- keep the newest binding of every key (`HashMap::insert` replaces) -/
def dedupNewest {α} : List (Nat × α) → List (Nat × α)
  | [] => []
  | e :: r => e :: (dedupNewest r).filter (fun x => x.1 != e.1)

/-- `max_objects_per_stream` -/
def kMaxPerStream : Nat := 100
/-- `next_stream_id: 1000000` -/
def kFirstStreamId : Nat := 1000000

def chunks {α} (n : Nat) (fuel : Nat) (l : List α) : List (List α) :=
  match fuel with
  | 0 => []
  | fuel + 1 => if l.isEmpty then [] else l.take n :: chunks n fuel (l.drop n)

def objStmDict (n first len : Nat) : List DictE :=
  [(kFilter, kFlate), (kFirst, dec first), (kLength, dec len), (kNKey, dec n), (kType, kObjStmName)]

structure ObjStm where
  id : Nat
  members : List (Nat × List Nat)
  deriving Repr

/-- `next_stream_id += 1` per completed stream -/
def numberFrom (k : Nat) : List (List (Nat × List Nat)) → List ObjStm
  | [] => []
  | c :: r => { id := k, members := c } :: numberFrom (k + 1) r

/-- the streams `ObjectStreamWriter::{add_object, finalize}` builds from the buffered objects -/
def packStreams (buffered : List (Nat × List Nat)) : List ObjStm :=
  let sorted := (dedupNewest buffered).mergeSort (fun a b => a.1 ≤ b.1)
  numberFrom kFirstStreamId (chunks kMaxPerStream sorted.length sorted)

def objStmBody (z : List Nat → List Nat) (st : ObjStm) : List Nat :=
  let p := genStreamData 0 st.members
  let data := z (p.1 ++ p.2)
  emitDict (objStmDict st.members.length p.1.length data.length) ++ kStream ++ data ++ kEndstream

/-- `for (index, (obj_id, _)) in stream.objects.iter().enumerate()` -/
def cmapFrom (stm i : Nat) : List (Nat × List Nat) → List (Nat × Nat × Nat)
  | [] => []
  | m :: r => (m.1, stm, i) :: cmapFrom stm (i + 1) r

/-- `compressed_object_map` entries contributed by one stream -/
def cmapOf (st : ObjStm) : List (Nat × Nat × Nat) := cmapFrom st.id 0 st.members

/-- `flush_object_streams`: returns the new state and the `compressed_object_map` -/
def flushObjectStreams (z : List Nat → List Nat) (s : WState) : WState × List (Nat × Nat × Nat) :=
  let sts := packStreams s.buffered
  (sts.foldl (fun s st => writeObjectNow s st.id (objStmBody z st)) s, sts.flatMap cmapOf)

/-! ## cross-reference data -/
inductive Entry where
  | free (next gen : Nat)
  | inUse (off gen : Nat)
  | compressed (stm idx : Nat)
  deriving Repr, DecidableEq

def maxId (x : List (Nat × Nat)) : Nat := x.foldl (fun m e => max m e.1) 0

def lookupOff (x : List (Nat × Nat)) (id : Nat) : Option Nat :=
  (x.find? (fun e => e.1 == id)).map (·.2)

/-- `write_xref`: object 0, then every number 1..=max -/
def classicEntries (x : List (Nat × Nat)) : List Entry :=
  .free 0 65535 :: (List.range' 1 (maxId x)).map (fun n =>
    match lookupOff x n with
    | some p => .inUse p 0
    | none => .free 0 0)

def emitClassicEntry : Entry → List Nat
  | .inUse p g => pad10 p ++ [32] ++ pad5 g ++ kN
  | .free n g => pad10 n ++ [32] ++ pad5 g ++ kF
  | .compressed _ _ => []

def classicXrefBytes (es : List Entry) : List Nat :=
  kXref ++ [48, 32] ++ dec es.length ++ [10] ++ es.flatMap emitClassicEntry

def refBytes (id : Nat) : List Nat := dec id ++ kRef

/-- `write_trailer` (no /Prev, no encryption) -/
def trailerBytes (size root info xrefPos : Nat) : List Nat :=
  kTrailer ++ emitDict [(kInfo, refBytes info), (kRoot, refBytes root), (kSize, dec size)] ++
    kStartxref ++ dec xrefPos ++ kEof

/-- `XRefStreamWriter::bytes_needed` -/
def bytesNeeded (v : Nat) : Nat := if v = 0 then 1 else Nat.log2 v / 8 + 1

/-- `add_free_entry` / `add_in_use_entry` / `add_compressed_entry`: effect on the widths -/
def widthStep (w : Nat × Nat × Nat) (e : Entry) : Nat × Nat × Nat :=
  match e with
  | .free _ _ => w
  | .inUse off _ => (w.1, max w.2.1 (bytesNeeded off), w.2.2)
  | .compressed stm idx => (w.1, max w.2.1 (bytesNeeded stm), max w.2.2 (bytesNeeded idx))

/-- widths after all `add_*_entry` calls (initially `[1, 3, 2]`) -/
def widths (es : List Entry) : Nat × Nat × Nat := es.foldl widthStep (1, 3, 2)

/-- `write_field`: big-endian, `width` bytes, higher bytes silently dropped -/
def writeField (v : Nat) : Nat → List Nat
  | 0 => []
  | w + 1 => (v / 256 ^ w) % 256 :: writeField v w

def encodeEntry (w : Nat × Nat × Nat) : Entry → List Nat
  | .free a g => writeField 0 w.1 ++ writeField a w.2.1 ++ writeField g w.2.2
  | .inUse a g => writeField 1 w.1 ++ writeField a w.2.1 ++ writeField g w.2.2
  | .compressed a g => writeField 2 w.1 ++ writeField a w.2.1 ++ writeField g w.2.2

def encodeEntries (w : Nat × Nat × Nat) (es : List Entry) : List Nat := es.flatMap (encodeEntry w)

/-- the loop of `write_xref_stream` -/
def xrefStreamEntries (x : List (Nat × Nat)) (cmap : List (Nat × Nat × Nat)) (sid xrefPos : Nat) :
    List Entry :=
  .free 0 65535 :: (List.range' 1 (max (maxId x) sid)).map (fun n =>
    if n = sid then .inUse xrefPos 0
    else match cmap.find? (fun e => e.1 == n) with
      | some (_, stm, idx) => .compressed stm idx
      | none => match lookupOff x n with
        | some p => .inUse p 0
        | none => .free 0 0)

def arr3 (a b c : Nat) : List Nat := [91] ++ dec a ++ [32] ++ dec b ++ [32] ++ dec c ++ [93]
def arr2 (a b : Nat) : List Nat := [91] ++ dec a ++ [32] ++ dec b ++ [93]

/-- `create_dictionary(None)` + `/Length` (+ `/Filter` again when compressing): NOTE `/Filter` is
set unconditionally by `create_dictionary` (xref_stream_writer.rs:210) -/
def xrefStreamDict (n root info : Nat) (w : Nat × Nat × Nat) (len : Nat) : List DictE :=
  [(kType, kXRefName), (kSize, dec n), (kRoot, refBytes root), (kInfo, refBytes info),
   (kW, arr3 w.1 w.2.1 w.2.2), (kIndex, arr2 0 n), (kFilter, kFlate), (kLength, dec len)]

/-- the dictionary `PdfWriter::write_xref_stream` really emits: when not compressing, the
`/Filter` that `create_dictionary` set is removed again (`dict.remove("Filter")`, repair 67304722;
before it the dictionary was `xrefStreamDict` under both settings) -/
def xrefStreamDictCfg (compress : Bool) (n root info : Nat) (w : Nat × Nat × Nat) (len : Nat) : List DictE :=
  if compress then xrefStreamDict n root info w len
  else (xrefStreamDict n root info w len).filter (fun e => e.1 != kFilter)

/-- data of the cross-reference stream as written -/
def xrefStreamData (cfg : Cfg) (z : List Nat → List Nat) (es : List Entry) : List Nat :=
  if cfg.compress then z (encodeEntries (widths es) es) else encodeEntries (widths es) es

/-- everything `write_xref_stream` emits -/
def xrefStreamTail (cfg : Cfg) (z : List Nat → List Nat) (perm : List DictE → List DictE)
    (es : List Entry) (root info sid xrefPos : Nat) : List Nat :=
  let data := xrefStreamData cfg z es
  objHeader sid ++ emitDict (perm (xrefStreamDictCfg cfg.compress es.length root info (widths es) data.length)) ++ [10] ++
    kStream.drop 1 ++ data ++ kEndstream ++ [10] ++ kEndobjNl.drop 1 ++ kStartxref ++ dec xrefPos ++ kEof

/-! ## the whole file -/
structure Doc where
  version : List Nat
  objs : List Obj
  root : Nat := 1
  info : Nat := 3
  /-- `next_object_id` when the cross-reference section is written -/
  nextId : Nat
  deriving Repr

def headerBytes (version : List Nat) : List Nat := kPdf ++ version ++ [10] ++ kBinComment

/-- state just before the cross-reference section is written, and the compressed-object map -/
def bodyState (cfg : Cfg) (z : List Nat → List Nat) (d : Doc) : WState × List (Nat × Nat × Nat) :=
  let s := writeObjects cfg (writeBytes WState.init (headerBytes d.version)) d.objs
  if cfg.objStreams then flushObjectStreams z s else (s, [])

/-- `write_document` from `write_header` to the final flush -/
def layout (cfg : Cfg) (z : List Nat → List Nat) (perm : List DictE → List DictE) (d : Doc) : List Nat :=
  let (s, cmap) := bodyState cfg z d
  if cfg.xrefStreams then
    let es := xrefStreamEntries s.xref cmap d.nextId s.pos
    s.out ++ xrefStreamTail cfg z perm es d.root d.info d.nextId s.pos
  else
    let es := classicEntries s.xref
    s.out ++ classicXrefBytes es ++ trailerBytes (maxId s.xref + 1) d.root d.info s.pos

/-! ## sizes-only plan (what the correspondence driver evaluates; `Props/C03` proves it agrees
with the byte-level writer) -/
/-- bytes one immediately written object occupies: header, body, `\nendobj\n` -/
def objTotal (id bodyLen : Nat) : Nat := (dec id).length + 7 + bodyLen + 8

/-- offsets of immediately written objects `(id, bodyLen)` starting at `start` (write order) -/
def planOffsets (start : Nat) : List (Nat × Nat) → List (Nat × Nat)
  | [] => []
  | (id, len) :: r => (id, start) :: planOffsets (start + objTotal id len) r

def planEnd (start : Nat) : List (Nat × Nat) → Nat
  | [] => start
  | (id, len) :: r => planEnd (start + objTotal id len) r

/-- member offsets inside an object stream from the member lengths -/
def memberOffsets (cur : Nat) : List (Nat × Nat) → List (Nat × Nat)
  | [] => []
  | (id, len) :: r => (id, cur) :: memberOffsets (cur + len + 1) r

def indexLen : List (Nat × Nat) → Nat
  | [] => 0
  | (id, off) :: r => (dec id).length + 1 + (dec off).length + 1 + indexLen r

def classicXrefLen (n : Nat) : Nat := 5 + 2 + (dec n).length + 1 + 20 * n

end OxiVerif.C03
