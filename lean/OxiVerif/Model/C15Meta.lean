import OxiVerif.Model.C15
/-
C15 — the discrete part of `pipeline/chunk_metadata.rs` `ChunkMetadata::from_elements` that
`Model/C15.lean` does not carry: `content_type_flags`, `char_count` / `word_count` /
`sentence_count`, `Aggregates::from_elements` (dominant font by character weight, majority
bold / italic), the pages of `page_anchor`'s regions, and the length of `RagChunk::bounding_boxes`.
Not modelled: the float parts (`dominant_font_size` with its 0.1 pt merge, `min_confidence`,
the union boxes themselves), language detection, table dimensions (no tables are authored).
Import-free apart from the models.
-/
namespace OxiVerif.C15
open OxiVerif.C14

structure Flags where
  hasTable : Bool
  hasList : Bool
  hasCode : Bool
  headingOnly : Bool
  deriving DecidableEq, Repr

/-- `content_type_flags` -/
def contentTypeFlags (es : List Elem) : Flags :=
  let st := es.foldl (fun (a : Flags) e =>
    { hasTable := a.hasTable || e.kind == .table,
      hasList := a.hasList || e.kind == .listItem,
      hasCode := a.hasCode || e.kind == .codeBlock,
      headingOnly := a.headingOnly && e.kind == .title })
    ⟨false, false, false, !es.isEmpty⟩
  st

/-- `sentence_count` -/
def sentenceCount (text : Str) : Nat :=
  if (trim text).isEmpty then 0 else (splitIntoSentences text).length

/-- `font_weight`: first-occurrence order, weights accumulated -/
def addWeight (f : Str) (w : Nat) : List (Str × Nat) → List (Str × Nat)
  | [] => [(f, w)]
  | (n, c) :: r => if n = f then (n, c + w) :: r else (n, c) :: addWeight f w r

/-- `Iterator::max_by_key`: the LAST of several equally maximal entries -/
def maxByKeyLast : List (Str × Nat) → Option (Str × Nat)
  | [] => none
  | x :: r => some (r.foldl (fun best y => if y.2 ≥ best.2 then y else best) x)

structure Aggr where
  dominantFont : Option Str
  bold : Bool
  italic : Bool
  deriving DecidableEq, Repr

/-- `Aggregates::from_elements` (discrete part); the weight of an element is `text().chars().count()` -/
def aggregates (es : List Elem) : Aggr :=
  let total := (es.map fun e => e.text.length).foldl (· + ·) 0
  let boldChars := ((es.filter (·.md.bold)).map fun e => e.text.length).foldl (· + ·) 0
  let italicChars := ((es.filter (·.md.italic)).map fun e => e.text.length).foldl (· + ·) 0
  let fw := es.foldl (fun acc e =>
    match e.md.fontName with
    | some f => addWeight f e.text.length acc
    | none => acc) []
  { dominantFont := (maxByKeyLast fw).map (·.1),
    bold := decide (total > 0) && decide (boldChars * 2 > total),
    italic := decide (total > 0) && decide (italicChars * 2 > total) }

/-- pages of `page_anchor`'s regions: first occurrences, then a stable sort by page -/
def regionPages (es : List Elem) : List Nat := sortAsc (dedupFirst [] (es.map (·.md.page)))

structure ChunkMeta where
  flags : Flags
  charCount : Nat
  wordCount : Nat
  sentenceCount : Nat
  aggr : Aggr
  regionPages : List Nat
  nBoxes : Nat
  deriving DecidableEq, Repr

/-- the modelled extra fields of the `RagChunk` made from hybrid chunk `c` -/
def chunkMeta (c : Chunk) : ChunkMeta :=
  { flags := contentTypeFlags c.elements,
    charCount := c.text.length,
    wordCount := wordCount c.text,
    sentenceCount := sentenceCount c.text,
    aggr := aggregates c.elements,
    regionPages := regionPages c.elements,
    nBoxes := c.elements.length }

end OxiVerif.C15
