import OxiVerif.Model.C18
/-
C16 — model of the page operations.

Transcribed by hand from
  * oxidize-pdf-core/src/operations/mod.rs            `PageRange::{parse, get_indices}`
  * oxidize-pdf-core/src/operations/split.rs          `PdfSplitter::{split, extract_range}` (all `SplitMode`s)
  * oxidize-pdf-core/src/operations/merge.rs          `PdfMerger::merge`
  * oxidize-pdf-core/src/operations/page_extraction.rs `extract_page / extract_pages / extract_page_range`
  * oxidize-pdf-core/src/operations/reorder.rs        `reorder`, `reverse_pdf_pages`, `move_pdf_page`, `swap_pdf_pages`
  * oxidize-pdf-core/src/operations/rotate.rs         `RotationAngle::{from_degrees,to_degrees}`, `PageRotator::rotate`,
                                                      `create_rotated_page`, `create_page_copy`
  * oxidize-pdf-core/src/page.rs                      `Page::from_parsed_with_content` (geometry incl. the MediaBox
                                                      origin and the CropBox, rotation, content, resource
                                                      categories), `Page::set_rotation`, `Page::to_dict`
  * writer/pdf_writer/mod.rs `write_page`: /Font with the standard-14 fonts is always present, preserved
    resource categories are merged in.
Pages are records; a content stream is an opaque text (hex of its decoded bytes).
Import-free apart from the C18 model (source pages = the C18 model's flat index + attributes).
-/
namespace OxiVerif.C16
open OxiVerif.C18

/-- what the operations see of a source page: `ParsedPage` + its decoded content streams -/
structure Src where
  mediaBox : List Int            -- 4 numbers (×2)
  cropBox : Option (List Int)
  rotation : Int                 -- i32
  res : Option (List String)     -- resource categories
  streams : List String          -- decoded content streams, hex text
  deriving Repr, DecidableEq, Inhabited

/-- a page of an output document as any reader sees it -/
structure Out where
  mediaBox : List Int
  cropBox : Option (List Int)
  rotation : Int
  res : List String              -- sorted resource categories
  content : String               -- hex of the decoded content
  deriving Repr, DecidableEq, Inhabited

inductive Err where
  | oob | range | nopages | rotation | parse
  deriving Repr, DecidableEq, Inhabited

inductive Outcome (α : Type) where
  | ok (a : α) | err (e : Err) | panic
  deriving Repr, DecidableEq, Inhabited

def Outcome.bind {α β : Type} (x : Outcome α) (f : α → Outcome β) : Outcome β :=
  match x with
  | .ok a => f a
  | .err e => .err e
  | .panic => .panic

instance : Monad Outcome where
  pure := .ok
  bind := Outcome.bind

/-! ### `Page::from_parsed_with_content` + writer -/

def boxAt (b : List Int) (i : Nat) : Int := b.getD i 0

def insertSorted (s : String) : List String → List String
  | [] => [s]
  | a :: r => if s < a then s :: a :: r else if s = a then a :: r else a :: insertSorted s r

/-- sorted, duplicate-free -/
def sortKeys (ks : List String) : List String := ks.foldr insertSorted []

/-- every preserved stream followed by a newline -/
def joinStreams : List String → String
  | [] => ""
  | s :: r => s ++ "0a" ++ joinStreams r

/-- `Page::from_parsed_with_content` followed by `Document::save` BEFORE the repairs of C16-F1 /
C16-F2: only width and height of the MediaBox survived (`Page::new(width, height)`, `to_dict`
wrote `[0 0 width height]`) and no CropBox was written.  Kept for the regression witnesses. -/
def copyPageOld (s : Src) : Out :=
  { mediaBox := [0, 0, boxAt s.mediaBox 2 - boxAt s.mediaBox 0, boxAt s.mediaBox 3 - boxAt s.mediaBox 1],
    cropBox := none,
    rotation := s.rotation,
    res := sortKeys ("Font" :: (s.res.getD [])),
    content := joinStreams s.streams }

/-- `Page::from_parsed_with_content` followed by `Document::save`: page.rs keeps
`width = media_box[2] - media_box[0]`, `height = media_box[3] - media_box[1]` and the corner
`media_box_origin = (media_box[0], media_box[1])`; `to_dict` writes
`[ox oy ox+width oy+height]` and the source `/CropBox` (own or inherited) when there is one;
/Rotate is carried over verbatim, content streams are concatenated (each + `\n`), resource
categories are merged into the writer's own `/Font` dictionary. -/
def copyPage (s : Src) : Out :=
  let ox := boxAt s.mediaBox 0
  let oy := boxAt s.mediaBox 1
  let width := boxAt s.mediaBox 2 - boxAt s.mediaBox 0
  let height := boxAt s.mediaBox 3 - boxAt s.mediaBox 1
  { mediaBox := [ox, oy, ox + width, oy + height],
    cropBox := s.cropBox,
    rotation := s.rotation,
    res := sortKeys ("Font" :: (s.res.getD [])),
    content := joinStreams s.streams }

/-- reading a written page back (for operations applied to an operation's output) -/
def reread (o : Out) : Src :=
  { mediaBox := o.mediaBox, cropBox := o.cropBox, rotation := o.rotation, res := some o.res,
    streams := [o.content] }

/-! ### `PageRange` -/

inductive PageRange where
  | all | single (i : Nat) | range (a b : Nat) | list (l : List Nat)
  deriving Repr, DecidableEq, Inhabited

/-- `(a..=b).collect()` -/
def rangeIncl (a b : Nat) : List Nat := (List.range (b + 1 - a)).map (· + a)

def firstGe (l : List Nat) (n : Nat) : Option Nat := l.find? (fun i => n ≤ i)

def getIndices (r : PageRange) (total : Nat) : Outcome (List Nat) :=
  match r with
  | .all => .ok (List.range total)
  | .single i => if total ≤ i then .err .oob else .ok [i]
  | .range a b => if total ≤ a then .err .oob else if total ≤ b then .err .oob else .ok (rangeIncl a b)
  | .list l => match firstGe l total with
    | some _ => .err .oob
    | none => .ok l

/-! #### `PageRange::parse` (over the characters digits, `+`, `-`, `,`, blank, letters) -/

def trimBlanks (cs : List Char) : List Char :=
  ((cs.dropWhile (· == ' ')).reverse.dropWhile (· == ' ')).reverse

def lowerAscii (c : Char) : Char := if 'A' ≤ c ∧ c ≤ 'Z' then Char.ofNat (c.toNat + 32) else c

/-- `str::parse::<usize>()`: optional `+`, then at least one ASCII digit -/
def parseUsize (cs : List Char) : Option Nat :=
  let ds := match cs with
    | '+' :: r => r
    | r => r
  if ds.isEmpty || !(ds.all Char.isDigit) then none
  else some (ds.foldl (fun acc c => acc * 10 + (c.toNat - 48)) 0)

def splitOnce (c : Char) (cs : List Char) : Option (List Char × List Char) :=
  if cs.contains c then some (cs.takeWhile (· != c), (cs.dropWhile (· != c)).drop 1) else none

def splitAllAux (c : Char) : Nat → List Char → List (List Char)
  | 0, cs => [cs]
  | fuel + 1, cs => match splitOnce c cs with
    | none => [cs]
    | some (a, b) => a :: splitAllAux c fuel b

/-- `str::split(c)` -/
def splitAll (c : Char) (cs : List Char) : List (List Char) := splitAllAux c cs.length cs

def parseList1 : List (List Char) → Option (List Nat)
  | [] => some []
  | p :: r => match parseUsize (trimBlanks p) with
    | none => none
    | some 0 => none
    | some (n + 1) => (parseList1 r).map (n :: ·)

def parseRange (text : String) : Option PageRange :=
  let s := trimBlanks text.toList
  if s.map lowerAscii = ['a', 'l', 'l'] then some .all
  else match parseUsize s with
    | some 0 => none
    | some (n + 1) => some (.single n)
    | none =>
      match splitOnce '-' s with
      | some (a, b) =>
        match parseUsize (trimBlanks a), parseUsize (trimBlanks b) with
        | some x, some y => if x = 0 ∨ y = 0 then none else if x > y then none else some (.range (x - 1) (y - 1))
        | _, _ => none
      | none =>
        if s.contains ',' then (parseList1 (splitAll ',' s)).map .list else none

/-! ### rotation -/

def I32_MAX : Int := 2147483647
def I32_MIN : Int := -2147483648

/-- `RotationAngle::from_degrees(d).map(to_degrees)` -/
def fromDegrees (d : Int) : Option Int :=
  let n := Int.tmod d 360
  let n := if n < 0 then n + 360 else n
  if n = 0 ∨ n = 90 ∨ n = 180 ∨ n = 270 then some n else none

/-- `Page::set_rotation` applied to a value already reduced by `rem_euclid(360)` -/
def snap (n : Int) : Int :=
  if n ≤ 44 then 0 else if n ≤ 134 then 90 else if n ≤ 224 then 180 else if n ≤ 315 then 270 else 0

/-- `create_rotated_page` BEFORE the repair of C16-F3: i32 addition (panics on overflow in a debug
build), `rem_euclid(360)`, `set_rotation`; kept for the regression witness -/
def rotated (r angle : Int) : Outcome Int :=
  let s := r + angle
  if s > I32_MAX ∨ s < I32_MIN then .panic else .ok (snap (s % 360))

/-- the overflow-free composition `(rotation.rem_euclid(360) + angle).rem_euclid(360)` followed by
`set_rotation` — `create_rotated_page` since the repair of C16-F3 (see
`C16_rotatedRepaired_agrees`: identical to `rotated` wherever that does not panic) -/
def rotatedRepaired (r angle : Int) : Outcome Int := .ok (snap ((r % 360 + angle) % 360))

/-! ### the operations on page lists -/

def pick (ps : List Src) (idx : List Nat) : List Out := idx.filterMap fun i => (ps[i]?).map copyPage

inductive SplitMode where
  | single | chunk (n : Nat) | at (pts : List Nat) | ranges (rs : List PageRange)
  deriving Repr, Inhabited

/-- the `while start < total_pages` loop of `SplitMode::ChunkSize` (size > 0) -/
def chunkRanges (size total : Nat) : Nat → Nat → List PageRange
  | 0, _ => []
  | fuel + 1, start =>
    if start < total then .range start (min (start + size - 1) (total - 1)) :: chunkRanges size total fuel (start + size)
    else []

/-- the `for &split_point in split_points` loop of `SplitMode::SplitAt` -/
def splitAtRanges (total : Nat) : List Nat → Nat → List PageRange
  | [], start => if start < total then [.range start (total - 1)] else []
  | p :: r, start =>
    if 0 < p ∧ p < total then .range start (p - 1) :: splitAtRanges total r p
    else splitAtRanges total r start

def splitRanges (m : SplitMode) (total : Nat) : Outcome (List PageRange) :=
  match m with
  | .single => .ok ((List.range total).map .single)
  | .chunk 0 => .panic          -- `start + size - 1` underflows (usize, debug build)
  | .chunk n => .ok (chunkRanges n total total 0)
  | .at pts => .ok (splitAtRanges total pts 0)
  | .ranges rs => .ok rs

/-- `extract_range` -/
def extractRange (ps : List Src) (r : PageRange) : Outcome (List Out) :=
  match getIndices r ps.length with
  | .ok idx => if idx.isEmpty then .err .nopages else .ok (pick ps idx)
  | .err e => .err e
  | .panic => .panic

def mapM' {α β : Type} (f : α → Outcome β) : List α → Outcome (List β)
  | [] => .ok []
  | a :: r => match f a with
    | .ok b => match mapM' f r with
      | .ok bs => .ok (b :: bs)
      | .err e => .err e
      | .panic => .panic
    | .err e => .err e
    | .panic => .panic

/-- `PdfSplitter::split`: one output document per range -/
def split (ps : List Src) (m : SplitMode) : Outcome (List (List Out)) :=
  if ps.length = 0 then .err .nopages else
  match splitRanges m ps.length with
  | .ok rs => mapM' (extractRange ps) rs
  | .err e => .err e
  | .panic => .panic

/-- one merge input: the pages of `ps` selected by `r` (`None` = all) -/
def mergeInput (ps : List Src) (r : PageRange) : Outcome (List Out) :=
  match getIndices r ps.length with
  | .ok idx => .ok (pick ps idx)
  | .err e => .err e
  | .panic => .panic

/-- `PdfMerger::merge` over inputs `(document pages, range)` -/
def merge (inputs : List (List Src × PageRange)) : Outcome (List Out) :=
  if inputs.isEmpty then .err .nopages else
  match mapM' (fun i => mergeInput i.1 i.2) inputs with
  | .ok docs => .ok docs.flatten
  | .err e => .err e
  | .panic => .panic

def extractPage (ps : List Src) (i : Nat) : Outcome (List Out) :=
  if ps.length ≤ i then .err .oob else .ok (pick ps [i])

def extractPages (ps : List Src) (l : List Nat) : Outcome (List Out) :=
  match firstGe l ps.length with
  | some _ => .err .oob
  | none => if l.isEmpty then .err .nopages else .ok (pick ps l)

def extractPageRange (ps : List Src) (r : PageRange) : Outcome (List Out) :=
  match getIndices r ps.length with
  | .ok idx => extractPages ps idx
  | .err e => .err e
  | .panic => .panic

def reorder (ps : List Src) (order : List Nat) : Outcome (List Out) :=
  if ps.length = 0 then .err .nopages
  else if order.isEmpty then .err .range
  else match firstGe order ps.length with
    | some _ => .err .range
    | none => .ok (pick ps order)

def reverse (ps : List Src) : Outcome (List Out) := reorder ps (List.range ps.length).reverse

/-- `Vec::swap` on `0..n` -/
def swapOrder (n a b : Nat) : List Nat :=
  (List.range n).map fun i => if i = a then b else if i = b then a else i

def swap (ps : List Src) (a b : Nat) : Outcome (List Out) :=
  if ps.length ≤ a ∨ ps.length ≤ b then .err .range else reorder ps (swapOrder ps.length a b)

/-- `Vec::remove(from)` then `Vec::insert(to, ·)` on `0..n` -/
def moveOrder (n a b : Nat) : List Nat :=
  let l := (List.range n).eraseIdx a
  l.take b ++ [a] ++ l.drop b

def move (ps : List Src) (a b : Nat) : Outcome (List Out) :=
  if ps.length ≤ a ∨ ps.length ≤ b then .err .range else reorder ps (moveOrder ps.length a b)

/-- `PageRotator::rotate` (angle already a `RotationAngle`, in degrees) -/
def rotatePages (ps : List Src) (idx : List Nat) (angle : Int) : Nat → List Src → Outcome (List Out)
  | _, [] => .ok []
  | i, p :: rest =>
    let here : Outcome Out :=
      if idx.contains i then
        match rotatedRepaired p.rotation angle with
        | .ok r => .ok { copyPage p with rotation := r }
        | .err e => .err e
        | .panic => .panic
      else .ok (copyPage p)
    match here with
    | .ok o => match rotatePages ps idx angle (i + 1) rest with
      | .ok os => .ok (o :: os)
      | .err e => .err e
      | .panic => .panic
    | .err e => .err e
    | .panic => .panic

def rotate (ps : List Src) (r : PageRange) (angle : Int) : Outcome (List Out) :=
  match getIndices r ps.length with
  | .ok idx => rotatePages ps idx angle 0 ps
  | .err e => .err e
  | .panic => .panic

/-! ### source pages from the object graph (C18 model) -/

def streamsOf (g : Graph) (d : Dict) : Option (List String) :=
  match d.contentsRef with
  | none => if d.contents then none else some []
  | some n => match g.get n with
    | .stream h => some [h]
    | .arr es => some (es.filterMap fun e => match e with
        | .ref m => match g.get m with
          | .stream h => some h
          | _ => none
        | .junk => none)
    | .raw (.nums _) => some []
    | _ => none

def srcPages (g : Graph) (root : Dict) : Option (List Src) :=
  match flatten g root with
  | none => none
  | some flat => flat.mapM fun id =>
      match (g.get id).asDict, loadPage g id with
      | some d, .ok p => (streamsOf g d).map fun ss =>
          { mediaBox := p.mediaBox, cropBox := p.cropBox, rotation := p.rotation, res := p.resources, streams := ss }
      | _, _ => none

end OxiVerif.C16
