import OxiVerif.Model.C14
/-
C15 — model of the document-to-chunks pipeline on top of C14's chunker:
  * `pipeline/partition.rs` `Partitioner::assign_heading_paths` — the (level, text) stack walk
    (`assignHeadingPaths`); the level of a title is a PARAMETER of the theorems (`levelOf`),
    the driver computes it from the reported font sizes with `levelsOfSizes` (the 5 % bucket ranking,
    in exact integer arithmetic on 1/100 pt).  The code runs this pass once PER PAGE (it is the last
    step of `partition_fragments_with_graphics_raw`, which `do_partition_pages` calls per page;
    `assignPerPage`) and then once more over the whole document (`partitionHeadings`; the repair of
    C15-F1 — the per-page result is overwritten).
  * `pipeline/rag.rs` `collect_pages`, `render_page`, `build_context_prefix`,
    `RagChunk::from_hybrid_chunk_inner`
  * `pipeline/chunk_metadata.rs` `content_chunk_id` (SHA-256 is a parameter `H`), `link_chunks`,
    `page_anchor` (page span only), `ChunkMetadata::from_elements` (heading_path only)
  * `parser/document.rs` `build_rag_chunks`, `rag_chunks_with`, `rag_chunks_with_source_and_config`
    (after `autofill_source`)
Not modelled: the fragments → elements classifier (font-size heuristics, table detection, floats),
bounding boxes, font aggregates, counts, language.  Import-free apart from C14's model.
-/
namespace OxiVerif.C15
open OxiVerif.C14

/-! ### `assign_heading_paths` -/

abbrev Stack := List (Nat × Str)

/-- a title of level `lvl` arrives: `stack.retain(|(l, _)| *l < level); stack.push(..)` -/
def pushTitle (stack : Stack) (lvl : Nat) (text : Str) : Stack :=
  stack.filter (fun p => p.1 < lvl) ++ [(lvl, text)]

def setPath (e : Elem) (stack : Stack) : Elem :=
  let path := stack.map (·.2)
  { e with md := { e.md with parentHeading := path.getLast?, headingPath := path } }

/-- the walk; `levelOf` gives the level of a title element -/
def assignFrom (levelOf : Elem → Nat) : Stack → List Elem → List Elem
  | _, [] => []
  | stack, e :: rest =>
    let stack := if e.isTitle then pushTitle stack (levelOf e) e.text else stack
    setPath e stack :: assignFrom levelOf stack rest

def assignHeadingPaths (levelOf : Elem → Nat) (els : List Elem) : List Elem :=
  assignFrom levelOf [] els

/-- rank distinct title sizes (1/100 pt, > 0) descending, merging sizes within 5 % of a bucket -/
def insertDesc (s : Nat) : List Nat → List Nat
  | [] => [s]
  | x :: r => if s ≥ x then s :: x :: r else x :: insertDesc s r

def absDiff (a b : Nat) : Nat := if a ≥ b then a - b else b - a

def buckets (sizes : List Nat) : List Nat :=
  let sorted := sizes.foldl (fun acc s => insertDesc s acc) []
  sorted.foldl (fun bs s => if bs.any (fun b => 20 * absDiff b s ≤ b) then bs else bs ++ [s]) []

/-- `level_of`; `none` = unknown / non-positive size -/
def levelOfSize (bs : List Nat) : Option Nat → Nat
  | some s =>
    match (List.range bs.length).find? (fun i => 20 * absDiff s (bs.getD i 0) ≤ bs.getD i 0) with
    | some i => i + 1
    | none => max bs.length 1
  | none => bs.length + 1

/-! ### `collect_pages`, page span -/

def insertAsc (p : Nat) : List Nat → List Nat
  | [] => [p]
  | x :: r => if p ≤ x then p :: x :: r else x :: insertAsc p r

def sortAsc (l : List Nat) : List Nat := l.foldr insertAsc []

/-- first occurrences, in order (`HashSet::insert` returning `true`) -/
def dedupFirst : List Nat → List Nat → List Nat
  | _, [] => []
  | seen, p :: r => if seen.contains p then dedupFirst seen r else p :: dedupFirst (p :: seen) r

/-- `collect_pages` -/
def collectPages (es : List Elem) : List Nat :=
  match es with
  | [] => []
  | f :: _ =>
    if es.all (fun e => e.md.page == f.md.page) then [f.md.page]
    else sortAsc (dedupFirst [] (es.map (·.md.page)))

/-! ### context prefix -/

inductive CtxMode where
  | none | heading | labeled | prose
  deriving DecidableEq, Repr

structure Source where
  title : Option Str
  author : Option Str
  filename : Option Str
  docHash : Option Str
  deriving Repr

def natStr (n : Nat) : Str := (toString n).toList

/-- `render_page` -/
def renderPage (span : Nat × Nat) : Str :=
  if span.1 = span.2 then "p. ".toList ++ natStr span.1
  else "p. ".toList ++ natStr span.1 ++ [Char.ofNat 0x2013] ++ natStr span.2

def orElse (a b : Option Str) : Option Str := match a with | some x => some x | none => b

/-- `build_context_prefix` (`labeled = true`: `ContextFormat::Labeled`, else `Prose`) -/
def buildContextPrefix (labeled : Bool) (source : Option Source) (headingPath : List Str)
    (pageSpan : Option (Nat × Nat)) : Option Str :=
  let docName : Option Str := source.bind fun s => orElse s.title s.filename
  let author : Option Str := source.bind (·.author)
  let sect : Option Str :=
    if headingPath.isEmpty then none else some (joinWith [' ', Char.ofNat 0x203A, ' '] headingPath)
  let page : Option Str := pageSpan.map renderPage
  if docName.isNone && sect.isNone then none
  else if labeled then
    let l1 : List Str := match docName with
      | some name => [match author with
          | some a => "Document: ".toList ++ name ++ [' ', Char.ofNat 0x2014, ' '] ++ a
          | none => "Document: ".toList ++ name]
      | none => []
    let l2 : List Str := match sect with
      | some sec => ["Section: ".toList ++ sec]
      | none => []
    let lines := l1 ++ l2
    let lines := match page, lines.getLast? with
      | some pg, some last => lines.dropLast ++ [last ++ " (".toList ++ pg ++ [')']]
      | _, _ => lines
    some (joinWith ['\n'] lines)
  else
    let s : Str := "This chunk is from ".toList
    let s := match docName with
      | some name =>
        let s := s ++ ['"'] ++ name ++ ['"']
        let s := match author with | some a => s ++ " by ".toList ++ a | none => s
        match sect with
        | some sec => s ++ ", section \"".toList ++ sec ++ ['"']
        | none => s
      | none =>
        match sect with
        | some sec => s ++ "section \"".toList ++ sec ++ ['"']
        | none => s
    let s := match page with | some pg => s ++ " (".toList ++ pg ++ [')'] | none => s
    some (s ++ ['.'])

/-! ### `RagChunk` -/

structure RagChunk where
  index : Nat
  text : Str
  fullText : Str
  pages : List Nat
  types : List Kind
  heading : Option Str
  tokenEstimate : Nat
  oversized : Bool
  headingPath : List Str
  chunkId : Str
  prev : Option Str
  next : Option Str
  pageSpan : Option (Nat × Nat)
  deriving Repr

/-- `content_chunk_id`; `H` = hex of the first 8 bytes of SHA-256 -/
def contentChunkId (H : Str → Str) (docHash : Option Str) (index : Nat) (fullText : Str) : Str :=
  (match docHash with | some h => h | none => H fullText) ++ [':'] ++ natStr index

/-- `RagChunk::from_hybrid_chunk_inner` -/
def fromHybrid (H : Str → Str) (mode : CtxMode) (source : Option Source) (index : Nat) (c : Chunk) :
    RagChunk :=
  let pages := collectPages c.elements
  let text := c.text
  let headingPath := match c.elements with | e :: _ => e.md.headingPath | [] => []
  let fullText := match mode with
    | .none => text
    | .heading => c.fullText
    | m =>
      let span := match pages with
        | [] => none
        | p :: _ => some (p, pages.getLast?.getD p)
      match buildContextPrefix (m == .labeled) source headingPath span with
      | some pre => pre ++ ['\n', '\n'] ++ text
      | none => text
  let sorted := sortAsc (dedupFirst [] (c.elements.map (·.md.page)))
  { index := index, text := text, fullText := fullText, pages := pages,
    types := c.elements.map (·.kind), heading := c.heading, tokenEstimate := c.tokenEstimate,
    oversized := c.oversized, headingPath := headingPath,
    chunkId := contentChunkId H (source.bind (·.docHash)) index fullText,
    prev := none, next := none,
    pageSpan := match sorted with | [] => none | p :: _ => some (p, sorted.getLast?.getD p) }

def mapIdxFrom (f : Nat → Chunk → RagChunk) : Nat → List Chunk → List RagChunk
  | _, [] => []
  | i, c :: r => f i c :: mapIdxFrom f (i + 1) r

/-- `link_chunks`: `prevId` = id of the chunk before the head of the list -/
def linkFrom : Option Str → List RagChunk → List RagChunk
  | _, [] => []
  | prevId, c :: r =>
    { c with prev := prevId, next := (r.head?).map (·.chunkId) } :: linkFrom (some c.chunkId) r

def linkChunks (cs : List RagChunk) : List RagChunk := linkFrom none cs

/-- `build_rag_chunks` after `HybridChunker::chunk` -/
def ragChunks (H : Str → Str) (cfg : Config) (cnt : Counter) (mode : CtxMode) (source : Option Source)
    (els : List Elem) : List RagChunk :=
  linkChunks (mapIdxFrom (fromHybrid H mode source) 0 (chunk cfg cnt els))

/-- the heading pass as the code runs it: once per page (elements arrive page by page) -/
def splitPages : List Elem → List (List Elem)
  | [] => []
  | e :: rest =>
    match splitPages rest with
    | (f :: g) :: more => if f.md.page = e.md.page then (e :: f :: g) :: more else [e] :: (f :: g) :: more
    | other => [e] :: other

/-- the heading pass of `partition_fragments_with_graphics_raw`: it runs separately on the elements
    of every page (`do_partition_pages` calls that function per page), with a fresh stack and a
    ranking of the title sizes OF THAT PAGE (`levelOfPage`).  Before the repair of C15-F1 this was
    the final word. -/
def assignPerPage (levelOf : Elem → Nat) (els : List Elem) : List Elem :=
  (splitPages els).flatMap (assignHeadingPaths levelOf)

/-- `do_partition_pages`: the per-page passes, then ONE `assign_heading_paths` over the
    concatenation of all pages (stack and size ranking `levelOfDoc` of the whole document) -/
def partitionHeadings (levelOfPage levelOfDoc : Elem → Nat) (els : List Elem) : List Elem :=
  assignHeadingPaths levelOfDoc (assignPerPage levelOfPage els)

/-- what the heading pass overwrites -/
def erasePath (e : Elem) : Elem :=
  { e with md := { e.md with parentHeading := none, headingPath := [] } }

end OxiVerif.C15
