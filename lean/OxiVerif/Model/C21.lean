import OxiVerif.Spec.Syntax
import OxiVerif.Model.C21Parse
/-!
# Model.C21 — the content-stream emitter (`graphics/ops.rs`, `graphics/color.rs`,
`graphics/mod.rs`, `text/mod.rs`, `text/encoding.rs`, `page.rs`), transcribed by hand

Three layers, each mirroring the Rust code:

1. **exact float arithmetic** (`Flt`): IEEE-754 binary64/binary32 values as sign · m · 2^e with
   unbounded `Nat`/`Int`, correct rounding to nearest-even (`roundTo`), the few operations the
   emitter performs on its arguments (`finite_or_zero`, `f64::max`, `f64::clamp`, `scale * 100.0`,
   `f32` negation/addition in `show_cid_array`, `as f64`), Rust's `{:.N}` fixed formatting
   (`fmtFixed`: exact decimal expansion, round-half-even — std, trusted, validated byte-for-byte by
   the correspondence run) and `str::parse::<f32>` / `i32 as f32` (`decToF32`, `intToF32`: correct
   rounding — std, trusted).  `{}` (`Display`, shortest round-trip digits) is NOT modelled: the
   text travels with the request as a parameter and is validated (`dispOk`).
2. **`Op` and `serialize_ops`**: every operator as a list of `Piece`s (one per format-string
   fragment), `bytesOf` renders a piece.  Payloads that the Rust code pre-formats before building
   the `Op` (escaped show-text bytes, hex digits, the dash string, the `Raw` strings of
   `clip_rect` and of the marked-content operators) are kept structured and rendered here — the
   composition is the same function.
3. **the API layer**: `Page::graphics()/text()` flushing, the `GraphicsContext` state (colours
   applied at paint time, pending ExtGState, `GS{n}` naming, the save/restore stack, active font),
   the `TextContext` state, marked-content ids.
-/
namespace OxiVerif.C21
open OxiVerif.Spec.Syntax (isDigit allDigits digitsVal)

/-! ## 1. exact floats -/

inductive Flt where
  /-- (−1)^neg · m · 2^e -/
  | fin (neg : Bool) (m : Nat) (e : Int)
  | inf (neg : Bool)
  | nan
  deriving Repr, DecidableEq, Inhabited

def Flt.zero : Flt := .fin false 0 0

def ofF64Bits (b : Nat) : Flt :=
  let neg := b / 2 ^ 63 % 2 == 1
  let ex := b / 2 ^ 52 % 2048
  let fr := b % 2 ^ 52
  if ex == 2047 then (if fr == 0 then .inf neg else .nan)
  else if ex == 0 then .fin neg fr (-1074)
  else .fin neg (2 ^ 52 + fr) (Int.ofNat ex - 1075)

def ofF32Bits (b : Nat) : Flt :=
  let neg := b / 2 ^ 31 % 2 == 1
  let ex := b / 2 ^ 23 % 256
  let fr := b % 2 ^ 23
  if ex == 255 then (if fr == 0 then .inf neg else .nan)
  else if ex == 0 then .fin neg fr (-149)
  else .fin neg (2 ^ 23 + fr) (Int.ofNat ex - 150)

/-- m · 2^e as a fraction -/
def ratOf (m : Nat) (e : Int) : Nat × Nat :=
  match e with
  | .ofNat k => (m * 2 ^ k, 1)
  | .negSucc k => (m, 2 ^ (k + 1))

/-- round-half-even of a / b -/
def rhe (a b : Nat) : Nat :=
  let q := a / b
  let r := a % b
  if 2 * r < b then q else if 2 * r > b then q + 1 else if q % 2 == 0 then q else q + 1

/-- ⌊log2 (num/den)⌋ for num, den > 0 -/
def log2Floor (num den : Nat) : Int :=
  let g : Int := Int.ofNat (Nat.log2 num) - Int.ofNat (Nat.log2 den)
  let le (k : Int) : Bool :=
    match k with
    | .ofNat n => den * 2 ^ n ≤ num
    | .negSucc n => den ≤ num * 2 ^ (n + 1)
  if le (g + 1) then g + 1 else if le g then g else g - 1

/-- round-half-even of (num/den) / 2^ex -/
def scaleDiv (num den : Nat) (ex : Int) : Nat :=
  match ex with
  | .ofNat n => rhe num (den * 2 ^ n)
  | .negSucc n => rhe (num * 2 ^ (n + 1)) den

/-- nearest `q · 2^ex` with `q < 2^p`, `ex ≥ emin` (num > 0) -/
def roundPos (p : Nat) (emin : Int) (num den : Nat) : Nat × Int :=
  let e0 := log2Floor num den
  let ex := max (e0 - (Int.ofNat p - 1)) emin
  let q := scaleDiv num den ex
  if q == 2 ^ p then (2 ^ (p - 1), ex + 1) else (q, ex)

/-- bit pattern of (−1)^neg · q · 2^ex in a format with `p` significant bits and `ebits` exponent
    bits (overflow → infinity) -/
def encodeBits (p ebits : Nat) (neg : Bool) (q : Nat) (ex : Int) : Nat :=
  let fb := p - 1
  let bias : Int := 2 ^ (ebits - 1) - 1
  let signBit := if neg then 2 ^ (fb + ebits) else 0
  if q < 2 ^ fb then signBit + q
  else
    let E : Int := ex + Int.ofNat fb + bias
    if E ≥ 2 ^ ebits - 1 then signBit + (2 ^ ebits - 1) * 2 ^ fb
    else signBit + E.toNat * 2 ^ fb + (q - 2 ^ fb)

/-- the nearest binary32 to ± num/den: `str::parse::<f32>` on a decimal, `i32 as f32` -/
def ratToF32 (neg : Bool) (num den : Nat) : Nat :=
  if num == 0 then (if neg then 2 ^ 31 else 0)
  else
    let r := roundPos 24 (-149) num den
    encodeBits 24 8 neg r.1 r.2

/-- round a finite dyadic to a format (p, ebits); the result as a `Flt` -/
def roundTo (p ebits : Nat) (emin : Int) (x : Flt) : Flt :=
  match x with
  | .fin neg m e =>
    if m == 0 then .fin neg 0 0
    else
      let nd := ratOf m e
      let r := roundPos p emin nd.1 nd.2
      let bias : Int := 2 ^ (ebits - 1) - 1
      if r.1 ≥ 2 ^ (p - 1) && r.2 + Int.ofNat (p - 1) + bias ≥ 2 ^ ebits - 1 then .inf neg
      else .fin neg r.1 r.2
  | y => y

def roundF64 (x : Flt) : Flt := roundTo 53 11 (-1074) x
def roundF32 (x : Flt) : Flt := roundTo 24 8 (-149) x

def Flt.isFinite : Flt → Bool
  | .fin _ _ _ => true
  | _ => false

/-- `finite_or_zero` -/
def finiteOrZero (x : Flt) : Flt := if x.isFinite then x else Flt.zero

/-- the signed numerator of `fin` values brought to a common exponent -/
def alignInt (neg : Bool) (m : Nat) (e emin : Int) : Int :=
  let v : Int := Int.ofNat (m * 2 ^ (e - emin).toNat)
  if neg then -v else v

/-- `a < b` (IEEE: false when either is NaN; −0 = +0) -/
def ltF (a b : Flt) : Bool :=
  match a, b with
  | .nan, _ => false
  | _, .nan => false
  | .inf n1, .inf n2 => n1 && !n2
  | .inf n1, .fin _ _ _ => n1
  | .fin _ _ _, .inf n2 => !n2
  | .fin n1 m1 e1, .fin n2 m2 e2 =>
    let e := min e1 e2
    alignInt n1 m1 e1 e < alignInt n2 m2 e2 e

def one : Flt := .fin false 1 0
def hundred : Flt := .fin false 100 0

/-- `f64::max(self, other)` with `other` finite non-NaN: NaN → other -/
def maxF (x o : Flt) : Flt :=
  match x with
  | .nan => o
  | _ => if ltF x o then o else x

/-- `f64::clamp(self, lo, hi)` -/
def clampF (x lo hi : Flt) : Flt :=
  if ltF x lo then lo else if ltF hi x then hi else x

/-- `x * 100.0` in binary64 -/
def mul100 (x : Flt) : Flt :=
  match x with
  | .fin neg m e => roundF64 (.fin neg (m * 100) e)
  | y => y

def negF : Flt → Flt
  | .fin n m e => .fin (!n) m e
  | .inf n => .inf (!n)
  | .nan => .nan

/-- `a + b` in binary32 -/
def addF32 (a b : Flt) : Flt :=
  match a, b with
  | .nan, _ => .nan
  | _, .nan => .nan
  | .inf n1, .inf n2 => if n1 == n2 then .inf n1 else .nan
  | .inf n1, _ => .inf n1
  | _, .inf n2 => .inf n2
  | .fin n1 m1 e1, .fin n2 m2 e2 =>
    let e := min e1 e2
    let s := alignInt n1 m1 e1 e + alignInt n2 m2 e2 e
    if s == 0 then .fin (n1 && n2) 0 0
    else roundF32 (.fin (decide (s < 0)) s.natAbs e)

/-- `x != 0.0` -/
def neZero : Flt → Bool
  | .fin _ m _ => m != 0
  | _ => true

/-! ### `{:.N}` -/

def padLeft (n : Nat) (ds : List Nat) : List Nat := List.replicate (n - ds.length) 48 ++ ds

/-- Rust `format!("{:.prec$}", x)` for finite `x` (prec ≥ 1) -/
def fmtFixedFin (prec : Nat) (neg : Bool) (m : Nat) (e : Int) : List Nat :=
  let nd := ratOf m e
  let s := rhe (nd.1 * 10 ^ prec) nd.2
  (if neg then [45] else []) ++ showNat (s / 10 ^ prec) ++ 46 :: padLeft prec (showNat (s % 10 ^ prec))

/-- `format!("{:.prec$}", finite_or_zero(x))` -/
def fmtFixed (prec : Nat) (x : Flt) : List Nat :=
  match finiteOrZero x with
  | .fin n m e => fmtFixedFin prec n m e
  | _ => [48]

/-- `format!("{:.3}", x)` WITHOUT sanitising (`ClippingPath::to_pdf_operations`) -/
def fmtFixedRaw (prec : Nat) (x : Flt) : List Nat :=
  match x with
  | .fin n m e => fmtFixedFin prec n m e
  | .inf false => [105, 110, 102]
  | .inf true => [45, 105, 110, 102]
  | .nan => [78, 97, 78]

/-! ### decimal token → binary32 (`str::parse::<f32>`), `i32 as f32` -/

def splitDot : List Nat → List Nat × List Nat
  | [] => ([], [])
  | 46 :: r => ([], r)
  | b :: r => let t := splitDot r; (b :: t.1, t.2)

def decToF32 (tok : List Nat) : Nat :=
  let s := splitSign tok
  let d := splitDot s.2
  ratToF32 s.1 (digitsVal (d.1 ++ d.2) 0) (10 ^ d.2.length)

def intToF32 (i : Int) : Nat := ratToF32 (decide (i < 0)) i.natAbs 1

/-- the binary64 nearest to a plain decimal token, as a `Flt` (used to validate `Display` text) -/
def decToF64 (tok : List Nat) : Flt :=
  let s := splitSign tok
  let d := splitDot s.2
  let num := digitsVal (d.1 ++ d.2) 0
  if num == 0 then .fin s.1 0 0
  else
    let r := roundPos 53 (-1074) num (10 ^ d.2.length)
    if r.1 ≥ 2 ^ 52 && r.2 + 52 + 1023 ≥ 2047 then .inf s.1 else .fin s.1 r.1 r.2

/-- same value (sign included) -/
def sameF (a b : Flt) : Bool :=
  match a, b with
  | .fin n1 m1 e1, .fin n2 m2 e2 =>
    n1 == n2 && (let e := min e1 e2; alignInt false m1 e1 e == alignInt false m2 e2 e)
  | .inf a, .inf b => a == b
  | .nan, .nan => true
  | _, _ => false

/-- a plain decimal token: optional `-`, digits, optionally `.` digits -/
def isPlainDec (t : List Nat) : Bool :=
  let s := match t with
    | 45 :: r => r
    | l => l
  if s.contains 46 then
    let d := splitDot s
    !d.1.isEmpty && allDigits d.1 && !d.2.isEmpty && allDigits d.2
  else !s.isEmpty && allDigits s

/-- the `Display` text supplied with the request is acceptable for the finite value `x` -/
def dispOk (x : Flt) (t : List Nat) : Bool := isPlainDec t && sameF (decToF64 t) x

/-! ## 2. `Op` and `serialize_ops` -/

inductive Color where
  | rgb (r g b : Flt)
  | gray (y : Flt)
  | cmyk (c m y k : Flt)
  deriving Repr, DecidableEq, Inhabited

/-- which escaper produced the bytes between the parentheses -/
inductive Esc where
  /-- `text/encoding.rs escape_show_text_literal_bytes` (TextContext::write, builtin fonts) -/
  | lit
  /-- `GraphicsContext::show_text`: six named escapes, everything else raw -/
  | gfxShow
  /-- `GraphicsContext::draw_with_simple_encoding`: six named escapes, `\ooo` for 128..255 -/
  | gfxDraw
  deriving Repr, DecidableEq, Inhabited

inductive TAElem where
  /-- `<HEX>`: the bytes that are written as uppercase hex digits -/
  | glyphs (bs : List Nat)
  /-- the `f32` adjustment (`value as f64`) -/
  | adjust (v : Flt)
  deriving Repr, DecidableEq, Inhabited

inductive Op where
  | moveTo (x y : Flt)
  | lineTo (x y : Flt)
  | curveTo (x1 y1 x2 y2 x3 y3 : Flt)
  | rect (x y w h : Flt)
  | closePath
  | stroke
  | fillNonZero
  | fillStroke
  | setFillColor (c : Color)
  | setStrokeColor (c : Color)
  | setFillColorSpace (name : List Nat)
  | setStrokeColorSpace (name : List Nat)
  | setFillColorComponents (vs : List Flt)
  | setStrokeColorComponents (vs : List Flt)
  | setLineWidth (w : Flt)
  | setLineCap (n : Nat)
  | setLineJoin (n : Nat)
  | setMiterLimit (l : Flt)
  /-- `SetDashPatternRaw(LineDashPattern::to_pdf_string())` -/
  | setDash (arr : List Flt) (phase : Flt)
  | setFlatness (v : Flt)
  | setExtGState (name : List Nat)
  | setRenderingIntent (name : List Nat)
  | saveState
  | restoreState
  | cm (a b c d e f : Flt)
  | invokeXObject (name : List Nat)
  | beginText
  | endText
  /-- `disp` = the `Display` text of the (finite) size -/
  | setFont (name : List Nat) (size : Flt) (disp : List Nat)
  | setTextPosition (x y : Flt)
  /-- `ShowText(escaped)`: the bytes before escaping and the escaper used -/
  | showText (k : Esc) (bs : List Nat)
  /-- `ShowTextHex(hex digits)`: the bytes before hex encoding -/
  | showTextHex (bs : List Nat)
  | showTextArray (es : List TAElem)
  | setWordSpacing (v : Flt)
  | setCharSpacing (v : Flt)
  | setHorizontalScaling (v : Flt)
  | setLeading (v : Flt)
  | setTextRise (v : Flt)
  | setRenderingMode (n : Nat)
  | endPath
  | clipNonZero
  | clipEvenOdd
  | clipStroke
  | paintShading (name : List Nat)
  | comment (text : List Nat)
  /-- `Raw(ClippingPath::rect(..).to_pdf_operations())` -/
  | rawClipRect (x y w h : Flt)
  /-- `Raw("/{tag} <</MCID {n}>> BDC\n")` -/
  | rawBdc (tag : List Nat) (mcid : Nat)
  /-- `Raw("/{tag} <</MCID {n} /ActualText <FEFF{hex}>>> BDC\n")`; `u16be` = UTF-16BE bytes -/
  | rawBdcActual (tag : List Nat) (mcid : Nat) (u16be : List Nat)
  /-- `Raw("EMC\n")` -/
  | rawEmc
  deriving Repr, Inhabited

/-! ### the escapers -/

def oct3 (b : Nat) : List Nat := [92, 48 + b / 64 % 8, 48 + b / 8 % 8, 48 + b % 8]

/-- the six named escapes shared by all three escapers (BS and FF only in `lit`) -/
def escLitByte (b : Nat) : List Nat :=
  if b == 40 then [92, 40] else if b == 41 then [92, 41] else if b == 92 then [92, 92]
  else if b == 10 then [92, 110] else if b == 13 then [92, 114] else if b == 9 then [92, 116]
  else if b == 8 then [92, 98] else if b == 12 then [92, 102]
  else if 32 ≤ b && b ≤ 126 then [b] else oct3 b

def escGfxShowByte (b : Nat) : List Nat :=
  if b == 40 then [92, 40] else if b == 41 then [92, 41] else if b == 92 then [92, 92]
  else if b == 10 then [92, 110] else if b == 13 then [92, 114] else if b == 9 then [92, 116]
  else [b]

def escGfxDrawByte (b : Nat) : List Nat :=
  if b ≤ 127 then escGfxShowByte b else oct3 b

def escByte : Esc → Nat → List Nat
  | .lit => escLitByte
  | .gfxShow => escGfxShowByte
  | .gfxDraw => escGfxDrawByte

def escape (k : Esc) : List Nat → List Nat
  | [] => []
  | b :: r => escByte k b ++ escape k r

/-! ### pieces -/

inductive Piece where
  /-- a numeric token as formatted -/
  | num (tok : List Nat)
  /-- `/` + name bytes through `escape_pdf_name_bytes` (`write_name_operand`, `escape_tag`) -/
  | name (bs : List Nat)
  /-- `(` + escaped + `)` -/
  | lit (k : Esc) (bs : List Nat)
  /-- `<` + uppercase hex of the bytes + `>` -/
  | hex (bs : List Nat)
  | kw (bs : List Nat)
  | sp
  | nl
  | lb
  | rb
  | dictOpen
  | dictClose
  /-- `% ` + text -/
  | comment (text : List Nat)
  /-- verbatim bytes that are not a token of the grammar (e.g. `-inf`) -/
  | junk (bs : List Nat)
  deriving Repr, Inhabited

def bytesOf : Piece → List Nat
  | .num t => t
  | .name bs => 47 :: escapeName bs
  | .lit k bs => 40 :: (escape k bs ++ [41])
  | .hex bs => 60 :: (hexBytesUpper bs ++ [62])
  | .kw bs => bs
  | .sp => [32]
  | .nl => [10]
  | .lb => [91]
  | .rb => [93]
  | .dictOpen => [60, 60]
  | .dictClose => [62, 62]
  | .comment t => 37 :: 32 :: t
  | .junk bs => bs

def render : List Piece → List Nat
  | [] => []
  | p :: r => bytesOf p ++ render r

/-- the formatter family: `fmt prec x` = `format!("{:.prec$}", finite_or_zero(x))` -/
abbrev Fmt := Nat → Flt → List Nat

/-- numbers separated by single spaces, then ` kw\n` -/
def numsThenKw (toks : List (List Nat)) (kw : List Nat) : List Piece :=
  match toks with
  | [] => [.kw kw, .nl]
  | t :: r => .num t :: .sp :: numsThenKw r kw

def colorPieces (fmt : Fmt) (c : Color) (rg g k : List Nat) : List Piece :=
  match c with
  | .rgb r gg b => numsThenKw [fmt 3 r, fmt 3 gg, fmt 3 b] rg
  | .gray y => numsThenKw [fmt 3 y] g
  | .cmyk c m y kk => numsThenKw [fmt 3 c, fmt 3 m, fmt 3 y, fmt 3 kk] k

/-- `array_str.join(" ")` -/
def dashElems : List (List Nat) → List Piece
  | [] => []
  | [t] => [.num t]
  | t :: r => .num t :: .sp :: dashElems r

def taPieces (fmt : Fmt) : List TAElem → List Piece
  | [] => []
  | .glyphs bs :: r => .sp :: .hex bs :: taPieces fmt r
  | .adjust v :: r => .sp :: .num (fmt 2 v) :: taPieces fmt r

def rawNumPiece (x : Flt) : Piece :=
  match x with
  | .fin _ _ _ => .num (fmtFixedRaw 3 x)
  | .inf true => .junk (fmtFixedRaw 3 x)
  | _ => .kw (fmtFixedRaw 3 x)

/-- the `Raw` bytes of `clip_rect` BEFORE the repair (`{:.3}` without `finite_or_zero`): kept for
    the regression statements `C21_old_witness_clip_rect_*` -/
def clipRectPiecesOld (x y w h : Flt) : List Piece :=
  [rawNumPiece x, .sp, rawNumPiece y, .sp, rawNumPiece w, .sp, rawNumPiece h, .sp, .kw [114, 101], .nl,
   .kw [87], .nl, .kw [110], .nl]

def kMCID : List Nat := [77, 67, 73, 68]
def kActualText : List Nat := [65, 99, 116, 117, 97, 108, 84, 101, 120, 116]

/-- one arm of `serialize_ops` -/
def pieces (fmt : Fmt) : Op → List Piece
  | .moveTo x y => numsThenKw [fmt 2 x, fmt 2 y] [109]
  | .lineTo x y => numsThenKw [fmt 2 x, fmt 2 y] [108]
  | .curveTo a b c d e f => numsThenKw [fmt 2 a, fmt 2 b, fmt 2 c, fmt 2 d, fmt 2 e, fmt 2 f] [99]
  | .rect x y w h => numsThenKw [fmt 2 x, fmt 2 y, fmt 2 w, fmt 2 h] [114, 101]
  | .closePath => [.kw [104], .nl]
  | .stroke => [.kw [83], .nl]
  | .fillNonZero => [.kw [102], .nl]
  | .fillStroke => [.kw [66], .nl]
  | .setFillColor c => colorPieces fmt c [114, 103] [103] [107]
  | .setStrokeColor c => colorPieces fmt c [82, 71] [71] [75]
  | .setFillColorSpace n => [.name n, .sp, .kw [99, 115], .nl]
  | .setStrokeColorSpace n => [.name n, .sp, .kw [67, 83], .nl]
  | .setFillColorComponents vs => numsThenKw (vs.map (fmt 4)) [115, 99]
  | .setStrokeColorComponents vs => numsThenKw (vs.map (fmt 4)) [83, 67]
  | .setLineWidth w => numsThenKw [fmt 2 w] [119]
  | .setLineCap n => numsThenKw [showNat n] [74]
  | .setLineJoin n => numsThenKw [showNat n] [106]
  | .setMiterLimit l => numsThenKw [fmt 2 l] [77]
  | .setDash arr phase =>
    if arr.isEmpty then [.lb, .rb, .sp, .num [48], .sp, .kw [100], .nl]
    else .lb :: (dashElems (arr.map (fmt 2)) ++ [.rb, .sp, .num (fmt 2 phase), .sp, .kw [100], .nl])
  | .setFlatness v => numsThenKw [fmt 2 v] [105]
  | .setExtGState n => [.name n, .sp, .kw [103, 115], .nl]
  | .setRenderingIntent n => [.name n, .sp, .kw [114, 105], .nl]
  | .saveState => [.kw [113], .nl]
  | .restoreState => [.kw [81], .nl]
  | .cm a b c d e f => numsThenKw [fmt 2 a, fmt 2 b, fmt 2 c, fmt 2 d, fmt 2 e, fmt 2 f] [99, 109]
  | .invokeXObject n => [.name n, .sp, .kw [68, 111], .nl]
  | .beginText => [.kw [66, 84], .nl]
  | .endText => [.kw [69, 84], .nl]
  | .setFont n size disp =>
    [.name n, .sp, .num (if size.isFinite then disp else [48]), .sp, .kw [84, 102], .nl]
  | .setTextPosition x y => numsThenKw [fmt 2 x, fmt 2 y] [84, 100]
  | .showText k bs => [.lit k bs, .sp, .kw [84, 106], .nl]
  | .showTextHex bs => [.hex bs, .sp, .kw [84, 106], .nl]
  | .showTextArray es => .lb :: (taPieces fmt es ++ [.sp, .rb, .sp, .kw [84, 74], .nl])
  | .setWordSpacing v => numsThenKw [fmt 2 v] [84, 119]
  | .setCharSpacing v => numsThenKw [fmt 2 v] [84, 99]
  | .setHorizontalScaling v => numsThenKw [fmt 2 v] [84, 122]
  | .setLeading v => numsThenKw [fmt 2 v] [84, 76]
  | .setTextRise v => numsThenKw [fmt 2 v] [84, 115]
  | .setRenderingMode n => numsThenKw [showNat n] [84, 114]
  | .endPath => [.kw [110], .nl]
  | .clipNonZero => [.kw [87], .nl]
  | .clipEvenOdd => [.kw [87, 42], .nl]
  | .clipStroke => [.kw [87], .sp, .kw [83], .nl]
  | .paintShading n => [.name n, .sp, .kw [115, 104], .nl]
  | .comment t => [.comment t, .nl]
  | .rawClipRect x y w h =>
    [.num (fmt 3 x), .sp, .num (fmt 3 y), .sp, .num (fmt 3 w), .sp, .num (fmt 3 h), .sp, .kw [114, 101], .nl,
     .kw [87], .nl, .kw [110], .nl]
  | .rawBdc tag mcid =>
    [.name tag, .sp, .dictOpen, .name kMCID, .sp, .num (showNat mcid), .dictClose, .sp, .kw [66, 68, 67], .nl]
  | .rawBdcActual tag mcid u =>
    [.name tag, .sp, .dictOpen, .name kMCID, .sp, .num (showNat mcid), .sp, .name kActualText, .sp,
     .hex (254 :: 255 :: u), .dictClose, .sp, .kw [66, 68, 67], .nl]
  | .rawEmc => [.kw [69, 77, 67], .nl]

def opPieces (fmt : Fmt) : List Op → List Piece
  | [] => []
  | o :: r => pieces fmt o ++ opPieces fmt r

/-- `serialize_ops` -/
def serializeOps (fmt : Fmt) (ops : List Op) : List Nat := render (opPieces fmt ops)

/-! ### what the parser should return: the authored operators -/

def numArg (tok : List Nat) : Arg :=
  if tok.contains 46 then .num tok
  else match parseI32 tok with
    | some i => .numI i
    | none => .num tok

def colorCanon (fmt : Fmt) (c : Color) (rg g k : List Nat) : Parsed :=
  match c with
  | .rgb r gg b => ⟨rg, [numArg (fmt 3 r), numArg (fmt 3 gg), numArg (fmt 3 b)]⟩
  | .gray y => ⟨g, [numArg (fmt 3 y)]⟩
  | .cmyk c m y kk => ⟨k, [numArg (fmt 3 c), numArg (fmt 3 m), numArg (fmt 3 y), numArg (fmt 3 kk)]⟩

def taCanon (fmt : Fmt) : List TAElem → List Arg
  | [] => []
  | .glyphs bs :: r => .str bs :: taCanon fmt r
  | .adjust v :: r => numArg (fmt 2 v) :: taCanon fmt r

/-- the `ContentOperation`s an authored `Op` stands for (spec side of the round trip) -/
def canon (fmt : Fmt) : Op → List Parsed
  | .moveTo x y => [⟨[109], [numArg (fmt 2 x), numArg (fmt 2 y)]⟩]
  | .lineTo x y => [⟨[108], [numArg (fmt 2 x), numArg (fmt 2 y)]⟩]
  | .curveTo a b c d e f =>
    [⟨[99], [numArg (fmt 2 a), numArg (fmt 2 b), numArg (fmt 2 c), numArg (fmt 2 d), numArg (fmt 2 e), numArg (fmt 2 f)]⟩]
  | .rect x y w h => [⟨[114, 101], [numArg (fmt 2 x), numArg (fmt 2 y), numArg (fmt 2 w), numArg (fmt 2 h)]⟩]
  | .closePath => [⟨[104], []⟩]
  | .stroke => [⟨[83], []⟩]
  | .fillNonZero => [⟨[102], []⟩]
  | .fillStroke => [⟨[66], []⟩]
  | .setFillColor c => [colorCanon fmt c [114, 103] [103] [107]]
  | .setStrokeColor c => [colorCanon fmt c [82, 71] [71] [75]]
  | .setFillColorSpace n => [⟨[99, 115], [.name n]⟩]
  | .setStrokeColorSpace n => [⟨[67, 83], [.name n]⟩]
  | .setFillColorComponents vs => [⟨[115, 99], [.nums (vs.map fun v => numArg (fmt 4 v))]⟩]
  | .setStrokeColorComponents vs => [⟨[83, 67], [.nums (vs.map fun v => numArg (fmt 4 v))]⟩]
  | .setLineWidth w => [⟨[119], [numArg (fmt 2 w)]⟩]
  | .setLineCap n => [⟨[74], [.int (Int.ofNat n)]⟩]
  | .setLineJoin n => [⟨[106], [.int (Int.ofNat n)]⟩]
  | .setMiterLimit l => [⟨[77], [numArg (fmt 2 l)]⟩]
  | .setDash arr phase =>
    if arr.isEmpty then [⟨[100], [.nums [], .numI 0]⟩]
    else [⟨[100], [.nums (arr.map fun v => numArg (fmt 2 v)), numArg (fmt 2 phase)]⟩]
  | .setFlatness v => [⟨[105], [numArg (fmt 2 v)]⟩]
  | .setExtGState n => [⟨[103, 115], [.name n]⟩]
  | .setRenderingIntent n => [⟨[114, 105], [.name n]⟩]
  | .saveState => [⟨[113], []⟩]
  | .restoreState => [⟨[81], []⟩]
  | .cm a b c d e f =>
    [⟨[99, 109], [numArg (fmt 2 a), numArg (fmt 2 b), numArg (fmt 2 c), numArg (fmt 2 d), numArg (fmt 2 e), numArg (fmt 2 f)]⟩]
  | .invokeXObject n => [⟨[68, 111], [.name n]⟩]
  | .beginText => [⟨[66, 84], []⟩]
  | .endText => [⟨[69, 84], []⟩]
  | .setFont n size disp => [⟨[84, 102], [.name n, numArg (if size.isFinite then disp else [48])]⟩]
  | .setTextPosition x y => [⟨[84, 100], [numArg (fmt 2 x), numArg (fmt 2 y)]⟩]
  | .showText _ bs => [⟨[84, 106], [.str bs]⟩]
  | .showTextHex bs => [⟨[84, 106], [.str bs]⟩]
  | .showTextArray es => [⟨[84, 74], [.textArr (taCanon fmt es)]⟩]
  | .setWordSpacing v => [⟨[84, 119], [numArg (fmt 2 v)]⟩]
  | .setCharSpacing v => [⟨[84, 99], [numArg (fmt 2 v)]⟩]
  | .setHorizontalScaling v => [⟨[84, 122], [numArg (fmt 2 v)]⟩]
  | .setLeading v => [⟨[84, 76], [numArg (fmt 2 v)]⟩]
  | .setTextRise v => [⟨[84, 115], [numArg (fmt 2 v)]⟩]
  | .setRenderingMode n => [⟨[84, 114], [.int (Int.ofNat n)]⟩]
  | .endPath => [⟨[110], []⟩]
  | .clipNonZero => [⟨[87], []⟩]
  | .clipEvenOdd => [⟨[87, 42], []⟩]
  | .clipStroke => [⟨[87], []⟩, ⟨[83], []⟩]
  | .paintShading n => [⟨[115, 104], [.name n]⟩]
  | .comment _ => []
  | .rawClipRect x y w h =>
    [⟨[114, 101], [numArg (fmt 3 x), numArg (fmt 3 y), numArg (fmt 3 w), numArg (fmt 3 h)]⟩,
     ⟨[87], []⟩, ⟨[110], []⟩]
  | .rawBdc tag mcid => [⟨[66, 68, 67], [.name tag, .propsInline [(kMCID, .int (Int.ofNat mcid))]]⟩]
  | .rawBdcActual tag mcid u =>
    [⟨[66, 68, 67], [.name tag, .propsInline [(kActualText, .str (254 :: 255 :: u)), (kMCID, .int (Int.ofNat mcid))]]⟩]
  | .rawEmc => [⟨[69, 77, 67], []⟩]

def canonAll (fmt : Fmt) : List Op → List Parsed
  | [] => []
  | o :: r => canon fmt o ++ canonAll fmt r

/-! ## 3. the API layer -/

def strBytes (s : String) : List Nat := s.toUTF8.toList.map (·.toNat)

def bHelvetica : List Nat := [72, 101, 108, 118, 101, 116, 105, 99, 97]

/-- `Font::pdf_name()` of the 14 built-in fonts, in the order of the harness table -/
def builtinFont (i : Nat) : List Nat :=
  let s : String := match i with
    | 0 => "Helvetica" | 1 => "Helvetica-Bold" | 2 => "Helvetica-Oblique" | 3 => "Helvetica-BoldOblique"
    | 4 => "Times-Roman" | 5 => "Times-Bold" | 6 => "Times-Italic" | 7 => "Times-BoldItalic"
    | 8 => "Courier" | 9 => "Courier-Bold" | 10 => "Courier-Oblique" | 11 => "Courier-BoldOblique"
    | 12 => "Symbol" | _ => "ZapfDingbats"
  s.toUTF8.toList.map (·.toNat)

def intentName (i : Nat) : List Nat :=
  let s : String := match i with
    | 0 => "AbsoluteColorimetric" | 1 => "RelativeColorimetric" | 2 => "Saturation" | _ => "Perceptual"
  s.toUTF8.toList.map (·.toNat)

/-- a font size with the `Display` text of its value -/
structure Size where
  v : Flt
  disp : List Nat
  deriving Repr, Inhabited

def size12 : Size := ⟨.fin false 12 0, [49, 50]⟩

structure GSave where
  fill : Color
  stroke : Color
  fontName : Option (List Nat)
  fontSize : Size
  isCustom : Bool
  deriving Inhabited

/-- `GraphicsContext` (the fields that influence the emitted operators) -/
structure Gfx where
  ops : List Op := []
  fill : Color := .gray Flt.zero
  stroke : Color := .gray Flt.zero
  /-- `pending_extgstate.is_some()` -/
  pending : Bool := false
  /-- `ExtGStateManager::next_id` -/
  nextGs : Nat := 1
  stack : List GSave := []
  fontName : Option (List Nat) := none
  fontSize : Size := size12
  isCustom : Bool := false
  /-- `transparency_stack.len()` -/
  tdepth : Nat := 0
  deriving Inhabited

/-- `TextContext` -/
structure Txt where
  ops : List Op := []
  fontName : List Nat := bHelvetica
  isCustom : Bool := false
  fontSize : Size := size12
  mx : Flt := Flt.zero
  my : Flt := Flt.zero
  pendingPos : Option (Flt × Flt) := none
  cs : Option Flt := none
  ws : Option Flt := none
  hs : Option Flt := none
  ld : Option Flt := none
  rise : Option Flt := none
  mode : Option Nat := none
  fill : Option Color := none
  stroke : Option Color := none
  deriving Inhabited

structure PageSt where
  pageOps : List Op := []
  g : Gfx := {}
  t : Txt := {}
  nextMcid : Nat := 0
  mcDepth : Nat := 0
  deriving Inhabited

def gsName (n : Nat) : List Nat := 71 :: 83 :: showNat n

/-- `apply_pending_extgstate` -/
def Gfx.applyPending (g : Gfx) : Gfx :=
  if g.pending then
    { g with pending := false, ops := g.ops ++ [.setExtGState (gsName g.nextGs)], nextGs := g.nextGs + 1 }
  else g

def Gfx.push (g : Gfx) (o : Op) : Gfx := { g with ops := g.ops ++ [o] }

def Gfx.save (g : Gfx) : Gfx :=
  { g with ops := g.ops ++ [.saveState],
           stack := ⟨g.fill, g.stroke, g.fontName, g.fontSize, g.isCustom⟩ :: g.stack }

def Gfx.restore (g : Gfx) : Gfx :=
  let g : Gfx := { g with ops := g.ops ++ [Op.restoreState] }
  match g.stack with
  | s :: r => { g with stack := r, fill := s.fill, stroke := s.stroke, fontName := s.fontName,
                       fontSize := s.fontSize, isCustom := s.isCustom }
  | [] => g

/-- `push_active_font` -/
def Gfx.pushActiveFont (g : Gfx) : Gfx :=
  g.push (.setFont (g.fontName.getD bHelvetica) g.fontSize.v g.fontSize.disp)

/-! ### text encodings used by the emitters -/

/-- UTF-8 → code points (input is valid UTF-8: it came out of a Rust `String`) -/
def utf8Decode : List Nat → List Nat
  | [] => []
  | b :: r =>
    if b < 128 then b :: utf8Decode r
    else if b < 224 then
      match r with
      | c1 :: r1 => ((b % 32) * 64 + c1 % 64) :: utf8Decode r1
      | _ => []
    else if b < 240 then
      match r with
      | c1 :: c2 :: r2 => ((b % 16) * 4096 + (c1 % 64) * 64 + c2 % 64) :: utf8Decode r2
      | _ => []
    else
      match r with
      | c1 :: c2 :: c3 :: r3 =>
        ((b % 8) * 262144 + (c1 % 64) * 4096 + (c2 % 64) * 64 + c3 % 64) :: utf8Decode r3
      | _ => []

/-- UTF-16BE bytes of a code point (`encode_char_as_cid`, `encode_utf16`) -/
def utf16be (c : Nat) : List Nat :=
  if c ≤ 65535 then [c / 256, c % 256]
  else
    let a := c - 65536
    let hi := a / 1024 % 1024 + 55296
    let lo := a % 1024 + 56320
    [hi / 256, hi % 256, lo / 256, lo % 256]

def utf16beAll : List Nat → List Nat
  | [] => []
  | c :: r => utf16be c ++ utf16beAll r

/-- `TextEncoding::WinAnsiEncoding.encode` for one code point -/
def winAnsiByte (c : Nat) : Nat :=
  if c ≤ 127 then c
  else if 160 ≤ c && c ≤ 255 then c
  else match c with
    | 0x20AC => 0x80 | 0x201A => 0x82 | 0x0192 => 0x83 | 0x201E => 0x84 | 0x2026 => 0x85
    | 0x2020 => 0x86 | 0x2021 => 0x87 | 0x02C6 => 0x88 | 0x2030 => 0x89 | 0x0160 => 0x8A
    | 0x2039 => 0x8B | 0x0152 => 0x8C | 0x017D => 0x8E | 0x2018 => 0x91 | 0x2019 => 0x92
    | 0x201C => 0x93 | 0x201D => 0x94 | 0x2022 => 0x95 | 0x2013 => 0x96 | 0x2014 => 0x97
    | 0x02DC => 0x98 | 0x2122 => 0x99 | 0x0161 => 0x9A | 0x203A => 0x9B | 0x0153 => 0x9C
    | 0x017E => 0x9E | 0x0178 => 0x9F
    | _ => 63

/-- `build_show_text_op` -/
def buildShowTextOp (utf8 : List Nat) (isCustom : Bool) : Op :=
  let cps := utf8Decode utf8
  if isCustom then .showTextHex (utf16beAll cps) else .showText .lit (cps.map winAnsiByte)

/-! ### calls -/

inductive Call where
  | gMove (x y : Flt) | gLine (x y : Flt) | gCurve (a b c d e f : Flt) | gRect (x y w h : Flt)
  | gClose | gStroke | gFill | gFillStroke | gEndPath | gClip | gClipEO | gClipStroke | gSave | gRestore
  | gStrokeColor (c : Color) | gFillColor (c : Color)
  | gLineWidth (w : Flt) | gLineCap (n : Nat) | gLineJoin (n : Nat) | gMiter (l : Flt) | gFlatness (v : Flt)
  | gDash (phase : Flt) (arr : List Flt) | gSolid | gIntent (n : Nat)
  | gCm (a b c d e f : Flt) | gTranslate (x y : Flt) | gScale (x y : Flt)
  | gDrawImage (name : List Nat) (x y w h : Flt) | gShading (name : List Nat)
  | gIccFill (name : List Nat) (vs : List Flt) | gIccStroke (name : List Nat) (vs : List Flt)
  | gAlpha (a : Flt) | gOpacity (a : Flt)
  | gBeginText | gEndText | gSetFont (font : Nat) (size : Size) | gSetCustomFont (name : List Nat) (size : Size)
  | gTextPos (x y : Flt) | gShowText (utf8 : List Nat) | gWordSpacing (v : Flt) | gCharSpacing (v : Flt)
  | gDrawText (utf8 : List Nat) (x y : Flt)
  /-- (cid, adjust, x_offset) with the two `f32`s as `Flt` -/
  | gCidArray (x y : Flt) (els : List (Nat × Flt × Flt))
  | gClipRect (x y w h : Flt) | gBeginGroup | gEndGroup
  | tFont (font : Nat) (size : Size) | tFontCustom (name : List Nat) (size : Size) | tAt (x y : Flt)
  | tWrite (utf8 : List Nat) | tCharSpacing (v : Flt) | tWordSpacing (v : Flt) | tHScale (v : Flt)
  | tLeading (v : Flt) | tRise (v : Flt) | tMode (n : Nat) | tFill (c : Color) | tStroke (c : Color) | tClear
  | pBdc (tag : List Nat) | pBdcActual (tag : List Nat) (utf8 : List Nat) | pEmc
  deriving Inhabited

/-- `Page::graphics()` -/
def PageSt.toGfx (p : PageSt) : PageSt :=
  if p.t.ops.isEmpty then p
  else { p with pageOps := p.pageOps ++ p.t.ops, t := { p.t with ops := [] } }

/-- `Page::text()` -/
def PageSt.toTxt (p : PageSt) : PageSt :=
  let p := if p.g.ops.isEmpty then p
    else { p with pageOps := p.pageOps ++ p.g.ops, g := { p.g with ops := [] } }
  if p.t.fill.isNone then { p with t := { p.t with fill := some p.g.fill } } else p

/-- the TJ elements of `show_cid_array`; `run` = pending hex bytes -/
def cidElems : List (Nat × Flt × Flt) → List Nat → List TAElem
  | [], run => if run.isEmpty then [] else [.glyphs run]
  | (cid, adj, xo) :: r, run =>
    let code := [cid / 256 % 256, cid % 256]
    if neZero xo then
      (if run.isEmpty then [] else [TAElem.glyphs run]) ++
        [.adjust (negF xo), .glyphs code, .adjust (addF32 xo adj)] ++ cidElems r []
    else if neZero adj then
      [.glyphs (run ++ code), .adjust adj] ++ cidElems r []
    else cidElems r (run ++ code)

/-- `apply_text_state_parameters` -/
def Txt.stateOps (t : Txt) : List Op :=
  (match t.cs with | some v => [Op.setCharSpacing v] | none => []) ++
  (match t.ws with | some v => [Op.setWordSpacing v] | none => []) ++
  (match t.hs with | some v => [Op.setHorizontalScaling (mul100 v)] | none => []) ++
  (match t.ld with | some v => [Op.setLeading v] | none => []) ++
  (match t.rise with | some v => [Op.setTextRise v] | none => []) ++
  (match t.mode with | some n => [Op.setRenderingMode n] | none => []) ++
  (match t.fill with | some c => [Op.setFillColor c] | none => []) ++
  (match t.stroke with | some c => [Op.setStrokeColor c] | none => [])

def gfxCall (g : Gfx) : Call → Gfx
  | .gMove x y => g.push (.moveTo x y)
  | .gLine x y => g.push (.lineTo x y)
  | .gCurve a b c d e f => g.push (.curveTo a b c d e f)
  | .gRect x y w h => g.push (.rect x y w h)
  | .gClose => g.push .closePath
  | .gStroke => let g := g.applyPending; (g.push (.setStrokeColor g.stroke)).push .stroke
  | .gFill => let g := g.applyPending; (g.push (.setFillColor g.fill)).push .fillNonZero
  | .gFillStroke =>
    let g := g.applyPending
    ((g.push (.setFillColor g.fill)).push (.setStrokeColor g.stroke)).push .fillStroke
  | .gEndPath => g.push .endPath
  | .gClip => g.push .clipNonZero
  | .gClipEO => g.push .clipEvenOdd
  | .gClipStroke => (g.push (.setStrokeColor g.stroke)).push .clipStroke
  | .gSave => g.save
  | .gRestore => g.restore
  | .gStrokeColor c => { g with stroke := c }
  | .gFillColor c => { g with fill := c }
  | .gLineWidth w => g.push (.setLineWidth w)
  | .gLineCap n => g.push (.setLineCap n)
  | .gLineJoin n => g.push (.setLineJoin n)
  | .gMiter l => g.push (.setMiterLimit (maxF l one))
  | .gFlatness v => g.push (.setFlatness (clampF v Flt.zero hundred))
  | .gDash phase arr => g.push (.setDash arr phase)
  | .gSolid => g.push (.setDash [] Flt.zero)
  | .gIntent n => g.push (.setRenderingIntent (intentName n))
  | .gCm a b c d e f => g.push (.cm a b c d e f)
  | .gTranslate x y => g.push (.cm one Flt.zero Flt.zero one x y)
  | .gScale x y => g.push (.cm x Flt.zero Flt.zero y Flt.zero Flt.zero)
  | .gDrawImage n x y w h =>
    (((g.save).push (.cm w Flt.zero Flt.zero h x y)).push (.invokeXObject n)).restore
  | .gShading n => g.applyPending.push (.paintShading n)
  | .gIccFill n vs => (g.push (.setFillColorSpace n)).push (.setFillColorComponents vs)
  | .gIccStroke n vs => (g.push (.setStrokeColorSpace n)).push (.setStrokeColorComponents vs)
  | .gAlpha _ => { g with ops := g.ops ++ [.setExtGState (gsName g.nextGs)], nextGs := g.nextGs + 1 }
  | .gOpacity a => if ltF (clampF a Flt.zero one) one then { g with pending := true } else g
  | .gBeginText => g.push .beginText
  | .gEndText => g.push .endText
  | .gSetFont f s =>
    { (g.push (.setFont (builtinFont f) s.v s.disp)) with
        fontName := some (builtinFont f), fontSize := s, isCustom := false }
  | .gSetCustomFont n s =>
    { (g.push (.setFont n s.v s.disp)) with fontName := some n, fontSize := s, isCustom := true }
  | .gTextPos x y => g.push (.setTextPosition x y)
  | .gShowText u =>
    if g.isCustom then g.push (.showTextHex (utf16beAll (utf8Decode u))) else g.push (.showText .gfxShow u)
  | .gWordSpacing v => g.push (.setWordSpacing v)
  | .gCharSpacing v => g.push (.setCharSpacing v)
  | .gDrawText u x y =>
    let cps := utf8Decode u
    let g1 := (((g.push .beginText).push (.setFillColor g.fill)).pushActiveFont).push (.setTextPosition x y)
    if g.isCustom || cps.any (· > 255) then (g1.push (.showTextHex (utf16beAll cps))).push .endText
    else (g1.push (.showText .gfxDraw cps)).push .endText
  | .gCidArray x y els =>
    let g1 := (((g.push .beginText).push (.setFillColor g.fill)).pushActiveFont).push (.setTextPosition x y)
    (g1.push (.showTextArray (cidElems els []))).push .endText
  | .gClipRect x y w h => g.push (.rawClipRect x y w h)
  | .gBeginGroup =>
    let g := (g.save).push (.comment (strBytes "Begin Transparency Group"))
    let g := { g with pending := true }.applyPending
    { g with tdepth := g.tdepth + 1 }
  | .gEndGroup =>
    if g.tdepth == 0 then g
    else
      let g := { g with tdepth := g.tdepth - 1 }
      (g.push (.comment (strBytes "End Transparency Group"))).restore
  | _ => g

def txtCall (t : Txt) : Call → Txt
  | .tFont f s => { t with fontName := builtinFont f, isCustom := false, fontSize := s }
  | .tFontCustom n s => { t with fontName := n, isCustom := true, fontSize := s }
  | .tAt x y => { t with mx := x, my := y, pendingPos := some (x, y) }
  | .tWrite u =>
    let pos := match t.pendingPos with
      | some p => p
      | none => (t.mx, t.my)
    { t with pendingPos := none,
             ops := t.ops ++ [.beginText, .setFont t.fontName t.fontSize.v t.fontSize.disp] ++ t.stateOps ++
               [.setTextPosition pos.1 pos.2, buildShowTextOp u t.isCustom, .endText] }
  | .tCharSpacing v => { t with cs := some v }
  | .tWordSpacing v => { t with ws := some v }
  | .tHScale v => { t with hs := some v }
  | .tLeading v => { t with ld := some v }
  | .tRise v => { t with rise := some v }
  | .tMode n => { t with mode := some n }
  | .tFill c => { t with fill := some c }
  | .tStroke c => { t with stroke := some c }
  | .tClear => { t with ops := [], cs := none, ws := none, hs := none, ld := none, rise := none,
                        mode := none, fill := none, stroke := none }
  | _ => t

def isG : Call → Bool
  | .tFont .. | .tFontCustom .. | .tAt .. | .tWrite .. | .tCharSpacing .. | .tWordSpacing .. | .tHScale ..
  | .tLeading .. | .tRise .. | .tMode .. | .tFill .. | .tStroke .. | .tClear | .pBdc .. | .pBdcActual .. | .pEmc => false
  | _ => true

def step (p : PageSt) (c : Call) : PageSt :=
  match c with
  | .pBdc tag =>
    { p with nextMcid := p.nextMcid + 1, mcDepth := p.mcDepth + 1,
             t := { p.t with ops := p.t.ops ++ [.rawBdc tag p.nextMcid] } }
  | .pBdcActual tag u =>
    { p with nextMcid := p.nextMcid + 1, mcDepth := p.mcDepth + 1,
             t := { p.t with ops := p.t.ops ++ [.rawBdcActual tag p.nextMcid (utf16beAll (utf8Decode u))] } }
  | .pEmc =>
    if p.mcDepth == 0 then p
    else { p with mcDepth := p.mcDepth - 1, t := { p.t with ops := p.t.ops ++ [.rawEmc] } }
  | c =>
    if isG c then
      let p := p.toGfx
      { p with g := gfxCall p.g c }
    else
      let p := p.toTxt
      { p with t := txtCall p.t c }

def runCalls (cs : List Call) : PageSt := cs.foldl step {}

/-- the operators of the page in emission order (`generate_content_with_page_info`) -/
def pageOpsOf (p : PageSt) : List Op := p.pageOps ++ p.g.ops ++ p.t.ops

/-- the concrete formatter -/
def fmtReal : Fmt := fmtFixed

end OxiVerif.C21
