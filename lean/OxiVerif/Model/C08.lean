/-
C08 / C07 — executable model of `oxidize-pdf-core/src/parser/filters.rs`
(and of `PdfStream::decode{,_with_limit}` in `parser/objects.rs`, which only forward to
`decode_stream{,_with_limit}`).

Bytes are `Nat`s < 256 in `List Nat`.  Every decoder is written in "suffix form": instead of the
Rust `result: Vec<u8>` that grows, a function gets the current `result.len()` as `n` and returns the
bytes that are still going to be appended; an error / panic discards everything, exactly as the
Rust `?`/unwind does.  Transcription table:

  push_bounded(result, b, max)          ↦ `if n ≥ L then err else b :: go (n+1) …`
  extend_bounded(result, bs, max)       ↦ `if bs.length > L - n then err else bs ++ go (n+4) …`
                                            (`max.saturating_sub(len)` = truncated `L - n`)
  copy_with_limit                       ↦ `copyWithLimit`
  read_to_end_limited                   ↦ `readToEndLimited` over the list of chunks a reader yields
  check_compression_ratio               ↦ `ratioOk`
  decode_ascii_hex_with_limit           ↦ `hexDec`   (incl. the quirk that an odd digit before `>`
                                            does NOT stop the loop: `low` was replaced by `'0'`)
  decode_ascii85_with_limit             ↦ `a85Dec`   (`<~` skipped only when both bytes are there;
                                            `ascii85_group_value`: checked Horner sum → decode error)
  decode_run_length_with_limit          ↦ `rlDec`
  LzwBitReader::read_bits               ↦ `readBits`
  decode_lzw_with_limit                 ↦ `lzwDec`   (no limit check on the first code after Clear)
  apply_predictor                       ↦ `applyPredictor` (1: unchanged, 2: `tiffPredictor`, 10–15: PNG,
                                            every other value: data returned unchanged)
  apply_tiff_predictor                  ↦ `tiffPredictor`, `tiffUnRow`
  apply_png_predictor_advanced + rows   ↦ `pngAdvanced`, `unfilterRow`, `paeth`
  get_filter_params                     ↦ `filterParams`
  decode_stream / apply_filter_with_params ↦ `decodeStream` / `applyFilterWithParams`
  decode_stream_with_limit              ↦ `decodeStreamWithLimit`

External (not modelled, parameters of the model, see `Ext`): zlib inflate (`flate2`), the recovery
strategies 2–8 of `decode_flate`, the CCITT / JBIG2 / DCT decoders.
Import-free.
-/
namespace OxiVerif.Flt

inductive Err where
  | decode   -- ParseError::StreamDecodeError
  | syntax   -- ParseError::SyntaxError
  deriving DecidableEq, Repr

inductive Pan where
  | mul      -- attempt to multiply with overflow
  | add      -- attempt to add with overflow
  deriving DecidableEq, Repr

/-- Outcome of a Rust call. `ext w` = the call left the modelled code (w = 0: external decoder
CCITT/JBIG2/DCT; w = 1: the request carried no oracle entry for an inflate input); it propagates
like an error. -/
inductive Res (α : Type) where
  | ok (a : α)
  | err (e : Err)
  | panic (p : Pan)
  | ext (why : Nat)
  deriving DecidableEq, Repr

/-- `x ++ (rest of the output)` -/
def Res.pre (xs : List Nat) : Res (List Nat) → Res (List Nat)
  | .ok o => .ok (xs ++ o)
  | .err e => .err e
  | .panic p => .panic p
  | .ext w => .ext w

def Res.bind {α β} (r : Res α) (f : α → Res β) : Res β :=
  match r with
  | .ok a => f a
  | .err e => .err e
  | .panic p => .panic p
  | .ext w => .ext w

def two32 : Nat := 4294967296
def two64 : Nat := 18446744073709551616

/-! ## Limits (constants are tied to the source by `Gen/C08Consts.lean`, see Props/C08) -/

def maxDecompressedSize : Nat := 256 * 1024 * 1024
def maxCompressionRatio : Nat := 1000
def ratioGuardMinOutput : Nat := 64 * 1024 * 1024

/-- `check_compression_ratio` returns `Ok` -/
def ratioOk (inSize outSize : Nat) : Bool :=
  !(outSize > ratioGuardMinOutput && inSize > 0 && outSize / inSize > maxCompressionRatio)

/-- `read_to_end_limited` over the chunks (`Ok(n)` reads, each non-empty) a reader yields before
`Ok(0)`.  `n` = `result.len()`. -/
def readToEndLimited (L : Nat) : Nat → List (List Nat) → Res (List Nat)
  | _, [] => .ok []
  | n, c :: cs =>
    if n + c.length > L then .err .decode
    else (readToEndLimited L (n + c.length) cs).pre c

def copyWithLimit (data : List Nat) (L : Nat) : Res (List Nat) :=
  if data.length > L then .err .decode else .ok data

/-! ## ASCIIHexDecode -/

/-- `u8::is_ascii_whitespace`: SP, HT, LF, FF, CR (NOT NUL, which PDF also counts as white space) -/
def isAsciiWs (b : Nat) : Bool := b == 32 || b == 9 || b == 10 || b == 12 || b == 13

/-- `is_pdf_whitespace`: ISO 32000-1 Table 1 = NUL + the above -/
def isPdfWs (b : Nat) : Bool := b == 0 || isAsciiWs b

def hexDigit? (c : Nat) : Option Nat :=
  if 48 ≤ c ∧ c ≤ 57 then some (c - 48)
  else if 65 ≤ c ∧ c ≤ 70 then some (c - 55)
  else if 97 ≤ c ∧ c ≤ 102 then some (c - 87)
  else none

/-- the two `hex_digit_value(..).ok_or_else(..)?` and `(high_val << 4) | low_val` -/
def hexByte (h l : Nat) : Res Nat :=
  match hexDigit? h with
  | none => .err .decode
  | some hv =>
    match hexDigit? l with
    | none => .err .decode
    | some lv => .ok (hv * 16 + lv)

/-- the `loop` of `decode_ascii_hex_with_limit` over the white-space-filtered bytes -/
def hexGo (L : Nat) : Nat → List Nat → Res (List Nat)
  | _, [] => .ok []
  | n, [h] =>
    if h = 62 then .ok []
    else match hexByte h 48 with
      | .ok b => if n ≥ L then .err .decode else .ok [b]
      | .err e => .err e
      | .panic p => .panic p
      | .ext w => .ext w
  | n, h :: l :: rest =>
    if h = 62 then .ok []
    else
      -- `Some(&b'>') => b'0'`: the later `if low == b'>' { break }` can never fire
      match hexByte h (if l = 62 then 48 else l) with
      | .ok b => if n ≥ L then .err .decode else (hexGo L (n + 1) rest).pre [b]
      | .err e => .err e
      | .panic p => .panic p
      | .ext w => .ext w

def hexDec (L : Nat) (data : List Nat) : Res (List Nat) :=
  hexGo L 0 (data.filter (fun b => !isPdfWs b))

/-! ## ASCII85Decode -/

def pow85 : Nat → Nat
  | 0 => 1
  | k + 1 => 85 * pow85 k

/-- the sum as it was before the repair of C08-F1 (`… as u32 * 85u32.pow(4 - i) … .sum::<u32>()` in a
build with overflow checks): `i` = index of the head of `g`, `s` = running sum.  Kept for the
regression statement `C08_regression_a85_overflow`. -/
def a85SumOld : Nat → Nat → List Nat → Res Nat
  | _, s, [] => .ok s
  | i, s, c :: g =>
    let t := (c - 33) * pow85 (4 - i)
    if t ≥ two32 then .panic .mul
    else if s + t ≥ two32 then .panic .add
    else a85SumOld (i + 1) (s + t) g

/-- `ascii85_group_value`: `try_fold(0u32, |v, ch| v.checked_mul(85)?.checked_add(ch - b'!')?)`;
an overflow is a `StreamDecodeError` -/
def a85Horner : Nat → List Nat → Res Nat
  | v, [] => .ok v
  | v, c :: g =>
    if v * 85 + (c - 33) ≥ two32 then .err .decode
    else a85Horner (v * 85 + (c - 33)) g

def a85Value (g : List Nat) : Res Nat := a85Horner 0 g

def be4 (v : Nat) : List Nat := [(v / 16777216) % 256, (v / 65536) % 256, (v / 256) % 256, v % 256]

/-- "Handle incomplete final group" -/
def a85Fin (L n : Nat) (g : List Nat) : Res (List Nat) :=
  if g.isEmpty then .ok []
  else
    match a85Value (g ++ List.replicate (5 - g.length) 117) with
    | .ok v =>
      -- `push_bounded` for each of the `g.length - 1` bytes: fails iff the last index reaches the limit
      if n + ((be4 v).take (g.length - 1)).length > L then .err .decode
      else .ok ((be4 v).take (g.length - 1))
    | .err e => .err e
    | .panic p => .panic p
    | .ext w => .ext w

/-- the `while let Some(&c) = ch` loop; `g` = `group` -/
def a85Go (L : Nat) : Nat → List Nat → List Nat → Res (List Nat)
  | n, g, [] => a85Fin L n g
  | n, g, c :: rest =>
    if c = 126 then
      match rest with
      | 62 :: _ => a85Fin L n g
      | _ => .err .decode
    else if c = 122 ∧ g.isEmpty then
      if 4 > L - n then .err .decode else (a85Go L (n + 4) [] rest).pre [0, 0, 0, 0]
    else if 33 ≤ c ∧ c ≤ 117 then
      -- `group.push(c); if group.len() == 5 { … }`
      if (g ++ [c]).length = 5 then
        match a85Value (g ++ [c]) with
        | .ok v => if 4 > L - n then .err .decode else (a85Go L (n + 4) [] rest).pre (be4 v)
        | .err e => .err e
        | .panic p => .panic p
        | .ext w => .ext w
      else a85Go L n (g ++ [c]) rest
    else .err .decode

/-- "Skip optional <~ prefix": only when the first two (non-white-space) bytes are `<` `~` -/
def a85Start (cs : List Nat) : List Nat :=
  match cs with
  | 60 :: 126 :: rest => rest
  | _ => cs

/-- the skipper before the repair of C07-F3: a lone `<` was kept but the byte after it consumed -/
def a85StartOld (cs : List Nat) : List Nat :=
  match cs with
  | 60 :: 126 :: rest => rest
  | 60 :: _ :: rest => 60 :: rest
  | _ => cs

def a85Dec (L : Nat) (data : List Nat) : Res (List Nat) :=
  a85Go L 0 [] (a85Start (data.filter (fun b => !isPdfWs b)))

/-! ## RunLengthDecode -/

/-- the `while i < data.len()` loop; the list is `data[i..]`, `fuel` > its length -/
def rlGo (L : Nat) : Nat → Nat → List Nat → Res (List Nat)
  | 0, _, _ => .ok []
  | _ + 1, _, [] => .ok []
  | fuel + 1, n, b :: rest =>
    if b = 128 then .ok []
    else if b < 128 then
      -- literal packet, `count = b + 1`
      if b + 1 > rest.length then .err .decode
      else if n + (b + 1) > L then .err .decode
      else (rlGo L fuel (n + (b + 1)) (rest.drop (b + 1))).pre (rest.take (b + 1))
    else
      match rest with
      | [] => .err .decode
      | x :: rest' =>
        -- repeat packet, `count = (-length) + 1 = 257 - b`
        if n + (257 - b) > L then .err .decode
        else (rlGo L fuel (n + (257 - b)) rest').pre (List.replicate (257 - b) x)

def rlDec (L : Nat) (data : List Nat) : Res (List Nat) :=
  rlGo L (data.length + 1) 0 data

/-! ## LZWDecode -/

structure BitReader where
  data : List Nat      -- `data[byte_pos..]`
  bitPos : Nat
  deriving Repr

/-- the `while bits_read < n` loop of `read_bits` (`fuel` ≥ n: every turn reads ≥ 1 bit) -/
def readBitsGo : Nat → BitReader → Nat → Nat → Nat → Option (Nat × BitReader)
  | 0, r, n, bitsRead, result => if bitsRead < n then none else some (result, r)
  | fuel + 1, r, n, bitsRead, result =>
    if bitsRead < n then
      match r.data with
      | [] => none
      | byte :: tl =>
        let avail := 8 - r.bitPos
        let toRead := min (n - bitsRead) avail
        let mask := 2 ^ toRead - 1
        let shift := avail - toRead
        let bits := (byte / 2 ^ shift) % 256 % (mask + 1)
        let result := result * 2 ^ toRead + bits
        let bitPos := r.bitPos + toRead
        let r' : BitReader := if bitPos ≥ 8 then { data := tl, bitPos := 0 } else { data := byte :: tl, bitPos := bitPos }
        readBitsGo fuel r' n (bitsRead + toRead) result
    else some (result, r)

def readBits (r : BitReader) (n : Nat) : Option (Nat × BitReader) :=
  if n = 0 ∨ n > 16 then none else readBitsGo n r n 0 0

def lzwInitDict : Array (List Nat) :=
  ((List.range 256).map (fun i => [i])).toArray ++ #[[], []]

structure LzwSt where
  rd : BitReader
  dict : Array (List Nat)
  codeSize : Nat
  prev : Option Nat

/-- the string a code stands for when a previous code exists: `dictionary[code].clone()`, or in the
"code == next entry" case `dictionary[prev] + dictionary[prev][0]` -/
def lzwString (dict : Array (List Nat)) (prev code : Nat) : List Nat :=
  if code < dict.size then dict.getD code []
  else (dict.getD prev []) ++ [(dict.getD prev []).headD 0]

/-- "Add new entry to dictionary" + "Increase code size if necessary" -/
def lzwGrow (early : Bool) (dict : Array (List Nat)) (codeSize prev : Nat) (string : List Nat) :
    Array (List Nat) × Nat :=
  if dict.size < 4096 then
    ((dict.push ((dict.getD prev []) ++ [string.headD 0])),
     if (dict.size + 1 ≥ (if early then 2 ^ codeSize - 1 else 2 ^ codeSize)) ∧ codeSize < 12
     then codeSize + 1 else codeSize)
  else (dict, codeSize)

/-- the `while let Some(c) = bit_reader.read_bits(code_size)` loop; `n` = `result.len()` -/
def lzwGo (L : Nat) (early : Bool) : Nat → Nat → LzwSt → Res (List Nat)
  | 0, _, _ => .ok []
  | fuel + 1, n, st =>
    match readBits st.rd st.codeSize with
    | none => .ok []
    | some (code, rd) =>
      if code = 257 then .ok []
      else if code = 256 then
        lzwGo L early fuel n { rd := rd, dict := st.dict.extract 0 258, codeSize := 9, prev := none }
      else
        match st.prev with
        | some prev =>
          if code ≤ st.dict.size then
            -- `result.extend_from_slice(&string); if result.len() > max_bytes { Err }`
            if n + (lzwString st.dict prev code).length > L then .err .decode
            else
              (lzwGo L early fuel (n + (lzwString st.dict prev code).length)
                { rd := rd
                  dict := (lzwGrow early st.dict st.codeSize prev (lzwString st.dict prev code)).1
                  codeSize := (lzwGrow early st.dict st.codeSize prev (lzwString st.dict prev code)).2
                  prev := some code }).pre (lzwString st.dict prev code)
          else .err .decode
        | none =>
          -- first code after Clear: NO limit check
          if code < st.dict.size then
            (lzwGo L early fuel (n + (st.dict.getD code []).length)
              { rd := rd, dict := st.dict, codeSize := st.codeSize, prev := some code }).pre
              (st.dict.getD code [])
          else .err .decode

/-- `decode_lzw_with_limit` for a given `early_change` -/
def lzwDec (L : Nat) (early : Bool) (data : List Nat) : Res (List Nat) :=
  lzwGo L early (data.length + 1) 0
    { rd := { data := data, bitPos := 0 }, dict := lzwInitDict, codeSize := 9, prev := none }

/-! ## DecodeParms -/

/-- value of one key of a parameter dictionary -/
inductive PVal where
  | absent
  | nonInt            -- present, `as_integer()` is `None`
  | int (i : Int)
  deriving DecidableEq, Repr

def PVal.asInt : PVal → Option Int
  | .int i => some i
  | _ => none

structure Dict where
  predictor : PVal := .absent
  columns : PVal := .absent
  colors : PVal := .absent
  bpc : PVal := .absent
  early : PVal := .absent
  deriving DecidableEq, Repr

/-- `i64 as usize` -/
def asUsize (i : Int) : Nat := (i % (two64 : Int)).toNat
/-- `i64 as u32` -/
def asU32 (i : Int) : Nat := (i % (two32 : Int)).toNat

/-! ## PNG predictors -/

/-- `paeth_predictor` (i16 arithmetic cannot overflow for u8 inputs) -/
def paeth (left up upLeft : Nat) : Nat :=
  let p : Int := (left : Int) + up - upLeft
  let pa := (p - left).natAbs
  let pb := (p - up).natAbs
  let pc := (p - upLeft).natAbs
  if pa ≤ pb ∧ pa ≤ pc then left else if pb ≤ pc then up else upLeft

/-- The byte the row filter `t` adds at index `seen.size` of a row: `seen` = bytes of this row
already reconstructed (`result` of the Rust row function), `prev` = previous reconstructed row
(`None` for the first row ↦ `[]`; `row.get(i)` out of range ↦ 0). -/
def pngPred (t bpp : Nat) (prev : List Nat) (seen : Array Nat) : Nat :=
  let i := seen.size
  let left := if i < bpp then 0 else seen.getD (i - bpp) 0
  let up := prev.getD i 0
  let upLeft := if i < bpp then 0 else prev.getD (i - bpp) 0
  match t with
  | 0 => 0
  | 1 => left
  | 2 => up
  | 3 => (left + up) / 2
  | _ => paeth left up upLeft

/-- `apply_png_{sub,up,average,paeth}_filter` (t = 1..4) and `row_data.to_vec()` (t = 0):
`byte.wrapping_add(prediction)` along the row -/
def unfilterGo (t bpp : Nat) (prev : List Nat) : Array Nat → List Nat → List Nat
  | _, [] => []
  | seen, y :: ys =>
    let x := (y + pngPred t bpp prev seen) % 256
    x :: unfilterGo t bpp prev (seen.push x) ys

def unfilterRow (t bpp : Nat) (prev : List Nat) (row : List Nat) : List Nat :=
  unfilterGo t bpp prev #[] row

/-- the `for row in 0..num_rows` loop; `first` ↔ `row == 0` (then `prev_row = None`) -/
def pngRows (bpp rowBytes : Nat) : Nat → List Nat → List Nat → Res (List Nat)
  | 0, _, _ => .ok []
  | k + 1, prev, data =>
    match data with
    | [] => .ok []
    | tag :: rest =>
      if tag > 4 then .err .decode
      else
        (pngRows bpp rowBytes k (unfilterRow tag bpp prev (rest.take rowBytes)) (rest.drop rowBytes)).pre
          (unfilterRow tag bpp prev (rest.take rowBytes))

/-- `apply_png_predictor_advanced` -/
def pngAdvanced (data : List Nat) (d : Dict) : Res (List Nat) :=
  let columns := asUsize (d.columns.asInt.getD 1)
  let bpc := asUsize (d.bpc.asInt.getD 8)
  let colors := asUsize (d.colors.asInt.getD 1)
  if bpc * colors ≥ two64 then .err .decode    -- `bpc.checked_mul(colors)`
  else
    let bpp := (bpc * colors + 7) / 8
    -- checked_mul / checked_mul / checked_add(7) / 8, then checked_add(1)
    if columns * colors ≥ two64 then .err .decode
    else if columns * colors * bpc ≥ two64 then .err .decode
    else if columns * colors * bpc + 7 ≥ two64 then .err .decode
    else
      let rowBytes := (columns * colors * bpc + 7) / 8
      let rowSize := rowBytes + 1          -- < 2^64: cannot overflow after the division by 8
      if data.length % rowSize ≠ 0 then .err .decode
      else pngRows bpp rowBytes (data.length / rowSize) [] data

/-! ## TIFF predictor 2 -/

/-- 8 bits of a byte, most significant first -/
def bitsOfNat : Nat → Nat → List Bool
  | 0, _ => []
  | w + 1, x => (x / 2 ^ w % 2 == 1) :: bitsOfNat w x

def natOfBits (bs : List Bool) : Nat := bs.foldl (fun acc b => acc * 2 + (if b then 1 else 0)) 0

/-- consecutive groups of `k` elements (`fuel` > length; a shorter last group is kept) -/
def groupsOf {α} (k : Nat) : Nat → List α → List (List α)
  | 0, _ => []
  | fuel + 1, l => if l.isEmpty ∨ k = 0 then [] else l.take k :: groupsOf k fuel (l.drop k)

/-- `cur.wrapping_add(left) & mask` along the samples: `seen` = samples already reconstructed -/
def tiffUndiff (colors bpc : Nat) : Array Nat → List Nat → List Nat
  | _, [] => []
  | seen, x :: xs =>
    let y := if seen.size < colors then x else (x + seen.getD (seen.size - colors) 0) % 2 ^ bpc
    y :: tiffUndiff colors bpc (seen.push y) xs

/-- one row of `apply_tiff_predictor`: for 8 bits per component this is the PNG Sub recurrence with
stride `colors`; for 16 and for 1/2/4 bits the row is taken apart into `samples` samples of `bpc`
bits (most significant first), pad bits after the last sample stay as they are -/
def tiffUnRow (colors samples bpc : Nat) (row : List Nat) : List Nat :=
  if bpc = 8 then unfilterRow 1 colors [] row
  else
    let bits := row.flatMap (bitsOfNat 8)
    let smp := (groupsOf bpc (samples + 1) (bits.take (samples * bpc))).map natOfBits
    let out := (tiffUndiff colors bpc #[] smp).flatMap (bitsOfNat bpc) ++ bits.drop (samples * bpc)
    (groupsOf 8 (row.length + 1) out).map natOfBits

/-- `for row in result.chunks_exact_mut(row_bytes)`: a shorter tail is left untouched -/
def tiffRows (rb colors samples bpc : Nat) : Nat → List Nat → List Nat
  | 0, data => data
  | fuel + 1, data =>
    if data.length < rb then data
    else tiffUnRow colors samples bpc (data.take rb) ++ tiffRows rb colors samples bpc fuel (data.drop rb)

/-- `apply_tiff_predictor` -/
def tiffPredictor (data : List Nat) (d : Dict) : Res (List Nat) :=
  let columns := asUsize (d.columns.asInt.getD 1)
  let bpc := asUsize (d.bpc.asInt.getD 8)
  let colors := asUsize (d.colors.asInt.getD 1)
  if ¬ (bpc = 1 ∨ bpc = 2 ∨ bpc = 4 ∨ bpc = 8 ∨ bpc = 16) then .err .decode
  else if columns * colors ≥ two64 then .err .decode
  else if columns * colors * bpc ≥ two64 then .err .decode
  else if columns * colors * bpc + 7 ≥ two64 then .err .decode
  else
    let rowBytes := (columns * colors * bpc + 7) / 8
    if rowBytes = 0 then .ok data
    else .ok (tiffRows rowBytes colors (columns * colors) bpc (data.length + 1) data)

/-- `apply_predictor` -/
def applyPredictor (data : List Nat) (predictor : Nat) (d : Dict) : Res (List Nat) :=
  if predictor = 1 then .ok data
  else if predictor = 2 then tiffPredictor data d
  else if 10 ≤ predictor ∧ predictor ≤ 15 then pngAdvanced data d
  else .ok data   -- unknown predictor: returned unchanged

/-- `apply_predictor` before the repair of C07-F1: no arm for 2 -/
def applyPredictorOld (data : List Nat) (predictor : Nat) (d : Dict) : Res (List Nat) :=
  if predictor = 1 then .ok data
  else if 10 ≤ predictor ∧ predictor ≤ 15 then pngAdvanced data d
  else .ok data

/-! ## Filter chains -/

inductive FName where
  | hex | a85 | lzw | flate | rl | ccitt | jbig2 | dct | jpx | crypt
  | unknown            -- `Filter::from_name` returns `None`
  deriving DecidableEq, Repr

inductive FilterSpec where
  | none                                   -- no /Filter
  | single (f : FName)                     -- a name
  | array (l : List (Option FName))        -- `none` = an element that is not a name
  | invalid                                -- any other object
  deriving Repr

inductive ParmSpec where
  | none
  | dict (d : Dict)
  | array (l : List (Option Dict))         -- `none` = element that is not a dictionary
  | other
  deriving Repr

/-- `get_filter_params` -/
def filterParams (p : ParmSpec) (index : Nat) : Option Dict :=
  match p with
  | .dict d => some d
  | .array l => (l.getD index none)
  | _ => none

/-- What the model does not contain. `zlib x` = result of reading a `ZlibDecoder` over `x` to the
end (`none`: the reader returned an error; trailing bytes after the stream are ignored);
`recover x` = result of strategies 2–8 of `decode_flate` when strategy 1 failed (always `Ok`);
`other f x d` = CCITT/JBIG2/DCT decoders. -/
structure Ext where
  zlib : List Nat → Res (Option (List Nat))
  recover : List Nat → Res (List Nat)

/-- `try_standard_zlib_decode`: `none` = `Err` -/
def tryStandardZlib (E : Ext) (data : List Nat) : Res (Option (List Nat)) :=
  (E.zlib data).bind fun r =>
    match r with
    | none => .ok none
    | some plain =>
      if plain.length > maxDecompressedSize then .ok none
      else if ratioOk data.length plain.length then .ok (some plain) else .ok none

/-- `decode_flate` (strategy 1 modelled, 2–8 external) -/
def decodeFlate (E : Ext) (data : List Nat) : Res (List Nat) :=
  (tryStandardZlib E data).bind fun r =>
    match r with
    | some plain => .ok plain
    | none => E.recover data

/-- `decode_flate_with_limit` -/
def decodeFlateWithLimit (E : Ext) (data : List Nat) (L : Nat) : Res (List Nat) :=
  (E.zlib data).bind fun r =>
    match r with
    | none => .err .decode
    | some plain => if plain.length > L then .err .decode else .ok plain

def earlyChange (p : Option Dict) : Bool :=
  match p with
  | some d => match d.early.asInt with
    | some v => v != 0
    | none => true
  | none => true

/-- `apply_filter_with_params` -/
def applyFilterWithParams (E : Ext) (data : List Nat) (f : FName) (p : Option Dict) : Res (List Nat) :=
  let stage : Res (List Nat) :=
    match f with
    | .flate =>
      match p with
      | some d =>
        if d.predictor.asInt.isSome then
          (tryStandardZlib E data).bind fun r =>
            match r with
            | some plain => .ok plain
            | none => .ok data
        else decodeFlate E data
      | none => decodeFlate E data
    | .hex => hexDec maxDecompressedSize data
    | .a85 => a85Dec maxDecompressedSize data
    | .lzw => lzwDec maxDecompressedSize (earlyChange p) data
    | .rl => rlDec maxDecompressedSize data
    | .ccitt => .ext 0
    | .jbig2 => .ext 0
    | .dct => .ext 0
    | _ => .err .syntax
  stage.bind fun result =>
    -- `params.filter(|_| applies_predictor)`: /Predictor belongs to Flate and LZW only
    match (if f = .flate ∨ f = .lzw then p else none) with
    | some d =>
      match d.predictor.asInt with
      | some pr =>
        match applyPredictor result (asU32 pr) d with
        | .ok r => .ok r
        | .err _ => .ok result      -- "If predictor fails, use raw data"
        | .panic q => .panic q
        | .ext w => .ext w
      | none => .ok result
    | none => .ok result

/-- the `for (i, filter_name) in filters.iter().enumerate()` loop of `decode_stream` -/
def chainGo (E : Ext) (p : ParmSpec) : Nat → List FName → List Nat → Res (List Nat)
  | _, [], data => .ok data
  | i, f :: fs, data =>
    if f = .unknown then .err .syntax
    else (applyFilterWithParams E data f (filterParams p i)).bind fun r => chainGo E p (i + 1) fs r

/-- names of a /Filter array; `none` if one element is not a name -/
def filterNames : List (Option FName) → Option (List FName)
  | [] => some []
  | none :: _ => none
  | some f :: r => (filterNames r).map (f :: ·)

/-- `decode_stream` (= `PdfStream::decode`) -/
def decodeStream (E : Ext) (data : List Nat) (fs : FilterSpec) (p : ParmSpec) : Res (List Nat) :=
  match fs with
  | .none => .ok data
  | .invalid => .err .syntax
  | .single f => chainGo E p 0 [f] data
  | .array l =>
    match filterNames l with
    | none => .err .syntax
    | some names => chainGo E p 0 names data

/-- one turn of the loop of `decode_stream_with_limit` -/
def boundedStage (E : Ext) (L : Nat) (input : List Nat) (f : FName) (p : Option Dict) : Res (List Nat) :=
  let appliesPredictor := f = .flate ∨ f = .lzw
  let dec : Res (List Nat) :=
    match f with
    | .flate => decodeFlateWithLimit E input L
    | .hex => hexDec L input
    | .a85 => a85Dec L input
    | .lzw => lzwDec L (earlyChange p) input
    | .rl => rlDec L input
    | _ => .err .decode           -- "filter … has no bounded decoder"
  dec.bind fun decoded =>
    let afterPred : Res (List Nat) :=
      if appliesPredictor then
        match p with
        | some d =>
          match d.predictor.asInt with
          | some pr => applyPredictor decoded (asU32 pr) d
          | none => .ok decoded
        | none => .ok decoded
      else .ok decoded
    afterPred.bind fun decoded =>
      if decoded.length > L then .err .decode else .ok decoded

/-- the loop; `cur = none` ↔ `result == None` -/
def boundedGo (E : Ext) (L : Nat) (p : ParmSpec) (data : List Nat) :
    Nat → List FName → Option (List Nat) → Res (List Nat)
  | _, [], cur =>
    -- `match result { Some(decoded) => Ok(decoded), None => copy_with_limit(data, max_bytes) }`
    match cur with
    | some decoded => .ok decoded
    | none => copyWithLimit data L
  | i, f :: fs, cur =>
    if f = .unknown then .err .syntax
    else (boundedStage E L (cur.getD data) f (filterParams p i)).bind fun r =>
      boundedGo E L p data (i + 1) fs (some r)

/-- `decode_stream_with_limit` (= `PdfStream::decode_with_limit`) -/
def decodeStreamWithLimit (E : Ext) (data : List Nat) (fs : FilterSpec) (p : ParmSpec) (L : Nat) :
    Res (List Nat) :=
  match fs with
  | .none => copyWithLimit data L
  | .invalid => .err .syntax
  | .single f => boundedGo E L p data 0 [f] none
  | .array l =>
    match filterNames l with
    | none => .err .syntax
    | some names => boundedGo E L p data 0 names none

end OxiVerif.Flt
