import OxiVerif.Spec.Syntax
/-!
# Model.Serializer — the library's object serializers, transcribed by hand

Mirrors (line by line, quirks included):

* `writer/pdf_writer/mod.rs`
  * `escape_pdf_string_bytes`                         → `escapePdfString` (before the CR repair:
    `escapePdfStringRawCR`)
  * `escape_pdf_name_bytes` (commit 16fac722)         → `escapeName` (`nameRegular`)
  * `PdfWriter::write_object_value`                   → `ser`      (direct objects)
  * `PdfWriter::write_object_value_to_buffer`         → `serBuf`   (objects inside object streams;
    the Rust function is a second copy of the same `match`, arm by arm byte-identical, so the
    model is one function with two names; `Object::Stream` is rejected there)
* `writer/incremental_update.rs` `write_object / write_dictionary / write_name / write_string`
                                                      → `incSer`, `incWriteName`, `incWriteString`
  (`format_real` is *not* modelled: a real is the decimal token the code emitted)
* `writer/xref_stream_writer.rs` `write_object_value` → `xrefSer`

The value type is `Spec.Syntax.Obj`; on the writer side
`str bs` = `Object::String` (bytes of the Rust `String`), `hexstr bs` = `Object::ByteString`,
`name bs` = `Object::Name` (bytes of the Rust `String`), `real t` = `Object::Real(f)` where `t` is
the text `format!("{f:.6}")` produced by Rust's formatter (std, trusted — never modelled),
`dict kvs` = the entries of the `HashMap` in any order.
-/
namespace OxiVerif.Model
open OxiVerif.Spec.Syntax (Obj)

/-! ## decimal integers (`i64::to_string`, `u32`/`u16` `Display`) -/

/-- digits of `n`, most significant first; `fuel` only has to be ≥ the number of digits -/
def natDigitsAux : Nat → Nat → List Nat → List Nat
  | 0, n, acc => (48 + n % 10) :: acc
  | fuel + 1, n, acc =>
    if n < 10 then (48 + n) :: acc else natDigitsAux fuel (n / 10) ((48 + n % 10) :: acc)

def showNat (n : Nat) : List Nat := natDigitsAux n n []

def showInt : Int → List Nat
  | .ofNat n => showNat n
  | .negSucc n => 45 :: showNat (n + 1)

/-! ## `escape_pdf_string_bytes` -/

/-- `\\`, `\(`, `\)` and (since the CR repair) `\r` for a carriage return -/
def escapePdfString : List Nat → List Nat
  | [] => []
  | b :: r =>
    if b == 92 then 92 :: 92 :: escapePdfString r
    else if b == 40 then 92 :: 40 :: escapePdfString r
    else if b == 41 then 92 :: 41 :: escapePdfString r
    else if b == 13 then 92 :: 114 :: escapePdfString r
    else b :: escapePdfString r

/-- `escape_pdf_string_bytes` before the CR repair: a carriage return was left raw (the
    regression the C09-F2 witnesses are stated on) -/
def escapePdfStringRawCR : List Nat → List Nat
  | [] => []
  | b :: r =>
    if b == 92 then 92 :: 92 :: escapePdfStringRawCR r
    else if b == 40 then 92 :: 40 :: escapePdfStringRawCR r
    else if b == 41 then 92 :: 41 :: escapePdfStringRawCR r
    else b :: escapePdfStringRawCR r

/-- the literal string `write_object_value` wrote before the CR repair -/
def serStrRawCR (s : List Nat) : List Nat := 40 :: (escapePdfStringRawCR s ++ [41])

/-! ## reals: `format!("{f:.6}").trim_end_matches('0').trim_end_matches('.')` -/

/-- `str::trim_end_matches(c)` for a single byte pattern -/
def trimEnd (c : Nat) : List Nat → List Nat
  | [] => []
  | b :: r =>
    match trimEnd c r with
    | [] => if b == c then [] else [b]
    | t => b :: t

/-- the token written for `Object::Real(f)`, given `fix6 = format!("{f:.6}")` -/
def trimReal (fix6 : List Nat) : List Nat := trimEnd 46 (trimEnd 48 fix6)

/-! ## `{byte:02X}` -/

def hexDigitUpper (n : Nat) : Nat := if n < 10 then 48 + n else 55 + n

def hexByteUpper (b : Nat) : List Nat := [hexDigitUpper (b / 16 % 16), hexDigitUpper (b % 16)]

def hexBytesUpper : List Nat → List Nat
  | [] => []
  | b :: r => hexDigitUpper (b / 16 % 16) :: hexDigitUpper (b % 16) :: hexBytesUpper r

/-! ## `escape_pdf_name_bytes` -/

/-- `regular` in `escape_pdf_name_bytes`: `(b'!'..=b'~').contains(&byte)` and not one of
    `( ) < > [ ] { } / % #` -/
def nameRegular (b : Nat) : Bool :=
  (33 ≤ b && b ≤ 126) &&
    !(b == 40 || b == 41 || b == 60 || b == 62 || b == 91 || b == 93 || b == 123 || b == 125 ||
      b == 47 || b == 37 || b == 35)

/-- `escape_pdf_name_bytes`: regular bytes verbatim, every other byte as `#XX`
    (`format!("#{byte:02X}")`) -/
def escapeName : List Nat → List Nat
  | [] => []
  | b :: r =>
    if nameRegular b then b :: escapeName r
    else 35 :: hexDigitUpper (b / 16 % 16) :: hexDigitUpper (b % 16) :: escapeName r

/-! ## dictionary entry order: `entries.sort_by_key(|(k, _)| k.as_str())` (byte-wise `str` order) -/

def ltBytes : List Nat → List Nat → Bool
  | [], [] => false
  | [], _ :: _ => true
  | _ :: _, [] => false
  | a :: as, b :: bs => if a < b then true else if b < a then false else ltBytes as bs

def insertKV (k : List Nat) (v : Obj) : List (List Nat × Obj) → List (List Nat × Obj)
  | [] => [(k, v)]
  | (k', v') :: rest =>
    if ltBytes k k' then (k, v) :: (k', v') :: rest else (k', v') :: insertKV k v rest

/-- stable insertion sort by key (the keys of a `HashMap` are distinct, so stability is moot) -/
def sortKV : List (List Nat × Obj) → List (List Nat × Obj)
  | [] => []
  | (k, v) :: rest => insertKV k v (sortKV rest)

mutual
/-- sort the entries of every dictionary in the tree (what the writer does level by level) -/
def sortDicts : Obj → Obj
  | .arr xs => .arr (sortDictsList xs)
  | .dict kvs => .dict (sortKV (sortDictsKVs kvs))
  | o => o
def sortDictsList : List Obj → List Obj
  | [] => []
  | x :: xs => sortDicts x :: sortDictsList xs
def sortDictsKVs : List (List Nat × Obj) → List (List Nat × Obj)
  | [] => []
  | (k, v) :: rest => (k, sortDicts v) :: sortDictsKVs rest
end

/-! ## `write_object_value` -/

def kwNull : List Nat := [110, 117, 108, 108]
def kwTrue : List Nat := [116, 114, 117, 101]
def kwFalse : List Nat := [102, 97, 108, 115, 101]

mutual
/-- `write_object_value` on a tree whose dictionaries are listed in the order they are written -/
def serRaw : Obj → List Nat
  | .null => kwNull
  | .bool b => if b then kwTrue else kwFalse
  | .int i => showInt i
  | .real t => trimReal t
  | .str s => 40 :: (escapePdfString s ++ [41])
  | .hexstr bs => 60 :: (hexBytesUpper bs ++ [62])
  | .name n => 47 :: escapeName n
  | .arr xs => 91 :: (serElems true xs ++ [93])
  | .dict kvs => 60 :: 60 :: (serEntries kvs ++ [10, 62, 62])
  | .ref n g => showNat n ++ 32 :: (showNat g ++ [32, 82])
/-- array elements, a single space between consecutive ones -/
def serElems : Bool → List Obj → List Nat
  | _, [] => []
  | first, x :: xs => (if first then [] else [32]) ++ serRaw x ++ serElems false xs
/-- `\n/key value` per entry, the key through `escape_pdf_name_bytes` -/
def serEntries : List (List Nat × Obj) → List Nat
  | [] => []
  | (k, v) :: rest => 10 :: 47 :: (escapeName k ++ 32 :: (serRaw v ++ serEntries rest))
end

/-- `PdfWriter::write_object_value` -/
def ser (o : Obj) : List Nat := serRaw (sortDicts o)

/-- `PdfWriter::write_object_value_to_buffer` (same arms, same bytes) -/
def serBuf (o : Obj) : List Nat := ser o

/-! ## the serializer before commit 16fac722 (names and keys written raw)

Kept as the *regression*: the counter-witnesses of C09-F1 (and the injection witnesses of C30) are
statements about these definitions. -/

mutual
/-- `write_object_value` as it was before names were escaped: `/` + the raw bytes -/
def serRawUnescaped : Obj → List Nat
  | .null => kwNull
  | .bool b => if b then kwTrue else kwFalse
  | .int i => showInt i
  | .real t => trimReal t
  | .str s => 40 :: (escapePdfString s ++ [41])
  | .hexstr bs => 60 :: (hexBytesUpper bs ++ [62])
  | .name n => 47 :: n
  | .arr xs => 91 :: (serElemsUnescaped true xs ++ [93])
  | .dict kvs => 60 :: 60 :: (serEntriesUnescaped kvs ++ [10, 62, 62])
  | .ref n g => showNat n ++ 32 :: (showNat g ++ [32, 82])
def serElemsUnescaped : Bool → List Obj → List Nat
  | _, [] => []
  | first, x :: xs => (if first then [] else [32]) ++ serRawUnescaped x ++ serElemsUnescaped false xs
def serEntriesUnescaped : List (List Nat × Obj) → List Nat
  | [] => []
  | (k, v) :: rest => 10 :: 47 :: (k ++ 32 :: (serRawUnescaped v ++ serEntriesUnescaped rest))
end

/-- `PdfWriter::write_object_value` before commit 16fac722 -/
def serUnescaped (o : Obj) : List Nat := serRawUnescaped (sortDicts o)

/-! ## incremental writer (`writer/incremental_update.rs`) -/

def isAsciiAlnum (b : Nat) : Bool :=
  (48 ≤ b && b ≤ 57) || (65 ≤ b && b ≤ 90) || (97 ≤ b && b ≤ 122)

/-- bytes `write_name` emits verbatim: alphanumerics and `+ - . _ @ $ : ; * ?` -/
def incNamePlain (b : Nat) : Bool :=
  isAsciiAlnum b || b == 43 || b == 45 || b == 46 || b == 95 || b == 64 || b == 36 || b == 58 ||
  b == 59 || b == 42 || b == 63

def incNameBody : List Nat → List Nat
  | [] => []
  | b :: r =>
    if incNamePlain b then b :: incNameBody r
    else 35 :: hexDigitUpper (b / 16 % 16) :: hexDigitUpper (b % 16) :: incNameBody r

/-- `write_name`: `/` then every byte either verbatim or as `#XX` -/
def incWriteName (n : List Nat) : List Nat := 47 :: incNameBody n

/-- `write_string`: always a hexadecimal string -/
def incWriteString (s : List Nat) : List Nat := 60 :: (hexBytesUpper s ++ [62])

mutual
/-- `write_object` for `PdfObject` (`real t`: `t` is the token `format_real` returned;
    dictionaries `<< /k v /k v >>` sorted by key; streams are rejected by the code) -/
def incSerRaw : Obj → List Nat
  | .null => kwNull
  | .bool b => if b then kwTrue else kwFalse
  | .int i => showInt i
  | .real t => t
  | .str s => incWriteString s
  | .hexstr s => incWriteString s
  | .name n => incWriteName n
  | .arr xs => 91 :: (incSerElems true xs ++ [93])
  | .dict kvs => 60 :: 60 :: 32 :: (incSerEntries kvs ++ [62, 62])
  | .ref n g => showNat n ++ 32 :: (showNat g ++ [32, 82])
def incSerElems : Bool → List Obj → List Nat
  | _, [] => []
  | first, x :: xs => (if first then [] else [32]) ++ incSerRaw x ++ incSerElems false xs
def incSerEntries : List (List Nat × Obj) → List Nat
  | [] => []
  | (k, v) :: rest => incWriteName k ++ 32 :: (incSerRaw v ++ 32 :: incSerEntries rest)
end

def incSer (o : Obj) : List Nat := incSerRaw (sortDicts o)

/-! ## `xref_stream_writer::write_object_value` (only ever applied to the xref-stream dictionary) -/

mutual
/-- reals `{f:.6}` untrimmed, strings raw (no escaping), dictionary entries in `HashMap` order
    (here: the order given) as ` /k v` -/
def xrefSer : Obj → List Nat
  | .null => kwNull
  | .bool b => if b then kwTrue else kwFalse
  | .int i => showInt i
  | .real t => t
  | .str s => 40 :: (s ++ [41])
  | .hexstr _ => []            -- the code returns `Err` for ByteString and Stream
  | .name n => 47 :: n
  | .arr xs => 91 :: (xrefSerElems true xs ++ [93])
  | .dict kvs => 60 :: 60 :: (xrefSerEntries kvs ++ [32, 62, 62])
  | .ref n g => showNat n ++ 32 :: (showNat g ++ [32, 82])
def xrefSerElems : Bool → List Obj → List Nat
  | _, [] => []
  | first, x :: xs => (if first then [] else [32]) ++ xrefSer x ++ xrefSerElems false xs
def xrefSerEntries : List (List Nat × Obj) → List Nat
  | [] => []
  | (k, v) :: rest => 32 :: 47 :: (k ++ 32 :: (xrefSer v ++ xrefSerEntries rest))
end

end OxiVerif.Model
