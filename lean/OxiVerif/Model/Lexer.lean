/-!
# Model.Lexer — `parser/lexer.rs`, `Lexer::next_token` and its helpers, transcribed by hand

With `ParseOptions::default()` (`lenient_encoding = true`, `lenient_syntax = false`,
`collect_warnings = false`) — the options `PdfObject::parse` uses.

The Rust lexer pulls bytes from a reader with a one-byte peek buffer; here the state is simply
the remaining input, every function returns the rest.  Tokens pushed back with `push_token` are
modelled by *not consuming* (re-lexing from the earlier position gives the same tokens because
the lexer is a function of the position only).

Quirks kept on purpose (they are what the code does):
* white space is `u8::is_ascii_whitespace` = {09,0A,0C,0D,20}: NUL is **not** white space;
* name/word terminators are white space and `/ < > [ ] ( ) %` — `{` and `}` are **not**;
* `#xx` in a name consumes the next two bytes whatever they are and converts them with
  `u8::from_str_radix`, which accepts a leading `+` (`#+5` = 0x05);
* a bare `R` is lexed as `Token::Name("R")`, consuming exactly one byte;
* `\` followed by an end-of-line inside a literal string is **not** a line continuation
  (the end-of-line byte is kept), an unescaped CR stays CR;
* `;` and "problematic" control / C1 bytes are skipped by a self-call of `next_token`;
  after a skipped problematic byte, end of input is an error instead of `Eof`;
* reals keep their token text (floats are never modelled): `Token::Real` carries `number_str`;
* a digit run outside `i64` is a `Token::Real` carrying the digits (before the repair of C09-F4:
  "Invalid integer").
Import-free.
-/
namespace OxiVerif.Model.Lexer

inductive Token where
  | bool (b : Bool)
  | int (i : Int)
  | real (tok : List Nat)
  | str (bs : List Nat)
  /-- the `char`s of the Rust `String`, each one came from a single byte (`byte as char`) -/
  | name (cs : List Nat)
  | arrayStart
  | arrayEnd
  | dictStart
  | dictEnd
  | stream
  | endStream
  | obj
  | endObj
  | startXRef
  | null
  | comment (cs : List Nat)
  | eof
  deriving Repr, DecidableEq, Inhabited

def Token.isComment : Token → Bool
  | .comment _ => true
  | _ => false

/-- `ParseError` classes that can come out of the lexer / object parser -/
inductive Err where
  /-- `ParseError::SyntaxError` -/
  | syntax
  /-- `ParseError::UnexpectedToken` -/
  | unexpectedToken
  /-- `ParseError::MissingKey` -/
  | missingKey
  /-- `ParseError::CharacterEncodingError` (only with `lenient_encoding = false`) -/
  | encoding
  /-- a path of the Rust code this model does not cover (stream bodies) -/
  | unmodelled
  deriving Repr, DecidableEq, Inhabited

abbrev Res (α : Type) := Except Err α

/-- `u8::is_ascii_whitespace`: SP, HT, LF, FF, CR -/
def isAsciiWs (b : Nat) : Bool := b == 32 || b == 9 || b == 10 || b == 12 || b == 13

/-- terminators of names and words in `read_name` / `read_word` -/
def isBreak (b : Nat) : Bool :=
  isAsciiWs b || b == 47 || b == 60 || b == 62 || b == 91 || b == 93 || b == 40 || b == 41 ||
  b == 37

def isDigit (b : Nat) : Bool := 48 ≤ b && b ≤ 57
def isOctal (b : Nat) : Bool := 48 ≤ b && b ≤ 55
def isAlpha (b : Nat) : Bool := (65 ≤ b && b ≤ 90) || (97 ≤ b && b ≤ 122)

/-- `u8::is_ascii_hexdigit` / digit value -/
def hexVal (b : Nat) : Option Nat :=
  if 48 ≤ b && b ≤ 57 then some (b - 48)
  else if 65 ≤ b && b ≤ 70 then some (b - 55)
  else if 97 ≤ b && b ≤ 102 then some (b - 87)
  else none

/-- `is_problematic_encoding_char` with `lenient_syntax = false` -/
def isProblematic (b : Nat) : Bool :=
  (128 ≤ b && b ≤ 159) || b == 7 || (b ≤ 31 && b != 9 && b != 10 && b != 13)

/-- `read_comment` after the `%`: up to (not including) LF / CR -/
def readComment : List Nat → List Nat × List Nat
  | [] => ([], [])
  | b :: r =>
    if b == 10 || b == 13 then ([], b :: r)
    else
      let (c, rest) := readComment r
      (b :: c, rest)

/-- `read_word` -/
def readWord : List Nat → List Nat × List Nat
  | [] => ([], [])
  | b :: r =>
    if isBreak b then ([], b :: r)
    else
      let (w, rest) := readWord r
      (b :: w, rest)

def consOut {ε : Type} (x : Nat) (t : Except ε (List Nat × List Nat)) : Except ε (List Nat × List Nat) :=
  match t with
  | .ok (s, rest) => .ok (x :: s, rest)
  | .error e => .error e

/-- `u8::from_str_radix(&format!("{}{}", h1 as char, h2 as char), 16)`:
    two hex digits, or `+` and one hex digit -/
def hexPair (h1 h2 : Nat) : Option Nat :=
  if h1 == 43 then hexVal h2
  else
    match hexVal h1, hexVal h2 with
    | some a, some c => some (a * 16 + c)
    | _, _ => none

/-- state of `read_name` between two bytes: plain, `#` consumed, `#` and `hex1` consumed -/
inductive NameSt where
  | plain
  | hash
  | hash1 (h1 : Nat)
  deriving Repr, DecidableEq

/-- `read_name` after the `/`.  After `#` the next two bytes are consumed whatever they are
    (end of input: "Incomplete hex code in name"), then converted together. -/
def readNameSt : NameSt → List Nat → Res (List Nat × List Nat)
  | .plain, [] => .ok ([], [])
  | .hash, [] => .error .syntax
  | .hash1 _, [] => .error .syntax
  | .plain, b :: r =>
    if isBreak b then .ok ([], b :: r)
    else if b == 35 then readNameSt .hash r
    else consOut b (readNameSt .plain r)
  | .hash, b :: r => readNameSt (.hash1 b) r
  | .hash1 h1, b :: r =>
    match hexPair h1 b with
    | some v => consOut v (readNameSt .plain r)
    | none => .error .syntax

def readName (inp : List Nat) : Res (List Nat × List Nat) := readNameSt .plain inp

/-- state of `read_literal_string` between two bytes -/
inductive LitSt where
  | normal
  /-- `escape == true` -/
  | esc
  /-- inside the octal look-ahead loop, one / two digits read, `value = v` -/
  | oct1 (v : Nat)
  | oct2 (v : Nat)
  deriving Repr, DecidableEq

/-- `read_literal_string` after the `(`; `d` = `paren_depth - 1`.  End of input is
    "Unterminated string" (strict syntax). -/
def readLit : Nat → LitSt → List Nat → Res (List Nat × List Nat)
  | _, _, [] => .error .syntax
  | d, .esc, c :: r =>
    if c == 110 then consOut 10 (readLit d .normal r)
    else if c == 114 then consOut 13 (readLit d .normal r)
    else if c == 116 then consOut 9 (readLit d .normal r)
    else if c == 98 then consOut 8 (readLit d .normal r)
    else if c == 102 then consOut 12 (readLit d .normal r)
    else if isOctal c then readLit d (.oct1 (c - 48)) r
    else consOut c (readLit d .normal r)
  | d, st, b :: r =>
    let pending : Option Nat × Bool :=            -- (byte pushed first, is `b` absorbed?)
      match st with
      | .oct1 v => if isOctal b then (none, true) else (some (v % 256), false)
      | .oct2 v => if isOctal b then (some ((v * 8 + (b - 48)) % 256), true) else (some (v % 256), false)
      | _ => (none, false)
    let out (t : Res (List Nat × List Nat)) : Res (List Nat × List Nat) :=
      match pending.1 with
      | some x => consOut x t
      | none => t
    if pending.2 then
      match st with
      | .oct1 v => readLit d (.oct2 (v * 8 + (b - 48))) r
      | _ => out (readLit d .normal r)
    else if b == 92 then out (readLit d .esc r)
    else if b == 40 then out (consOut 40 (readLit (d + 1) .normal r))
    else if b == 41 then
      (if d == 0 then out (.ok ([], r)) else out (consOut 41 (readLit (d - 1) .normal r)))
    else out (consOut b (readLit d .normal r))

/-- hex-string part of `read_angle_bracket` (after a `<` not followed by `<`): hex digits are
    collected, white space skipped, anything else is an error (strict syntax), a missing `>` is
    an error; an odd digit count is padded with `0`.  `p` = collected high nibble. -/
def readHexStr : Option Nat → List Nat → Res (List Nat × List Nat)
  | _, [] => .error .syntax
  | p, b :: r =>
    if b == 62 then
      match p with
      | some h => .ok ([h * 16], r)
      | none => .ok ([], r)
    else
      match hexVal b with
      | some v =>
        match p with
        | none => readHexStr (some v) r
        | some h => consOut (h * 16 + v) (readHexStr none r)
      | none => if isAsciiWs b then readHexStr p r else .error .syntax

/-! ### `read_number` -/

/-- digits and at most one `.`: returns (chars, has_dot, rest) -/
def takeMantissa : Bool → List Nat → List Nat × Bool × List Nat
  | hd, [] => ([], hd, [])
  | hd, b :: r =>
    if isDigit b then
      let (m, hd', rest) := takeMantissa hd r
      (b :: m, hd', rest)
    else if b == 46 && !hd then
      let (m, hd', rest) := takeMantissa true r
      (b :: m, hd', rest)
    else ([], hd, b :: r)

def takeDigits : List Nat → List Nat × List Nat
  | [] => ([], [])
  | b :: r =>
    if isDigit b then
      let (m, rest) := takeDigits r
      (b :: m, rest)
    else ([], b :: r)

def digitsVal : List Nat → Nat → Nat
  | [], acc => acc
  | b :: r, acc => digitsVal r (acc * 10 + (b - 48))

def allDigits : List Nat → Bool
  | [] => true
  | b :: r => isDigit b && allDigits r

def splitSign : List Nat → Bool × List Nat
  | 43 :: r => (false, r)
  | 45 :: r => (true, r)
  | l => (false, l)

/-- `str::parse::<i64>()` (std, trusted): optional sign, at least one digit, in range -/
def parseI64 (s : List Nat) : Option Int :=
  let p := splitSign s
  if p.2.isEmpty || !allDigits p.2 then none
  else
    let n := digitsVal p.2 0
    if p.1 then (if n ≤ 9223372036854775808 then some (- (Int.ofNat n)) else none)
    else (if n ≤ 9223372036854775807 then some (Int.ofNat n) else none)

/-- `str::parse::<i64>()` fails with `PosOverflow` / `NegOverflow`: optional sign, at least one
    digit, digits only (every other failure is `Empty` / `InvalidDigit`) -/
def overflowsI64 (s : List Nat) : Bool :=
  let p := splitSign s
  !p.2.isEmpty && allDigits p.2 && (parseI64 s).isNone

def countDigits : List Nat → Nat
  | [] => 0
  | b :: r => (if isDigit b then 1 else 0) + countDigits r

/-- is `number_str` (shape `[+-]? [0-9.]* ([eE] [+-]? [0-9]*)?`) accepted by
    `str::parse::<f64>()` (std, trusted): the mantissa needs a digit, an exponent needs a digit -/
def validF64 (mant : List Nat) (exp : Option (List Nat)) : Bool :=
  countDigits mant > 0 &&
  match exp with
  | none => true
  | some e => countDigits e > 0

/-- the sign part of `read_number`: a sign must be followed by a digit or `.` (or end of input) -/
def readSign (inp : List Nat) : Res (List Nat × List Nat) :=
  match inp with
  | b :: r =>
    if b == 43 || b == 45 then
      match r with
      | nx :: _ => if !isDigit nx && nx != 46 then .error .syntax else .ok ([b], r)
      | [] => .ok ([b], r)
    else .ok ([], inp)
  | [] => .ok ([], inp)

/-- the scientific-notation part of `read_number`: `e`/`E`, optional sign, digits -/
def readExponent (r2 : List Nat) : Option (List Nat) × List Nat :=
  match r2 with
  | e :: r =>
    if e == 101 || e == 69 then
      let sr : List Nat × List Nat :=
        match r with
        | s :: r'' => if s == 43 || s == 45 then ([s], r'') else ([], r)
        | [] => ([], r)
      let dr := takeDigits sr.2
      (some (e :: (sr.1 ++ dr.1)), dr.2)
    else (none, r2)
  | [] => (none, r2)

/-- `read_number`; the first byte is one of `+ - 0-9 .` -/
def readNumber (inp : List Nat) : Res (Token × List Nat) :=
  match readSign inp with
  | .error e => .error e
  | .ok (sg, r1) =>
    let m := takeMantissa false r1
    let x := readExponent m.2.2
    let numberStr := sg ++ m.1 ++ x.1.getD []
    if m.2.1 || x.1.isSome then
      if validF64 m.1 x.1 then .ok (.real numberStr, x.2) else .error .syntax
    else
      match parseI64 numberStr with
      | some i => .ok (.int i, x.2)
      | none =>
        -- `IntErrorKind::PosOverflow | NegOverflow`: the digits are fine, the value is not
        -- an `i64`; the token is then read as a real (`parse::<f64>` accepts any digit run)
        if overflowsI64 numberStr then .ok (.real numberStr, x.2) else .error .syntax

/-- `read_number` before the repair of C09-F4: an integer token outside `i64` was
    "Invalid integer" -/
def readNumberOld (inp : List Nat) : Res (Token × List Nat) :=
  match readSign inp with
  | .error e => .error e
  | .ok (sg, r1) =>
    let m := takeMantissa false r1
    let x := readExponent m.2.2
    let numberStr := sg ++ m.1 ++ x.1.getD []
    if m.2.1 || x.1.isSome then
      if validF64 m.1 x.1 then .ok (.real numberStr, x.2) else .error .syntax
    else
      match parseI64 numberStr with
      | some i => .ok (.int i, x.2)
      | none => .error .syntax

/-- `process_keyword` -/
def processKeyword (w : List Nat) : Res Token :=
  if w == [115, 116, 114, 101, 97, 109] then .ok .stream
  else if w == [101, 110, 100, 115, 116, 114, 101, 97, 109] then .ok .endStream
  else if w == [111, 98, 106] then .ok .obj
  else if w == [101, 110, 100, 111, 98, 106] then .ok .endObj
  else if w == [115, 116, 97, 114, 116, 120, 114, 101, 102] then .ok .startXRef
  else .error .syntax

def kwTrue : List Nat := [116, 114, 117, 101]
def kwFalse : List Nat := [102, 97, 108, 115, 101]
def kwNull : List Nat := [110, 117, 108, 108]

/-- `next_token` (with an empty push-back buffer).  `ap` = we are in the self-call made after a
    skipped problematic byte (end of input is then an error). -/
def nextToken : Bool → List Nat → Res (Token × List Nat)
  | ap, [] => if ap then .error .syntax else .ok (.eof, [])
  | ap, b :: r =>
    if isAsciiWs b then nextToken ap r
    else if b == 37 then
      let (c, rest) := readComment r
      .ok (.comment c, rest)
    else if b == 47 then
      match readName r with
      | .ok (n, rest) => .ok (.name n, rest)
      | .error e => .error e
    else if b == 40 then
      match readLit 0 .normal r with
      | .ok (s, rest) => .ok (.str s, rest)
      | .error e => .error e
    else if b == 60 then
      match r with
      | 60 :: r' => .ok (.dictStart, r')
      | _ =>
        match readHexStr none r with
        | .ok (s, rest) => .ok (.str s, rest)
        | .error e => .error e
    else if b == 62 then
      match r with
      | 62 :: r' => .ok (.dictEnd, r')
      | _ => .error .syntax
    else if b == 91 then .ok (.arrayStart, r)
    else if b == 93 then .ok (.arrayEnd, r)
    else if b == 116 || b == 102 then
      let (w, rest) := readWord (b :: r)
      if w == kwTrue then .ok (.bool true, rest)
      else if w == kwFalse then .ok (.bool false, rest)
      else match processKeyword w with
        | .ok t => .ok (t, rest)
        | .error e => .error e
    else if b == 110 then
      let (w, rest) := readWord (b :: r)
      if w == kwNull then .ok (.null, rest)
      else match processKeyword w with
        | .ok t => .ok (t, rest)
        | .error e => .error e
    else if b == 43 || b == 45 || isDigit b || b == 46 then readNumber (b :: r)
    else if b == 82 then .ok (.name [82], r)
    else if isAlpha b then
      let (w, rest) := readWord (b :: r)
      match processKeyword w with
      | .ok t => .ok (t, rest)
      | .error e => .error e
    else if b == 59 then nextToken false r
    else if isProblematic b then nextToken true r
    else .error .syntax

/-- Does the token `next_token` produces at this position come from the bare keyword `R`
    (the `b'R'` arm) rather than from the name `/R`?  Follows `next_token`'s own skipping: white
    space, `;` and problematic bytes (every arm tested before `b'R'` is for another byte). -/
def bareRAhead : List Nat → Bool
  | [] => false
  | b :: r =>
    if isAsciiWs b then bareRAhead r
    else if b == 82 then true
    else if b == 59 then bareRAhead r
    else if isProblematic b then bareRAhead r
    else false

/-- `Lexer::next_token` on a fresh position -/
def next (inp : List Nat) : Res (Token × List Nat) := nextToken false inp

end OxiVerif.Model.Lexer
