import OxiVerif.Model.C18
/-!
Request language of the C18 / C16 drivers: parser of the page-tree description (grammar in
`harness/src/bin/c18.rs`) into the model's object graph, and printing of model answers.
Import-free apart from the model.
-/
namespace OxiVerif.C18

/-! ### parsing -/

def dropStr (n : Nat) (s : String) : String := String.ofList (s.toList.drop n)
def hasPrefix (s pre : String) : Bool := pre.toList.isPrefixOf s.toList

def parseNat? (s : String) : Option Nat := s.toNat?

def parseInt? (s : String) : Option Int :=
  match s.toList with
  | '-' :: r => (String.ofList r).toNat?.map fun n => -(Int.ofNat n)
  | _ => s.toNat?.map Int.ofNat

/-- decimal token with at most one fractional digit `5`, value ×2 -/
def parseNum2? (s : String) : Option Int :=
  let (neg, body) := match s.toList with
    | '-' :: r => (true, String.ofList r)
    | _ => (false, s)
  let v := match body.splitOn "." with
    | [a] => a.toNat?.map (· * 2)
    | [a, "5"] => a.toNat?.map (· * 2 + 1)
    | [a, "0"] => a.toNat?.map (· * 2)
    | _ => none
  v.map fun n => if neg then -(Int.ofNat n) else Int.ofNat n

def parseElems (s : String) : List Elem :=
  if s = "-" then [] else
  (s.splitOn ",").map fun t => match t.toNat? with
    | some n => .ref n
    | none => .junk

def parseRefish (s : String) (other : String → Raw) : Raw :=
  match s.toList with
  | '@' :: r => match (String.ofList r).toNat? with
    | some n => .ref n
    | none => .junk
  | ['j'] => .junk
  | _ => other s

def parseBoxBody (s : String) : Raw :=
  .nums ((s.splitOn ":").map fun t => if t = "x" then none else parseNum2? t)

def parseKeysBody (s : String) : Raw :=
  if s = "-" then .keys [] else .keys (s.splitOn "+")

def parseKids (s : String) : Kids :=
  match s.toList with
  | '@' :: r => match (String.ofList r).toNat? with
    | some n => .ref n
    | none => .junk
  | ['j'] => .junk
  | _ => .direct (parseElems s)

def parseField (d : Dict) (f : String) : Option Dict :=
  match f.splitOn "=" with
  | [k, v] =>
    match k with
    | "T" => some { d with ty := match v with
        | "P" => .page | "S" => .pages | "X" => .other | _ => .nonName }
    | "K" => some { d with kids := parseKids v }
    | "C" => some { d with count := some (parseRefish v fun s => match parseInt? s with
        | some i => .int i | none => .junk) }
    | "P" => v.toNat?.map fun n => { d with parent := some n }
    | "M" => some { d with mb := some (parseRefish v parseBoxBody) }
    | "B" => some { d with cb := some (parseRefish v parseBoxBody) }
    | "R" => some { d with rot := some (parseRefish v fun s => match s.toList with
        | 'r' :: _ => .real
        | _ => match parseInt? s with
          | some i => .int i | none => .junk) }
    | "Z" => some { d with res := some (parseRefish v parseKeysBody) }
    | "O" => some { d with contents := true, contentsRef := v.toNat? }
    | _ => none
  | _ => none

def parseObj (s : String) : Option (Nat × Obj) :=
  match s.splitOn " " with
  | id :: kind :: fields =>
    match id.toNat? with
    | none => none
    | some n =>
      match kind, fields with
      | "D", fs => (fs.foldlM parseField ({} : Dict)).map fun d => (n, .dict d)
      | "A", [e] => some (n, .arr (parseElems e))
      | "I", [i] => (parseInt? i).map fun v => (n, .raw (.int v))
      | "N", [] => some (n, .null)
      | "S", [h] => some (n, .stream (if h = "-" then "" else h))
      | "Y", [k] => some (n, .raw (parseKeysBody k))
      | "B", [b] => some (n, .raw (parseBoxBody b))
      | _, _ => none
  | _ => none

structure Req where
  cat : Nat
  root : Nat
  g : Graph

def parseReq (s : String) : Option Req :=
  match s.splitOn " | " with
  | head :: objs =>
    match head.splitOn " " with
    | ["pt", c, r] =>
      match c.toNat?, r.toNat?, objs.mapM parseObj with
      | some c, some r, some os => some { cat := c, root := r, g := os }
      | _, _, _ => none
    | _ => none
  | [] => none

/-! ### printing -/

def showInts (xs : List Int) : String := ",".intercalate (xs.map toString)

def showKeys : Option (List String) → String
  | none => "none"
  | some [] => "-"
  | some ks => "+".intercalate ks

def showPage (p : Page) : String :=
  s!"{p.id} m={showInts p.mediaBox} c={match p.cropBox with | some b => showInts b | none => "-"} r={p.rotation} z={showKeys p.resources}"

def showPageRes : PageRes → String
  | .ok p => showPage p
  | .err => "E"
  | .fuel => "FUEL"

def modelAnswer (r : Req) : String :=
  match (r.g.get r.root).asDict with
  | none => "root-not-dict"
  | some root =>
    let rc := match readerPageCount r.g root with
      | some n => toString n
      | none => "FUEL"
    match flatten r.g root with
    | none => s!"rc={rc} dc=FUEL"
    | some flat =>
      let pages := flat.map fun id => " | " ++ showPageRes (loadPage r.g id)
      let oob := if flat.isEmpty then "" else " | oob=" ++ showPageRes (getPage r.g flat flat.length)
      s!"rc={rc} dc={flat.length}" ++ String.join pages ++ oob


end OxiVerif.C18
