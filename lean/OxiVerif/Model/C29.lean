/-
C29 — model of `oxidize-pdf-core/src/memory/cache.rs` (`LruCache`, `ObjectCache`).

Transcription, line by line:
  * `map : HashMap<K,V>`        ↦ `map : List (Nat × Nat)` (association list, first match wins;
                                   the invariant `C29.Inv` says keys are unique)
  * `order : VecDeque<K>`       ↦ `order : List Nat`, head = front = most recently used
  * `retain(|k| k != key)`      ↦ `List.filter (· != key)`
  * `push_front`                ↦ `::`
  * `pop_back`                  ↦ `List.getLast?` / `List.dropLast`
  * `HashMap::insert`           ↦ `insertKV` (replace in place or append)
  * `HashMap::remove`           ↦ `List.filter (·.1 != k)`
`ObjectCache::{get,put,clear,stats}` each take the lock for the whole body, so each is one
atomic `Impl.step`; `LruCache::is_empty` and `ObjectCache::stats` are read-only steps;
`MemoryManager::new(..).cache()` is `managerCache`.  Import-free.
-/
namespace OxiVerif.C29

inductive Op where
  | get (k : Nat)
  | put (k v : Nat)
  | clear
  | len
  | isEmpty                    -- `LruCache::is_empty`
  | stats                      -- `ObjectCache::stats` (size, capacity)
  deriving Repr, DecidableEq

inductive Out where
  | none
  | val (v : Nat)
  | unit
  | size (n : Nat)
  | flag (b : Bool)
  | stats (size cap : Nat)
  deriving Repr, DecidableEq

def lookup (k : Nat) : List (Nat × Nat) → Option Nat
  | [] => Option.none
  | (k', v) :: r => if k' = k then some v else lookup k r

def insertKV (k v : Nat) : List (Nat × Nat) → List (Nat × Nat)
  | [] => [(k, v)]
  | (k', v') :: r => if k' = k then (k, v) :: r else (k', v') :: insertKV k v r

def removeK (k : Nat) (m : List (Nat × Nat)) : List (Nat × Nat) :=
  m.filter (fun p => p.1 != k)

structure Impl where
  cap : Nat
  map : List (Nat × Nat)
  order : List Nat
  deriving Repr, DecidableEq

def Impl.new (cap : Nat) : Impl := { cap := cap, map := [], order := [] }

/-- `LruCache::get` -/
def Impl.get (s : Impl) (k : Nat) : Impl × Out :=
  match lookup k s.map with
  | some v => ({ s with order := k :: s.order.filter (· != k) }, .val v)
  | Option.none => (s, .none)

/-- `LruCache::put` -/
def Impl.put (s : Impl) (k v : Nat) : Impl :=
  if s.cap = 0 then s
  else
    let s1 : Impl :=
      if (lookup k s.map).isSome then { s with order := s.order.filter (· != k) }
      else if s.map.length ≥ s.cap then
        match s.order.getLast? with
        | some lru => { s with order := s.order.dropLast, map := removeK lru s.map }
        | Option.none => s
      else s
    { s1 with map := insertKV k v s1.map, order := k :: s1.order }

def Impl.step (s : Impl) : Op → Impl × Out
  | .get k => s.get k
  | .put k v => (s.put k v, .unit)
  | .clear => ({ s with map := [], order := [] }, .unit)
  | .len => (s, .size s.map.length)
  | .isEmpty => (s, .flag s.map.isEmpty)
  | .stats => (s, .stats s.map.length s.cap)

def Impl.run (s : Impl) : List Op → List Out
  | [] => []
  | op :: ops => let (s', o) := s.step op; o :: Impl.run s' ops

def Impl.final (s : Impl) : List Op → Impl
  | [] => s
  | op :: ops => Impl.final (s.step op).1 ops

/-! ### The abstract specification: a recency list truncated to the capacity. -/

structure Spec where
  cap : Nat
  items : List (Nat × Nat)     -- most recently used first
  deriving Repr, DecidableEq

def Spec.new (cap : Nat) : Spec := { cap := cap, items := [] }

def Spec.step (s : Spec) : Op → Spec × Out
  | .get k =>
    match lookup k s.items with
    | some v => ({ s with items := (k, v) :: removeK k s.items }, .val v)
    | Option.none => (s, .none)
  | .put k v =>
    if s.cap = 0 then (s, .unit)
    else ({ s with items := ((k, v) :: removeK k s.items).take s.cap }, .unit)
  | .clear => ({ s with items := [] }, .unit)
  | .len => (s, .size s.items.length)
  | .isEmpty => (s, .flag s.items.isEmpty)
  | .stats => (s, .stats s.items.length s.cap)

def Spec.run (s : Spec) : List Op → List Out
  | [] => []
  | op :: ops => let (s', o) := s.step op; o :: Spec.run s' ops

def Spec.final (s : Spec) : List Op → Spec
  | [] => s
  | op :: ops => Spec.final (s.step op).1 ops

/-- Abstraction map: walk `order`, look each key up in `map`. -/
def abs (s : Impl) : Spec :=
  { cap := s.cap,
    items := s.order.filterMap (fun k => (lookup k s.map).map (fun v => (k, v))) }

/-! ### What a lookup may return: the value most recently stored (history-level spec) -/

/-- the last value stored under each key since the last `clear` (evictions ignored) -/
def track (f : Nat → Option Nat) : Op → (Nat → Option Nat)
  | .put k v => fun k' => if k' = k then some v else f k'
  | .clear => fun _ => Option.none
  | _ => f

def lastStored (ops : List Op) : Nat → Option Nat := ops.foldl track (fun _ => Option.none)

/-- `MemoryManager::new(options).cache()`: no cache at all for `cache_size = 0`, otherwise an
`ObjectCache` of that capacity -/
def managerCache (cacheSize : Nat) : Option Impl :=
  if cacheSize > 0 then some (Impl.new cacheSize) else Option.none

/-! ### Linearisation search used only by the correspondence run (concurrent histories). -/

/-- Is there an interleaving of the per-thread histories such that the model reproduces
    every per-thread output and, afterwards, the outputs of the sequential `probe`?
    `fuel` = total number of ops. -/
def linearisable : Nat → Impl → List (List (Op × Out)) → List (Op × Out) → Bool
  | fuel, s, ths, probe =>
    if ths.all (·.isEmpty) then
      decide (Impl.run s (probe.map (·.1)) = probe.map (·.2))
    else
      match fuel with
      | 0 => false
      | fuel + 1 =>
        (List.range ths.length).any fun i =>
          match ths[i]? with
          | some ((op, o) :: rest) =>
            let (s', o') := s.step op
            if o' = o then linearisable fuel s' (ths.set i rest) probe else false
          | _ => false

end OxiVerif.C29
