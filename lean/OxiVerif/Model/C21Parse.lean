import OxiVerif.Spec.Syntax
/-!
# Model.C21Parse — `parser/content.rs`: `ContentTokenizer` and `ContentParser`, transcribed by hand

A copy (made for proof stability; the original is owned by the C01 builder) of
`Model/ContentTokenizer.lean`, restated over `Spec.Syntax.isDigit/allDigits/digitsVal` so that the
C09 digit lemmas apply, with `parse_operator` written as one `match` on the keyword bytes, and
extended by inline images (`BI … ID <raw> EI`, `read_inline_image_data`, `parse_inline_image`).

* `ContentTokenizer::next_token` and helpers (`skip_whitespace`, `skip_comment`, `read_number`,
  `read_literal_string`, `read_octal_escape`, `read_hex_string`, `read_name`, `decode_name`,
  `read_operator`, `read_inline_image_data`)
* `ContentParser::parse_content` (tokenise until `None` **or the first error — the tail is dropped
  silently**), `parse_operators` (an operator whose operands do not fit is skipped; the operand
  stack is cleared after every operator), `parse_operator`, the `pop_*` helpers, `parse_text_array`,
  `parse_dash_array`, `pop_dict_or_name`, `token_to_mc_value`, `parse_inline_image`.

Quirks kept: white space is {20,09,0D,0A,0C} (NUL is not); a comment runs to LF only; `; ) { }` at
token start are skipped by a self-call; a lone sign or period is an error that ends tokenisation;
integers are `i32`; `#` in a name skips the next two bytes whatever they are; names and operators
must be valid UTF-8; an unterminated literal string is accepted, an unterminated hex string is an
error.  Numbers keep their token text; the `f32` value is computed only when printing
(`Model/C21.lean` `decToF32`).
-/
namespace OxiVerif.C21
open OxiVerif.Spec.Syntax (isDigit allDigits digitsVal)

/-! ### small byte helpers (copies of `Model.Serializer` definitions, kept local so that this
property does not depend on a module another builder is editing) -/

/-- digits of `n`, most significant first (`u8`/`u32` `Display`) -/
def natDigitsAux : Nat → Nat → List Nat → List Nat
  | 0, n, acc => (48 + n % 10) :: acc
  | fuel + 1, n, acc =>
    if n < 10 then (48 + n) :: acc else natDigitsAux fuel (n / 10) ((48 + n % 10) :: acc)

def showNat (n : Nat) : List Nat := natDigitsAux n n []

/-- `{:02X}` -/
def hexDigitUpper (n : Nat) : Nat := if n < 10 then 48 + n else 55 + n

def hexBytesUpper : List Nat → List Nat
  | [] => []
  | b :: r => hexDigitUpper (b / 16 % 16) :: hexDigitUpper (b % 16) :: hexBytesUpper r

/-- `regular` in `escape_pdf_name_bytes` (writer/pdf_writer/mod.rs) -/
def nameRegular (b : Nat) : Bool :=
  (33 ≤ b && b ≤ 126) &&
    !(b == 40 || b == 41 || b == 60 || b == 62 || b == 91 || b == 93 || b == 123 || b == 125 ||
      b == 47 || b == 37 || b == 35)

/-- `escape_pdf_name_bytes`: regular bytes verbatim, every other byte as `#XX` -/
def escapeName : List Nat → List Nat
  | [] => []
  | b :: r =>
    if nameRegular b then b :: escapeName r
    else 35 :: hexDigitUpper (b / 16 % 16) :: hexDigitUpper (b % 16) :: escapeName r

def ltBytes : List Nat → List Nat → Bool
  | [], [] => false
  | [], _ :: _ => true
  | _ :: _, [] => false
  | a :: as, b :: bs => a < b || (a == b && ltBytes as bs)

inductive Token where
  /-- `Token::Number(f32)`: the token text -/
  | number (tok : List Nat)
  | integer (i : Int)
  | str (bs : List Nat)
  | hexStr (bs : List Nat)
  /-- the UTF-8 bytes of the `String` -/
  | name (bs : List Nat)
  | operator (bs : List Nat)
  | arrayStart
  | arrayEnd
  | dictStart
  | dictEnd
  | inlineData (bs : List Nat)
  deriving Repr, DecidableEq, Inhabited

inductive Step where
  | tok (t : Token) (rest : List Nat)
  | done
  | err
  deriving Repr, DecidableEq

def isWs (b : Nat) : Bool := b == 32 || b == 9 || b == 13 || b == 10 || b == 12

def isNameBreak (b : Nat) : Bool :=
  isWs b || b == 40 || b == 41 || b == 60 || b == 62 || b == 91 || b == 93 || b == 123 ||
  b == 125 || b == 47 || b == 37

def isOpBreak (b : Nat) : Bool := isNameBreak b || b == 59

def isOctal (b : Nat) : Bool := 48 ≤ b && b ≤ 55

def hexVal (b : Nat) : Option Nat :=
  if 48 ≤ b && b ≤ 57 then some (b - 48)
  else if 65 ≤ b && b ≤ 70 then some (b - 55)
  else if 97 ≤ b && b ≤ 102 then some (b - 87)
  else none

/-! ### `std::str::from_utf8` (std, trusted) -/

def isCont (b : Nat) : Bool := 128 ≤ b && b ≤ 191

def validUtf8 : List Nat → Bool
  | [] => true
  | b :: r =>
    if b < 128 then validUtf8 r
    else if 194 ≤ b && b ≤ 223 then
      match r with
      | c1 :: r1 => isCont c1 && validUtf8 r1
      | _ => false
    else if 224 ≤ b && b ≤ 239 then
      match r with
      | c1 :: c2 :: r2 =>
        isCont c1 && isCont c2 && (b != 224 || 160 ≤ c1) && (b != 237 || c1 ≤ 159) && validUtf8 r2
      | _ => false
    else if 240 ≤ b && b ≤ 244 then
      match r with
      | c1 :: c2 :: c3 :: r3 =>
        isCont c1 && isCont c2 && isCont c3 && (b != 240 || 144 ≤ c1) && (b != 244 || c1 ≤ 143) &&
          validUtf8 r3
      | _ => false
    else false

/-! ### numbers -/

/-- digits and at most one period: (chars, has_dot, rest) -/
def takeMantissa : Bool → List Nat → List Nat × Bool × List Nat
  | hd, [] => ([], hd, [])
  | hd, b :: r =>
    if isDigit b then
      let m := takeMantissa hd r
      (b :: m.1, m.2.1, m.2.2)
    else if b == 46 && !hd then
      let m := takeMantissa true r
      (b :: m.1, m.2.1, m.2.2)
    else ([], hd, b :: r)

def countDigits : List Nat → Nat
  | [] => 0
  | b :: r => (if isDigit b then 1 else 0) + countDigits r

def splitSign : List Nat → Bool × List Nat
  | 43 :: r => (false, r)
  | 45 :: r => (true, r)
  | l => (false, l)

/-- `str::parse::<i32>()` (std, trusted) -/
def parseI32 (s : List Nat) : Option Int :=
  let p := splitSign s
  if p.2.isEmpty || !allDigits p.2 then none
  else
    let n := digitsVal p.2 0
    if p.1 then (if n ≤ 2147483648 then some (- (Int.ofNat n)) else none)
    else (if n ≤ 2147483647 then some (Int.ofNat n) else none)

/-- `read_number`: a token without a period that does not fit `i32` is read as a real
    (`parse::<f32>` succeeds exactly when there is a digit) -/
def readNumber (inp : List Nat) : Step :=
  let sr : List Nat × List Nat :=
    match inp with
    | b :: r => if b == 43 || b == 45 then ([b], r) else ([], inp)
    | [] => ([], inp)
  let m := takeMantissa false sr.2
  let numStr := sr.1 ++ m.1
  if m.2.1 then
    (if countDigits m.1 > 0 then .tok (.number numStr) m.2.2 else .err)
  else
    match parseI32 numStr with
    | some i => .tok (.integer i) m.2.2
    | none => if countDigits m.1 > 0 then .tok (.number numStr) m.2.2 else .err

/-- `read_number` BEFORE the repair (integer tokens beyond `i32` were an error): kept for the
    regression statement `C21_old_witness_big_integer` -/
def readNumberOld (inp : List Nat) : Step :=
  let sr : List Nat × List Nat :=
    match inp with
    | b :: r => if b == 43 || b == 45 then ([b], r) else ([], inp)
    | [] => ([], inp)
  let m := takeMantissa false sr.2
  let numStr := sr.1 ++ m.1
  if m.2.1 then
    (if countDigits m.1 > 0 then .tok (.number numStr) m.2.2 else .err)
  else
    match parseI32 numStr with
    | some i => .tok (.integer i) m.2.2
    | none => .err

/-! ### strings -/

inductive LitSt where
  | normal
  | esc
  | oct1 (v : Nat)
  | oct2 (v : Nat)
  deriving Repr, DecidableEq

/-- `read_literal_string` after the `(`; `d` = `paren_depth - 1` -/
def readLit : Nat → LitSt → List Nat → List Nat × List Nat
  | _, .oct1 v, [] => ([v % 256], [])
  | _, .oct2 v, [] => ([v % 256], [])
  | _, _, [] => ([], [])
  | d, .esc, c :: r =>
    let cons (x : Nat) (t : List Nat × List Nat) : List Nat × List Nat := (x :: t.1, t.2)
    if c == 110 then cons 10 (readLit d .normal r)
    else if c == 114 then cons 13 (readLit d .normal r)
    else if c == 116 then cons 9 (readLit d .normal r)
    else if c == 98 then cons 8 (readLit d .normal r)
    else if c == 102 then cons 12 (readLit d .normal r)
    else if isOctal c then readLit d (.oct1 (c - 48)) r
    else cons c (readLit d .normal r)
  | d, st, b :: r =>
    let cons (x : Nat) (t : List Nat × List Nat) : List Nat × List Nat := (x :: t.1, t.2)
    let pending : Option Nat × Bool :=
      match st with
      | .oct1 v => if isOctal b then (none, true) else (some (v % 256), false)
      | .oct2 v => if isOctal b then (some ((v * 8 + (b - 48)) % 256), true) else (some (v % 256), false)
      | _ => (none, false)
    let out (t : List Nat × List Nat) : List Nat × List Nat :=
      match pending.1 with
      | some x => cons x t
      | none => t
    if pending.2 then
      match st with
      | .oct1 v => readLit d (.oct2 (v * 8 + (b - 48))) r
      | _ => out (readLit d .normal r)
    else if b == 92 then out (readLit d .esc r)
    else if b == 40 then out (cons 40 (readLit (d + 1) .normal r))
    else if b == 41 then
      (if d == 0 then out ([], r) else out (cons 41 (readLit (d - 1) .normal r)))
    else out (cons b (readLit d .normal r))

/-- `read_hex_string` after the `<` -/
def readHexStr : Option Nat → List Nat → Option (List Nat × List Nat)
  | _, [] => none
  | p, b :: r =>
    if b == 62 then
      match p with
      | some h => some ([h * 16], r)
      | none => some ([], r)
    else
      match hexVal b with
      | some v =>
        match p with
        | none => readHexStr (some v) r
        | some h =>
          match readHexStr none r with
          | some (s, rest) => some ((h * 16 + v) :: s, rest)
          | none => none
      | none => if isWs b then readHexStr p r else none

/-! ### names -/

def scanName : Nat → List Nat → List Nat × List Nat
  | _, [] => ([], [])
  | skip + 1, b :: r =>
    let t := scanName skip r
    (b :: t.1, t.2)
  | 0, b :: r =>
    if isNameBreak b then ([], b :: r)
    else
      let t := scanName (if b == 35 && 2 ≤ r.length then 2 else 0) r
      (b :: t.1, t.2)

def hexPair (h1 h2 : Nat) : Option Nat :=
  if h1 == 43 then hexVal h2
  else
    match hexVal h1, hexVal h2 with
    | some a, some c => some (a * 16 + c)
    | _, _ => none

inductive DecSt where
  | plain
  | h1
  | h2 (a : Nat)
  deriving Repr, DecidableEq

def decodeName : DecSt → List Nat → Option (List Nat)
  | .plain, [] => some []
  | _, [] => none
  | .plain, b :: r =>
    if b == 35 && 2 ≤ r.length then decodeName .h1 r
    else (decodeName .plain r).map (b :: ·)
  | .h1, b :: r => decodeName (.h2 b) r
  | .h2 a, b :: r =>
    match hexPair a b with
    | some v => (decodeName .plain r).map (v :: ·)
    | none => none

def readName (inp : List Nat) : Step :=
  let s := scanName 0 inp
  match decodeName .plain s.1 with
  | some bs => if validUtf8 bs then .tok (.name bs) s.2 else .err
  | none => .err

def scanOp : List Nat → List Nat × List Nat
  | [] => ([], [])
  | b :: r =>
    if isOpBreak b then ([], b :: r)
    else
      let t := scanOp r
      (b :: t.1, t.2)

/-! ### `next_token` -/

def nextTok : Bool → List Nat → Step
  | _, [] => .done
  | true, b :: r => if b == 10 then nextTok false r else nextTok true r
  | false, b :: r =>
    if isWs b then nextTok false r
    else if b == 37 then nextTok true r
    else if b == 43 || b == 45 || b == 46 || isDigit b then readNumber (b :: r)
    else if b == 40 then
      let t := readLit 0 .normal r
      .tok (.str t.1) t.2
    else if b == 60 then
      match r with
      | 60 :: r' => .tok .dictStart r'
      | _ =>
        match readHexStr none r with
        | some (s, rest) => .tok (.hexStr s) rest
        | none => .err
    else if b == 62 then
      match r with
      | 62 :: r' => .tok .dictEnd r'
      | _ => .err
    else if b == 91 then .tok .arrayStart r
    else if b == 93 then .tok .arrayEnd r
    else if b == 47 then readName r
    else if b == 59 || b == 41 || b == 123 || b == 125 then nextTok false r
    else
      let t := scanOp (b :: r)
      if validUtf8 t.1 then .tok (.operator t.1) t.2 else .err

def nextToken (inp : List Nat) : Step := nextTok false inp

/-! ### inline image data (`read_inline_image_data`) -/

def isEiBoundary (b : Nat) : Bool :=
  isWs b || b == 47 || b == 60 || b == 40 || b == 91 || b == 37

/-- the scan for `EI`: `prevWs` = at `start` or the previous byte is white space; `acc` = data so
    far (reversed).  Returns (data, rest after `EI`). -/
def scanEI : Bool → List Nat → List Nat → List Nat × List Nat
  | _, acc, [] => (acc.reverse, [])
  | _, acc, [b] => ((b :: acc).reverse, [])
  | prevWs, acc, b :: c :: r =>
    let boundary : Bool := match r with
      | [] => true
      | x :: _ => isEiBoundary x
    if prevWs && b == 69 && c == 73 && boundary then
      -- trim one trailing white-space byte of the data
      let acc' := match acc with
        | w :: a => if isWs w then a else acc
        | [] => acc
      (acc'.reverse, r)
    else scanEI (isWs b) (b :: acc) (c :: r)

def readInlineData (inp : List Nat) : List Nat × List Nat :=
  let inp' : List Nat :=
    match inp with
    | 13 :: 10 :: r => r
    | b :: r => if b == 32 || b == 10 || b == 13 || b == 9 then r else inp
    | [] => inp
  scanEI true [] inp'

/-- the tokenising loop of `parse_content`: all tokens up to `Ok(None)` or the first `Err` -/
def tokenize : Nat → List Nat → List Token
  | 0, _ => []
  | fuel + 1, inp =>
    match nextToken inp with
    | .done => []
    | .err => []
    | .tok t rest =>
      if t == .operator [73, 68] then
        let d := readInlineData rest
        t :: .inlineData d.1 :: tokenize fuel d.2
      else t :: tokenize fuel rest

/-! ## `ContentParser` -/

inductive McValue where
  | str (bs : List Nat)
  | int (i : Int)
  | real (tok : List Nat)
  | name (bs : List Nat)
  | arr (xs : List McValue)
  | dict (kvs : List (List Nat × McValue))
  deriving Repr, Inhabited

inductive Arg where
  /-- an `f32` that came from `Token::Number` (token text) -/
  | num (tok : List Nat)
  /-- an `f32` that came from `Token::Integer` (`i as f32`) -/
  | numI (i : Int)
  | int (i : Int)
  | name (bs : List Nat)
  | str (bs : List Nat)
  | nums (xs : List Arg)
  | textArr (xs : List Arg)
  | propsRef (bs : List Nat)
  | propsInline (kvs : List (List Nat × McValue))
  /-- inline image parameters: (expanded key, value token) -/
  | inlineParams (kvs : List (List Nat × Token))
  deriving Repr, Inhabited

structure Parsed where
  kw : List Nat
  args : List Arg
  deriving Repr, Inhabited

/-- the operand stack: top of the stack first -/
abbrev Stack := List Token

def popNumber : Stack → Option (Arg × Stack)
  | .number t :: r => some (.num t, r)
  | .integer i :: r => some (.numI i, r)
  | _ => none

def popInteger : Stack → Option (Arg × Stack)
  | .integer i :: r => some (.int i, r)
  | _ => none

def popName : Stack → Option (List Nat × Stack)
  | .name n :: r => some (n, r)
  | _ => none

def popString : Stack → Option (Arg × Stack)
  | .str s :: r => some (.str s, r)
  | .hexStr s :: r => some (.str s, r)
  | _ => none

/-- pop `n` numbers; the result lists them in source order -/
def popNumbers : Nat → Stack → Option (List Arg × Stack)
  | 0, s => some ([], s)
  | n + 1, s =>
    match popNumber s with
    | none => none
    | some (a, s') =>
      match popNumbers n s' with
      | none => none
      | some (as, s'') => some (as ++ [a], s'')

def popArrayLoop : Stack → Option (List Token × Stack)
  | [] => none
  | .arrayStart :: r => some ([], r)
  | .arrayEnd :: r => popArrayLoop r
  | t :: r =>
    match popArrayLoop r with
    | some (ts, r') => some (t :: ts, r')
    | none => none

def popArray (s : Stack) : Option (List Token × Stack) :=
  let s' := match s with
    | .arrayEnd :: r => r
    | l => l
  match popArrayLoop s' with
  | some (ts, r) => some (ts.reverse, r)
  | none => none

def textArray : List Token → Option (List Arg)
  | [] => some []
  | .str s :: r => (textArray r).map (.str s :: ·)
  | .hexStr s :: r => (textArray r).map (.str s :: ·)
  | .number t :: r => (textArray r).map (.num t :: ·)
  | .integer i :: r => (textArray r).map (.numI i :: ·)
  | _ => none

def dashArray : List Token → Option (List Arg)
  | [] => some []
  | .number t :: r => (dashArray r).map (.num t :: ·)
  | .integer i :: r => (dashArray r).map (.numI i :: ·)
  | _ => none

def popColorComponents : Stack → List Arg → List Arg × Stack
  | .number t :: r, acc => popColorComponents r (.num t :: acc)
  | .integer i :: r, acc => popColorComponents r (.numI i :: acc)
  | s, acc => (acc, s)

mutual
def mcValue : Nat → Token → Stack → Option (McValue × Stack)
  | 0, _, _ => none
  | fuel + 1, tok, s =>
    match tok with
    | .str b => some (.str b, s)
    | .hexStr b => some (.str b, s)
    | .integer i => some (.int i, s)
    | .number t => some (.real t, s)
    | .name n => some (.name n, s)
    | .arrayEnd =>
      match mcArrayItems fuel s with
      | some (items, s') => some (.arr items.reverse, s')
      | none => none
    | .dictEnd =>
      match mcDictItems fuel s with
      | some (kvs, s') => some (.dict kvs, s')
      | none => none
    | _ => none
def mcArrayItems : Nat → Stack → Option (List McValue × Stack)
  | 0, _ => none
  | _, [] => none
  | fuel + 1, t :: r =>
    if t == .arrayStart then some ([], r)
    else
      match mcValue fuel t r with
      | none => none
      | some (v, r') =>
        match mcArrayItems fuel r' with
        | some (vs, r'') => some (v :: vs, r'')
        | none => none
def mcDictItems : Nat → Stack → Option (List (List Nat × McValue) × Stack)
  | 0, _ => none
  | _, [] => none
  | fuel + 1, t :: r =>
    if t == .dictStart then some ([], r)
    else
      match mcValue fuel t r with
      | none => none
      | some (v, r') =>
        match r' with
        | .name k :: r'' =>
          match mcDictItems fuel r'' with
          | some (kvs, r''') => some ((k, v) :: kvs, r''')
          | none => none
        | _ => none
end

def popDictOrName (s : Stack) : Option (Arg × Stack) :=
  match s with
  | .name n :: r => some (.propsRef n, r)
  | .dictEnd :: r =>
    match mcDictItems (2 * r.length + 2) r with
    | some (kvs, r') => some (.propsInline kvs, r')
    | none => none
  | _ => none

/-- `n` numbers popped, keyword `k` -/
def numOp (k : List Nat) (n : Nat) (s : Stack) : Option Parsed :=
  match popNumbers n s with
  | some (as, _) => some ⟨k, as⟩
  | none => none

def nameOp (k : List Nat) (s : Stack) : Option Parsed :=
  match popName s with
  | some (n, _) => some ⟨k, [.name n]⟩
  | none => none

def intOp (k : List Nat) (s : Stack) : Option Parsed :=
  match popInteger s with
  | some (a, _) => some ⟨k, [a]⟩
  | none => none

def strOp (k : List Nat) (s : Stack) : Option Parsed :=
  match popString s with
  | some (a, _) => some ⟨k, [a]⟩
  | none => none

def propsOp (k : List Nat) (s : Stack) : Option Parsed :=
  match popDictOrName s with
  | some (props, s1) =>
    (match popName s1 with
     | some (tag, _) => some ⟨k, [.name tag, props]⟩
     | none => none)
  | none => none

/-- `parse_operator(op, operands)` for every operator except `BI` (keywords as byte lists);
    `none` = `Err`: the operator is skipped -/
def parseOp (op : List Nat) (s : Stack) : Option Parsed :=
  match op with
  | [66, 84] => some ⟨[66, 84], []⟩                  -- BT
  | [69, 84] => some ⟨[69, 84], []⟩                  -- ET
  | [84, 99] => (numOp [84, 99] 1 s)          -- Tc
  | [84, 119] => (numOp [84, 119] 1 s)        -- Tw
  | [84, 122] => (numOp [84, 122] 1 s)        -- Tz
  | [84, 76] => (numOp [84, 76] 1 s)          -- TL
  | [84, 102] =>                                    -- Tf
    (match popNumber s with
     | some (size, s') =>
       (match popName s' with
        | some (n, _) => some ⟨[84, 102], [.name n, size]⟩
        | none => none)
     | none => none)
  | [84, 114] => (intOp [84, 114] s)          -- Tr
  | [84, 115] => (numOp [84, 115] 1 s)        -- Ts
  | [84, 100] => (numOp [84, 100] 2 s)        -- Td
  | [84, 68] => (numOp [84, 68] 2 s)          -- TD
  | [84, 109] => (numOp [84, 109] 6 s)        -- Tm
  | [84, 42] => some ⟨[84, 42], []⟩                  -- T*
  | [84, 106] => (strOp [84, 106] s)          -- Tj
  | [84, 74] =>                                     -- TJ
    (match popArray s with
     | some (ts, _) =>
       (match textArray ts with
        | some es => some ⟨[84, 74], [.textArr es]⟩
        | none => none)
     | none => none)
  | [39] => (strOp [39] s)                    -- '
  | [34] =>                                         -- "
    (match popString s with
     | some (t, s1) =>
       (match popNumber s1 with
        | some (ac, s2) =>
          (match popNumber s2 with
           | some (aw, _) => some ⟨[34], [aw, ac, t]⟩
           | none => none)
        | none => none)
     | none => none)
  | [113] => some ⟨[113], []⟩                        -- q
  | [81] => some ⟨[81], []⟩                          -- Q
  | [99, 109] => (numOp [99, 109] 6 s)        -- cm
  | [119] => (numOp [119] 1 s)                -- w
  | [74] => (intOp [74] s)                    -- J
  | [106] => (intOp [106] s)                  -- j
  | [77] => (numOp [77] 1 s)                  -- M
  | [100] =>                                        -- d
    (match popNumber s with
     | some (phase, s1) =>
       (match popArray s1 with
        | some (ts, _) =>
          (match dashArray ts with
           | some es => some ⟨[100], [.nums es, phase]⟩
           | none => none)
        | none => none)
     | none => none)
  | [114, 105] => (nameOp [114, 105] s)       -- ri
  | [105] => (numOp [105] 1 s)                -- i
  | [103, 115] => (nameOp [103, 115] s)       -- gs
  | [109] => (numOp [109] 2 s)                -- m
  | [108] => (numOp [108] 2 s)                -- l
  | [99] => (numOp [99] 6 s)                  -- c
  | [118] => (numOp [118] 4 s)                -- v
  | [121] => (numOp [121] 4 s)                -- y
  | [104] => some ⟨[104], []⟩                        -- h
  | [114, 101] => (numOp [114, 101] 4 s)      -- re
  | [83] => some ⟨[83], []⟩                          -- S
  | [115] => some ⟨[115], []⟩                        -- s
  | [102] => some ⟨[102], []⟩                        -- f
  | [70] => some ⟨[102], []⟩                         -- F = Fill
  | [102, 42] => some ⟨[102, 42], []⟩                -- f*
  | [66] => some ⟨[66], []⟩                          -- B
  | [66, 42] => some ⟨[66, 42], []⟩                  -- B*
  | [98] => some ⟨[98], []⟩                          -- b
  | [98, 42] => some ⟨[98, 42], []⟩                  -- b*
  | [110] => some ⟨[110], []⟩                        -- n
  | [87] => some ⟨[87], []⟩                          -- W
  | [87, 42] => some ⟨[87, 42], []⟩                  -- W*
  | [67, 83] => (nameOp [67, 83] s)           -- CS
  | [99, 115] => (nameOp [99, 115] s)         -- cs
  | [83, 67] => some ⟨[83, 67], [.nums (popColorComponents s []).1]⟩          -- SC
  | [83, 67, 78] => some ⟨[83, 67], [.nums (popColorComponents s []).1]⟩      -- SCN
  | [115, 99] => some ⟨[115, 99], [.nums (popColorComponents s []).1]⟩        -- sc
  | [115, 99, 110] => some ⟨[115, 99], [.nums (popColorComponents s []).1]⟩   -- scn
  | [71] => (numOp [71] 1 s)                  -- G
  | [103] => (numOp [103] 1 s)                -- g
  | [82, 71] => (numOp [82, 71] 3 s)          -- RG
  | [114, 103] => (numOp [114, 103] 3 s)      -- rg
  | [75] => (numOp [75] 4 s)                  -- K
  | [107] => (numOp [107] 4 s)                -- k
  | [115, 104] => (nameOp [115, 104] s)       -- sh
  | [68, 111] => (nameOp [68, 111] s)         -- Do
  | [66, 77, 67] => (nameOp [66, 77, 67] s)   -- BMC
  | [66, 68, 67] => (propsOp [66, 68, 67] s)  -- BDC
  | [69, 77, 67] => some ⟨[69, 77, 67], []⟩          -- EMC
  | [77, 80] => (nameOp [77, 80] s)           -- MP
  | [68, 80] => (propsOp [68, 80] s)          -- DP
  | [66, 88] => some ⟨[66, 88], []⟩                  -- BX
  | [69, 88] => some ⟨[69, 88], []⟩                  -- EX
  | _ => none

def kBI : List Nat := [66, 73]

/-! ### inline images (`parse_inline_image`) -/

/-- `expand_inline_key` -/
def expandInlineKey (k : List Nat) : List Nat :=
  match k with
  | [87] => [87, 105, 100, 116, 104]                                   -- W → Width
  | [72] => [72, 101, 105, 103, 104, 116]                              -- H → Height
  | [67, 83] => [67, 111, 108, 111, 114, 83, 112, 97, 99, 101]         -- CS → ColorSpace
  | [66, 80, 67] => [66, 105, 116, 115, 80, 101, 114, 67, 111, 109, 112, 111, 110, 101, 110, 116]
  | [70] => [70, 105, 108, 116, 101, 114]                              -- F → Filter
  | [68, 80] => [68, 101, 99, 111, 100, 101, 80, 97, 114, 109, 115]    -- DP → DecodeParms
  | [73, 77] => [73, 109, 97, 103, 101, 77, 97, 115, 107]              -- IM → ImageMask
  | [73] => [73, 110, 116, 101, 114, 112, 111, 108, 97, 116, 101]      -- I → Interpolate
  | [68] => [68, 101, 99, 111, 100, 101]                               -- D → Decode
  | k => k

/-- `expand_inline_name` -/
def expandInlineName (n : List Nat) : List Nat :=
  match n with
  | [71] => [68, 101, 118, 105, 99, 101, 71, 114, 97, 121]
  | [82, 71, 66] => [68, 101, 118, 105, 99, 101, 82, 71, 66]
  | [67, 77, 89, 75] => [68, 101, 118, 105, 99, 101, 67, 77, 89, 75]
  | [73] => [73, 110, 100, 101, 120, 101, 100]
  | [65, 72, 120] => [65, 83, 67, 73, 73, 72, 101, 120, 68, 101, 99, 111, 100, 101]
  | [65, 56, 53] => [65, 83, 67, 73, 73, 56, 53, 68, 101, 99, 111, 100, 101]
  | [76, 90, 87] => [76, 90, 87, 68, 101, 99, 111, 100, 101]
  | [70, 108] => [70, 108, 97, 116, 101, 68, 101, 99, 111, 100, 101]
  | [82, 76] => [82, 117, 110, 76, 101, 110, 103, 116, 104, 68, 101, 99, 111, 100, 101]
  | [68, 67, 84] => [68, 67, 84, 68, 101, 99, 111, 100, 101]
  | [67, 67, 70] => [67, 67, 73, 84, 84, 70, 97, 120, 68, 101, 99, 111, 100, 101]
  | n => n

/-- the parameter loop: returns (params in insertion order, remaining tokens after `ID`) -/
def inlineParams : List Token → List (List Nat × Token) × List Token
  | [] => ([], [])
  | .operator [73, 68] :: r => ([], r)
  | .name k :: [] => ([], [])
  | .name k :: v :: r =>
    let t := inlineParams r
    ((expandInlineKey k, v) :: t.1, t.2)
  | _ :: r => inlineParams r

/-- fallback `collect_inline_image_data_from_tokens`: tokens until an `EI` operator.  Numbers are
    re-printed by Rust's float `Display`, which the model does not have: `none` = not modelled. -/
def collectInline : List Token → Option (List Nat × List Token)
  | [] => some ([], [])
  | .operator [69, 73] :: r => some ([], r)
  | .str b :: r => (collectInline r).map fun t => (b ++ t.1, t.2)
  | .hexStr b :: r => (collectInline r).map fun t => (b ++ t.1, t.2)
  | .name b :: r => (collectInline r).map fun t => (b ++ t.1, t.2)
  | .operator b :: r => (collectInline r).map fun t => (b ++ t.1, t.2)
  | .integer _ :: _ => none
  | .number _ :: _ => none
  | _ :: r => collectInline r

/-- `parse_operators` (`stack` = operand stack, top first; `fuel` ≥ number of tokens).
    `none` = a path that is not modelled (inline-image fallback with numbers). -/
def parseOperators : Nat → List Token → Stack → Option (List Parsed)
  | 0, _, _ => some []
  | _, [], _ => some []
  | fuel + 1, .operator op :: r, stack =>
    if op == kBI then
      -- `BI`: `parse_inline_image` works on the token stream
      let ps := inlineParams r
      match ps.2 with
      | .inlineData d :: r' =>
        (parseOperators fuel r' []).map (⟨[66, 73], [.inlineParams ps.1, .str d]⟩ :: ·)
      | [] => some [⟨[66, 73], [.inlineParams ps.1, .str []]⟩]
      | r' =>
        match collectInline r' with
        | some (d, r'') =>
          (parseOperators fuel r'' []).map (⟨[66, 73], [.inlineParams ps.1, .str d]⟩ :: ·)
        | none => none
    else
      match parseOp op stack with
      | some p => (parseOperators fuel r []).map (p :: ·)
      | none => parseOperators fuel r []
  | fuel + 1, t :: r, stack => parseOperators fuel r (t :: stack)

/-- `ContentParser::parse` / `parse_content` -/
def parseContent (content : List Nat) : Option (List Parsed) :=
  let ts := tokenize (content.length + 1) content
  parseOperators (ts.length + 1) ts []

end OxiVerif.C21
