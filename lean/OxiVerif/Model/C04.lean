/-
C04 — model of the cross-reference merge and of object resolution in
`oxidize-pdf-core/src/parser/{xref.rs, reader.rs, object_stream.rs}`.

Transcription (abstracting bytes to a *plan*: the sections' entries in file order and the list of
physical objects; an in-use entry's "offset" is the index of the physical object it points at):

  * `XRefTable { entries : HashMap<u32,XRefEntry>, extended_entries : HashMap<u32,XRefEntryExt> }`
        ↦ `Table { entries : Map Basic, ext : Map (Nat × Nat) }`, `Map α := Nat → Option α`
  * `HashMap::insert`                         ↦ `Map.insert`
  * `for (k,v) in t { m.entry(k).or_insert(v) }` ↦ `Map.orMerge m t`   (keys of `t` are distinct, so
                                                   the iteration order of the HashMap is irrelevant)
  * `parse_primary_with_options` / `parse_traditional_xref_with_options` (entry insertion)
        ↦ `insertEnt`, `secTable`: free / in-use entries go to `entries`; a type-2 entry goes to
          `ext` AND (as a dummy `{0,0,in_use}`) to `entries`
  * `parse_with_incremental_updates_options` (newest-first walk of /Prev)  ↦ `merge`
        (`mergeOld` = the loop before the repair of C04-F1, kept for the regression witnesses)
  * `add_headers_latest_wins`                 ↦ `addHeadersLatestWins`
  * `PdfReader::load_object_from_disk` + `get_compressed_object` + `ObjectStream::{parse,get_object}`
        ↦ `load` (strict syntax, i.e. `lenient_syntax = false`: `ParseOptions::strict()` and
          `PdfReader::new`)
  * `is_reconstructible_object`               ↦ `magic`
Import-free.
-/
namespace OxiVerif.C04

/-- one cross-reference entry as written in a section -/
inductive Ent where
  | free (next gen : Nat)
  | inuse (off gen : Nat)
  | comp (stm idx : Nat)
  deriving Repr, DecidableEq, Inhabited

/-- entries of one section, file order -/
abbrev Sect := List (Nat × Ent)

/-- `XRefEntry` -/
structure Basic where
  off : Nat
  gen : Nat
  inUse : Bool
  deriving Repr, DecidableEq, Inhabited

abbrev Map (α : Type) := Nat → Option α

def Map.empty {α} : Map α := fun _ => none

/-- `HashMap::insert` -/
def Map.insert {α} (m : Map α) (k : Nat) (v : α) : Map α :=
  fun j => if j = k then some v else m j

/-- `for (k,v) in t { m.entry(k).or_insert(v); }` -/
def Map.orMerge {α} (m t : Map α) : Map α :=
  fun j => match m j with
    | some v => some v
    | none => t j

structure Table where
  entries : Map Basic
  ext : Map (Nat × Nat)

def Table.empty : Table := ⟨Map.empty, Map.empty⟩

/-- one entry of a section inserted into the per-section table (`parse_primary_with_options`,
    `parse_traditional_xref_with_options`) -/
def insertEnt (t : Table) (n : Nat) : Ent → Table
  | .free next gen => { t with entries := t.entries.insert n ⟨next, gen, false⟩ }
  | .inuse off gen => { t with entries := t.entries.insert n ⟨off, gen, true⟩ }
  | .comp stm idx =>
    { entries := t.entries.insert n ⟨0, 0, true⟩, ext := t.ext.insert n (stm, idx) }

def secTable (s : Sect) : Table :=
  s.foldl (fun t p => insertEnt t p.1 p.2) Table.empty

/-- loop body of `parse_with_incremental_updates_options` (since /repo `fix: a newer
    cross-reference section settles an object number across both xref maps`): the extended entries
    of the older section `t` are taken FIRST and only for numbers that no newer section mentions
    (`!merged_table.entries.contains_key(&obj_num)` — every type-2 entry leaves its dummy in
    `entries`, so `m.entries` knows every number a newer section mentioned); then `entries` is
    merged with `or_insert` -/
def mergeInto (m t : Table) : Table :=
  ⟨m.entries.orMerge t.entries,
   fun j => if (m.entries j).isSome then m.ext j else (m.ext.orMerge t.ext) j⟩

/-- `parse_with_incremental_updates_options`; `chain` is newest first (the order of the walk) -/
def merge (chain : List Sect) : Table :=
  chain.foldl (fun m s => mergeInto m (secTable s)) Table.empty

/-- the loop body BEFORE the repair: both maps merged with `or_insert`, independently of each
    other (kept as the regression the check must catch: C04-F1) -/
def mergeIntoOld (m t : Table) : Table :=
  ⟨m.entries.orMerge t.entries, m.ext.orMerge t.ext⟩

def mergeOld (chain : List Sect) : Table :=
  chain.foldl (fun m s => mergeIntoOld m (secTable s)) Table.empty

/-- what `load_object_from_disk` dispatches on for object `n`: the extended (compressed) entry is
    consulted BEFORE the plain entry -/
def Table.lookup (t : Table) (n : Nat) : Option Ent :=
  match t.ext n with
  | some (s, i) => some (.comp s i)
  | none =>
    match t.entries n with
    | some b => some (if b.inUse then .inuse b.off b.gen else .free b.off b.gen)
    | none => none

/-! ### recovery -/

/-- `ObjHeader` -/
structure Header where
  num : Nat
  gen : Nat
  off : Nat
  deriving Repr, DecidableEq

/-- first loop of `add_headers_latest_wins` (`latest.insert(h.obj_num, h)`) -/
def latestOf (hs : List Header) : Map Header :=
  hs.foldl (fun m h => m.insert h.num h) Map.empty

/-- `add_headers_latest_wins` -/
def addHeadersLatestWins (t : Table) (hs : List Header) (checkExt : Bool) : Table :=
  { t with entries := fun k =>
      match latestOf hs k with
      | some h =>
        if (t.entries k).isSome || (checkExt && (t.ext k).isSome) then t.entries k
        else some ⟨h.off, h.gen, true⟩
      | none => t.entries k }

/-! ### the file plan and object loading -/

inductive Body where
  | val (v : Nat)
  | objstm (items : List (Nat × Nat))
  | xrefstm
  deriving Repr, DecidableEq

/-- a top-level `N G obj … endobj` -/
structure Phys where
  num : Nat
  gen : Nat
  body : Body
  deriving Repr, DecidableEq

inductive ErrC where
  | ref | syn | key
  deriving Repr, DecidableEq

inductive Res where
  | null
  | val (v : Nat)
  | stream (items : Option (List (Nat × Nat)))   -- `some` = an object stream, `none` = another stream
  | err (c : ErrC)
  | manual                                        -- whole-file text search (outside the model)
  deriving Repr, DecidableEq

def bodyRes : Body → Res
  | .val v => .val v
  | .objstm items => .stream (some items)
  | .xrefstm => .stream none

/-- `ObjectStream::parse_objects` stores `objects.insert(num, obj)` in order: the last pair wins;
    `get_object(num)` looks the NUMBER up (the index of the xref entry is ignored) -/
def lookupLast (items : List (Nat × Nat)) (n : Nat) : Option Nat :=
  items.foldl (fun acc p => if p.1 = n then some p.2 else acc) none

/-- `is_reconstructible_object`: the hard-wired list is every number 1..114 except 103 and 112 -/
def magic (n : Nat) : Bool := 1 ≤ n && n ≤ 114 && n != 103 && n != 112

/-- `load_object_from_disk` (fuel bounds the nesting of object streams inside object streams;
    the real code cuts cycles through `objects_being_reconstructed`, which also ends in
    "Object N is not a stream") -/
def load (t : Table) (ph : List Phys) : Nat → Nat → Nat → Res
  | 0, _, _ => .err .syn
  | fuel + 1, n, g =>
    match t.ext n with
    | some (stm, _idx) =>
      -- get_compressed_object
      match load t ph fuel stm 0 with
      | .err c => .err c
      | .manual => .manual
      | .stream (some items) =>
        match lookupLast items n with
        | some v => .val v
        | none => .err .syn            -- "Object n not found in object stream"
      | .stream none => .err .key      -- ObjectStream::parse: MissingKey("N")
      | _ => .err .syn                 -- "Object stm is not a stream"
    | none =>
      match t.entries n with
      | some b =>
        if !b.inUse then .null
        else if b.gen ≠ g then .err .ref
        else
          match ph[b.off]? with
          | some p => if p.num ≠ n then .err .syn else bodyRes p.body
          | none => .err .syn
      | none =>
        if magic n then (if ph.any (·.num = n) then .manual else .null) else .err .ref

/-! ### specification side (ISO 32000-1 §7.5.6: the newest section that mentions a number decides) -/

/-- the entry for `n` in one section (the last one, should a malformed section repeat a number) -/
def lastOf : Sect → Nat → Option Ent
  | [], _ => none
  | (k, e) :: r, n =>
    match lastOf r n with
    | some x => some x
    | none => if k = n then some e else none

/-- the last *compressed* entry for `n` in one section -/
def lastComp : Sect → Nat → Option (Nat × Nat)
  | [], _ => none
  | (k, e) :: r, n =>
    match lastComp r n with
    | some x => some x
    | none =>
      if k = n then
        (match e with
         | .comp a b => some (a, b)
         | _ => none)
      else none

/-- `newest chain n` = the entry for `n` in the first (newest) section that mentions `n` -/
def newest : List Sect → Nat → Option Ent
  | [], _ => none
  | s :: rest, n =>
    match lastOf s n with
    | some e => some e
    | none => newest rest n

def firstComp : List Sect → Nat → Option (Nat × Nat)
  | [], _ => none
  | s :: rest, n =>
    match lastComp s n with
    | some c => some c
    | none => firstComp rest n

/-- spec-level resolution outcome; `illformed` = the plan itself is not a valid file for that
    number (dangling offset, index that does not name the object, …): the property is silent -/
inductive SRes where
  | null
  | val (v : Nat)
  | stream (items : Option (List (Nat × Nat)))
  | absent
  | genMismatch
  | illformed
  deriving Repr, DecidableEq

def specResolve (chain : List Sect) (ph : List Phys) : Nat → Nat → Nat → SRes
  | 0, _, _ => .illformed
  | fuel + 1, n, g =>
    match newest chain n with
    | none => .absent
    | some (.free _ _) => .null
    | some (.inuse off gen) =>
      if gen ≠ g then .genMismatch
      else match ph[off]? with
        | some p =>
          if p.num ≠ n then .illformed
          else match p.body with
            | .val v => .val v
            | .objstm items => .stream (some items)
            | .xrefstm => .stream none
        | none => .illformed
    | some (.comp stm idx) =>
      match specResolve chain ph fuel stm 0 with
      | .stream (some items) =>
        match items[idx]? with
        | some (m, v) => if m = n ∧ lookupLast items n = some v then .val v else .illformed
        | none => .illformed
      | _ => .illformed

/-! ### hybrid-reference revisions (ISO 32000-1 §7.5.8.4), specification side

A revision may consist of a classic table whose trailer names a cross-reference stream
(`/XRefStm`).  A reader that knows cross-reference streams looks a number up in the table first;
what the table does not list in use is looked up in the `/XRefStm` stream BEFORE the `/Prev`
section; objects hidden from old readers are absent from the table or listed there as free.
`hybridSect tab stm` is the one section such a revision amounts to. -/

def Ent.isInuse : Ent → Bool
  | .inuse _ _ => true
  | _ => false

def hybridSect (tab stm : Sect) : Sect :=
  let inTab := tab.filter (fun p => p.2.isInuse)
  let fromStm := stm.filter (fun p => !(inTab.any (fun q => q.1 = p.1)))
  let freeTab := tab.filter (fun p => !p.2.isInuse && !(stm.any (fun q => q.1 = p.1)))
  inTab ++ fromStm ++ freeTab

/-- the code (since /repo `fix: follow /XRefStm of hybrid-reference files …`): after the classic
    table is parsed, the stream at `/XRefStm` is parsed and each of its entries is inserted into the
    section's table unless the table holds an IN-USE entry for that number
    (`table.entries.get(&n).is_some_and(|e| e.in_use)`) — i.e. appended after the table's entries -/
def notInuseIn (tab : Sect) (k : Nat) : Bool :=
  match lastOf tab k with
  | some (.inuse _ _) => false
  | _ => true

def hybridSectImpl (tab stm : Sect) : Sect :=
  tab ++ stm.filter (fun p => notInuseIn tab p.1)

/-- before that repair nothing read the trailer's `/XRefStm` key: the revision was its classic
    table alone (regression C04-F3) -/
def hybridSectImplOld (tab _stm : Sect) : Sect := tab

/-- `parse_with_incremental_updates_options`, the walk itself: `prevOf i` = the section `/Prev` of
    section `i` names; `visited_offsets` stops the walk at the first section seen twice.
    Result: the sections in the order they are merged (newest first). -/
def walkPrev (prevOf : Nat → Option Nat) : Nat → Nat → List Nat → List Nat
  | 0, _, _ => []
  | fuel + 1, cur, visited =>
    if visited.contains cur then []
    else cur :: (match prevOf cur with
      | some p => walkPrev prevOf fuel p (cur :: visited)
      | none => [])

/-- headers the recovery scan sees for a plan: every physical object, file order -/
def headersOf (ph : List Phys) : List Header :=
  (List.range ph.length).filterMap fun i =>
    match ph[i]? with
    | some p => some ⟨p.num, p.gen, i⟩
    | none => none

/-- the compressed entry the merged table keeps for `n`: the one of the newest section that
    mentions `n` at all (closed form of `(merge chain).ext`) -/
def extOf : List Sect → Nat → Option (Nat × Nat)
  | [], _ => none
  | s :: rest, n =>
    match lastOf s n with
    | some _ => lastComp s n
    | none => extOf rest n

/-- the newest section that mentions `n` -/
def newestSect : List Sect → Nat → Option Sect
  | [], _ => none
  | s :: rest, n =>
    match lastOf s n with
    | some _ => some s
    | none => newestSect rest n

/-- `n` is listed at most once in the section (ISO 32000-1 §7.5.4: a cross-reference section
    holds one entry per object number; subsections / `/Index` ranges do not overlap) -/
def ListedOnce (s : Sect) (n : Nat) : Prop := (s.filter (fun p => p.1 = n)).length ≤ 1

instance (s : Sect) (n : Nat) : Decidable (ListedOnce s n) := by
  unfold ListedOnce; exact inferInstance

/-- every section of the chain lists every number at most once -/
def SectionsValid (chain : List Sect) : Prop := ∀ s ∈ chain, ∀ m, ListedOnce s m

end OxiVerif.C04
