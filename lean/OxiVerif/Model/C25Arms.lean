/-
C25 — the fixed interpreter of the generated encoding tables.

`tools/translate_c25.py` turns every `match` of `text/encoding.rs` (and the tuple tables of
`parser/encoding.rs`) into DATA: a `List Arm` in source order plus the behaviour of the default arm.
This file is the only place where that data gets a meaning; it is hand-written and tiny.

Rust `match` semantics = first matching arm wins, which is what `lookupArms` does.
 * `0xLO..=0xHI => <the scrutinee itself>`   ↦ `.range lo hi`   (`Some(ch as u8)`, `byte as char`,
                                                 `char::from_u32(byte as u32).unwrap_or('?')`; the
                                                 translator refuses ranges above 0xFF, where `as u8`
                                                 would truncate)
 * `0xC => <constant B>`                     ↦ `.point c b`
 * `_ => …`                                  ↦ `Dflt`
Import-free.
-/
namespace OxiVerif.C25

inductive Arm where
  | range (lo hi : Nat)
  | point (c b : Nat)
  deriving DecidableEq, Repr

/-- Behaviour of the default (`_`) arm. -/
inductive Dflt where
  | none            -- `_ => None`
  | const (k : Nat) -- `_ => '?'`, `_ => result.push(b'?')`
  | ident           -- `_ => byte as char`
  | absent          -- the match has no default arm (it is exhaustive)
  deriving DecidableEq, Repr

/-- First matching arm. -/
def lookupArms : List Arm → Nat → Option Nat
  | [], _ => none
  | .range lo hi :: r, x => if lo ≤ x ∧ x ≤ hi then some x else lookupArms r x
  | .point c b :: r, x => if x = c then some b else lookupArms r x

/-- The whole `match`: arms, then the default arm. -/
def applyArms (arms : List Arm) (d : Dflt) (x : Nat) : Option Nat :=
  match lookupArms arms x with
  | some y => some y
  | none =>
    match d with
    | .none => none
    | .const k => some k
    | .ident => some x
    | .absent => none

end OxiVerif.C25
