/-
C07 — model of `Group4Decoder::decode` (parser/filter_impls/ccitt.rs:455-477), the code that serves
`/CCITTFaxDecode` with `/K -1`: it does not decode T.6 at all, it returns the first
`ceil(columns/8) * rows` bytes of the input (zero-padded when the input is shorter).
(`Group3OneDDecoder` — K ≥ 0 — uses made-up code tables and is not modelled; u32 overflow of
`bytes_per_row * total_rows` is not modelled either.)  Core Lean only.
-/
namespace OxiVerif.Ccitt

def g4Decode (columns rows : Nat) (data : List Nat) : List Nat :=
  let bytesPerRow := (columns + 7) / 8
  let totalRows := if rows > 0 then rows else data.length / (max bytesPerRow 1)
  let expected := bytesPerRow * totalRows
  if data.length ≥ expected then data.take expected
  else data ++ List.replicate (expected - data.length) 0

end OxiVerif.Ccitt
