import OxiVerif.Base.Driver
import OxiVerif.Spec.Syntax
import OxiVerif.Model.Serializer
import OxiVerif.Model.Lexer
import OxiVerif.Model.ObjParser
import OxiVerif.Model.C09
import OxiVerif.Model.ObjCanon
/-!
# Model.C30 — user-chosen resource names at the two emission sites and the three readers

**Emission (what the code does — the same `#XX` escaping at both sites):**
* dictionary site (escaped since fix 16fac722): `writer/pdf_writer/mod.rs` `write_object_value`,
  `Name` arm and dictionary keys (`/` + `escape_pdf_name_bytes(name)`) — that is `Model.serRaw` /
  `Model.ser` with `Model.escapeName` (`Model/Serializer.lean`, shared with C09; the pre-fix raw
  emission is kept there as `serUnescaped`).  Page resources are assembled by
  `write_page_with_fonts` (`xobject_dict.set(name, Reference)`, `font_dict.set(font_name, …)`,
  `cs_dict`, `pat_dict`, `sh_dict`): `pageObj` below.
* content site (escaped since the repair of C30-F1/F2): `graphics/ops.rs` `serialize_ops`:
  `write_name_operand(out, name)` (= `/` + `escape_pdf_name_bytes(name)`) followed by ` Do\n`,
  ` cs\n`, ` CS\n`, ` gs\n`, ` ri\n`, ` sh\n`, ` {size} Tf\n`; `page.rs` `begin_marked_content`:
  `format!("/{} <</MCID {}>> BDC\n", escape_tag(tag), mcid)`: `opName`, `opTf`, `opBDC` below.
  The emission before the repair (raw names) is kept as `opNameOld`, `opTfOld`, `opBDCOld`.
* `page.rs` `validate_pdf_resource_name` (called by `add_form_xobject`, `add_color_space`,
  `add_pattern`, `add_shading` — NOT by `add_image`, font registration, `set_custom_font`,
  `paint_shading`, `draw_image`, `begin_marked_content`): `validName`.

**Readers:**
* the library's object lexer / parser: `Model.Lexer`, `Model.ObjParser` (C09's, imported);
* the library's content tokenizer `parser/content.rs` `ContentTokenizer::{next_token, read_name,
  decode_name, read_operator, …}` and the part of `ContentParser::parse_operators` that yields the
  name-bearing operators: namespace `CT` below — a private copy of the functions of
  `Model/ContentTokenizer.lean` this property needs (that file belongs to C01/C21);
* the independent strict reader `Spec.Syntax` (ISO 32000-1 §7.2–7.3, §7.8.2).

Import-free apart from OxiVerif's own import-free modules.
-/
namespace OxiVerif.C30
open OxiVerif.Spec.Syntax (Obj)
open OxiVerif.Model
open OxiVerif.C09 (allB)

/-! ## emission -/

/-- both sites: `/` followed by the bytes of the `String`, nothing escaped -/
def emitRaw (n : List Nat) : List Nat := 47 :: n

def kDo : List Nat := [68, 111]
def kcs : List Nat := [99, 115]
def kCS : List Nat := [67, 83]
def kgs : List Nat := [103, 115]
def kri : List Nat := [114, 105]
def ksh : List Nat := [115, 104]
def kTf : List Nat := [84, 102]
def kBDC : List Nat := [66, 68, 67]
def kBMC : List Nat := [66, 77, 67]
def kBI : List Nat := [66, 73]
def kID : List Nat := [73, 68]

/-- `write_name_operand(out, name); out.extend_from_slice(b" <kw>\n")` — `Do cs CS gs ri sh`;
    `write_name_operand` = `/` + `escape_pdf_name_bytes(name)` -/
def opName (n kw : List Nat) : List Nat := 47 :: (escapeName n ++ 32 :: (kw ++ [10]))

/-- `write_name_operand(out, name); writeln!(out, " {size} Tf")`; `sizeTok` = the text Rust's
    `Display` gave for the size -/
def opTf (n sizeTok : List Nat) : List Nat := 47 :: (escapeName n ++ 32 :: (sizeTok ++ [32, 84, 102, 10]))

/-- `format!("/{} <</MCID {}>> BDC\n", escape_tag(tag), mcid)` -/
def opBDC (tag mcidTok : List Nat) : List Nat :=
  47 :: (escapeName tag ++ [32, 60, 60, 47, 77, 67, 73, 68, 32] ++ mcidTok ++ [62, 62, 32, 66, 68, 67, 10])

/-! ### the content site before its repair (raw names) — the regression the check must catch -/

/-- `writeln!(out, "/{name} <kw>")` -/
def opNameOld (n kw : List Nat) : List Nat := 47 :: (n ++ 32 :: (kw ++ [10]))

/-- `writeln!(out, "/{name} {size} Tf")` -/
def opTfOld (n sizeTok : List Nat) : List Nat := 47 :: (n ++ 32 :: (sizeTok ++ [32, 84, 102, 10]))

/-- `format!("/{} <</MCID {}>> BDC\n", tag, mcid)` -/
def opBDCOld (tag mcidTok : List Nat) : List Nat :=
  47 :: (tag ++ [32, 60, 60, 47, 77, 67, 73, 68, 32] ++ mcidTok ++ [62, 62, 32, 66, 68, 67, 10])

/-! ## `validate_pdf_resource_name` -/

def isForbidden (b : Nat) : Bool := Spec.Syntax.isWhite b || Spec.Syntax.isDelim b || b == 35

/-- `Ok(())` iff the name is non-empty and has no white-space byte, delimiter or `#` -/
def validName (n : List Nat) : Bool := !n.isEmpty && allB (fun b => !isForbidden b) n

/-! ## the hypotheses of the partial theorems, and the repair -/

/-- names the code gets right at both sites under all three readers: regular characters only
    (no white space, no delimiter), no `#`, ASCII.  Contains every printable-ASCII name without
    delimiters / `#`, the control bytes 01..1F (other than white space) and DEL, and the empty name. -/
def SafeName (n : List Nat) : Bool := allB (fun b => Spec.Syntax.isRegular b && b != 35 && b < 128) n

/-- the alphabet named in the property's plan: printable ASCII `!`..`~` minus delimiters minus `#` -/
def PrintableName (n : List Nat) : Bool :=
  allB (fun b => 33 ≤ b && b ≤ 126 && !Spec.Syntax.isDelim b && b != 35) n

/-- both sites now (`escape_pdf_name_bytes` = `Model.escapeName`): every byte outside `!`..`~`,
    every delimiter and `#` as `#XX` -/
def emitEscaped (n : List Nat) : List Nat := 47 :: escapeName n

/-! ## the library's content tokenizer (copy of the needed part of `Model/ContentTokenizer.lean`) -/

namespace CT

inductive Token where
  | number (tok : List Nat)
  | integer (i : Int)
  | str (bs : List Nat)
  | hexStr (bs : List Nat)
  /-- the UTF-8 bytes of the `String` -/
  | name (bs : List Nat)
  | operator (bs : List Nat)
  | arrayStart
  | arrayEnd
  | dictStart
  | dictEnd
  deriving Repr, DecidableEq, Inhabited

inductive Step where
  | tok (t : Token) (rest : List Nat)
  | done
  | err
  deriving Repr, DecidableEq

def isWs (b : Nat) : Bool := b == 32 || b == 9 || b == 13 || b == 10 || b == 12

/-- terminators in `read_name` -/
def isNameBreak (b : Nat) : Bool :=
  isWs b || b == 40 || b == 41 || b == 60 || b == 62 || b == 91 || b == 93 || b == 123 ||
  b == 125 || b == 47 || b == 37

/-- terminators in `read_operator` (`;` too) -/
def isOpBreak (b : Nat) : Bool := isNameBreak b || b == 59

def isDigit (b : Nat) : Bool := 48 ≤ b && b ≤ 57
def isOctal (b : Nat) : Bool := 48 ≤ b && b ≤ 55

def hexVal (b : Nat) : Option Nat :=
  if 48 ≤ b && b ≤ 57 then some (b - 48)
  else if 65 ≤ b && b ≤ 70 then some (b - 55)
  else if 97 ≤ b && b ≤ 102 then some (b - 87)
  else none

def isCont (b : Nat) : Bool := 128 ≤ b && b ≤ 191

/-- `std::str::from_utf8(..).is_ok()` (std, trusted) -/
def validUtf8 : List Nat → Bool
  | [] => true
  | b :: r =>
    if b < 128 then validUtf8 r
    else if 194 ≤ b && b ≤ 223 then
      match r with
      | c1 :: r1 => isCont c1 && validUtf8 r1
      | _ => false
    else if 224 ≤ b && b ≤ 239 then
      match r with
      | c1 :: c2 :: r2 =>
        isCont c1 && isCont c2 && (b != 224 || 160 ≤ c1) && (b != 237 || c1 ≤ 159) && validUtf8 r2
      | _ => false
    else if 240 ≤ b && b ≤ 244 then
      match r with
      | c1 :: c2 :: c3 :: r3 =>
        isCont c1 && isCont c2 && isCont c3 && (b != 240 || 144 ≤ c1) && (b != 244 || c1 ≤ 143) &&
          validUtf8 r3
      | _ => false
    else false

def takeMantissa : Bool → List Nat → List Nat × Bool × List Nat
  | hd, [] => ([], hd, [])
  | hd, b :: r =>
    if isDigit b then
      let m := takeMantissa hd r
      (b :: m.1, m.2.1, m.2.2)
    else if b == 46 && !hd then
      let m := takeMantissa true r
      (b :: m.1, m.2.1, m.2.2)
    else ([], hd, b :: r)

def allDigits : List Nat → Bool
  | [] => true
  | b :: r => isDigit b && allDigits r

def digitsVal : List Nat → Nat → Nat
  | [], acc => acc
  | b :: r, acc => digitsVal r (acc * 10 + (b - 48))

def countDigits : List Nat → Nat
  | [] => 0
  | b :: r => (if isDigit b then 1 else 0) + countDigits r

def splitSign : List Nat → Bool × List Nat
  | 43 :: r => (false, r)
  | 45 :: r => (true, r)
  | l => (false, l)

def parseI32 (s : List Nat) : Option Int :=
  let p := splitSign s
  if p.2.isEmpty || !allDigits p.2 then none
  else
    let n := digitsVal p.2 0
    if p.1 then (if n ≤ 2147483648 then some (- (Int.ofNat n)) else none)
    else (if n ≤ 2147483647 then some (Int.ofNat n) else none)

def readNumber (inp : List Nat) : Step :=
  let sr : List Nat × List Nat :=
    match inp with
    | b :: r => if b == 43 || b == 45 then ([b], r) else ([], inp)
    | [] => ([], inp)
  let m := takeMantissa false sr.2
  let numStr := sr.1 ++ m.1
  if m.2.1 then
    (if countDigits m.1 > 0 then .tok (.number numStr) m.2.2 else .err)
  else
    match parseI32 numStr with
    | some i => .tok (.integer i) m.2.2
    -- fix 00af9054: an integer token outside `i32` is read as a real (`parse::<f32>` needs a digit)
    | none => if countDigits m.1 > 0 then .tok (.number numStr) m.2.2 else .err

inductive LitSt where
  | normal
  | esc
  | oct1 (v : Nat)
  | oct2 (v : Nat)
  deriving Repr, DecidableEq

def readLit : Nat → LitSt → List Nat → List Nat × List Nat
  | _, .oct1 v, [] => ([v % 256], [])
  | _, .oct2 v, [] => ([v % 256], [])
  | _, _, [] => ([], [])
  | d, .esc, c :: r =>
    let cons (x : Nat) (t : List Nat × List Nat) : List Nat × List Nat := (x :: t.1, t.2)
    if c == 110 then cons 10 (readLit d .normal r)
    else if c == 114 then cons 13 (readLit d .normal r)
    else if c == 116 then cons 9 (readLit d .normal r)
    else if c == 98 then cons 8 (readLit d .normal r)
    else if c == 102 then cons 12 (readLit d .normal r)
    else if isOctal c then readLit d (.oct1 (c - 48)) r
    else cons c (readLit d .normal r)
  | d, st, b :: r =>
    let cons (x : Nat) (t : List Nat × List Nat) : List Nat × List Nat := (x :: t.1, t.2)
    let pending : Option Nat × Bool :=
      match st with
      | .oct1 v => if isOctal b then (none, true) else (some (v % 256), false)
      | .oct2 v => if isOctal b then (some ((v * 8 + (b - 48)) % 256), true) else (some (v % 256), false)
      | _ => (none, false)
    let out (t : List Nat × List Nat) : List Nat × List Nat :=
      match pending.1 with
      | some x => cons x t
      | none => t
    if pending.2 then
      match st with
      | .oct1 v => readLit d (.oct2 (v * 8 + (b - 48))) r
      | _ => out (readLit d .normal r)
    else if b == 92 then out (readLit d .esc r)
    else if b == 40 then out (cons 40 (readLit (d + 1) .normal r))
    else if b == 41 then
      (if d == 0 then out ([], r) else out (cons 41 (readLit (d - 1) .normal r)))
    else out (cons b (readLit d .normal r))

def readHexStr : Option Nat → List Nat → Option (List Nat × List Nat)
  | _, [] => none
  | p, b :: r =>
    if b == 62 then
      match p with
      | some h => some ([h * 16], r)
      | none => some ([], r)
    else
      match hexVal b with
      | some v =>
        match p with
        | none => readHexStr (some v) r
        | some h =>
          match readHexStr none r with
          | some (s, rest) => some ((h * 16 + v) :: s, rest)
          | none => none
      | none => if isWs b then readHexStr p r else none

/-- the scan loop of `read_name`: after `#` the next two bytes are skipped when two bytes remain.
    `skip` = bytes still to be skipped.  Returns (raw name bytes, rest). -/
def scanName : Nat → List Nat → List Nat × List Nat
  | _, [] => ([], [])
  | skip + 1, b :: r =>
    let t := scanName skip r
    (b :: t.1, t.2)
  | 0, b :: r =>
    if isNameBreak b then ([], b :: r)
    else
      let t := scanName (if b == 35 && 2 ≤ r.length then 2 else 0) r
      (b :: t.1, t.2)

/-- `u8::from_str_radix(two bytes, 16)`: two hex digits, or `+` and one hex digit -/
def hexPair (h1 h2 : Nat) : Option Nat :=
  if h1 == 43 then hexVal h2
  else
    match hexVal h1, hexVal h2 with
    | some a, some c => some (a * 16 + c)
    | _, _ => none

inductive DecSt where
  | plain
  | h1
  | h2 (a : Nat)
  deriving Repr, DecidableEq

/-- `decode_name` before the UTF-8 check: `#` followed by at least two bytes is a hex escape -/
def decodeName : DecSt → List Nat → Option (List Nat)
  | .plain, [] => some []
  | _, [] => none
  | .plain, b :: r =>
    if b == 35 && 2 ≤ r.length then decodeName .h1 r
    else (decodeName .plain r).map (b :: ·)
  | .h1, b :: r => decodeName (.h2 b) r
  | .h2 a, b :: r =>
    match hexPair a b with
    | some v => (decodeName .plain r).map (v :: ·)
    | none => none

/-- `read_name` after the `/` -/
def readName (inp : List Nat) : Step :=
  let s := scanName 0 inp
  match decodeName .plain s.1 with
  | some bs => if validUtf8 bs then .tok (.name bs) s.2 else .err
  | none => .err

def scanOp : List Nat → List Nat × List Nat
  | [] => ([], [])
  | b :: r =>
    if isOpBreak b then ([], b :: r)
    else
      let t := scanOp r
      (b :: t.1, t.2)

/-- `next_token` with `in_inline_image = false`; `inComment` = inside `skip_comment` -/
def nextTok : Bool → List Nat → Step
  | _, [] => .done
  | true, b :: r => if b == 10 then nextTok false r else nextTok true r
  | false, b :: r =>
    if isWs b then nextTok false r
    else if b == 37 then nextTok true r
    else if b == 43 || b == 45 || b == 46 || isDigit b then readNumber (b :: r)
    else if b == 40 then
      let t := readLit 0 .normal r
      .tok (.str t.1) t.2
    else if b == 60 then
      match r with
      | 60 :: r' => .tok .dictStart r'
      | _ =>
        match readHexStr none r with
        | some (s, rest) => .tok (.hexStr s) rest
        | none => .err
    else if b == 62 then
      match r with
      | 62 :: r' => .tok .dictEnd r'
      | _ => .err
    else if b == 91 then .tok .arrayStart r
    else if b == 93 then .tok .arrayEnd r
    else if b == 47 then readName r
    else if b == 59 || b == 41 || b == 123 || b == 125 then nextTok false r
    else
      let t := scanOp (b :: r)
      if validUtf8 t.1 then .tok (.operator t.1) t.2 else .err

def nextToken (inp : List Nat) : Step := nextTok false inp

/-- the tokenising loop of `parse_content`: all tokens up to `Ok(None)` or the first `Err` (the
    tail is dropped silently); the `Bool` says that an `ID` operator was met (inline image data
    follows: not modelled) -/
def tokenize : Nat → List Nat → List Token × Bool
  | 0, _ => ([], false)
  | fuel + 1, inp =>
    match nextToken inp with
    | .done => ([], false)
    | .err => ([], false)
    | .tok t rest =>
      if t == .operator kID then ([t], true)
      else
        let r := tokenize fuel rest
        (t :: r.1, r.2)

/-- operand stack, top first -/
abbrev Stack := List Token

def popNumber : Stack → Option Stack
  | .number _ :: r => some r
  | .integer _ :: r => some r
  | _ => none

def popName : Stack → Option (List Nat × Stack)
  | .name n :: r => some (n, r)
  | _ => none

mutual
/-- `token_to_mc_value(token, operands)`: only whether it succeeds and what is left -/
def mcValue : Nat → Token → Stack → Option Stack
  | 0, _, _ => none
  | fuel + 1, tok, s =>
    match tok with
    | .str _ => some s
    | .hexStr _ => some s
    | .integer _ => some s
    | .number _ => some s
    | .name _ => some s
    | .arrayEnd => mcArrayItems fuel s
    | .dictEnd => mcDictItems fuel s
    | _ => none
def mcArrayItems : Nat → Stack → Option Stack
  | 0, _ => none
  | _, [] => none
  | fuel + 1, t :: r =>
    if t == .arrayStart then some r
    else
      match mcValue fuel t r with
      | none => none
      | some r' => mcArrayItems fuel r'
def mcDictItems : Nat → Stack → Option Stack
  | 0, _ => none
  | _, [] => none
  | fuel + 1, t :: r =>
    if t == .dictStart then some r
    else
      match mcValue fuel t r with
      | none => none
      | some r' =>
        match r' with
        | .name _ :: r'' => mcDictItems fuel r''
        | _ => none
end

/-- `pop_dict_or_name` -/
def popDictOrName (s : Stack) : Option Stack :=
  match s with
  | .name _ :: r => some r
  | .dictEnd :: r => mcDictItems (2 * r.length + 2) r
  | _ => none

/-- operators whose single operand is a name and that the harness reports: `Do cs CS sh gs BMC` -/
def viewNameOps : List (List Nat) := [kDo, kcs, kCS, ksh, kgs, kBMC]

/-- the name operand `parse_operator(op, operands)` extracts for the operators of the view
    (`none`: another operator, or the operands do not fit and the operator is skipped) -/
def viewOp (op : List Nat) (s : Stack) : Option (List Nat × List Nat) :=
  if viewNameOps.contains op then
    (match popName s with
     | some (n, _) => some (op, n)
     | none => none)
  else if op == kTf then
    (match popNumber s with
     | some s' =>
       (match popName s' with
        | some (n, _) => some (kTf, n)
        | none => none)
     | none => none)
  else if op == kBDC then
    (match popDictOrName s with
     | some s1 =>
       (match popName s1 with
        | some (tag, _) => some (kBDC, tag)
        | none => none)
     | none => none)
  else none

/-- `parse_operators` restricted to the view: the operand stack is cleared after every operator,
    an operator whose operands do not fit is skipped.  `none` = `BI` met (inline images are not
    modelled). -/
def parseOps : List Token → Stack → Option (List (List Nat × List Nat))
  | [], _ => some []
  | .operator op :: r, stack =>
    if op == kBI then none
    else
      match viewOp op stack with
      | some x => (parseOps r []).map (x :: ·)
      | none => parseOps r []
  | t :: r, stack => parseOps r (t :: stack)

/-- `ContentParser::parse` seen through the view: (operator, name operand) in order -/
def parseView (content : List Nat) : Option (List (List Nat × List Nat)) :=
  let t := tokenize (content.length + 1) content
  if t.2 then none else parseOps t.1 []

end CT

/-! ## the authoring scenarios of the harness (one per API entry point) -/

inductive Kind where
  | img | img2 | font | gfont | form | cs | pat | sh | shop | mc
  deriving Repr, DecidableEq

def Kind.ofString? : String → Option Kind
  | "img" => some .img | "img2" => some .img2 | "font" => some .font | "gfont" => some .gfont
  | "form" => some .form | "cs" => some .cs | "pat" => some .pat | "sh" => some .sh
  | "shop" => some .shop | "mc" => some .mc | _ => none

/-- entry points that call `validate_pdf_resource_name` -/
def Kind.validated : Kind → Bool
  | .form | .cs | .pat | .sh => true
  | _ => false

/-- ASCII text as bytes (driver side only) -/
def B (s : String) : List Nat := s.toList.map Char.toNat

/-- resource category of the kind (`none`: the name is used as an operand only) -/
def Kind.category : Kind → Option (List Nat)
  | .img | .img2 | .form => some (B "XObject")
  | .font | .gfont => some (B "Font")
  | .cs => some (B "ColorSpace")
  | .pat => some (B "Pattern")
  | .sh => some (B "Shading")
  | .shop | .mc => none

/-- object numbers (page, contents) the writer allocates in the scenario: catalog 1, pages 2,
    info 3, then the five objects of an embedded font (4..9 with the ToUnicode CMap), then the page -/
def Kind.pageId : Kind → Nat
  | .font | .gfont => 10
  | _ => 4

def stdFontNames : List String :=
  ["Courier", "Courier-Bold", "Courier-BoldOblique", "Courier-Oblique", "Helvetica", "Helvetica-Bold",
   "Helvetica-BoldOblique", "Helvetica-Oblique", "Times-Bold", "Times-BoldItalic", "Times-Italic",
   "Times-Roman"]

def stdFontEntry (s : String) : List Nat × Obj :=
  (B s, .dict [(B "Type", .name (B "Font")), (B "Subtype", .name (B "Type1")),
    (B "BaseFont", .name (B s)), (B "Encoding", .name (B "WinAnsiEncoding"))])

/-- `Dictionary::set`: replace the value of an existing key, else append -/
def dictSet (k : List Nat) (v : Obj) : List (List Nat × Obj) → List (List Nat × Obj)
  | [] => [(k, v)]
  | (k', v') :: rest => if k' == k then (k, v) :: rest else (k', v') :: dictSet k v rest

/-- the entries of the category sub-dictionary, as registered by the user: name ↦ the object the
    writer allocated for it (`write_page_with_fonts`: ids in the order of the names sorted) -/
def categoryEntries (k : Kind) (n n2 : List Nat) : List (List Nat × Obj) :=
  let p := k.pageId
  match k with
  | .img | .form | .pat => [(n, .ref (p + 2) 0)]
  | .img2 =>
    if n == n2 then [(n, .ref (p + 2) 0)]
    else if ltBytes n n2 then [(n, .ref (p + 2) 0), (n2, .ref (p + 3) 0)]
    else [(n2, .ref (p + 2) 0), (n, .ref (p + 3) 0)]
  | .sh => [(n, .ref (p + 3) 0)]          -- p+2 is the shading's function object
  | .cs => [(n, .name (B "DeviceRGB"))]
  | .font | .gfont => [(n, .ref 4 0)]
  | .shop | .mc => []

/-- the page dictionary `write_page_with_fonts` builds (the authored structure) -/
def pageObj (k : Kind) (n n2 : List Nat) : Obj :=
  let p := k.pageId
  let fonts0 := stdFontNames.map stdFontEntry
  let fonts := match k with
    | .font | .gfont => dictSet n (.ref 4 0) fonts0
    | _ => fonts0
  let res0 : List (List Nat × Obj) := [(B "Font", .dict fonts)]
  let res := match k with
    | .font | .gfont | .shop | .mc => res0
    | _ => match k.category with
      | some c => res0 ++ [(c, .dict (categoryEntries k n n2))]
      | none => res0
  .dict [(B "Contents", .ref (p + 1) 0),
         (B "MediaBox", .arr [.int 0, .int 0, .int 595, .int 842]),
         (B "Parent", .ref 2 0),
         (B "Resources", .dict res),
         (B "Type", .name (B "Page"))]

/-- what the user registered in the category of the kind: the keys a reader must find -/
def expectedKeys (k : Kind) (n n2 : List Nat) : List (List Nat) :=
  match k with
  | .font | .gfont => (dictSet n (.ref 4 0) (stdFontNames.map stdFontEntry)).map (·.1)
  | _ => (categoryEntries k n n2).map (·.1)

def drawImage (n : List Nat) (cm : String) : List Nat :=
  B "q\n" ++ B cm ++ B " cm\n" ++ opName n kDo ++ B "Q\n"

/-- the page's content stream as `serialize_ops` writes it for the scenario -/
def contentBytes (k : Kind) (n n2 : List Nat) : List Nat :=
  match k with
  | .img | .form => drawImage n "30.00 0.00 0.00 40.00 10.00 20.00"
  | .img2 => drawImage n "30.00 0.00 0.00 40.00 10.00 20.00" ++ drawImage n2 "70.00 0.00 0.00 80.00 50.00 60.00"
  | .font => B "BT\n" ++ opTf n (B "12") ++ B "0.000 g\n50.00 700.00 Td\n<00480069> Tj\nET\n"
  | .gfont => opTf n (B "12") ++ B "BT\n0.000 g\n" ++ opTf n (B "12") ++ B "50.00 700.00 Td\n<00480069> Tj\nET\n"
  | .cs => opName n kcs ++ B "1.0000 0.0000 0.0000 sc\n" ++ opName n kCS ++ B "0.0000 1.0000 0.0000 SC\n"
  | .pat => []
  | .sh | .shop => opName n ksh
  | .mc => opBDC n (B "0") ++ B "EMC\n"

/-- the authored operators that carry a name, in order: what `lc` must show -/
def expectedOps (k : Kind) (n n2 : List Nat) : List (List Nat × List Nat) :=
  match k with
  | .img | .form => [(kDo, n)]
  | .img2 => [(kDo, n), (kDo, n2)]
  | .font => [(kTf, n)]
  | .gfont => [(kTf, n), (kTf, n)]
  | .cs => [(kcs, n), (kCS, n)]
  | .pat => []
  | .sh | .shop => [(ksh, n)]
  | .mc => [(kBDC, n)]

open Spec.Syntax in
/-- the authored content stream as the lexical elements an ISO 32000-1 reader must see -/
def expectedToks (k : Kind) (n n2 : List Nat) : List CTok :=
  let num (s : String) : CTok := .operand (.real (B s))
  let op (s : String) : CTok := .operator (B s)
  let nm (x : List Nat) : CTok := .operand (.name x)
  let draw (x : List Nat) (a b c d : String) : List CTok :=
    [op "q", num a, num "0.00", num "0.00", num b, num c, num d, op "cm", nm x, op "Do", op "Q"]
  let showHi : List CTok := [num "50.00", num "700.00", op "Td", .operand (.str [0, 72, 0, 105]), op "Tj", op "ET"]
  match k with
  | .img | .form => draw n "30.00" "40.00" "10.00" "20.00"
  | .img2 => draw n "30.00" "40.00" "10.00" "20.00" ++ draw n2 "70.00" "80.00" "50.00" "60.00"
  | .font => [op "BT", nm n, .operand (.int 12), op "Tf", num "0.000", op "g"] ++ showHi
  | .gfont => [nm n, .operand (.int 12), op "Tf", op "BT", num "0.000", op "g", nm n, .operand (.int 12), op "Tf"] ++ showHi
  | .cs => [nm n, op "cs", num "1.0000", num "0.0000", num "0.0000", op "sc",
            nm n, op "CS", num "0.0000", num "1.0000", num "0.0000", op "SC"]
  | .pat => []
  | .sh | .shop => [nm n, op "sh"]
  | .mc => [nm n, .operand (.dict [(B "MCID", .int 0)]), op "BDC", op "EMC"]

/-! ## canonical views (the harness' answer fields) -/

def showKeys (ks : List (List Nat)) : String :=
  if ks.isEmpty then "." else ",".intercalate (ks.map hexField)

/-- byte-wise insertion sort (Rust sorts the hex strings; same order, `-` (empty) first) -/
def insertBytes (k : List Nat) : List (List Nat) → List (List Nat)
  | [] => [k]
  | k' :: rest => if ltBytes k k' then k :: k' :: rest else k' :: insertBytes k rest

def sortBytes : List (List Nat) → List (List Nat)
  | [] => []
  | k :: rest => insertBytes k (sortBytes rest)

def dedupKeys : List (List Nat) → List (List Nat)
  | [] => []
  | k :: rest => if rest.contains k then dedupKeys rest else k :: dedupKeys rest

/-- `HashMap::get` on a parsed dictionary: the last entry with that key -/
def getLast (k : List Nat) : List (List Nat × Obj) → Option Obj
  | [] => none
  | (k', v) :: rest =>
    match getLast k rest with
    | some x => some x
    | none => if k' == k then some v else none

def asDict : Obj → Option (List (List Nat × Obj))
  | .dict kvs => some kvs
  | _ => none

open OxiVerif.Model.Lexer in
def showErr : Err → String
  | .syntax => "err:SyntaxError"
  | .unexpectedToken => "err:UnexpectedToken"
  | .missingKey => "err:MissingKey"
  | .encoding => "err:CharacterEncodingError"
  | .unmodelled => "err:unmodelled"

/-- `lp`: `PdfObject::parse(page ++ "\nendobj\n")`, then `/Type == Page`, then the keys of
    `/Resources/<cat>` as the Rust `String`s the lexer built (`byte as char`) -/
def libPageView (page : List Nat) (cat : Option (List Nat)) : String :=
  match ObjParser.parse (page ++ B "\nendobj\n") with
  | .error e => showErr e
  | .ok (o, _) =>
    match asDict o with
    | none => "err:not-a-dict"
    | some d =>
      match getLast (B "Type") d with
      | some (.name t) =>
        if t != B "Page" then "err:no-type-page"
        else
          match cat with
          | none => "ok"
          | some c =>
            match (getLast (B "Resources") d).bind asDict with
            | none => "err:no-resources"
            | some res =>
              match (getLast c res).bind asDict with
              | none => "err:no-category"
              | some kvs => showKeys (sortBytes (dedupKeys (kvs.map fun kv => ObjCanon.utf8OfLatin1 kv.1)))
      | _ => "err:no-type-page"

def showOps (ops : List (List Nat × List Nat)) : String :=
  if ops.isEmpty then "." else
    ",".intercalate (ops.map fun (o, n) => ObjCanon.stringOfBytes o ++ ":" ++ hexField n)

/-- `lc`: `ContentParser::parse(content)` through the view -/
def libContentView (content : List Nat) : String :=
  match CT.parseView content with
  | none => "unmodelled"
  | some ops => showOps ops

/-! ## the independent reader's verdict on the implementation's bytes -/

open Spec.Syntax in
def showCTok : CTok → String
  | .operand o => " ".intercalate (ObjCanon.printObj false (sortDicts o))
  | .operator kw => "op:" ++ hexField kw

def showCToks (ts : List Spec.Syntax.CTok) : String := " ".intercalate (ts.map showCTok)

/-- canonical text of a tree with every dictionary sorted by key, duplicates kept (an injected
    or repeated key is visible) -/
def canon (o : Obj) : String := " ".intercalate (ObjCanon.printObj false (sortDicts o))

/-- does the strict reader read `page` as exactly the authored page dictionary? -/
def specPageVerdict (page : List Nat) (k : Kind) (n n2 : List Nat) : Option String :=
  match Spec.Syntax.read page with
  | none => some "dict-spec-unreadable"
  | some (o, rest) =>
    if !rest.isEmpty then some "dict-spec-trailing-bytes"
    else if canon o != canon (pageObj k n n2) then some "dict-spec-differs"
    else none

def specContentVerdict (content : List Nat) (k : Kind) (n n2 : List Nat) : Option String :=
  match Spec.Syntax.readContent content with
  | none => some "content-spec-unreadable"
  | some ts => if showCToks ts != showCToks (expectedToks k n n2) then some "content-spec-differs" else none

/-- which hypothesis of the partial theorem the name breaks (the finding classes) -/
def defectClass (n : List Nat) : String :=
  let fs : List String :=
    (if n.any (fun b => Spec.Syntax.isWhite b || Spec.Syntax.isDelim b) then ["ws-delim"] else []) ++
    (if n.any (· == 35) then ["hash"] else []) ++
    (if n.any (fun b => 128 ≤ b) then ["non-ascii"] else [])
  if fs.isEmpty then "none" else "+".intercalate fs

/-! ## the model's answer and the oracle -/

def field (name : String) (fs : List String) : Option String :=
  fs.findSome? fun f => if f.startsWith (name ++ "=") then some (f.drop (name.length + 1)).toString else none

/-- writer configuration marker of a request: none / `@xs` (cross-reference stream) / `@os`
    (object streams + cross-reference stream, `WriterConfig::modern()`) -/
inductive Cfg where
  | classic | xs | os
  deriving DecidableEq, Repr

/-- `rdEcho`, `rdxEcho`, `rdoEcho`: the reader-stack fields are observed, not modelled.
    `pgo` IS modelled: the page dictionary packed into an object stream by
    `write_object_value_to_buffer` has the same bytes as the direct object written by
    `write_object_value` (same sorted `<<\n/Key value\n>>` layout, same escaping, same object ids). -/
def modelAnswer (k : Kind) (n n2 : List Nat) (cfg : Cfg) (rdEcho rdxEcho rdoEcho : String) : String :=
  if k.validated && !validName n then "err:InvalidStructure"
  else
    let page := ser (pageObj k n n2)
    let content := contentBytes k n n2
    let base := s!"pid={k.pageId} page={hexField page} content={hexField content} lp={libPageView page k.category} lc={libContentView content} rd={rdEcho}"
    match cfg with
    | .classic => base
    | .xs => base ++ s!" rdx={rdxEcho}"
    | .os => base ++ s!" pgo={hexField page} rdo={rdoEcho}"

def expectedRd (k : Kind) (n n2 : List Nat) : String :=
  match k.category with
  | none => "ok"
  | some _ => "ok:" ++ showKeys (sortBytes (dedupKeys (expectedKeys k n n2)))

def expectedLp (k : Kind) (n n2 : List Nat) : String :=
  match k.category with
  | none => "ok"
  | some _ => showKeys (sortBytes (dedupKeys (expectedKeys k n n2)))

def oracle (k : Kind) (n n2 : List Nat) (cfg : Cfg) (impl : String) : String :=
  if impl.startsWith "err:InvalidStructure" then
    -- the API refused the name: nothing is written, the property is respected
    (if k.validated then "ok" else "fail:unexpected-api-error")
  else
    let fs := impl.splitOn " "
    match field "page" fs, field "content" fs, field "lp" fs, field "lc" fs, field "rd" fs with
    | some ph, some ch, some lp, some lc, some rd =>
      match bytesOfHex? ph, bytesOfHex? ch with
      | some page, some content =>
        let cls := if k == .img2 then defectClass (n ++ n2) else defectClass n
        -- the other writer configurations: the reader stack must see the user's names, and the
        -- page dictionary cut out of the object stream must be the authored one for the
        -- independent reader
        let xsSites : List String :=
          match cfg with
          | .xs =>
            (match field "rdx" fs with
             | some rdx => if rdx != expectedRd k n n2 then ["lib-reader-xs"] else []
             | none => ["xs-missing"])
          | _ => []
        let osSites : List String :=
          match cfg with
          | .os =>
            (match (field "pgo" fs).bind bytesOfHex? with
             | some pgo => (match specPageVerdict pgo k n n2 with | some s => [s ++ "-os"] | none => [])
             | none => ["objstm-page-unreadable"]) ++
            (match field "rdo" fs with
             | some rdo => if rdo != expectedRd k n n2 then ["lib-reader-os"] else []
             | none => ["os-missing"])
          | _ => []
        let sites : List String :=
          (match specPageVerdict page k n n2 with | some s => [s] | none => []) ++
          (match specContentVerdict content k n n2 with | some s => [s] | none => []) ++
          (if lp != expectedLp k n n2 then ["lib-page"] else []) ++
          (if lc != showOps (expectedOps k n n2) then ["lib-content"] else []) ++
          (if rd != expectedRd k n n2 then ["lib-reader"] else []) ++ xsSites ++ osSites
        if sites.isEmpty then "ok" else "fail:" ++ cls ++ ":" ++ ",".intercalate sites
      | _, _ => "fail:unparsable-impl-answer"
    | _, _, _, _, _ => "fail:unparsable-impl-answer"

end OxiVerif.C30
