/-
C05 — executable model of the encryption path of the writer and the reader:

  writer/pdf_writer/mod.rs   write_document (order), init_encryption, write_object
                             (encrypt-then-serialize), write_trailer (classic) and
                             write_xref_stream + xref_stream_writer.rs create_dictionary
  encryption/object_encryption.rs  ObjectEncryptor::{encrypt_object, encrypt_stream,
                             encrypt_dictionary, should_skip_dictionary_key, should_encrypt_stream}
  document/encryption.rs     create_encryption_dict / get_encryption_key (via Model/C23)
  parser/reader.rs           unlock_with_password, decrypt_object_if_needed
  parser/filters.rs          `Crypt` is not a decodable filter

Ciphers are the reference definitions of Spec.Crypto (tied to the Rust code by C23).
-/
import OxiVerif.Model.C23
namespace OxiVerif.C05
open OxiVerif.Crypto OxiVerif.C23

/-- `objects::Object` / `parser::PdfObject` (numbers and names carried as text) -/
inductive Obj where
  | null
  | bool (b : Bool)
  | num (s : String)
  | name (s : String)
  | str (b : Bytes)
  | arr (l : List Obj)
  | dict (l : List (String × Obj))
  | ref (n g : Nat)
deriving Repr, Inhabited

/-- a stream: dictionary entries and data -/
structure Stm where
  dict : List (String × Obj)
  data : Bytes
deriving Repr

/-- `should_skip_dictionary_key` -/
def skipKey (k : String) : Bool :=
  k = "Length" || k = "Filter" || k = "DecodeParms" || k = "Encrypt" || k = "ID" || k = "O" ||
  k = "U" || k = "P" || k = "Perms"

/-- `ObjectEncryptor::encrypt_object` on a non-stream object; `enc` is the string cipher of the
object being written (crypt filter method + file key + object id + IV source). -/
def encryptObj (enc : Bytes → Bytes) : Obj → Obj
  | .str b => .str (enc b)
  | .arr l => .arr (encList l)
  | .dict l => .dict (encEntries l)
  | o => o
where
  encList : List Obj → List Obj
    | [] => []
    | o :: r => encryptObj enc o :: encList r
  encEntries : List (String × Obj) → List (String × Obj)
    | [] => []
    | (k, v) :: r => (k, if skipKey k then v else encryptObj enc v) :: encEntries r

/-- `decrypt_object_if_needed` on a non-stream object: every string, no key is skipped -/
def decryptObj (dec : Bytes → Bytes) : Obj → Obj
  | .str b => .str (dec b)
  | .arr l => .arr (decList l)
  | .dict l => .dict (decEntries l)
  | o => o
where
  decList : List Obj → List Obj
    | [] => []
    | o :: r => decryptObj dec o :: decList r
  decEntries : List (String × Obj) → List (String × Obj)
    | [] => []
    | (k, v) :: r => (k, decryptObj dec v) :: decEntries r

def lookup (k : String) : List (String × Obj) → Option Obj
  | [] => none
  | (k', v) :: r => if k = k' then some v else lookup k r

def setKey (k : String) (v : Obj) : List (String × Obj) → List (String × Obj)
  | [] => [(k, v)]
  | (k', v') :: r => if k = k' then (k, v) :: r else (k', v') :: setKey k v r

def hasCrypt : Option Obj → Bool
  | some (.name n) => n = "Crypt"
  | some (.arr l) => l.any fun o => match o with | .name n => n = "Crypt" | _ => false
  | _ => false

/-- `should_encrypt_stream` -/
def shouldEncryptStream (em : Bool) (s : Stm) : Bool :=
  if !em && (match lookup "Type" s.dict with | some (.name n) => n = "Metadata" | _ => false) then false
  else !hasCrypt (lookup "Filter" s.dict)

/-- `ObjectEncryptor::encrypt_stream`: data only; afterwards `/Filter /Crypt` is ADDED when the
stream has no filter, appended when `/Filter` is an array, left alone when it is a name. -/
def encryptStm (enc : Bytes → Bytes) (em : Bool) (s : Stm) : Stm :=
  if !shouldEncryptStream em s then s
  else
    let d := match lookup "Filter" s.dict with
      | none => setKey "Filter" (.name "Crypt") s.dict
      | some (.arr l) => setKey "Filter" (.arr (l ++ [.name "Crypt"])) s.dict
      | _ => s.dict
    ⟨d, enc s.data⟩

def removeKey (k : String) : List (String × Obj) → List (String × Obj)
  | [] => []
  | (k', v') :: r => if k = k' then r else (k', v') :: removeKey k r

def notCryptName : Obj → Bool
  | .name n => !(n = "Crypt")
  | _ => true

/-- `PdfWriter::remove_crypt_filter_tag`: the `Crypt` name is taken out of `/Filter`, the entry
goes when nothing is left -/
def stripCrypt (s : Stm) : Stm :=
  match lookup "Filter" s.dict with
  | some (.name n) => if n = "Crypt" then ⟨removeKey "Filter" s.dict, s.data⟩ else s
  | some (.arr l) =>
    let l' := l.filter notCryptName
    if l'.isEmpty then ⟨removeKey "Filter" s.dict, s.data⟩ else ⟨setKey "Filter" (.arr l') s.dict, s.data⟩
  | _ => s

/-- `PdfWriter::write_object` on a stream: `encrypt_object`, then the encryptor's `Crypt` tag is
dropped unless the stream named the `Crypt` filter before (`stream_names_crypt_filter`). -/
def writeStm (enc : Bytes → Bytes) (em : Bool) (s : Stm) : Stm :=
  if hasCrypt (lookup "Filter" s.dict) then encryptStm enc em s else stripCrypt (encryptStm enc em s)

/-- `decrypt_object_if_needed` on a stream: data decrypted unless the STREAM dictionary has
`/StmF /Identity`; the dictionary (and `/Filter`) is left as read. -/
def decryptStm (dec : Bytes → Bytes) (s : Stm) : Stm :=
  match lookup "StmF" s.dict with
  | some (.name "Identity") => s
  | _ => ⟨s.dict, dec s.data⟩

/-- filters the reader can undo (`Crypt` is `Filter::Crypt`, unsupported by `decode_stream`) -/
def filterNames : Option Obj → List String
  | some (.name n) => [n]
  | some (.arr l) => l.filterMap fun o => match o with | .name n => some n | _ => none
  | _ => []

def streamDecodable (s : Stm) : Bool := !(filterNames (lookup "Filter" s.dict)).contains "Crypt"

/-! ### trailer -/

structure Cfg where
  xref : Bool
  objstm : Bool
  compress : Bool
deriving Repr, DecidableEq

/-- keys of the dictionary that plays the role of the trailer.
classic: `write_trailer`; xref stream: `XRefStreamWriter::create_dictionary` + `Length`, and —
like `write_trailer` — `Encrypt` / `ID` from `encrypt_obj_id` / `file_id`. -/
def trailerKeys (cfg : Cfg) (encrypted : Bool) : List String :=
  (if cfg.xref then ["Type", "Size", "Root", "Info", "W", "Index", "Filter", "Length"]
   else ["Size", "Root", "Info"]) ++ (if encrypted then ["Encrypt", "ID"] else [])

/-- the writer before the repair: `write_xref_stream` never looked at `encrypt_obj_id` / `file_id` -/
def trailerKeysOld (cfg : Cfg) (encrypted : Bool) : List String :=
  if cfg.xref then ["Type", "Size", "Root", "Info", "W", "Index", "Filter", "Length"]
  else ["Size", "Root", "Info"] ++ (if encrypted then ["Encrypt", "ID"] else [])

/-- `EncryptionHandler::detect_encryption` -/
def detectEncryption (trailer : List String) : Bool := trailer.contains "Encrypt"

/-! ### what the reader returns for one written object -/

/-- the reader's view of a written non-stream object: decrypted iff the trailer announced
encryption and a password unlocked it, verbatim otherwise -/
def readObj (cfg : Cfg) (enc dec : Bytes → Bytes) (o : Obj) : Obj :=
  let written := encryptObj enc o
  if detectEncryption (trailerKeys cfg true) then decryptObj dec written else written

/-- the reader's view of an object written by the unrepaired writer -/
def readObjOld (cfg : Cfg) (enc dec : Bytes → Bytes) (o : Obj) : Obj :=
  let written := encryptObj enc o
  if detectEncryption (trailerKeysOld cfg true) then decryptObj dec written else written

def readStm (cfg : Cfg) (enc dec : Bytes → Bytes) (em : Bool) (s : Stm) : Option Stm :=
  let written := writeStm enc em s
  let got := if detectEncryption (trailerKeys cfg true) then decryptStm dec written else written
  if streamDecodable got then some got else none

/-- the writer before the repair: the encryptor's `/Filter /Crypt` tag went into the file -/
def readStmOld (cfg : Cfg) (enc dec : Bytes → Bytes) (em : Bool) (s : Stm) : Option Stm :=
  let written := encryptStm enc em s
  let got := if detectEncryption (trailerKeys cfg true) then decryptStm dec written else written
  if streamDecodable got then some got else none

/-! ### outcome summary compared with the harness -/

/-- a content stream as the writer makes it: `/Filter /FlateDecode` iff compression is on -/
def contentStream (cfg : Cfg) : Stm :=
  ⟨if cfg.compress then [("Length", .num "1"), ("Filter", .name "FlateDecode")] else [("Length", .num "1")], [1]⟩

/-- `same` iff every string and stream of the document reads back as written in clear:
the sample objects are an Info-like dictionary, an annotation dictionary with the request's
keys, and a content stream; the cipher is an arbitrary non-trivial involution. -/
def readsBackSame (cfg : Cfg) (annotKeys : List String) : Bool :=
  let enc : Bytes → Bytes := fun b => b.map (· ^^^ 0x5A) ++ [0]
  let dec : Bytes → Bytes := fun b => (b.dropLast).map (· ^^^ 0x5A)
  let info : Obj := .dict [("Title", .str [0x54]), ("Author", .str [0x41])]
  let annot : Obj := .dict (annotKeys.map fun k => (k, Obj.str [0x6E]))
  let objSame (o : Obj) : Bool := reprStr (readObj cfg enc dec o) == reprStr o
  let s := contentStream cfg
  let stmSame : Bool := match readStm cfg enc dec true s with
    | some g => g.data == s.data
    | none => false
  objSame info && objSame annot && stmSame

def outcome (cfg : Cfg) (annotKeys : List String) : String :=
  let e := detectEncryption (trailerKeys cfg true)
  let i := (trailerKeys cfg true).contains "ID"
  let same := readsBackSame cfg annotKeys
  let b := fun (x : Bool) => if x then "1" else "0"
  let v := if same then "ok-same" else "ok-diff"
  s!"E{b e} I{b i} enc{b e} perm:{if e then "same" else "-"} user:{v} owner:{v} wrong:{if e then "refused" else if same then "accepted-same" else "accepted-diff"}"

end OxiVerif.C05
