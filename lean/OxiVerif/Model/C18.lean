/-
C18 — model of page-tree navigation.

Transcribed by hand from
  * oxidize-pdf-core/src/parser/page_tree.rs  `resolve_kids`, `PageTree::flatten_page_tree`,
    `PageTree::new_with_flat_index`, `get_page_ref`, `ParsedPage::get_resources`
  * oxidize-pdf-core/src/parser/document.rs   `PdfDocument::{page_count, ensure_page_tree, get_page,
    load_page_by_ref, collect_inherited_attributes, create_parsed_page, get_rectangle, get_integer}`
  * oxidize-pdf-core/src/parser/reader.rs     `resolve_to_array`, `PdfReader::page_count`
    (since the repair of C18-F1 the same flatten walk as `PdfDocument::page_count`)

The object graph is a finite map from object numbers to objects; a reference to a number that
is not in the map (a free xref entry) resolves to `null`, as in `PdfReader::get_object`.
Import-free (core only).
-/
namespace OxiVerif.C18

def MAX_PAGES : Nat := 100000        -- page_tree.rs  const MAX_PAGES
def MAX_PAGE_COUNT : Nat := 100000   -- reader.rs     const MAX_PAGE_COUNT (inside page_count)

/-- A direct PDF value as far as the page-tree code can tell values apart. -/
inductive Raw where
  | nums (xs : List (Option Int))   -- array; `some v` numeric element (v = 2·value), `none` non-numeric
  | int (i : Int)
  | real
  | keys (ks : List String)         -- dictionary with these keys
  | ref (n : Nat)
  | junk                            -- a name
  deriving Repr, DecidableEq, Inhabited

/-- `/Type` entry. -/
inductive Ty where
  | absent | nonName | page | pages | other
  deriving Repr, DecidableEq, Inhabited

/-- element of a `/Kids`-like array -/
inductive Elem where
  | ref (n : Nat) | junk
  deriving Repr, DecidableEq, Inhabited

inductive Kids where
  | absent | direct (es : List Elem) | ref (n : Nat) | junk
  deriving Repr, DecidableEq, Inhabited

inductive Key where
  | resources | mediaBox | cropBox | rotate
  deriving Repr, DecidableEq, Inhabited

structure Dict where
  ty : Ty := .absent
  kids : Kids := .absent
  count : Option Raw := none
  parent : Option Nat := none
  res : Option Raw := none
  mb : Option Raw := none
  cb : Option Raw := none
  rot : Option Raw := none
  contents : Bool := false
  contentsRef : Option Nat := none   -- target of /Contents (used by the C16 model only)
  deriving Repr, DecidableEq, Inhabited

def Dict.attr (d : Dict) : Key → Option Raw
  | .resources => d.res
  | .mediaBox => d.mb
  | .cropBox => d.cb
  | .rotate => d.rot

inductive Obj where
  | dict (d : Dict)
  | arr (es : List Elem)     -- array of references / junk
  | raw (r : Raw)            -- integer, number array, plain dictionary, …
  | null
  | stream (hex : String)    -- stream whose dictionary has only /Length; data as hex text
  deriving Repr, DecidableEq, Inhabited

abbrev Graph := List (Nat × Obj)

def Graph.get (g : Graph) (n : Nat) : Obj :=
  match g.find? (fun e => e.1 == n) with
  | some e => e.2
  | none => .null

def Graph.ids (g : Graph) : List Nat := g.map (·.1)

/-- `PdfObject::as_dict` (a stream yields its dictionary). -/
def Obj.asDict : Obj → Option Dict
  | .dict d => some d
  | .stream _ => some {}
  | .raw (.keys _) => some {}
  | _ => none

def refsOf : List Elem → List Nat
  | [] => []
  | .ref n :: r => n :: refsOf r
  | .junk :: r => refsOf r

/-- `resolve_kids` / `resolve_to_array`: direct array, or ONE level of indirection. -/
def resolveKids (g : Graph) : Kids → List Nat
  | .direct es => refsOf es
  | .ref n => match g.get n with
    | .arr es => refsOf es
    | _ => []          -- a number array has no reference elements; anything else is not an array
  | _ => []

/-- what `flatten_page_tree` does with a popped, not yet visited reference -/
inductive Cls where
  | leaf | inner (kids : List Nat) | skip
  deriving Repr, DecidableEq, Inhabited

def classifyDict (g : Graph) (d : Dict) : Cls :=
  let hasKids := d.kids != .absent
  let pageLike := d.mb.isSome || d.contents
  match d.ty with
  | .page => .leaf
  | .pages => .inner (resolveKids g d.kids)
  | .other => if pageLike then .leaf else .skip
  | _ => if hasKids then .inner (resolveKids g d.kids) else if pageLike then .leaf else .skip

def classify (g : Graph) (n : Nat) : Cls :=
  match (g.get n).asDict with
  | none => .skip
  | some d => classifyDict g d

/-- The `while let Some(obj_ref) = stack.pop()` loop.  `stack` head = top of the Rust stack.
`none` = fuel exhausted (never happens with `fuelBound`, see `C18_flatten_terminates`). -/
def loop (cls : Nat → Cls) : Nat → List Nat → List Nat → List Nat → Option (List Nat)
  | _, [], _, out => some out
  | 0, _ :: _, _, _ => none
  | fuel + 1, n :: st, vis, out =>
    if MAX_PAGES ≤ out.length then some out
    else if n ∈ vis then loop cls fuel st vis out
    else match cls n with
      | .leaf => loop cls fuel st (n :: vis) (out ++ [n])
      | .inner ks => loop cls fuel (ks ++ st) (n :: vis) out
      | .skip => loop cls fuel st (n :: vis) out

def kidsLen (cls : Nat → Cls) (n : Nat) : Nat :=
  match cls n with
  | .inner ks => ks.length
  | _ => 0

/-- potential of the loop: pending stack entries + kids of not yet expanded nodes -/
def pending (cls : Nat → Cls) (ids vis : List Nat) : Nat :=
  match ids with
  | [] => 0
  | i :: r => (if i ∈ vis then 0 else kidsLen cls i) + pending cls r vis

def fuelBound (cls : Nat → Cls) (ids rootKids : List Nat) : Nat :=
  rootKids.length + pending cls ids []

def flatten (g : Graph) (root : Dict) : Option (List Nat) :=
  let rk := resolveKids g root.kids
  loop (classify g) (fuelBound (classify g) g.ids rk) rk [] []

/-- `PdfDocument::page_count` = `page_refs.len()` of the flat index (`new_with_flat_index`) -/
def docPageCount (g : Graph) (root : Dict) : Option Nat := (flatten g root).map List.length

/-! ### inherited attributes (`collect_inherited_attributes`) -/

structure Inh where
  res : Option Raw := none
  mb : Option Raw := none
  cb : Option Raw := none
  rot : Option Raw := none
  deriving Repr, DecidableEq, Inhabited

def Inh.get (i : Inh) : Key → Option Raw
  | .resources => i.res
  | .mediaBox => i.mb
  | .cropBox => i.cb
  | .rotate => i.rot

/-- one pass of `for key in &inheritable_keys` over a parent dictionary -/
def mergeKey (page : Dict) (inh : Inh) (pd : Dict) (k : Key) : Option Raw :=
  if (page.attr k).isNone && (inh.get k).isNone then pd.attr k else inh.get k

def merge (page : Dict) (inh : Inh) (pd : Dict) : Inh :=
  { res := mergeKey page inh pd .resources, mb := mergeKey page inh pd .mediaBox,
    cb := mergeKey page inh pd .cropBox, rot := mergeKey page inh pd .rotate }

/-- the `while let Some(parent_ref) = current_parent_ref` loop; `none` = fuel exhausted -/
def walk (g : Graph) (page : Dict) : Nat → Option Nat → List Nat → Inh → Option Inh
  | _, none, _, inh => some inh
  | 0, some _, _, _ => none
  | fuel + 1, some p, vis, inh =>
    if p ∈ vis then some inh
    else match (g.get p).asDict with
      | none => some inh
      | some pd => walk g page fuel pd.parent (p :: vis) (merge page inh pd)

def collectInherited (g : Graph) (page : Dict) : Option Inh :=
  walk g page (g.length + 1) page.parent [] {}

/-! ### `create_parsed_page` -/

def wrapI32 (i : Int) : Int := (i + 2147483648) % 4294967296 - 2147483648
def wrapU32 (i : Int) : Nat := (i % 4294967296).toNat

structure Page where
  id : Nat
  mediaBox : List Int
  cropBox : Option (List Int)
  rotation : Int
  resources : Option (List String)   -- `get_resources()` keys, sorted
  deriving Repr, DecidableEq, Inhabited

def effective (page : Dict) (inh : Inh) (k : Key) : Option Raw :=
  match page.attr k with
  | some v => some v
  | none => inh.get k

/-- `get_rectangle`: `none` = error (array of the wrong length) -/
def getRect (v : Option Raw) : Option (Option (List Int)) :=
  match v with
  | some (.nums xs) => if xs.length != 4 then none else some (some (xs.map (·.getD 0)))
  | _ => some none

def getInt (v : Option Raw) : Option Int :=
  match v with
  | some (.int i) => some i
  | _ => none

def insertSorted (s : String) : List String → List String
  | [] => [s]
  | a :: r => if s < a then s :: a :: r else a :: insertSorted s r

def sortKeys (ks : List String) : List String := ks.foldr insertSorted []

def dictKeys (d : Dict) : List String :=
  (if d.ty != .absent then ["Type"] else []) ++ (if d.kids != .absent then ["Kids"] else []) ++
  (if d.count.isSome then ["Count"] else []) ++ (if d.parent.isSome then ["Parent"] else []) ++
  (if d.res.isSome then ["Resources"] else []) ++ (if d.mb.isSome then ["MediaBox"] else []) ++
  (if d.cb.isSome then ["CropBox"] else []) ++ (if d.rot.isSome then ["Rotate"] else []) ++
  (if d.contents then ["Contents"] else [])

def objKeys : Obj → Option (List String)
  | .dict d => some (dictKeys d)
  | .stream _ => some ["Length"]
  | .raw (.keys ks) => some ks
  | _ => none

/-- `self.resolve(r).ok().and_then(|r| r.as_dict())`, as key list -/
def resolveResKeys (g : Graph) : Raw → Option (List String)
  | .ref n => objKeys (g.get n)
  | .keys ks => some ks
  | _ => none

/-- `ParsedPage::get_resources()` after `create_parsed_page` -/
def pageResources (g : Graph) (page : Dict) (inh : Inh) : Option (List String) :=
  match page.res with
  | some (.keys ks) => some ks                   -- own inline dictionary
  | _ => match effective page inh .resources with
    | some r => resolveResKeys g r
    | none => none

/-- `self.resolve(obj).ok()` at the head of `get_rectangle` / `get_integer`: ONE level of
indirection for an attribute value.  A reference to a number-array / integer / … object yields
that value; to an array object of references an array whose elements are all non-numeric; to
anything else (null = free entry, dictionary, stream) a value that is neither array nor integer. -/
def resolveRaw (g : Graph) : Option Raw → Option Raw
  | some (.ref n) => match g.get n with
    | .raw r => some r
    | .arr es => some (.nums (es.map fun _ => none))
    | _ => some .junk
  | v => v

/-- `create_parsed_page` BEFORE the repair of C18-F2 (`get_rectangle` / `get_integer` looked at
direct values only); kept for the regression witness -/
def createPageUnresolved (g : Graph) (id : Nat) (page : Dict) (inh : Inh) : Option Page :=
  match getRect (effective page inh .mediaBox) with
  | none => none
  | some mbo =>
    match getRect (effective page inh .cropBox) with
    | none => none
    | some cbo =>
      some { id := id, mediaBox := mbo.getD [0, 0, 1224, 1584], cropBox := cbo,
             rotation := wrapI32 ((getInt (effective page inh .rotate)).getD 0),
             resources := (pageResources g page inh).map sortKeys }

/-- `create_parsed_page`; `none` = `Err`.  MediaBox / CropBox / Rotate: the effective (own, else
inherited) entry, resolved through one reference, then read as rectangle / integer. -/
def createPage (g : Graph) (id : Nat) (page : Dict) (inh : Inh) : Option Page :=
  match getRect (resolveRaw g (effective page inh .mediaBox)) with
  | none => none
  | some mbo =>
    match getRect (resolveRaw g (effective page inh .cropBox)) with
    | none => none
    | some cbo =>
      some { id := id, mediaBox := mbo.getD [0, 0, 1224, 1584], cropBox := cbo,
             rotation := wrapI32 ((getInt (resolveRaw g (effective page inh .rotate))).getD 0),
             resources := (pageResources g page inh).map sortKeys }

inductive PageRes where
  | ok (p : Page) | err | fuel
  deriving Repr, DecidableEq, Inhabited

/-- `load_page_by_ref` -/
def loadPage (g : Graph) (id : Nat) : PageRes :=
  match (g.get id).asDict with
  | none => .err
  | some d => match collectInherited g d with
    | none => .fuel
    | some inh => match createPage g id d inh with
      | some p => .ok p
      | none => .err

/-- `PdfDocument::get_page(i)` when the flat index is non-empty -/
def getPage (g : Graph) (flat : List Nat) (i : Nat) : PageRes :=
  match flat[i]? with
  | some id => loadPage g id
  | none => .err

/-! ### `PdfReader::page_count` -/

def arrayLen (g : Graph) : Kids → Option Nat
  | .direct es => some es.length
  | .ref n => match g.get n with
    | .arr es => some es.length
    | .raw (.nums xs) => some xs.length
    | _ => none
  | _ => none

def countValue (g : Graph) : Option Raw → Option Int
  | some (.int i) => some i
  | some (.ref n) => match g.get n with
    | .raw (.int i) => some i
    | _ => none
  | _ => none

/-- `PdfReader::page_count` BEFORE the repair of C18-F1: the declared root `/Count` (inline or
indirect, `as u32`, ≤ 100 000), else the length of the root `/Kids` array, else 0 — the tree is
not walked.  Kept for the regression witness. -/
def readerPageCountDeclared (g : Graph) (root : Dict) : Nat :=
  let fallback := (arrayLen g root.kids).getD 0
  match countValue g root.count with
  | some c => if wrapU32 c ≤ MAX_PAGE_COUNT then wrapU32 c else fallback
  | none => fallback

/-- `PdfReader::page_count`: `flatten_page_tree(self, &pages)?.len()` — the same traversal as
`PdfDocument::page_count`; `none` = fuel exhausted (never, `C18_flatten_terminates`). -/
def readerPageCount (g : Graph) (root : Dict) : Option Nat := (flatten g root).map List.length

end OxiVerif.C18
