/-!
# C27 — executable model of `oxidize-pdf-core/src/page_labels/{page_label.rs,page_label_tree.rs}`

Hand transcription (import-free).  Rust `u32` values are `Nat`s; the one checked operation that
could overflow (`self.start + offset` in `PageLabel::format_label`) saturates since repair 707b2902
(`formatLabelOld` keeps the panicking form); `idx + 1` for pages before the first range still
yields `Res.panic` exactly when the debug build panics.  Strings are lists of `Char` (number part, ASCII) / lists of bytes
(prefix, opaque UTF-8).

Also in this file (below the model): the spec side — ISO 32000-1 §12.4.2 Table 159 numbering
styles written from the text, used by the theorems and by the driver's oracle.
-/
namespace OxiVerif.C27

/-! ## `PageLabelStyle`, `PageLabel` -/

inductive Style
  | decimal | upperRoman | lowerRoman | upperLetters | lowerLetters | none
  deriving DecidableEq, Repr, Inhabited

structure Label where
  style : Style
  /-- `prefix: Option<String>` as UTF-8 bytes -/
  pfx : Option (List Nat)
  /-- `start: u32` -/
  start : Nat
  deriving DecidableEq, Repr, Inhabited

def U32_MAX : Nat := 4294967295

/-- `PageLabelStyle::to_pdf_name` -/
def Style.toPdfName : Style → Option String
  | .decimal => some "D"
  | .upperRoman => some "R"
  | .lowerRoman => some "r"
  | .upperLetters => some "A"
  | .lowerLetters => some "a"
  | .none => Option.none

/-! ### `u32::to_string` (std) — least significant digit first, pushed to the front -/

def decLoop : Nat → Nat → List Char → List Char
  | 0, _, acc => acc
  | fuel + 1, n, acc =>
    let acc' := Char.ofNat (48 + n % 10) :: acc
    if n / 10 = 0 then acc' else decLoop fuel (n / 10) acc'

def decimalChars (n : Nat) : List Char := decLoop (n + 1) n []

/-! ### `to_roman` (page_label.rs:188-222) -/

/-- the `values` table, in source order -/
def romanTable : List (Nat × List Char) :=
  [(1000, ['m']), (900, ['c', 'm']), (500, ['d']), (400, ['c', 'd']), (100, ['c']),
   (90, ['x', 'c']), (50, ['l']), (40, ['x', 'l']), (10, ['x']), (9, ['i', 'x']),
   (5, ['v']), (4, ['i', 'v']), (1, ['i'])]

/-- `while num >= *value { result.push_str(numeral); num -= value; }` (first argument: fuel) -/
def romanWhile (v : Nat) (s : List Char) : Nat → Nat → List Char → List Char × Nat
  | 0, num, acc => (acc, num)
  | fuel + 1, num, acc =>
    if num ≥ v then romanWhile v s fuel (num - v) (acc ++ s) else (acc, num)

/-- `for (value, numeral) in values.iter() { … }` -/
def romanFor : List (Nat × List Char) → Nat → List Char → List Char
  | [], _, acc => acc
  | (v, s) :: rest, num, acc =>
    let r := romanWhile v s num num acc
    romanFor rest r.2 r.1

def toRoman (num : Nat) : List Char :=
  if num = 0 then [] else romanFor romanTable num []

/-! ### `to_letters` (page_label.rs:224-243) -/

/-- `while n > 0 { … result.insert(0, letter); n = (n - 1) / 26; }` (first argument: fuel) -/
def lettersWhile (upper : Bool) : Nat → Nat → List Char → List Char
  | 0, _, acc => acc
  | fuel + 1, n, acc =>
    if n > 0 then
      let remainder := (n - 1) % 26
      let letter := Char.ofNat ((if upper then 65 else 97) + remainder)
      lettersWhile upper fuel ((n - 1) / 26) (letter :: acc)
    else acc

def toLetters (num : Nat) (upper : Bool) : List Char :=
  if num = 0 then [] else lettersWhile upper num num []

/-- `str::to_uppercase` on the ASCII output of `to_roman` -/
def upcase (cs : List Char) : List Char := cs.map Char.toUpper

/-- `PageLabelStyle::format` -/
def Style.format : Style → Nat → List Char
  | .decimal, n => decimalChars n
  | .upperRoman, n => upcase (toRoman n)
  | .lowerRoman, n => toRoman n
  | .upperLetters, n => toLetters n true
  | .lowerLetters, n => toLetters n false
  | .none, _ => []

/-- result of a label computation: no range applies / the label bytes / debug-build panic -/
inductive Res
  | absent
  | label (bs : List Nat)
  | panic
  deriving DecidableEq, Repr, Inhabited

def charsToBytes (cs : List Char) : List Nat := cs.map Char.toNat

/-- `PageLabel::format_label`: `self.start.saturating_add(offset)` (repair 707b2902; before it the
addition was a checked `u32` addition that panicked in a debug build — `formatLabelOld`) -/
def Label.formatLabel (l : Label) (offset : Nat) : Res :=
  let label := match l.pfx with
    | some p => p
    | Option.none => []
  if l.style ≠ .none then
    .label (label ++ charsToBytes (l.style.format (min (l.start + offset) U32_MAX)))
  else .label label

/-- the same function before repair 707b2902 -/
def Label.formatLabelOld (l : Label) (offset : Nat) : Res :=
  let label := match l.pfx with
    | some p => p
    | Option.none => []
  if l.style ≠ .none then
    if l.start + offset > U32_MAX then .panic
    else .label (label ++ charsToBytes (l.style.format (l.start + offset)))
  else .label label

/-! ## `PageLabelTree` — `BTreeMap<u32, PageLabel>` as a list sorted by key -/

abbrev Tree := List (Nat × Label)

/-- `BTreeMap::insert` -/
def insert (k : Nat) (l : Label) : Tree → Tree
  | [] => [(k, l)]
  | (k', l') :: t =>
    if k < k' then (k, l) :: (k', l') :: t
    else if k = k' then (k, l) :: t
    else (k', l') :: insert k l t

/-- a sequence of `add_range` calls on `PageLabelTree::new()` -/
def build (adds : List (Nat × Label)) : Tree :=
  adds.foldl (fun t a => insert a.1 a.2 t) []

/-- the `for (&start, label) in &self.ranges { if start <= page_index {…} else { break } }` walk -/
def walk (idx : Nat) : Tree → Option (Nat × Label) → Option (Nat × Label)
  | [], cur => cur
  | (s, l) :: t, cur => if s ≤ idx then walk idx t (some (s, l)) else cur

/-- `PageLabelTree::get_label` -/
def getLabel (t : Tree) (idx : Nat) : Res :=
  match walk idx t Option.none with
  | Option.none => .absent
  | some (s, l) => l.formatLabel (idx - s)

/-- `PageLabelTree::get_all_labels` / `Document::get_page_label`: default `(i + 1).to_string()`
(checked `u32` addition) -/
def getLabelOrDefault (t : Tree) (idx : Nat) : Res :=
  match getLabel t idx with
  | .absent => if idx + 1 > U32_MAX then .panic else .label (charsToBytes (decimalChars (idx + 1)))
  | r => r

/-! ## `to_dict` / `from_dict` — the objects that matter -/

inductive Obj
  | int (i : Int)
  | name (s : String)
  | str (bs : List Nat)
  | other
  deriving DecidableEq, Repr, Inhabited

/-- a page-label dictionary restricted to the keys the code looks at -/
structure LabelDict where
  type : Option Obj
  s : Option Obj
  p : Option Obj
  st : Option Obj
  deriving DecidableEq, Repr, Inhabited

inductive Elem
  | obj (o : Obj)
  | dict (d : LabelDict)
  deriving DecidableEq, Repr, Inhabited

/-- `PageLabel::to_dict` -/
def Label.toDict (l : Label) : LabelDict :=
  { type := some (.name "PageLabel")
    s := l.style.toPdfName.map .name
    p := l.pfx.map .str
    st := if l.start ≠ 1 then some (.int (Int.ofNat l.start)) else Option.none }

/-- `PageLabelTree::to_dict`: the `/Nums` array -/
def toNums : Tree → List Elem
  | [] => []
  | (k, l) :: t => .obj (.int (Int.ofNat k)) :: .dict l.toDict :: toNums t

/-- `n as u32` for `n : i64` -/
def asU32 (i : Int) : Nat := (i % 4294967296).toNat

def styleOfName : Option String → Style
  | some "D" => .decimal
  | some "R" => .upperRoman
  | some "r" => .lowerRoman
  | some "A" => .upperLetters
  | some "a" => .lowerLetters
  | _ => .none

/-- the body of the `from_dict` loop for one (key, value) pair that passed the type tests -/
def labelOfDict (d : LabelDict) : Label :=
  let styleName : Option String := match d.s with
    | some (.name s) => some s
    | _ => match d.type with
      | some (.name t) => if t ≠ "PageLabel" then some t else Option.none
      | _ => Option.none
  let label : Label := { style := styleOfName styleName, pfx := Option.none, start := 1 }
  let label := match d.p with
    | some (.str p) => { label with pfx := some p }
    | _ => label
  match d.st with
  | some (.int st) => { label with start := asU32 st }
  | _ => label

/-- `for i in (0..elements.len()).step_by(2) { if i + 1 >= len {break}; … }` -/
def fromNumsLoop : List Elem → Tree → Tree
  | a :: b :: rest, tree =>
    match a with
    | .obj (.int n) =>
      match b with
      | .dict d => fromNumsLoop rest (insert (asU32 n) (labelOfDict d) tree)
      | _ => fromNumsLoop rest tree
    | _ => fromNumsLoop rest tree
  | _, tree => tree

/-- `PageLabelTree::from_dict`; the argument is `dict.get("Nums")` when it is an array -/
def fromDict (nums : Option (List Elem)) : Option Tree :=
  match nums with
  | Option.none => Option.none
  | some es => some (fromNumsLoop es [])

/-! ## Spec side — ISO 32000-1 §12.4.2, Table 159 -/
namespace Spec

/-- units / tens / hundreds of the standard subtractive Roman notation -/
def romanDigit (one five ten : Char) : Nat → List Char
  | 0 => []
  | 1 => [one]
  | 2 => [one, one]
  | 3 => [one, one, one]
  | 4 => [one, five]
  | 5 => [five]
  | 6 => [five, one]
  | 7 => [five, one, one]
  | 8 => [five, one, one, one]
  | _ => [one, ten]

/-- canonical lowercase Roman numeral; thousands are `m` repeated (the only extension beyond 3999
that stays within the seven letters) -/
def roman (n : Nat) : List Char :=
  List.replicate (n / 1000) 'm' ++ romanDigit 'c' 'd' 'm' (n / 100 % 10) ++
    romanDigit 'x' 'l' 'c' (n / 10 % 10) ++ romanDigit 'i' 'v' 'x' (n % 10)

def romanSymbol : Char → Nat
  | 'i' => 1 | 'v' => 5 | 'x' => 10 | 'l' => 50 | 'c' => 100 | 'd' => 500 | 'm' => 1000
  | 'I' => 1 | 'V' => 5 | 'X' => 10 | 'L' => 50 | 'C' => 100 | 'D' => 500 | 'M' => 1000
  | _ => 0

/-- value of a Roman numeral: a symbol smaller than its right neighbour is subtracted -/
def romanValue : List Char → Int
  | [] => 0
  | [c] => romanSymbol c
  | c :: d :: r =>
    (if romanSymbol c < romanSymbol d then - (romanSymbol c : Int) else (romanSymbol c : Int))
      + romanValue (d :: r)

/-- Table 159, `/A` and `/a`: "A to Z for the first 26 pages, AA to ZZ for the next 26, and so on" -/
def letters (n : Nat) (upper : Bool) : List Char :=
  List.replicate ((n - 1) / 26 + 1) (Char.ofNat ((if upper then 65 else 97) + (n - 1) % 26))

/-- value of a decimal digit string -/
def decValue (cs : List Char) : Nat := cs.foldl (fun a c => a * 10 + (c.toNat - 48)) 0

/-- value of a bijective base-26 letter string (`A`=1 … `Z`=26) -/
def bij26Value (base : Nat) (cs : List Char) : Nat :=
  cs.foldl (fun a c => a * 26 + (c.toNat - base + 1)) 0

/-- the numeric portion Table 159 prescribes for style `s` and value `n ≥ 1` -/
def number : Style → Nat → List Char
  | .decimal, n => (toString n).toList
  | .upperRoman, n => upcase (roman n)
  | .lowerRoman, n => roman n
  | .upperLetters, n => letters n true
  | .lowerLetters, n => letters n false
  | .none, _ => []

/-- the applicable range by definition: the entry with the greatest start ≤ idx -/
def applicable (t : List (Nat × Label)) (idx : Nat) : Option (Nat × Label) :=
  t.foldl (fun best e =>
    if e.1 ≤ idx then
      match best with
      | Option.none => some e
      | some b => if b.1 ≤ e.1 then some e else some b
    else best) Option.none

/-- the label of page `idx` (§12.4.2): prefix followed by the numeric portion for
`St + (idx − start of range)` -/
def label (t : List (Nat × Label)) (idx : Nat) : Option (List Nat) :=
  match applicable t idx with
  | Option.none => Option.none
  | some (s, l) =>
    some ((l.pfx.getD []) ++ charsToBytes (number l.style (l.start + (idx - s))))

/-- the ranges a sequence of `add_range` calls denotes: one per distinct start page, the last
addition for that page, ascending -/
def finalRanges (adds : List (Nat × Label)) : List (Nat × Label) :=
  let keys := ((adds.map (·.1)).eraseDups).mergeSort (fun a b => a ≤ b)
  keys.filterMap fun k => (adds.filter (fun a => a.1 = k)).getLast?


/-! ### `/P` is a text string (ISO 32000-1 §7.9.2.2, Table 159) -/

/-- code points of a UTF-8 byte string (the authored Rust `String`); fuel = number of bytes -/
def utf8DecodeF : Nat → List Nat → List Nat
  | 0, _ => []
  | _, [] => []
  | fuel + 1, b :: rest =>
    if b < 128 then b :: utf8DecodeF fuel rest
    else if b < 224 then
      match rest with
      | c :: r => ((b - 192) * 64 + (c - 128)) :: utf8DecodeF fuel r
      | [] => [65533]
    else if b < 240 then
      match rest with
      | c :: d :: r => ((b - 224) * 4096 + (c - 128) * 64 + (d - 128)) :: utf8DecodeF fuel r
      | _ => [65533]
    else
      match rest with
      | c :: d :: e :: r =>
        ((b - 240) * 262144 + (c - 128) * 4096 + (d - 128) * 64 + (e - 128)) :: utf8DecodeF fuel r
      | _ => [65533]

def utf8Decode (bs : List Nat) : List Nat := utf8DecodeF bs.length bs

/-- UTF-16BE code units → code points (surrogate pairs combined; a lone surrogate stays) -/
def utf16DecodeF : Nat → List Nat → List Nat
  | 0, _ => []
  | _, [] => []
  | _, [_] => [65533]
  | fuel + 1, a :: b :: rest =>
    let u := a * 256 + b
    if 55296 ≤ u ∧ u < 56320 then
      match rest with
      | c :: d :: r =>
        let l := c * 256 + d
        if 56320 ≤ l ∧ l < 57344 then
          (65536 + (u - 55296) * 1024 + (l - 56320)) :: utf16DecodeF fuel r
        else u :: utf16DecodeF fuel rest
      | _ => u :: utf16DecodeF fuel rest
    else u :: utf16DecodeF fuel rest

/-- the characters a reader shows for a text string: after `FE FF` UTF-16BE, otherwise
PDFDocEncoding — which agrees with ASCII on TAB, LF, CR and 0x20..0x7E; every other byte stands
for *one* character of Annex D, rendered here as the placeholder `0xE000 + byte` -/
def readTextString : List Nat → List Nat
  | 254 :: 255 :: rest => utf16DecodeF rest.length rest
  | bs => bs.map fun b => if b = 9 ∨ b = 10 ∨ b = 13 ∨ (32 ≤ b ∧ b ≤ 126) then b else 57344 + b

/-- the written prefix shows the authored characters -/
def prefixReadsBack (written authored : Option (List Nat)) : Bool :=
  match written, authored with
  | Option.none, Option.none => true
  | some w, some a => readTextString w = utf8Decode a
  | _, _ => false

end Spec
end OxiVerif.C27
