import OxiVerif.Model.C14
/-
C14 — spec-side definitions (what the property says), executable so that the driver can evaluate
them on the implementation's actual answer, and referenced by the theorems in `Props/C14.lean`.
Import-free apart from the model's data types.
-/
namespace OxiVerif.C14

/-- remove every white-space character -/
def stripWs (s : Str) : Str := s.filter fun c => !isWs c

/-- `Covers out inp`: `out` contains the content of every element of `inp` exactly once and in
order: each input element appears either unchanged, or — only if it is splittable — as a non-empty
run of text fragments made from it (`mkFragment`: same provenance) whose concatenation is the
element's text up to white space. -/
inductive Covers : List Elem → List Elem → Prop
  | nil : Covers [] []
  | whole (e : Elem) {o i : List Elem} : Covers o i → Covers (e :: o) (e :: i)
  | split (e : Elem) (fs : List Str) {o i : List Elem} :
      isSplittable e = true → fs ≠ [] → stripWs fs.flatten = stripWs e.display →
      Covers o i → Covers (fs.map (mkFragment e) ++ o) (e :: i)

/-- `x` is a text fragment made from `e` -/
def isFragOf (e x : Elem) : Bool :=
  match x.payload with
  | .text s => decide (x = mkFragment e s)
  | _ => false

def fragText (x : Elem) : Str :=
  match x.payload with
  | .text s => s
  | _ => []

/-- executable check of `Covers` (search over the number of fragments) -/
def coversB : List Elem → List Elem → Bool
  | out, [] => out.isEmpty
  | out, e :: inp =>
    (match out with
     | x :: o' => decide (x = e) && coversB o' inp
     | [] => false) ||
    (isSplittable e &&
      (List.range out.length).any fun k =>
        let pre := out.take (k + 1)
        pre.all (isFragOf e) &&
        decide (stripWs (pre.map fragText).flatten = stripWs e.display) &&
        coversB (out.drop (k + 1)) inp)

/-- every non-title element after the first title names the most recent title as its
`parent_heading` (`cur` = text of the most recent title, `none` before the first one) -/
def wellSec : Option Str → List Elem → Bool
  | _, [] => true
  | cur, e :: rest =>
    if e.isTitle then wellSec (some e.text) rest
    else (cur.isNone || decide (e.md.parentHeading = cur)) && wellSec cur rest

def WellSectioned (els : List Elem) : Prop := wellSec none els = true

/-- no STALE heading: every non-title element after the first title names the most recent title,
or names no earlier title at all, or names nothing (`ts` = texts of the earlier titles, most recent
first).  Weaker than `WellSectioned`. -/
def noStale : List Str → List Elem → Bool
  | _, [] => true
  | ts, e :: rest =>
    if e.isTitle then noStale (e.text :: ts) rest
    else
      (match ts, e.md.parentHeading with
       | t :: older, some h => decide (h = t) || !older.contains h
       | _, _ => true) && noStale ts rest

def NoStale (els : List Elem) : Prop := noStale [] els = true

/-- consecutive elements that can share a chunk (`canMergeElems`) have the same `parent_heading` -/
def headingStable (cfg : Config) : List Elem → Bool
  | a :: b :: rest =>
    (!canMergeElems a b cfg || decide (a.md.parentHeading = b.md.parentHeading)) &&
    headingStable cfg (b :: rest)
  | _ => true

/-- additivity of a counter across the element separator -/
def AdditiveNl (count : Str → Nat) : Prop := ∀ a b : Str, count (a ++ ['\n'] ++ b) = count a + count b

/-- the heading `chunk` must give a chunk: the `parent_heading` of its first element -/
def seqHeading (cfg : Config) (c : Chunk) : Option Str :=
  match c.elements with
  | e :: _ => elemHeading cfg e
  | [] => none

/-- the heading of a title's section in `chunk_with_graph` -/
def titleHeading (t : Elem) : Option Str :=
  match t.md.parentHeading with
  | some h => some h
  | none => some t.text

end OxiVerif.C14
