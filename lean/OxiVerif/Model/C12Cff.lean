/-
C12 (CFF part) — placeholder, replaced below when the CFF path is modelled.
-/
namespace OxiVerif.C12Cff

def handleCF (_fs : List String) (impl : String) : String × String := (impl, "na")

end OxiVerif.C12Cff
