import OxiVerif.Model.C12
/-
C12 (CFF part) — model of the glyph selection and renumbering of
`text/fonts/cff_subsetter.rs::subset_cff_font`:
  needed_gids = [0] ++ (cmap gid of every used char, gid != 0), sorted, dedup'd
  gid_remap   = position in that list
  glyph_mapping[c] = gid_remap[cmap c]
  CharStrings INDEX of the output = the (desubroutinised) charstring of needed_gids[i] at i.
The abstraction of a glyph is what the harness's independent CFF reader extracts: the advance
width resolved against defaultWidthX/nominalWidthX (a decimal token) and the fingerprint of the
flattened (subroutine-free) Type 2 token stream.  The byte assembly of the new CFF (Top DICT,
charset, FDSelect, FDArray, Private) is NOT modelled. Import-free.
-/
namespace OxiVerif.C12

structure CffRow where
  width : String
  fp : Nat
  deriving DecidableEq, Repr, Inhabited

def cffSubset (cmap : Nat → Option Gid) (fact : Gid → CffRow) (used : List Nat) :
    List (Nat × Gid) × List CffRow :=
  let sorted := sortGids (initNeeded used cmap)
  (newMapping cmap sorted used, sorted.map fact)

end OxiVerif.C12
