/-
C01 — Rust debug-build ("overflow-checks = on") integer semantics and the outcome type of a
modelled kernel.  Import-free.

A checked operation returns `none` when the Rust operation would panic
("attempt to add/subtract/multiply with overflow", remainder by zero, index out of bounds).
`asU`/`asI` are the wrapping `as` casts.  A kernel that reaches `none` returns `Outcome.panic k`
where `k` names the kind of panic (it is compared with the panic message of the real code).
`Outcome.diverge` is the answer of a loop that provably never leaves (the real code hangs).
-/
namespace OxiVerif.C01

/-- kind of run-time failure of the real code -/
inductive PK where
  | add | sub | mul | rem0 | index
  /-- `&s[a..b]` on a `str` where `a` or `b` is not a char boundary -/
  | boundary
  /-- allocation of a caller-controlled size before any validation (allocator abort) -/
  | alloc
deriving Repr, DecidableEq, BEq

def PK.name : PK → String
  | .add => "add" | .sub => "sub" | .mul => "mul" | .rem0 => "rem0" | .index => "index"
  | .alloc => "alloc" | .boundary => "boundary"

inductive Outcome (α : Type) where
  | ok : α → Outcome α
  | err : Outcome α
  | panic : PK → Outcome α
  | diverge : Outcome α
deriving Repr, DecidableEq

namespace Outcome
def bind {α β} (x : Outcome α) (f : α → Outcome β) : Outcome β :=
  match x with
  | .ok a => f a
  | .err => .err
  | .panic k => .panic k
  | .diverge => .diverge

instance : Monad Outcome where
  pure := .ok
  bind := Outcome.bind

def isPanic {α} : Outcome α → Bool
  | .panic _ => true
  | _ => false

/-- "ends in a value or an error" — the C01 predicate on one kernel run -/
def fine {α} : Outcome α → Bool
  | .ok _ => true
  | .err => true
  | _ => false

def ofOpt {α} (k : PK) : Option α → Outcome α
  | some a => .ok a
  | none => .panic k

@[simp] theorem bind_ok {α β} (a : α) (f : α → Outcome β) : (Outcome.ok a >>= f) = f a := rfl
@[simp] theorem bind_err {α β} (f : α → Outcome β) : ((Outcome.err : Outcome α) >>= f) = .err := rfl
@[simp] theorem bind_panic {α β} (k : PK) (f : α → Outcome β) :
    ((Outcome.panic k : Outcome α) >>= f) = .panic k := rfl
@[simp] theorem bind_diverge {α β} (f : α → Outcome β) :
    ((Outcome.diverge : Outcome α) >>= f) = .diverge := rfl
end Outcome

/-! ### machine integers -/

def U8 : Nat := 2 ^ 8
def U16 : Nat := 2 ^ 16
def U32 : Nat := 2 ^ 32
def U64 : Nat := 2 ^ 64
/-- `usize` on the 64-bit target of the harness -/
def USIZE : Nat := 2 ^ 64
def I32MIN : Int := -(2 ^ 31)
def I32MAX : Int := 2 ^ 31 - 1
def I64MIN : Int := -(2 ^ 63)
def I64MAX : Int := 2 ^ 63 - 1

/-- checked unsigned `a + b` in a type with `m` values -/
def addU (m a b : Nat) : Outcome Nat := if a + b < m then .ok (a + b) else .panic .add
/-- checked unsigned `a * b` -/
def mulU (m a b : Nat) : Outcome Nat := if a * b < m then .ok (a * b) else .panic .mul
/-- checked unsigned `a - b` -/
def subU (a b : Nat) : Outcome Nat := if b ≤ a then .ok (a - b) else .panic .sub
/-- checked `a % b` -/
def remU (a b : Nat) : Outcome Nat := if b = 0 then .panic .rem0 else .ok (a % b)
/-- checked signed `a + b` in `[lo, hi]` -/
def addI (lo hi a b : Int) : Outcome Int :=
  if lo ≤ a + b ∧ a + b ≤ hi then .ok (a + b) else .panic .add

/-- wrapping `as` cast of a signed value to an unsigned type with `m` values -/
def asU (m : Nat) (i : Int) : Nat := (i % (m : Int)).toNat
/-- wrapping `as` cast to a signed type with `m` values (two's complement) -/
def asI (m : Nat) (i : Int) : Int :=
  let r := i % (m : Int)
  if r < (m : Int) / 2 then r else r - m

/-- `slice[i]` -/
def idx {α} (xs : List α) (i : Nat) : Outcome α :=
  match xs[i]? with
  | some a => .ok a
  | none => .panic .index

end OxiVerif.C01
