import OxiVerif.Base.Driver
import OxiVerif.Spec.Syntax
import OxiVerif.Model.Lexer
import OxiVerif.Model.Serializer
/-!
# Model.ObjCanon — request-line object trees and canonical printing (driver side)

Counterpart of `harness/src/b0930_common.rs`: the same token grammar for trees
(`n t f i<dec> r<bits>:<fix6> s<hex> h<hex> /<hex> R<n>.<g> [ ] < k<hex> … >`) and the same
canonical text for parsed values and lexer tokens.  Executable helpers only — no theorem
depends on this file.  Import-free apart from OxiVerif's own import-free modules.
-/
namespace OxiVerif.ObjCanon
open OxiVerif.Spec.Syntax (Obj)
open OxiVerif.Model

def bytesOfString (s : String) : List Nat := s.toUTF8.toList.map (·.toNat)

def stringOfBytes (bs : List Nat) : String := String.ofList (bs.map Char.ofNat)

/-- a Rust `String` whose `char`s are the code points `cs` (all < 256), as UTF-8 bytes -/
def utf8OfLatin1 : List Nat → List Nat
  | [] => []
  | c :: r => if c < 128 then c :: utf8OfLatin1 r else (192 + c / 64) :: (128 + c % 64) :: utf8OfLatin1 r

/-! ## request trees -/

def parseIntTok (s : String) : Option Int :=
  match s.toList with
  | '-' :: r => (String.ofList r).toNat?.map fun n => - (Int.ofNat n)
  | _ => s.toNat?.map Int.ofNat

mutual
def parseTree : Nat → List String → Option (Obj × List String)
  | 0, _ => none
  | _, [] => none
  | fuel + 1, t :: rest =>
    match t.toList with
    | ['n'] => some (.null, rest)
    | ['t'] => some (.bool true, rest)
    | ['f'] => some (.bool false, rest)
    | ['['] => (parseElems fuel rest).map fun (xs, r) => (.arr xs, r)
    | ['<'] => (parseEntries fuel rest).map fun (kvs, r) => (.dict kvs, r)
    | 'i' :: r => (parseIntTok (String.ofList r)).map fun i => (.int i, rest)
    | 'r' :: r =>
      match (String.ofList r).splitOn ":" with
      | [_, txt] => some (.real (bytesOfString txt), rest)
      | _ => none
    | 's' :: r => (bytesOfHex? (String.ofList r)).map fun b => (.str b, rest)
    | 'h' :: r => (bytesOfHex? (String.ofList r)).map fun b => (.hexstr b, rest)
    | '/' :: r => (bytesOfHex? (String.ofList r)).map fun b => (.name b, rest)
    | 'R' :: r =>
      match (String.ofList r).splitOn "." with
      | [a, b] =>
        match a.toNat?, b.toNat? with
        | some n, some g => some (.ref n g, rest)
        | _, _ => none
      | _ => none
    | _ => none
def parseElems : Nat → List String → Option (List Obj × List String)
  | 0, _ => none
  | _, [] => none
  | fuel + 1, t :: rest =>
    if t == "]" then some ([], rest)
    else
      match parseTree fuel (t :: rest) with
      | none => none
      | some (x, r) => (parseElems fuel r).map fun (xs, r') => (x :: xs, r')
def parseEntries : Nat → List String → Option (List (List Nat × Obj) × List String)
  | 0, _ => none
  | _, [] => none
  | fuel + 1, t :: rest =>
    if t == ">" then some ([], rest)
    else
      match t.toList with
      | 'k' :: k =>
        match bytesOfHex? (String.ofList k), parseTree fuel rest with
        | some kb, some (v, r) => (parseEntries fuel r).map fun (kvs, r') => ((kb, v) :: kvs, r')
        | _, _ => none
      | _ => none
end

def treeOfTokens (ts : List String) : Option Obj :=
  match parseTree (2 * ts.length + 2) ts with
  | some (o, []) => some o
  | _ => none

/-! ## numbers -/

def dropLeadingZeros : List Nat → List Nat
  | 48 :: r => dropLeadingZeros r
  | l => l

/-- canonical text of a real token (`[+-]? digits* [. digits*]`, no exponent): sign `-` kept,
    integer part without leading zeros (at least `0`), fraction without trailing zeros; more
    than six significant fraction digits, or an exponent, is `?` (the value is then not a
    syntactic function of the token). -/
def normReal (tok : List Nat) : String :=
  if tok.any (fun b => b == 101 || b == 69) then "?" else
  let (neg, u) : Bool × List Nat :=
    match tok with
    | 43 :: r => (false, r)
    | 45 :: r => (true, r)
    | l => (false, l)
  let (a, f) := OxiVerif.Spec.Syntax.splitDot u
  let ip := dropLeadingZeros a
  let ip := if ip.isEmpty then [48] else ip
  let fp := trimEnd 48 (f.getD [])
  if fp.length > 6 then "?"
  else stringOfBytes ((if neg then [45] else []) ++ ip ++ (if fp.isEmpty then [] else 46 :: fp))

/-! ## canonical printing of values -/

/-- `HashMap` semantics for a parsed dictionary: a later duplicate replaces an earlier one -/
def dedupLast : List (List Nat × Obj) → List (List Nat × Obj)
  | [] => []
  | (k, v) :: rest => if rest.any (fun kv => kv.1 == k) then dedupLast rest else (k, v) :: dedupLast rest

mutual
/-- `latin1 = true`: names are `char` lists of a Rust `String` built with `byte as char`
    (printed as the UTF-8 bytes of that `String`); `false`: names are byte strings. -/
def printObj (latin1 : Bool) : Obj → List String
  | .null => ["n"]
  | .bool b => [if b then "t" else "f"]
  | .int i => ["i" ++ toString i]
  | .real t => ["r" ++ normReal t]
  | .str s => ["s" ++ hexField s]
  | .hexstr s => ["s" ++ hexField s]
  | .name n => ["/" ++ hexField (if latin1 then utf8OfLatin1 n else n)]
  | .ref n g => ["R" ++ toString n ++ "." ++ toString g]
  | .arr xs => "[" :: (printElems latin1 xs ++ ["]"])
  | .dict kvs => "<" :: (printEntries latin1 kvs ++ [">"])
def printElems (latin1 : Bool) : List Obj → List String
  | [] => []
  | x :: xs => printObj latin1 x ++ printElems latin1 xs
def printEntries (latin1 : Bool) : List (List Nat × Obj) → List String
  | [] => []
  | (k, v) :: rest =>
    ("k" ++ hexField (if latin1 then utf8OfLatin1 k else k)) :: (printObj latin1 v ++ printEntries latin1 rest)
end

mutual
/-- dictionaries as maps: duplicates resolved, entries sorted by key, recursively -/
def asMap : Obj → Obj
  | .arr xs => .arr (asMapList xs)
  | .dict kvs => .dict (sortKV (dedupLast (asMapKVs kvs)))
  | o => o
def asMapList : List Obj → List Obj
  | [] => []
  | x :: xs => asMap x :: asMapList xs
def asMapKVs : List (List Nat × Obj) → List (List Nat × Obj)
  | [] => []
  | (k, v) :: rest => (k, asMap v) :: asMapKVs rest
end

def canonObj (latin1 : Bool) (o : Obj) : String := " ".intercalate (printObj latin1 (asMap o))

/-! ## tokens and errors -/

open OxiVerif.Model.Lexer in
def showErr : Err → String
  | .syntax => "err:syntax"
  | .unexpectedToken => "err:unexpected-token"
  | .missingKey => "err:missing-key"
  | .encoding => "err:encoding"
  | .unmodelled => "err:unmodelled"

open OxiVerif.Model.Lexer in
def showToken : Token → String
  | .bool b => "B" ++ (if b then "t" else "f")
  | .int i => "I" ++ toString i
  | .real t => "F" ++ normReal t
  | .str s => "S" ++ hexField s
  | .name n => "N" ++ hexField (utf8OfLatin1 n)
  | .arrayStart => "["
  | .arrayEnd => "]"
  | .dictStart => "<<"
  | .dictEnd => ">>"
  | .stream => "stream"
  | .endStream => "endstream"
  | .obj => "obj"
  | .endObj => "endobj"
  | .startXRef => "startxref"
  | .null => "null"
  | .comment c => "C" ++ hexField (utf8OfLatin1 c)
  | .eof => "eof"

open OxiVerif.Model.Lexer in
/-- up to `max` tokens, stopping after `eof` or the first error -/
def tokenStream : Nat → List Nat → List String
  | 0, _ => []
  | max + 1, inp =>
    match next inp with
    | .error e => [showErr e]
    | .ok (.eof, _) => ["eof"]
    | .ok (t, rest) => showToken t :: tokenStream max rest

def showTokenStream (max : Nat) (inp : List Nat) : String :=
  let ts := tokenStream max inp
  if ts.isEmpty then "-" else ",".intercalate ts

end OxiVerif.ObjCanon
