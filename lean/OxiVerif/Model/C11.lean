/-
C11 — model of the character-deciding part of `oxidize-pdf-core/src/text/extraction.rs`
(`TextExtractor::extract_from_page`, `process_operations`, `decode_text`, the assembly functions),
`text/flat_reading_order.rs`, `text/graphics_state_stack.rs` and the decoding of
`text/extraction_cmap.rs` restricted to the font classes of the property
(standard fonts with `/Encoding /WinAnsiEncoding`; Type0/Identity-H with a ToUnicode CMap made of a
2-byte `bfrange` and 2-byte `bfchar`s).

Layers (each mirrors the Rust code line by line; every quirk is kept):
  1. `decodeText`   — `decode_text` → `decode_text_with_font` → `sanitize_extracted_text_with_policy`
                       → `decode_is_usable` → name-based fallback.
  2. `runStream`    — the operator loop of `process_operations` as a state machine that is FREE OF
                       GEOMETRY: font save/restore (`q`/`Q` with the bounded stack and its `dropped`
                       counter), `BT`/`ET`, `Tf`, `Tj`, `TJ`, `'`, `"`, `Do` (depth guard 12, implicit
                       save/restore, own save stack, font-cache shadowing), marked content
                       (`/Artifact`, `/ActualText` with the pending run).  Output: a list of events.
  3. `consume`      — the flat accumulation (`append_bounded`, hyphen fusion, byte budget, line
                       groups) driven by the events.  Every geometric decision is a call to `Ω`.
  4. `assemble`     — `extract_from_page`'s "layout_finalize" block: `merge_close_fragments(_in_layout_regions)`,
                       `merge_hyphenated_line_wraps_in_emission_order`, `sort_and_merge_fragments`,
                       `detect_and_sort_columns`, `merge_into_lines`, `merge_into_paragraphs`,
                       `reconstruct_text_from_fragments`, flat reading order (XY-cut), `clamp_to_budget`.
                       Every float comparison is a call to `Ω`.

Code points are `Nat`.  Import-free.
-/
namespace OxiVerif.C11

/-! ## characters -/

/-- Rust `char::is_whitespace` (Unicode `White_Space`). -/
def isWs (c : Nat) : Bool :=
  (9 ≤ c && c ≤ 13) || c == 32 || c == 0x85 || c == 0xA0 || c == 0x1680 ||
  (0x2000 ≤ c && c ≤ 0x200A) || c == 0x2028 || c == 0x2029 || c == 0x202F || c == 0x205F ||
  c == 0x3000

def nonWs (s : List Nat) : List Nat := s.filter (fun c => !isWs c)

def HY : Nat := 45
def NL : Nat := 10
def SP : Nat := 32

/-- `char::len_utf8` -/
def utf8Len1 (c : Nat) : Nat :=
  if c < 0x80 then 1 else if c < 0x800 then 2 else if c < 0x10000 then 3 else 4

def utf8Len : List Nat → Nat
  | [] => 0
  | c :: r => utf8Len1 c + utf8Len r

/-! ## 1. decoding -/

inductive Font where
  /-- standard font, `/Encoding /WinAnsiEncoding`, no ToUnicode -/
  | simple
  /-- Type0 / Identity-H; ToUnicode = `bfrange <0001> <n> <base>` (split at byte boundaries) + `bfchar`s -/
  | type0 (base n : Nat) (extras : List (Nat × List Nat))
  deriving Repr, DecidableEq

/-- `extraction_cmap.rs::decode_winansi` -/
def winansiImpl (b : Nat) : Nat :=
  match b with
  | 0x80 => 0x20AC | 0x82 => 0x201A | 0x83 => 0x0192 | 0x84 => 0x201E | 0x85 => 0x2026
  | 0x86 => 0x2020 | 0x87 => 0x2021 | 0x88 => 0x02C6 | 0x89 => 0x2030 | 0x8A => 0x0160
  | 0x8B => 0x2039 | 0x8C => 0x0152 | 0x8E => 0x017D | 0x91 => 0x2018 | 0x92 => 0x2019
  | 0x93 => 0x201C | 0x94 => 0x201D | 0x95 => 0x2022 | 0x96 => 0x2013 | 0x97 => 0x2014
  | 0x98 => 0x02DC | 0x99 => 0x2122 | 0x9A => 0x0161 | 0x9B => 0x203A | 0x9C => 0x0153
  | 0x9E => 0x017E | 0x9F => 0x0178
  | b => b

/-- `decode_winansi` BEFORE the repair of C11-F2: the arms `0x93 => '"'`, `0x94 => '"'`
    (ASCII quotation mark instead of U+201C/U+201D).  Kept as the regression the check must catch. -/
def winansiImplOld (b : Nat) : Nat :=
  match b with
  | 0x93 => 0x22 | 0x94 => 0x22
  | b => winansiImpl b

/-- `text/encoding.rs::TextEncoding::WinAnsiEncoding.decode` (used only when no font is selected). -/
def winansiEnc (b : Nat) : Nat :=
  match b with
  | 0x80 => 0x20AC | 0x82 => 0x201A | 0x83 => 0x0192 | 0x84 => 0x201E | 0x85 => 0x2026
  | 0x86 => 0x2020 | 0x87 => 0x2021 | 0x88 => 0x02C6 | 0x89 => 0x2030 | 0x8A => 0x0160
  | 0x8B => 0x2039 | 0x8C => 0x0152 | 0x8E => 0x017D | 0x91 => 0x2018 | 0x92 => 0x2019
  | 0x93 => 0x201C | 0x94 => 0x201D | 0x95 => 0x2022 | 0x96 => 0x2013 | 0x97 => 0x2014
  | 0x98 => 0x02DC | 0x99 => 0x2122 | 0x9A => 0x0161 | 0x9B => 0x203A | 0x9C => 0x0153
  | 0x9E => 0x017E | 0x9F => 0x0178
  | b => if b < 0x80 || 0xA0 ≤ b then b else 63

def isAsciiControl (c : Nat) : Bool := c < 32 || c == 127
/-- Rust `char::is_control` (category Cc) -/
def isControl (c : Nat) : Bool := c < 32 || (127 ≤ c && c ≤ 159)

/-- controls that sanitisation removes between a CR and its LF -/
def removableCtl (c : Nat) : Bool :=
  isAsciiControl c && !(c == 0 || c == 9 || c == 10 || c == 13)

/-- `sanitize_extracted_text_with_policy`; `cr`: 0 Remove, 1 ReplaceWithSpace, 2 NormalizeLineEnding.
    `fuel` bounds the loop (≥ length suffices). -/
def sanitizeAux (cr : Nat) : Nat → List Nat → Bool → List Nat
  | 0, _, _ => []
  | _, [], _ => []
  | fuel + 1, c :: rest, ls =>
    if c == 0 then
      let rest' := match rest with
        | 3 :: r => r
        | r => r
      if ls then sanitizeAux cr fuel rest' true else SP :: sanitizeAux cr fuel rest' true
    else if c == 3 then sanitizeAux cr fuel rest ls
    else if c == 13 then
      let k := (rest.takeWhile removableCtl).length
      if (rest.drop k).head? == some 10 then
        NL :: sanitizeAux cr fuel (rest.drop (k + 1)) false
      else if cr == 0 then sanitizeAux cr fuel rest ls
      else if cr == 1 then
        (if ls then sanitizeAux cr fuel rest true else SP :: sanitizeAux cr fuel rest true)
      else 13 :: sanitizeAux cr fuel rest false
    else if c == 9 then 9 :: sanitizeAux cr fuel rest true
    else if c == 10 then 10 :: sanitizeAux cr fuel rest false
    else if c == 32 then
      (if ls then sanitizeAux cr fuel rest true else SP :: sanitizeAux cr fuel rest true)
    else if isAsciiControl c then sanitizeAux cr fuel rest ls
    else c :: sanitizeAux cr fuel rest false

def sanitize (cr : Nat) (s : List Nat) : List Nat := sanitizeAux cr (s.length + 1) s false

/-- `decode_is_usable` -/
def decodeIsUsable (s : List Nat) : Bool :=
  !s.isEmpty && !(s.all fun c => isControl c && !(c == 32 || c == 9 || c == 10))

/-- `String::from_utf16` on the destination bytes of a CMap entry: `none` on a lone surrogate. -/
def utf16Dec : List Nat → Option (List Nat)
  | [] => some []
  | [u] => if 0xD800 ≤ u && u < 0xE000 then none else some [u]
  | u :: l :: r =>
    if 0xD800 ≤ u && u < 0xDC00 then
      (if 0xDC00 ≤ l && l < 0xE000 then
        (utf16Dec r).map (fun t => (0x10000 + (u - 0xD800) * 0x400 + (l - 0xDC00)) :: t)
       else none)
    else if 0xDC00 ≤ u && u < 0xE000 then none
    else (utf16Dec (l :: r)).map (fun t => u :: t)

def lookupAssoc (k : Nat) : List (Nat × α) → Option α
  | [] => none
  | (k', v) :: r => if k' == k then some v else lookupAssoc k r

/-- `CMap::map` followed by `CMap::to_unicode` for one 2-byte code: explicit `bfchar`s first, then
    the range (destination + offset, truncated to the two destination bytes). -/
def cmapLookup (base n : Nat) (extras : List (Nat × List Nat)) (code : Nat) : Option (List Nat) :=
  match lookupAssoc code extras with
  | some units => utf16Dec units
  | none => if 1 ≤ code && code ≤ n then utf16Dec [(base + (code - 1)) % 65536] else none

/-- `decode_with_cmap`: at every position the code lengths 1..4 are tried; only length 2 can match a
    2-byte entry; when nothing matches ONE byte is skipped. -/
def decT0 (base n : Nat) (extras : List (Nat × List Nat)) : Nat → List Nat → List Nat
  | 0, _ => []
  | _, [] => []
  | _, [_] => []
  | fuel + 1, b1 :: b2 :: rest =>
    match cmapLookup base n extras (b1 * 256 + b2) with
    | some cs => cs ++ decT0 base n extras fuel rest
    | none => decT0 base n extras fuel (b2 :: rest)

/-- `decode_text_with_font` for the two font classes. -/
def decodeWithFont (f : Font) (bs : List Nat) : List Nat :=
  match f with
  | .simple => bs.map winansiImpl
  | .type0 base n extras => decT0 base n extras (bs.length + 1) bs

/-- Name-based fallback of `decode_text`.  Resource names are `F<k>`: not `Times*`/`Helvetica*`/
    `Courier*`, no `winansi`… in them → `PdfDocEncoding` → `String::from_utf8_lossy`.  Modelled for
    ASCII bytes only; anything else is outside the model (`none`). -/
def fallbackNamed (bs : List Nat) : Option (List Nat) :=
  if bs.all (· < 128) then some bs else none

/-- `decode_text`.  `font = none`: no `Tf` yet → `TextEncoding::WinAnsiEncoding`.
    `font = some none`: the selected name is not in the font cache. -/
def decodeText (cr : Nat) (font : Option (Option Font)) (bs : List Nat) : Option (List Nat) :=
  match font with
  | none => some (sanitize cr (bs.map winansiEnc))
  | some none => (fallbackNamed bs).map (sanitize cr)
  | some (some f) =>
    let s := sanitize cr (decodeWithFont f bs)
    if decodeIsUsable s then some s else (fallbackNamed bs).map (sanitize cr)

/-! ## 2. the operator loop (geometry-free) -/

inductive TjItem where
  | str (bs : List Nat)
  | num
  deriving Repr, DecidableEq

inductive Op where
  | bt | et | q | Q
  | tf (name : Nat)
  | tj (bs : List Nat)
  | tjArr (items : List TjItem)
  | quote (bs : List Nat)          -- `'` and `"` (the spacing operands do not matter here)
  | doX (name : Nat)
  | bmc (artifact : Bool)
  | bdc (artifact : Bool) (actual : Option (List Nat))
  | emc
  | other                          -- Td TD Tm T* Tc Tw Tz TL Ts Tr cm …: geometry only
  deriving Repr, DecidableEq

structure Stream where
  fmap : List Nat      -- resource name `F<i>` ↦ global font index
  xmap : List Nat      -- resource name `X<i>` ↦ stream index (a form)
  ops : List Op
  deriving Repr

structure Prog where
  fonts : List Font
  streams : List Stream
  deriving Repr

/-- which separator logic an append goes through -/
inductive SepK where
  | tj                     -- `Tj`: geometric newline / space
  | arr (first : Bool)     -- text element of a `TJ` array (first glyph-drawing element or not)
  | nl                     -- `'` / `"`: always `\n` when the text is non-empty
  | none                   -- `/ActualText` flush: no separator
  deriving Repr, DecidableEq

inductive Ev where
  /-- `append_bounded(acc, sep, txt, …)` -/
  | app (k : SepK) (txt : List Nat)
  /-- a `TJ` number that passed the artifact gate: may synthesise one space (and, when no
      ActualText run is pending, a `" "` fragment) -/
  | kern (pendingNone : Bool)
  /-- `fragments.push(..)` (only effective under `preserve_layout || reorder_columns`) -/
  | frag (txt : List Nat)
  deriving Repr, DecidableEq

structure Pending where
  text : List Nat
  depth : Nat
  populated : Bool
  deriving Repr, DecidableEq

/-- The part of `TextState`/`OpRunState` that decides characters. -/
structure St where
  font : Option Nat := none            -- `font_name` (a RESOURCE NAME, resolved at decode time)
  saved : List (Option Nat) := []      -- `saved_states.entries` (head = top)
  dropped : Nat := 0                   -- `saved_states.dropped`
  mc : List Bool := []                 -- `mc_stack`, `is_artifact` of each entry (head = innermost)
  pending : Option Pending := none     -- `pending_actualtext`
  inText : Bool := false               -- `in_text_object`
  /-- a decode left the modelled fragment (non-ASCII bytes through the name-based fallback) -/
  unmodelled : Bool := false
  deriving Repr, DecidableEq

def MAX_DEPTH : Nat := 1024          -- graphics_state_stack.rs
def MAX_XOBJECT_DEPTH : Nat := 12    -- extraction.rs, `PaintXObject` arm

/-- font cache: resource name ↦ global font index, innermost resources first -/
abbrev Cache := List (Nat × Nat)

/-- `cache_fonts_from_resources`: every entry of the `/Font` dictionary is inserted (overrides). -/
def cacheFonts (fmap : List Nat) (c : Cache) : Cache :=
  (List.range fmap.length).zip fmap ++ c

def resolveFont (P : Prog) (c : Cache) (name : Option Nat) : Option (Option Font) :=
  match name with
  | none => none
  | some nm => some ((lookupAssoc nm c).bind fun g => P.fonts[g]?)

def skipArtifact (ia : Bool) (st : St) : Bool := !ia && st.mc.any id

/-- One show-text string (`Tj`, `'`, `"`, text element of `TJ`). -/
def showStr (P : Prog) (ia : Bool) (cr : Nat) (c : Cache) (k : SepK) (bs : List Nat) (st : St) :
    St × List Ev :=
  match decodeText cr (resolveFont P c st.font) bs with
  | none => ({ st with unmodelled := true }, [])
  | some decoded =>
    if skipArtifact ia st then (st, [])
    else
      match st.pending with
      | some p =>
        -- flat path receives "", `emit_text_fragment` only feeds the pending run
        let st' := if decoded.isEmpty then st else { st with pending := some { p with populated := true } }
        (st', [Ev.app k []])
      | none =>
        (st, if decoded.isEmpty then [Ev.app k decoded] else [Ev.app k decoded, Ev.frag decoded])

def showArr (P : Prog) (ia : Bool) (cr : Nat) (c : Cache) : List TjItem → Bool → St → St × List Ev
  | [], _, st => (st, [])
  | .str bs :: rest, first, st =>
    let (st1, e1) := showStr P ia cr c (.arr first) bs st
    let (st2, e2) := showArr P ia cr c rest false st1
    (st2, e1 ++ e2)
  | .num :: rest, first, st =>
    let e1 := if skipArtifact ia st then [] else [Ev.kern st.pending.isNone]
    let (st2, e2) := showArr P ia cr c rest first st
    (st2, e1 ++ e2)

/-- `EndMarkedContent` arm -/
def endMarked (ia : Bool) (st : St) : St × List Ev :=
  match st.mc with
  | [] => (st, [])
  | closed :: restMc =>
    let poppedDepth := st.mc.length
    let st1 := { st with mc := restMc }
    match st.pending with
    | none => (st1, [])
    | some p =>
      if p.depth + 1 == poppedDepth then
        let st2 := { st1 with pending := none }
        if p.populated then
          let inArtifact := closed || restMc.any id
          if !inArtifact || ia then (st2, [Ev.app .none p.text, Ev.frag p.text]) else (st2, [])
        else (st2, [])
      else (st1, [])

/-- All operators except `Do`. -/
def stepSimple (P : Prog) (ia : Bool) (cr : Nat) (c : Cache) (op : Op) (st : St) : St × List Ev :=
  match op with
  | .bt => ({ st with inText := true }, [])
  | .et => ({ st with inText := false }, [])
  | .tf nm => ({ st with font := some nm }, [])
  | .q =>
    if st.saved.length < MAX_DEPTH then ({ st with saved := st.font :: st.saved }, [])
    else ({ st with dropped := st.dropped + 1 }, [])
  | .Q =>
    if st.dropped > 0 then ({ st with dropped := st.dropped - 1 }, [])
    else match st.saved with
      | f :: r => ({ st with font := f, saved := r }, [])
      | [] => (st, [])
  | .tj bs => if st.inText then showStr P ia cr c .tj bs st else (st, [])
  | .quote bs => if st.inText then showStr P ia cr c .nl bs st else (st, [])
  | .tjArr items => if st.inText then showArr P ia cr c items true st else (st, [])
  | .bmc art => ({ st with mc := (art || st.mc.head?.getD false) :: st.mc }, [])
  | .bdc art actual =>
    let st1 := match actual with
      | some t => { st with pending := some { text := t, depth := st.mc.length, populated := false } }
      | none => st
    ({ st1 with mc := (art || st.mc.head?.getD false) :: st.mc }, [])
  | .emc => endMarked ia st
  | .doX _ => (st, [])
  | .other => (st, [])

/-- The op loop of one stream; `call` paints a form (`Do`). -/
def runOps (P : Prog) (ia : Bool) (cr : Nat)
    (call : Nat → Cache → St → St × List Ev) (xmap : List Nat) (c : Cache) :
    List Op → St → St × List Ev
  | [], st => (st, [])
  | op :: rest, st =>
    let (st1, e1) := match op with
      | .doX nm => (match xmap[nm]? with
        | some j => call j c st
        | none => (st, []))
      | op => stepSimple P ia cr c op st
    let (st2, e2) := runOps P ia cr call xmap c rest st1
    (st2, e1 ++ e2)

/-- `PaintXObject` arm around the recursive `process_operations` call: implicit save/restore of the
    graphics state (here: the font), a fresh save stack for the form, the form's fonts shadow the
    cache, `in_text_object` starts false inside and is the caller's own afterwards; the
    marked-content stack and the pending ActualText run are NOT scoped. -/
def paint (inner : Cache → St → St × List Ev) (fmap : List Nat) (c : Cache) (st : St) : St × List Ev :=
  let sub : St := { st with saved := [], dropped := 0, inText := false }
  let (out, ev) := inner (cacheFonts fmap c) sub
  ({ out with font := st.font, saved := st.saved, dropped := st.dropped, inText := st.inText }, ev)

/-- `level d j` = painting form `j` when `d` further nesting levels are still allowed. -/
def level (P : Prog) (ia : Bool) (cr : Nat) : Nat → Nat → Cache → St → St × List Ev
  | 0, _, _, st => (st, [])
  | d + 1, j, c, st =>
    match P.streams[j]? with
    | none => (st, [])
    | some s => paint (fun c' st' => runOps P ia cr (level P ia cr d) s.xmap c' s.ops st') s.fmap c st

/-- The page: stream 0 at depth 0, so 12 nested levels of forms are entered. -/
def events (P : Prog) (ia : Bool) (cr : Nat) : St × List Ev :=
  match P.streams[0]? with
  | none => ({}, [])
  | some s => runOps P ia cr (level P ia cr MAX_XOBJECT_DEPTH) s.xmap (cacheFonts s.fmap []) s.ops {}

/-! ## 3. flat accumulation -/

inductive Sep where
  | none | space | newline
  deriving Repr, DecidableEq

def Sep.char? : Sep → Option Nat
  | .none => Option.none
  | .space => some SP
  | .newline => some NL

/-- Geometry oracle of the flat path, indexed by event number. -/
structure FlatΩ where
  /-- `Tj`: the `dy`/`dx` tests -/
  tjSep : Nat → Sep
  /-- `TJ` text element; the argument is `extracted_text.ends_with(' ')` -/
  arrSep : Nat → Bool → Sep
  /-- `TJ` number: `tx > tj_space_threshold * font_size` -/
  kern : Nat → Bool

def sepList : Option Nat → List Nat
  | some c => [c]
  | none => []

/-- `append_bounded`; `none` = the budget refused the run (`*truncated = true`). -/
def appendBounded (acc : List Nat) (sep : Option Nat) (txt : List Nat) (limit : Option Nat)
    (mh : Bool) : Option (List Nat × Option Nat) :=
  let fusion := mh && sep == some NL && acc.getLast? == some HY && !txt.isEmpty
  let sep' := if fusion then none else sep
  let base := if fusion then acc.dropLast else acc
  let add := (match sep' with | some c => utf8Len1 c | none => 0) + utf8Len txt
  let fits := match limit with
    | some m => !(utf8Len base + add > m)
    | none => true
  if fits then
    some (base ++ sepList sep' ++ txt, sep')
  else none

/-- `append_bounded` BEFORE the repair of C11-F4: the fusion test did not look at the text being
    appended, so every line-wrap append with an EMPTY text popped one more hyphen.  Kept as the
    regression the check must catch. -/
def appendBoundedOld (acc : List Nat) (sep : Option Nat) (txt : List Nat) (limit : Option Nat)
    (mh : Bool) : Option (List Nat × Option Nat) :=
  let fusion := mh && sep == some NL && acc.getLast? == some HY
  let sep' := if fusion then none else sep
  let base := if fusion then acc.dropLast else acc
  let add := (match sep' with | some c => utf8Len1 c | none => 0) + utf8Len txt
  let fits := match limit with
    | some m => !(utf8Len base + add > m)
    | none => true
  if fits then
    some (base ++ sepList sep' ++ txt, sep')
  else none

/-- `LineGroupGeom` reduced to its slice of the text (character offsets). -/
structure Grp where
  start : Nat
  stop : Nat
  deriving Repr, DecidableEq

structure Acc where
  text : List Nat := []
  frags : List (List Nat × Nat) := []      -- (text, event index = handle on its geometry), reversed
  groups : List Grp := []                  -- closed line groups, reversed
  cur : Option Grp := none
  truncated : Bool := false
  deriving Repr

/-- `record_line_group` -/
def recordGroup (a : Acc) (applied : Option Nat) (decodedLen : Nat) : Acc :=
  let len := a.text.length
  if applied == some NL || a.cur.isNone then
    { a with groups := (match a.cur with | some g => g :: a.groups | none => a.groups),
             cur := some { start := len - decodedLen, stop := len } }
  else
    { a with cur := a.cur.map fun g => { g with stop := len } }

def extendGroup (a : Acc) : Acc :=
  { a with cur := a.cur.map fun g => { g with stop := a.text.length } }

/-- the separator requested by a show operator (before hyphen fusion) -/
def sepFor (Ω : FlatΩ) (i : Nat) (k : SepK) (text : List Nat) : Option Nat :=
  match k with
  | .none => none
  | .nl => if text.isEmpty then none else some NL
  | .tj => if text.isEmpty then none else (Ω.tjSep i).char?
  | .arr _ => if text.isEmpty then none else (Ω.arrSep i (text.getLast? == some SP)).char?

/-- line-group bookkeeping after a successful append -/
def groupAfter (k : SepK) (a : Acc) (applied : Option Nat) (decodedLen : Nat) : Acc :=
  match k with
  | .none => extendGroup a
  | _ => recordGroup a applied decodedLen

/-- One event.  `lay` = `preserve_layout || reorder_columns`. -/
def consume1 (Ω : FlatΩ) (mh lay : Bool) (limit : Option Nat) (i : Nat) (e : Ev) (a : Acc) : Acc :=
  if a.truncated then a else
  match e with
  | .app k txt =>
    match appendBounded a.text (sepFor Ω i k a.text) txt limit mh with
    | none => { a with truncated := true }
    | some (t, applied) => groupAfter k { a with text := t } applied txt.length
  | .kern pendingNone =>
    if Ω.kern i && !a.text.isEmpty && a.text.getLast? != some SP then
      match appendBounded a.text (some SP) [] limit mh with
      | none => { a with truncated := true }
      | some (t, _) =>
        let a1 := extendGroup { a with text := t }
        if lay && pendingNone then { a1 with frags := ([SP], i) :: a1.frags } else a1
    else a
  | .frag txt => if lay then { a with frags := (txt, i) :: a.frags } else a

def consumeFrom (Ω : FlatΩ) (mh lay : Bool) (limit : Option Nat) : Nat → List Ev → Acc → Acc
  | _, [], a => a
  | i, e :: r, a => consumeFrom Ω mh lay limit (i + 1) r (consume1 Ω mh lay limit i e a)

def consume (Ω : FlatΩ) (mh lay : Bool) (limit : Option Nat) (evs : List Ev) : Acc :=
  consumeFrom Ω mh lay limit 0 evs {}

/-! ## 4. assembly -/

structure Frag (G : Type) where
  text : List Nat
  g : G

/-- Geometry oracle of the assembly: every float comparison / float-built value of the Rust code. -/
structure Geo (G : Type) where
  -- assign_layout_region_ids / assign_row_ids (consecutive pairs in emission order)
  regionBreak : G → G → Bool
  rowBreak : G → G → Bool
  -- merge_close_fragments
  closeMerge : G → G → Bool
  closeSpace : G → G → Bool
  closeJoin : G → G → G
  -- merge_hyphenated_line_wraps_in_emission_order
  wrapGeom : G → G → Bool
  wrapJoin : G → G → G
  -- comparisons
  cmpY : G → G → Ordering
  cmpX : G → G → Ordering
  sameLine : G → G → Bool             -- |head.y - f.y| < tol
  -- detect_and_sort_columns: (segment, column) per fragment, `none` = no columnar block
  columns : List (Nat × G) → Option (List (Nat × Nat))
  -- merge_into_lines
  tagged : G → Bool
  lineJoin : G → G → Bool             -- same visual line as the line head (incl. mcid equality)
  prefersEmission : List (Nat × G) → Bool
  lineSpace : G → G → Bool
  lineGeom : List G → G
  -- merge_into_paragraphs: (all lines) current line
  paraBreak : List G → G → G → Bool
  paraJoin : G → G → G
  -- reconstruct_text_from_fragments
  recNewline : Option G → G → Bool
  recSpace : Option G → G → Bool

variable {G : Type}

def endsWithHy (s : List Nat) : Bool := s.getLast? == some HY

/-- `merge_close_fragments`, the loop after the first element. -/
def mergeCloseGo (Ω : Geo G) : Frag G → List (Frag G) → List (Frag G)
  | cur, [] => [cur]
  | cur, f :: r =>
    if Ω.closeMerge cur.g f.g then
      mergeCloseGo Ω
        { text := cur.text ++ (if Ω.closeSpace cur.g f.g then [SP] else []) ++ f.text,
          g := Ω.closeJoin cur.g f.g } r
    else cur :: mergeCloseGo Ω f r

def mergeClose (Ω : Geo G) : List (Frag G) → List (Frag G)
  | [] => []
  | f :: r => mergeCloseGo Ω f r

/-- region ids of `assign_layout_region_ids` (also used for `assign_row_ids` with `rowBreak`) -/
def scanIds (brk : G → G → Bool) : Nat → G → List (Frag G) → List Nat
  | _, _, [] => []
  | id, prev, f :: r =>
    let id' := if brk prev f.g then id + 1 else id
    id' :: scanIds brk id' f.g r

def regionIds (brk : G → G → Bool) : List (Frag G) → List Nat
  | [] => []
  | f :: r => 0 :: scanIds brk 0 f.g r

/-- split a list into maximal runs of equal keys -/
def runsBy : List (Nat × Frag G) → List (List (Frag G))
  | [] => []
  | (k, f) :: r =>
    match runsBy r with
    | [] => [[f]]
    | grp :: gs =>
      match r with
      | (k', _) :: _ => if k' == k then (f :: grp) :: gs else [f] :: grp :: gs
      | [] => [[f]]

/-- `merge_close_fragments_in_layout_regions` -/
def mergeCloseRegions (Ω : Geo G) (fs : List (Frag G)) : List (Frag G) :=
  (runsBy ((regionIds Ω.regionBreak fs).zip fs)).flatMap (mergeClose Ω)

/-- `merge_hyphenated_line_wraps_in_emission_order`: `acc` is `result` reversed. -/
def hyWrapGo (Ω : Geo G) : List (Nat × Frag G) → List (Nat × Frag G) → List (Frag G)
  | acc, [] => (acc.reverse.map (·.2))
  | [], x :: r => hyWrapGo Ω [x] r
  | (pr, prev) :: acc, (rid, f) :: r =>
    if pr == rid && endsWithHy prev.text && Ω.wrapGeom prev.g f.g then
      hyWrapGo Ω ((pr, { text := prev.text.dropLast ++ f.text, g := Ω.wrapJoin prev.g f.g }) :: acc) r
    else hyWrapGo Ω ((rid, f) :: (pr, prev) :: acc) r

def hyWrap (Ω : Geo G) (mh : Bool) (fs : List (Frag G)) : List (Frag G) :=
  if !mh || fs.length < 2 then fs
  else hyWrapGo Ω [] ((regionIds Ω.regionBreak fs).zip fs)

/-- head-anchored grouping of consecutive items into lines (`sort_and_merge_fragments`,
    `detect_and_sort_columns`, `merge_into_lines`): an item joins the newest line when `same head
    item`, otherwise it opens a new line.  `acc` = lines so far, newest first, each newest-first. -/
def groupGo {α : Type} (same : α → α → Bool) : List (List α) → List α → List (List α)
  | acc, [] => (acc.map List.reverse).reverse
  | [], x :: r => groupGo same [[x]] r
  | ln :: acc, x :: r =>
    match ln.getLast? with
    | some head =>
      if same head x then groupGo same ((x :: ln) :: acc) r
      else groupGo same ([x] :: ln :: acc) r
    | none => groupGo same ([x] :: acc) r

def groupLines {α : Type} (same : α → α → Bool) (xs : List α) : List (List α) :=
  groupGo same [] xs

def ordLe (o : Ordering) : Bool := o != .gt

/-- `sort_and_merge_fragments` without the column step: the result is `order` applied. -/
def sortMergeCore (Ω : Geo G) (fs : List (Frag G)) : List (Nat × Frag G) :=
  let rf := (regionIds Ω.regionBreak fs).zip fs
  -- (region, y descending, index): the index tie-break is the stability of the sort
  let sorted := rf.mergeSort fun a b =>
    if a.1 != b.1 then a.1 < b.1 else ordLe (Ω.cmpY b.2.g a.2.g)
  let lines := groupLines (fun h f => h.1 == f.1 && Ω.sameLine h.2.g f.2.g) sorted
  (lines.map fun ln => ln.mergeSort fun a b => ordLe (Ω.cmpX a.2.g b.2.g)).flatten

/-- `detect_and_sort_columns`: stable sort by the (segment, column) the geometry assigns. -/
def sortColumns (Ω : Geo G) (rf : List (Nat × Frag G)) : List (Frag G) :=
  match Ω.columns (rf.map fun x => (x.1, x.2.g)) with
  | none => rf.map (·.2)
  | some keys =>
    if keys.length != rf.length then rf.map (·.2)
    else
      ((keys.zip rf).mergeSort fun a b =>
        if a.1.1 != b.1.1 then a.1.1 < b.1.1 else a.1.2 ≤ b.1.2).map (·.2.2)

def sortAndMerge (Ω : Geo G) (cols : Bool) (fs : List (Frag G)) : List (Frag G) :=
  let core := sortMergeCore Ω fs
  if cols then sortColumns Ω core else core.map (·.2)

/-- `build_line_fragment` text part -/
def lineText (Ω : Geo G) : Option G → List (Frag G) → List Nat
  | _, [] => []
  | prev, f :: r =>
    (match prev with
      | some p => if Ω.lineSpace p f.g then [SP] else []
      | none => []) ++ f.text ++ lineText Ω (some f.g) r

def buildLine (Ω : Geo G) (ln : List (Frag G)) : Frag G :=
  { text := lineText Ω none ln, g := Ω.lineGeom (ln.map (·.g)) }

/-- `merge_into_lines` -/
def mergeIntoLines (Ω : Geo G) (fs : List (Frag G)) : List (Frag G) :=
  let rows := regionIds Ω.rowBreak fs
  let isTagged := fs.any fun f => Ω.tagged f.g
  let indexed : List (Nat × Nat × Frag G) := rows.zip ((List.range fs.length).zip fs)
  let sorted := indexed.mergeSort fun a b =>
    if a.1 != b.1 then a.1 < b.1
    else match Ω.cmpY b.2.2.g a.2.2.g with
      | .lt => true
      | .gt => false
      | .eq => ordLe (Ω.cmpX a.2.2.g b.2.2.g)
  let lines := groupLines (fun h x => h.1 == x.1 && Ω.lineJoin h.2.2.g x.2.2.g) sorted
  lines.map fun ln =>
    let ordered :=
      if isTagged || Ω.prefersEmission (ln.map fun x => (x.2.1, x.2.2.g)) then
        ln.mergeSort fun a b => a.2.1 ≤ b.2.1
      else ln.mergeSort fun a b => ordLe (Ω.cmpX a.2.2.g b.2.2.g)
    buildLine Ω (ordered.map (·.2.2))

/-- `merge_into_paragraphs`, loop after the first line -/
def parasGo (Ω : Geo G) (mh : Bool) (all : List G) : Frag G → List (Frag G) → List (Frag G)
  | cur, [] => [cur]
  | cur, ln :: r =>
    if Ω.paraBreak all cur.g ln.g then cur :: parasGo Ω mh all ln r
    else
      let joined :=
        if mh && endsWithHy cur.text then cur.text.dropLast ++ ln.text
        else cur.text ++ [NL] ++ ln.text
      parasGo Ω mh all { text := joined, g := Ω.paraJoin cur.g ln.g } r

def mergeIntoParagraphs (Ω : Geo G) (mh : Bool) : List (Frag G) → List (Frag G)
  | [] => []
  | l :: r => parasGo Ω mh ((l :: r).map (·.g)) l r

/-- `reconstruct_text_from_fragments`, loop over the merged fragments. -/
def reconGo (Ω : Geo G) (mh : Bool) : List Nat → Option G → Bool → List (Frag G) → List Nat
  | res, _, _, [] => res
  | res, last, hy, f :: r =>
    let res1 :=
      if !res.isEmpty && Ω.recNewline last f.g then
        (if mh && hy then (if endsWithHy res then res.dropLast else res) else res ++ [NL])
      else if !res.isEmpty then
        (if Ω.recSpace last f.g then res ++ [SP] else res)
      else res
    reconGo Ω mh (res1 ++ f.text) (some f.g) (endsWithHy f.text) r

def reconstruct (Ω : Geo G) (mh : Bool) (fs : List (Frag G)) : List Nat :=
  reconGo Ω mh [] none false (mergeClose Ω fs)

/-- `clamp_to_budget`: the longest prefix of whole characters within the budget. -/
def clampGo : Nat → List Nat → List Nat
  | _, [] => []
  | m, c :: r => if utf8Len1 c ≤ m then c :: clampGo (m - utf8Len1 c) r else []

def clamp (limit : Option Nat) (s : List Nat) : List Nat :=
  match limit with
  | some m => if utf8Len s > m then clampGo m s else s
  | none => s

/-- XY-cut oracle: for a region (its indices) either "leaf" or a split predicate. -/
structure CutΩ where
  cut : List Nat → Option (Nat → Bool)

/-- `flat_reading_order::cut_recursive` -/
def cutRec (Ω : CutΩ) : Nat → List Nat → List Nat
  | 0, idx => idx.mergeSort (· ≤ ·)
  | fuel + 1, idx =>
    if idx.length ≤ 1 then idx
    else match Ω.cut idx with
      | none => idx.mergeSort (· ≤ ·)
      | some p =>
        let a := idx.filter p
        let b := idx.filter (fun i => !p i)
        if a.isEmpty || b.isEmpty then idx.mergeSort (· ≤ ·)
        else cutRec Ω fuel a ++ cutRec Ω fuel b

def slice (t : List Nat) (g : Grp) : List Nat := (t.drop g.start).take (g.stop - g.start)

/-- the reading-order rebuild of `extract_from_page` -/
def readingOrder (Ω : CutΩ) (a : Acc) : List Nat :=
  let groups := (match a.cur with | some g => g :: a.groups | none => a.groups).reverse
  if groups.length > 1 then
    let order := cutRec Ω groups.length (List.range groups.length)
    [NL].intercalate (order.map fun i => match groups[i]? with
      | some g => slice a.text g
      | none => [])
  else a.text

structure Opts where
  pl : Bool   -- preserve_layout
  sp : Bool   -- sort_by_position
  dc : Bool   -- detect_columns
  mh : Bool   -- merge_hyphenated
  rp : Bool   -- reconstruct_paragraphs
  ia : Bool   -- include_artifacts
  rc : Bool   -- reorder_columns
  ro : Bool   -- reading_order (TextExtractor::with_reading_order)
  cr : Nat    -- CarriageReturnHandling
  max : Option Nat
  deriving Repr, DecidableEq

structure Result (G : Type) where
  text : List Nat
  frags : List (Frag G)
  truncated : Bool

/-- the fragment pipeline of the `layout_finalize` block (everything before the text rebuilds) -/
def layoutFrags (Ω : Geo G) (o : Opts) (fs0 : List (Frag G)) : List (Frag G) :=
  let fs1 := if fs0.isEmpty then fs0 else hyWrap Ω o.mh (mergeCloseRegions Ω fs0)
  let fs2 := if o.sp && !o.rp && !fs1.isEmpty then sortAndMerge Ω (o.dc || (o.rc && !o.pl)) fs1 else fs1
  let fs3 := if o.pl && !fs2.isEmpty then mergeClose Ω fs2 else fs2
  if o.rp && !fs3.isEmpty then mergeIntoParagraphs Ω o.mh (mergeIntoLines Ω fs3) else fs3

/-- `extract_from_page` after the operator loops: `flat` is the accumulated flat text, `fs0` the raw
    fragments in emission order. -/
def assemble (Ω : Geo G) (C : CutΩ) (o : Opts) (a : Acc) (fs0 : List (Frag G)) : Result G :=
  let fs4 := layoutFrags Ω o fs0
  let t1 := if o.pl && !fs4.isEmpty then reconstruct Ω o.mh fs4 else a.text
  let (t2, fs5) :=
    if o.rc && !o.pl && !fs4.isEmpty then
      let s := sortAndMerge Ω (o.dc || (o.rc && !o.pl)) fs4
      (reconstruct Ω o.mh s, [])
    else (t1, fs4)
  let t3 := if o.ro && !o.pl && !o.rc then readingOrder C a else t2
  let t4 := clamp o.max t3
  { text := t4, frags := fs5, truncated := a.truncated || (t4.length != t3.length) }

/-- The whole extraction as a function of the program, the options and the geometry oracles.
    `geom i` is the geometry of the fragment pushed by event `i`. -/
def extract (P : Prog) (o : Opts) (F : FlatΩ) (Ω : Geo G) (C : CutΩ) (geom : Nat → G) : Result G :=
  let evs := (events P o.ia o.cr).2
  let a := consume F o.mh (o.pl || o.rc) o.max evs
  assemble Ω C o a (a.frags.reverse.map fun x => { text := x.1, g := geom x.2 })

end OxiVerif.C11
