/-!
# C28 — executable model of destinations and of the named-destination name tree

`oxidize-pdf-core/src/structure/destination.rs` (`Destination::to_array`, `Destination::from_array`)
and `structure/name_tree.rs` (`NameTreeNode::leaf`, `NameTree::{new, add, get, to_dict}`,
`NamedDestinations::{add_destination, get_destination, to_dict}`).  Import-free.

Real numbers are carried as integers in millionths of a unit (the harness only authors values
with at most six decimals, which `format!("{:.6}")` writes exactly).
-/
namespace OxiVerif.C28

/-- the objects a destination array can hold (`Object`), reals in millionths -/
inductive DObj
  | int (i : Int)
  | real (micro : Int)
  | null
  | name (s : String)
  | ref (n : Nat)
  | other
  deriving DecidableEq, Repr, Inhabited

/-- `PageDestination` -/
inductive DPage
  | num (n : Nat)
  | ref (n : Nat)
  deriving DecidableEq, Repr, Inhabited

/-- `DestinationType` -/
inductive DType
  | xyz (left top zoom : Option Int)
  | fit
  | fitH (top : Option Int)
  | fitV (left : Option Int)
  | fitR (l b r t : Int)
  | fitB
  | fitBH (top : Option Int)
  | fitBV (left : Option Int)
  deriving DecidableEq, Repr, Inhabited

structure Dest where
  page : DPage
  ty : DType
  deriving DecidableEq, Repr, Inhabited

/-- `v.map(Object::Real).unwrap_or(Object::Null)` -/
def optReal : Option Int → DObj
  | some v => .real v
  | none => .null

/-- `Destination::to_array` -/
def Dest.toArray (d : Dest) : List DObj :=
  (match d.page with
   | .num n => DObj.int (Int.ofNat n)
   | .ref r => DObj.ref r) ::
  (match d.ty with
   | .xyz l t z => [.name "XYZ", optReal l, optReal t, optReal z]
   | .fit => [.name "Fit"]
   | .fitH t => [.name "FitH", optReal t]
   | .fitV l => [.name "FitV", optReal l]
   | .fitR l b r t => [.name "FitR", .real l, .real b, .real r, .real t]
   | .fitB => [.name "FitB"]
   | .fitBH t => [.name "FitBH", optReal t]
   | .fitBV l => [.name "FitBV", optReal l])

/-- `*num as u32` on an `i64` -/
def asU32 (i : Int) : Nat := (i % 4294967296).toNat

/-- `Some(Real v) => Some(v)`, `Some(Integer v) => Some(v as f64)`, `Some(Null) => None`,
anything else (also a missing element) is an error (outer `none`) -/
def optParam : Option DObj → Option (Option Int)
  | some (.real v) => some (some v)
  | some (.int v) => some (some (v * 1000000))
  | some .null => some none
  | _ => none

/-- the `FitR` parameters: `Real` or `Integer` only -/
def reqParam : Option DObj → Option Int
  | some (.real v) => some v
  | some (.int v) => some (v * 1000000)
  | _ => none

/-- `arr.get(i)` -/
def el (arr : List DObj) (i : Nat) : Option DObj := arr[i]?

/-- `Destination::from_array` (`none` = `Err(InvalidStructure)`) -/
def Dest.fromArray (arr : List DObj) : Option Dest :=
  if arr.length < 2 then none
  else
    let page : Option DPage :=
      match el arr 0 with
      | some (.int n) => some (.num (asU32 n))
      | some (.ref r) => some (.ref r)
      | _ => none
    match page with
    | none => none
    | some page =>
      match el arr 1 with
      | some (.name nm) =>
        if nm = "XYZ" then
          if arr.length < 5 then none
          else
            match optParam (el arr 2), optParam (el arr 3), optParam (el arr 4) with
            | some l, some t, some z => some ⟨page, .xyz l t z⟩
            | _, _, _ => none
        else if nm = "Fit" then some ⟨page, .fit⟩
        else if nm = "FitH" then
          if arr.length < 3 then none
          else match optParam (el arr 2) with
            | some t => some ⟨page, .fitH t⟩
            | none => none
        else if nm = "FitV" then
          if arr.length < 3 then none
          else match optParam (el arr 2) with
            | some l => some ⟨page, .fitV l⟩
            | none => none
        else if nm = "FitR" then
          if arr.length < 6 then none
          else
            match reqParam (el arr 2), reqParam (el arr 3), reqParam (el arr 4), reqParam (el arr 5) with
            | some l, some b, some r, some t => some ⟨page, .fitR l b r t⟩
            | _, _, _, _ => none
        else if nm = "FitB" then some ⟨page, .fitB⟩
        else if nm = "FitBH" then
          if arr.length < 3 then none
          else match optParam (el arr 2) with
            | some t => some ⟨page, .fitBH t⟩
            | none => none
        else if nm = "FitBV" then
          if arr.length < 3 then none
          else match optParam (el arr 2) with
            | some l => some ⟨page, .fitBV l⟩
            | none => none
        else none
      | _ => none

/-! ## Spec side — ISO 32000-1 Table 151 (destination syntax) -/
namespace Spec

/-- what a reader of Table 151 makes of a written destination array: the page designator, the
fit type and its parameters (`none` = null = "retain the current value"); `none` when the array is
not one of the eight forms -/
def readDest (arr : List DObj) : Option (DObj × String × List (Option Int)) :=
  let par : DObj → Option (Option Int)
    | .real v => some (some v)
    | .int v => some (some (v * 1000000))
    | .null => some none
    | _ => none
  match arr with
  | page :: .name k :: ps =>
    let arity : Option Nat :=
      if k = "XYZ" then some 3 else if k = "Fit" ∨ k = "FitB" then some 0
      else if k = "FitH" ∨ k = "FitV" ∨ k = "FitBH" ∨ k = "FitBV" then some 1
      else if k = "FitR" then some 4 else none
    match arity, ps.mapM par with
    | some n, some vs =>
      if vs.length = n ∧ (k ≠ "FitR" ∨ vs.all Option.isSome) then some (page, k, vs) else none
    | _, _ => none
  | _ => none

/-- the authored destination in the same terms -/
def ofDest (d : Dest) : DObj × String × List (Option Int) :=
  ((match d.page with | .num n => DObj.int (Int.ofNat n) | .ref r => DObj.ref r),
   match d.ty with
   | .xyz l t z => ("XYZ", [l, t, z])
   | .fit => ("Fit", [])
   | .fitH t => ("FitH", [t])
   | .fitV l => ("FitV", [l])
   | .fitR l b r t => ("FitR", [some l, some b, some r, some t])
   | .fitB => ("FitB", [])
   | .fitBH t => ("FitBH", [t])
   | .fitBV l => ("FitBV", [l]))

end Spec

/-! ## the name tree (`BTreeMap<String, Object>` as a key-sorted association list) -/

/-- `BTreeMap::insert` on the sorted association list; `lt` is the key order -/
def ntInsert {κ ν : Type} (lt : κ → κ → Bool) (k : κ) (v : ν) : List (κ × ν) → List (κ × ν)
  | [] => [(k, v)]
  | (k', v') :: rest =>
    if lt k k' then (k, v) :: (k', v') :: rest
    else if lt k' k then (k', v') :: ntInsert lt k v rest
    else (k, v) :: rest

/-- `NameTree` = its root leaf node: the map and the separately maintained `/Limits` -/
structure NT (κ ν : Type) where
  names : List (κ × ν)
  limits : Option (κ × κ)
  deriving Repr

/-- `NameTree::new()`: `NameTreeNode::leaf(BTreeMap::new())` — no limits for an empty map -/
def NT.new {κ ν : Type} : NT κ ν := { names := [], limits := none }

/-- `NameTree::add`: `names.insert(name, value)`, then `if name < *min { *min = name }`,
`if name > *max { *max = name }`, or `limits = Some((name, name))` the first time -/
def NT.add {κ ν : Type} (lt : κ → κ → Bool) (t : NT κ ν) (k : κ) (v : ν) : NT κ ν :=
  { names := ntInsert lt k v t.names,
    limits :=
      match t.limits with
      | some (mn, mx) => some (if lt k mn then k else mn, if lt mx k then k else mx)
      | none => some (k, k) }

/-- the tree after a sequence of `add_destination` calls -/
def NT.build {κ ν : Type} (lt : κ → κ → Bool) (adds : List (κ × ν)) : NT κ ν :=
  adds.foldl (fun t kv => t.add lt kv.1 kv.2) NT.new

/-- `NameTree::get`: `names.get(name)` -/
def NT.get {κ ν : Type} [DecidableEq κ] (t : NT κ ν) (k : κ) : Option ν :=
  (t.names.find? (fun kv => kv.1 = k)).map (·.2)

/-- byte-wise lexicographic order — `String`'s `Ord` on the UTF-8 bytes, and the order ISO
32000-1 §7.9.6 prescribes for the keys of a name tree -/
def ltBytes : List Nat → List Nat → Bool
  | [], [] => false
  | [], _ :: _ => true
  | _ :: _, [] => false
  | a :: as, b :: bs => a < b || (a == b && ltBytes as bs)

namespace Spec

/-- §7.9.6: how a reader looks a name up in a leaf's `/Names` array — here a plain scan of the
pairs (independent of any ordering) -/
def lookupWritten {κ ν : Type} [DecidableEq κ] (pairs : List (κ × ν)) (k : κ) : Option ν :=
  match pairs with
  | [] => none
  | (k', v) :: rest => if k' = k then some v else lookupWritten rest k

/-- the destination the author gave a name: the last `add_destination` for it -/
def authored {κ ν : Type} [DecidableEq κ] (adds : List (κ × ν)) (k : κ) : Option ν :=
  (adds.reverse.find? (fun kv => kv.1 = k)).map (·.2)

/-- keys strictly ascending -/
def ascending {κ ν : Type} (lt : κ → κ → Bool) : List (κ × ν) → Bool
  | [] => true
  | [_] => true
  | a :: b :: rest => lt a.1 b.1 && ascending lt (b :: rest)

end Spec

end OxiVerif.C28
