import OxiVerif.Spec.Syntax
import OxiVerif.Model.Lexer
/-!
# Model.ObjParser — `parser/objects.rs` `PdfObject::parse*`, transcribed by hand

`parse` / `parse_with_options` / `parse_from_token_with_options` / `parse_array_with_options` /
`parse_dictionary_or_stream_with_options` / `parse_dictionary_inner_with_options`, default
options.  The value type is `Spec.Syntax.Obj` (`name cs`: the `char`s of the `PdfName`, every
one < 256; `real t`: the token text; `dict kvs`: entries **in the order they were inserted** —
the `HashMap` semantics (a later duplicate key replaces an earlier one, no order) is applied
when the value is printed, see `Drv`).

* `Integer Integer R` look-ahead (`intArm`): only when `0 ≤ i ≤ u32::MAX` (before the repair of
  C09-F5: `9 999 999`, `intArmOld`) and `0 ≤ gen ≤ 65535`, `R` is
  whatever lexes as `Token::Name("R")` — a bare `R` **and also the name `/R`**.  An error while
  lexing the look-ahead tokens fails the whole parse.  Tokens pushed back = input not consumed.
* after a dictionary the next token is inspected (comments are consumed, an error fails the
  parse, `stream` starts a stream body — **not modelled**, `Err.unmodelled`).
* recursion is by `fuel` (one unit per call of `parse*`); `parse` supplies more than any input
  can use.
-/
namespace OxiVerif.Model.ObjParser
open OxiVerif.Spec.Syntax (Obj)
open OxiVerif.Model.Lexer

/-- The `Token::Integer` arm of `parse_from_token_with_options`, parametrised by what the
    repairs changed: `maxObj` = upper end of the window in which `gen R` is looked for after the
    integer; `anyR` = the third token may be *any* `Token::Name("R")`, also the one lexed from
    the name `/R`. -/
def intArmW (maxObj : Int) (anyR : Bool) (i : Int) (rest : List Nat) : Res (Obj × List Nat) :=
  if !(0 ≤ i && i ≤ maxObj) then .ok (.int i, rest)
  else
    match next rest with
    | .error e => .error e
    | .ok (.int g, rest2) =>
      if 0 ≤ g && g ≤ 65535 then
        match next rest2 with
        | .error e => .error e
        | .ok (.name [82], rest3) =>
          if anyR || bareRAhead rest2 then .ok (.ref i.toNat g.toNat, rest3) else .ok (.int i, rest)
        | .ok _ => .ok (.int i, rest)
      else .ok (.int i, rest)
    | .ok _ => .ok (.int i, rest)

/-- the arm as the code has it now: object numbers up to `u32::MAX`, and the third token must be
    the bare keyword `R` (`Lexer::last_token_was_ref_keyword`) -/
def intArm (i : Int) (rest : List Nat) : Res (Obj × List Nat) := intArmW 4294967295 false i rest

/-- the arm before the repair of C09-F3: any `Token::Name("R")` closed a reference, also `/R` -/
def intArmAnyR (i : Int) (rest : List Nat) : Res (Obj × List Nat) := intArmW 4294967295 true i rest

/-- the arm before the repairs: window `0..=9999999` (C09-F5), any `Name("R")` (C09-F3) -/
def intArmOld (i : Int) (rest : List Nat) : Res (Obj × List Nat) := intArmW 9999999 true i rest

mutual
/-- `parse_from_token_with_options` -/
def parseFromToken : Nat → Token → List Nat → Res (Obj × List Nat)
  | 0, _, _ => .error .unmodelled
  | fuel + 1, tok, rest =>
    match tok with
    | .null => .ok (.null, rest)
    | .bool b => .ok (.bool b, rest)
    | .int i => intArm i rest
    | .real t => .ok (.real t, rest)
    | .str s => .ok (.str s, rest)
    | .name n => .ok (.name n, rest)
    | .arrayStart =>
      match parseArray fuel rest with
      | .ok (xs, rest') => .ok (.arr xs, rest')
      | .error e => .error e
    | .dictStart =>
      match parseDictInner fuel rest with
      | .error e => .error e
      | .ok (kvs, rest') =>
        match afterDict fuel rest' with
        | .ok rest'' => .ok (.dict kvs, rest'')
        | .error e => .error e
    | .comment _ => parseObj fuel rest
    | .startXRef => .error .syntax
    | .eof => .error .syntax
    | _ => .error .unexpectedToken

/-- `parse_with_options` -/
def parseObj : Nat → List Nat → Res (Obj × List Nat)
  | 0, _ => .error .unmodelled
  | fuel + 1, inp =>
    match next inp with
    | .error e => .error e
    | .ok (tok, rest) => parseFromToken fuel tok rest

/-- `parse_array_with_options` (the `[` already consumed) -/
def parseArray : Nat → List Nat → Res (List Obj × List Nat)
  | 0, _ => .error .unmodelled
  | fuel + 1, inp =>
    match next inp with
    | .error e => .error e
    | .ok (tok, rest) =>
      if tok == .arrayEnd then .ok ([], rest)
      else if tok.isComment then parseArray fuel rest
      else
        match parseFromToken fuel tok rest with
        | .error e => .error e
        | .ok (x, rest') =>
          match parseArray fuel rest' with
          | .ok (xs, rest'') => .ok (x :: xs, rest'')
          | .error e => .error e

/-- `parse_dictionary_inner_with_options` (the `<<` already consumed) -/
def parseDictInner : Nat → List Nat → Res (List (List Nat × Obj) × List Nat)
  | 0, _ => .error .unmodelled
  | fuel + 1, inp =>
    match next inp with
    | .error e => .error e
    | .ok (.dictEnd, rest) => .ok ([], rest)
    | .ok (.comment _, rest) => parseDictInner fuel rest
    | .ok (.name k, rest) =>
      match parseObj fuel rest with
      | .error e => .error e
      | .ok (v, rest') =>
        match parseDictInner fuel rest' with
        | .ok (kvs, rest'') => .ok ((k, v) :: kvs, rest'')
        | .error e => .error e
    | .ok _ => .error .unexpectedToken

/-- the loop after the dictionary in `parse_dictionary_or_stream_with_options`: returns the
    position the lexer is (logically) left at -/
def afterDict : Nat → List Nat → Res (List Nat)
  | 0, _ => .error .unmodelled
  | fuel + 1, inp =>
    match next inp with
    | .error e => .error e
    | .ok (.stream, _) => .error .unmodelled
    | .ok (.comment _, rest) => afterDict fuel rest
    | .ok _ => .ok inp
end

/-- `PdfObject::parse` on a fresh lexer over `inp`.  Every `parse*` call that consumes fuel
    first consumes at least one input byte or ends, so `2·|inp| + 4` is never exhausted. -/
def parse (inp : List Nat) : Res (Obj × List Nat) := parseObj (2 * inp.length + 4) inp

end OxiVerif.Model.ObjParser
