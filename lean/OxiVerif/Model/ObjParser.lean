import OxiVerif.Spec.Syntax
import OxiVerif.Model.Lexer
/-!
# Model.ObjParser — `parser/objects.rs` `PdfObject::parse*`, transcribed by hand

`parse` / `parse_with_options` / `parse_from_token_with_options` / `parse_array_with_options` /
`parse_dictionary_or_stream_with_options` / `parse_dictionary_inner_with_options`, default
options.  The value type is `Spec.Syntax.Obj` (`name cs`: the `char`s of the `PdfName`, every
one < 256; `real t`: the token text; `dict kvs`: entries **in the order they were inserted** —
the `HashMap` semantics (a later duplicate key replaces an earlier one, no order) is applied
when the value is printed, see `Drv`).

* `Integer Integer R` look-ahead: only when `0 ≤ i ≤ 9 999 999` and `0 ≤ gen ≤ 65535`, `R` is
  whatever lexes as `Token::Name("R")` — a bare `R` **and also the name `/R`**.  An error while
  lexing the look-ahead tokens fails the whole parse.  Tokens pushed back = input not consumed.
* after a dictionary the next token is inspected (comments are consumed, an error fails the
  parse, `stream` starts a stream body — **not modelled**, `Err.unmodelled`).
* recursion is by `fuel` (one unit per call of `parse*`); `parse` supplies more than any input
  can use.
-/
namespace OxiVerif.Model.ObjParser
open OxiVerif.Spec.Syntax (Obj)
open OxiVerif.Model.Lexer

mutual
/-- `parse_from_token_with_options` -/
def parseFromToken : Nat → Token → List Nat → Res (Obj × List Nat)
  | 0, _, _ => .error .unmodelled
  | fuel + 1, tok, rest =>
    match tok with
    | .null => .ok (.null, rest)
    | .bool b => .ok (.bool b, rest)
    | .int i =>
      if !(0 ≤ i && i ≤ 9999999) then .ok (.int i, rest)
      else
        match next rest with
        | .error e => .error e
        | .ok (.int g, rest2) =>
          if 0 ≤ g && g ≤ 65535 then
            match next rest2 with
            | .error e => .error e
            | .ok (.name [82], rest3) => .ok (.ref i.toNat g.toNat, rest3)
            | .ok _ => .ok (.int i, rest)
          else .ok (.int i, rest)
        | .ok _ => .ok (.int i, rest)
    | .real t => .ok (.real t, rest)
    | .str s => .ok (.str s, rest)
    | .name n => .ok (.name n, rest)
    | .arrayStart =>
      match parseArray fuel rest with
      | .ok (xs, rest') => .ok (.arr xs, rest')
      | .error e => .error e
    | .dictStart =>
      match parseDictInner fuel rest with
      | .error e => .error e
      | .ok (kvs, rest') =>
        match afterDict fuel rest' with
        | .ok rest'' => .ok (.dict kvs, rest'')
        | .error e => .error e
    | .comment _ => parseObj fuel rest
    | .startXRef => .error .syntax
    | .eof => .error .syntax
    | _ => .error .unexpectedToken

/-- `parse_with_options` -/
def parseObj : Nat → List Nat → Res (Obj × List Nat)
  | 0, _ => .error .unmodelled
  | fuel + 1, inp =>
    match next inp with
    | .error e => .error e
    | .ok (tok, rest) => parseFromToken fuel tok rest

/-- `parse_array_with_options` (the `[` already consumed) -/
def parseArray : Nat → List Nat → Res (List Obj × List Nat)
  | 0, _ => .error .unmodelled
  | fuel + 1, inp =>
    match next inp with
    | .error e => .error e
    | .ok (tok, rest) =>
      if tok == .arrayEnd then .ok ([], rest)
      else if tok.isComment then parseArray fuel rest
      else
        match parseFromToken fuel tok rest with
        | .error e => .error e
        | .ok (x, rest') =>
          match parseArray fuel rest' with
          | .ok (xs, rest'') => .ok (x :: xs, rest'')
          | .error e => .error e

/-- `parse_dictionary_inner_with_options` (the `<<` already consumed) -/
def parseDictInner : Nat → List Nat → Res (List (List Nat × Obj) × List Nat)
  | 0, _ => .error .unmodelled
  | fuel + 1, inp =>
    match next inp with
    | .error e => .error e
    | .ok (.dictEnd, rest) => .ok ([], rest)
    | .ok (.comment _, rest) => parseDictInner fuel rest
    | .ok (.name k, rest) =>
      match parseObj fuel rest with
      | .error e => .error e
      | .ok (v, rest') =>
        match parseDictInner fuel rest' with
        | .ok (kvs, rest'') => .ok ((k, v) :: kvs, rest'')
        | .error e => .error e
    | .ok _ => .error .unexpectedToken

/-- the loop after the dictionary in `parse_dictionary_or_stream_with_options`: returns the
    position the lexer is (logically) left at -/
def afterDict : Nat → List Nat → Res (List Nat)
  | 0, _ => .error .unmodelled
  | fuel + 1, inp =>
    match next inp with
    | .error e => .error e
    | .ok (.stream, _) => .error .unmodelled
    | .ok (.comment _, rest) => afterDict fuel rest
    | .ok _ => .ok inp
end

/-- `PdfObject::parse` on a fresh lexer over `inp`.  Every `parse*` call that consumes fuel
    first consumes at least one input byte or ends, so `2·|inp| + 4` is never exhausted. -/
def parse (inp : List Nat) : Res (Obj × List Nat) := parseObj (2 * inp.length + 4) inp

end OxiVerif.Model.ObjParser
