import OxiVerif.Model.C25
import OxiVerif.Spec.AnnexD
import OxiVerif.Spec.Syntax
import OxiVerif.Model.Serializer
import OxiVerif.Model.Lexer
/-
C10 — text strings: what each text-bearing API site writes and what readers make of it.

Code side (hand transcription; the serializers / lexer are the shared C09 models):
  carrier `lit8`  : `Object::String(String)` through `write_object_value{,_to_buffer}`
                    (writer/pdf_writer/mod.rs) = `(` escape_pdf_string_bytes(UTF-8 bytes) `)`.
                    Sites: `write_info` (Title Author Subject Keywords Creator Producer), outline
                    `/Title`, annotation `/Contents`, `TextField::with_value` / `with_default_value`
                    (`/V`, `/DV`, forms/field_type.rs), `Document::fill_field` (`/V`, document.rs).
  carrier `hex8`  : `IncrementalFormFiller::fill` (writer/incremental_form_fill.rs `fill_many_impl`):
                    `/V` = `PdfString(value.as_bytes())` through `incremental_update::write_string`
                    = `<` upper-case hex of the UTF-8 bytes `>`.
  carrier `hex16` : `IncrementalTextNoteEditor` (writer/incremental_text_notes.rs `pdf_text`):
                    `/Contents` = `<` hex of FE FF ++ UTF-16BE `>`.
  both fill paths build an appearance stream first and refuse (`EncodingError`) a value with a
  character `TextEncoding::WinAnsiEncoding.encode_strict` rejects (`winansi_encode_char`, C25 table).
  readers: `Lexer::next_token` (Model.Lexer) then `decode_text_string` (parser/objects.rs): BOM FE FF ⇒
  `String::from_utf16_lossy` of `chunks_exact(2)`, else `winansi_decode_char` per byte (C25 table).
Spec side (ISO 32000-1 §7.3.4 strings through `Spec.Syntax`, §7.9.2.2 text strings):
  `specDecode` (BOM ⇒ UTF-16BE, else PDFDocEncoding of Annex D).
Code points, bytes, UTF-16 units are `Nat`.
-/
namespace OxiVerif.C10
open OxiVerif.C25 (utf8Enc winansiDecodeChar winansiEncodeChar)
open OxiVerif.Model
open OxiVerif.Spec
open OxiVerif.Spec.Syntax (Obj)

/-! ### UTF-16 -/

def utf16Enc (c : Nat) : List Nat :=
  if c < 0x10000 then [c] else [0xD800 + (c - 0x10000) / 1024, 0xDC00 + (c - 0x10000) % 1024]

/-- `String::from_utf16_lossy` / a spec decoder: unpaired surrogates become U+FFFD -/
def utf16Dec : List Nat → List Nat
  | [] => []
  | [u] => if 0xD800 ≤ u ∧ u ≤ 0xDFFF then [0xFFFD] else [u]
  | u :: l :: r =>
    if 0xD800 ≤ u ∧ u ≤ 0xDBFF ∧ 0xDC00 ≤ l ∧ l ≤ 0xDFFF then
      (0x10000 + (u - 0xD800) * 1024 + (l - 0xDC00)) :: utf16Dec r
    else if 0xD800 ≤ u ∧ u ≤ 0xDFFF then 0xFFFD :: utf16Dec (l :: r)
    else u :: utf16Dec (l :: r)

/-- `chunks_exact(2)` + `u16::from_be_bytes` -/
def units : List Nat → List Nat
  | a :: b :: r => (a * 256 + b) :: units r
  | _ => []

def unitBytes (us : List Nat) : List Nat := us.flatMap fun u => [u / 256, u % 256]

/-! ### what is written -/

inductive Carrier
  | lit8    -- (old) `Object::String(text)`: literal string of the UTF-8 bytes
  | hex8    -- (old) incremental fill: hexadecimal string of the UTF-8 bytes
  | hex16   -- text notes: hexadecimal string of BOM + UTF-16BE
  | txt     -- `Object::text_string(text)` written by the document writer
  | txtHex  -- `text_string_bytes(text)` written by the incremental writer (always hexadecimal)
  deriving DecidableEq, Repr

def utf8 (s : List Nat) : List Nat := s.flatMap utf8Enc

/-- BOM + UTF-16BE: `pdf_text` of incremental_text_notes.rs; also the encoding a conforming writer
may use for every text -/
def bom16 (s : List Nat) : List Nat := 0xFE :: 0xFF :: unitBytes (s.flatMap utf16Enc)

/-- `Object::text_string` / `text_string_bytes`: the characters PDFDocEncoding reads as ASCII and a
literal string preserves — HT, LF, the printable range -/
def safeAscii (c : Nat) : Bool := c == 9 || c == 10 || (0x20 ≤ c && c ≤ 0x7E)

/-- the bytes `text_string` / `text_string_bytes` choose: the text itself when all characters are
`safeAscii`, BOM + UTF-16BE otherwise -/
def textPayload (s : List Nat) : List Nat := if s.all safeAscii then utf8 s else bom16 s

/-- the bytes of the string object's value -/
def payload : Carrier → List Nat → List Nat
  | .lit8, s => utf8 s
  | .hex8, s => utf8 s
  | .hex16, s => bom16 s
  | .txt, s => textPayload s
  | .txtHex, s => textPayload s

/-- the string token as it stands in the file (`Object::String` → literal, `Object::ByteString` and
every `PdfString` of the incremental writer → hexadecimal) -/
def token : Carrier → List Nat → List Nat
  | .lit8, s => ser (.str (utf8 s))
  | .hex8, s => incWriteString (utf8 s)
  | .hex16, s => incWriteString (bom16 s)
  | .txt, s => if s.all safeAscii then ser (.str (utf8 s)) else ser (.hexstr (bom16 s))
  | .txtHex, s => incWriteString (textPayload s)

/-- both fill paths: `encode_strict` of the appearance text must succeed -/
def fillAccepts (s : List Nat) : Bool := s.all fun c => (winansiEncodeChar c).isSome

/-! ### readers -/

/-- `decode_text_string` -/
def libDecode (bs : List Nat) : List Nat :=
  match bs with
  | 0xFE :: 0xFF :: r => utf16Dec (units r)
  | _ => bs.map fun b => (winansiDecodeChar b).getD b

/-- §7.9.2.2: BOM FE FF ⇒ UTF-16BE, otherwise PDFDocEncoding (undefined slot ⇒ U+FFFD) -/
def specDecode (bs : List Nat) : List Nat :=
  match bs with
  | 0xFE :: 0xFF :: r => utf16Dec (units r)
  | _ => bs.map fun b => (AnnexD.dec .pdfDoc b).getD 0xFFFD

/-- the same reader, giving the writer the benefit of the doubt where Annex D is silent: a byte
whose PDFDocEncoding slot is undefined is taken as the code point of the same number (what pdf.js,
pypdf do for C0 controls).  The ORACLE uses this one, so it never demands more than the standard. -/
def specDecodeLenient (bs : List Nat) : List Nat :=
  match bs with
  | 0xFE :: 0xFF :: r => utf16Dec (units r)
  | _ => bs.map fun b => (AnnexD.dec .pdfDoc b).getD b

/-- the library: its lexer on the token (followed by `rest`), then `PdfString::to_text` -/
def libRead (tok rest : List Nat) : Option (List Nat) :=
  match Lexer.next (tok ++ rest) with
  | .ok (.str b, _) => some (libDecode b)
  | _ => none

/-- an independent reader: §7.3.4 string syntax (`Spec.Syntax`), then §7.9.2.2 -/
def specRead (tok rest : List Nat) : Option (List Nat) :=
  match Syntax.readObj 1 (tok ++ rest) with
  | some (.str b, _) => some (specDecode b)
  | _ => none

/-- what the library reads back from what it wrote -/
def libRoundtrip (k : Carrier) (s : List Nat) : Option (List Nat) := libRead (token k s) [10]
/-- what an independent (spec) reader reads from what the library wrote -/
def specRoundtrip (k : Carrier) (s : List Nat) : Option (List Nat) := specRead (token k s) [10]

def startsBom : List Nat → Bool
  | 0xFE :: 0xFF :: _ => true
  | _ => false

/-- the literal string as it was written before the CR repair of `escape_pdf_string_bytes`
(regression statements only) -/
def tokenRawCR (s : List Nat) : List Nat := serStrRawCR (utf8 s)

end OxiVerif.C10
