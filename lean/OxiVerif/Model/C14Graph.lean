import OxiVerif.Model.C14
/-
C14 — LITERAL, index-based transcription of `pipeline/graph.rs` `ElementGraph::{build, parent_of,
children_of, elements_in_section, top_level_sections}` and of `HybridChunker::chunk_with_graph`
on top of it.  `Model/C14.lean` fuses all of this into one left-to-right pass (`gstep`), which is
what the theorems are about; this file keeps the code's own shape — BOTH hash maps
(`latest_title_for_heading`, filled by a first pass over all titles, and
`active_title_for_heading`, filled incrementally by the second pass), the `parent` / `children`
vectors indexed by element position, the `unattached` vectors and the `sort_unstable` — so that the
correspondence run compares the real code with a line-by-line mirror, and the driver checks on
every request that the fused pass computes the same chunks.
`HashMap<String, usize>`: association list, `insert` prepends (overwrites), `get` finds the first.
Import-free apart from the model.
-/
namespace OxiVerif.C14

abbrev TitleMap := List (Str × Nat)

def TitleMap.insert (m : TitleMap) (k : Str) (v : Nat) : TitleMap := (k, v) :: m
def TitleMap.get (m : TitleMap) (k : Str) : Option Nat := (m.find? fun p => decide (p.1 = k)).map (·.2)

structure Graph where
  parent : List (Option Nat)
  children : List (List Nat)
  isTitle : List Bool
  /-- `latest_title_for_heading` — built by the first pass; the second pass must NOT consult it -/
  latest : TitleMap
  deriving Repr

/-- elements with their index -/
def indexed (els : List Elem) : List (Nat × Elem) := (List.range els.length).zip els

/-- first pass of `build`: `is_title` and `latest_title_for_heading` -/
def buildPass1 (els : List Elem) : List Bool × TitleMap :=
  (indexed els).foldl (fun (acc : List Bool × TitleMap) (ie : Nat × Elem) =>
    if ie.2.isTitle then (acc.1 ++ [true], acc.2.insert ie.2.text ie.1)
    else (acc.1 ++ [false], acc.2)) ([], [])

structure Pass2 where
  active : TitleMap
  parent : List (Option Nat)
  children : List (List Nat)

/-- one iteration of the second pass of `build` -/
def buildPass2Step (st : Pass2) (ie : Nat × Elem) : Pass2 :=
  let i := ie.1
  let e := ie.2
  if e.isTitle then { st with active := st.active.insert e.text i }
  else
    match e.md.parentHeading with
    | some h =>
      match st.active.get h with
      | some t => { st with parent := st.parent.set i (some t),
                            children := st.children.modify t (· ++ [i]) }
      | none => st
    | none => st

/-- `ElementGraph::build` -/
def Graph.build (els : List Elem) : Graph :=
  let n := els.length
  let p1 := buildPass1 els
  let st := (indexed els).foldl buildPass2Step
    { active := [], parent := List.replicate n none, children := List.replicate n [] }
  { parent := st.parent, children := st.children, isTitle := p1.1, latest := p1.2 }

def Graph.len (g : Graph) : Nat := g.parent.length
def Graph.parentOf (g : Graph) (i : Nat) : Option Nat := (g.parent.getD i none)
def Graph.childrenOf (g : Graph) (i : Nat) : List Nat := g.children.getD i []
/-- `elements_in_section` -/
def Graph.elementsInSection (g : Graph) (t : Nat) : List Nat := g.childrenOf t
/-- `top_level_sections` -/
def Graph.topLevelSections (g : Graph) : List Nat :=
  (List.range g.len).filter fun i => g.isTitle.getD i false && (g.parentOf i).isNone

def insertNat (x : Nat) : List Nat → List Nat
  | [] => [x]
  | y :: r => if x ≤ y then x :: y :: r else y :: insertNat x r
/-- `sort_unstable` on indices -/
def sortNat (l : List Nat) : List Nat := l.foldr insertNat []

structure Unatt where
  titlesSeen : Nat
  unattached : List (List Nat)

/-- one iteration of the `for idx in first_title_idx..elements.len()` loop -/
def unattStep (g : Graph) (tops : List Nat) (st : Unatt) (idx : Nat) : Unatt :=
  if tops[st.titlesSeen]? = some idx then { st with titlesSeen := st.titlesSeen + 1 }
  else if (g.parentOf idx).isNone then
    { st with unattached := st.unattached.modify (st.titlesSeen - 1) (· ++ [idx]) }
  else st

def dummyElem : Elem := ⟨.paragraph, .text [], ⟨0, 0, none, [], none, false, false, false⟩⟩

/-- `chunk_with_graph(elements, graph)` -/
def chunkWithGraphOn (cfg : Config) (cnt : Counter) (els : List Elem) (g : Graph) : List Chunk :=
  if els.isEmpty then [] else
  let tops := g.topLevelSections
  let first := tops.head?.getD els.length
  let pre := if first > 0 then chunk cfg cnt (els.take first) else []
  let un := ((List.range els.length).drop first).foldl (unattStep g tops)
    { titlesSeen := 0, unattached := List.replicate tops.length [] }
  let secs := (List.range tops.length).zip tops
  pre ++ secs.flatMap fun (pt : Nat × Nat) =>
    let childIdx := sortNat (g.elementsInSection pt.2 ++ un.unattached.getD pt.1 [])
    let sec : Sec := ⟨els.getD pt.2 dummyElem, childIdx.map fun ci => els.getD ci dummyElem⟩
    processSection cfg cnt sec

/-- `chunk_with_graph(elements, &ElementGraph::build(elements))`, literally -/
def chunkWithGraphLit (cfg : Config) (cnt : Counter) (els : List Elem) : List Chunk :=
  chunkWithGraphOn cfg cnt els (Graph.build els)

/-- the seeded regression: the second pass consulting `latest_title_for_heading` -/
def buildPass2StepLatest (latest : TitleMap) (st : Pass2) (ie : Nat × Elem) : Pass2 :=
  let i := ie.1
  let e := ie.2
  if e.isTitle then { st with active := st.active.insert e.text i }
  else
    match e.md.parentHeading with
    | some h =>
      match latest.get h with
      | some t => { st with parent := st.parent.set i (some t),
                            children := st.children.modify t (· ++ [i]) }
      | none => st
    | none => st

def Graph.buildLatest (els : List Elem) : Graph :=
  let n := els.length
  let p1 := buildPass1 els
  let st := (indexed els).foldl (buildPass2StepLatest p1.2)
    { active := [], parent := List.replicate n none, children := List.replicate n [] }
  { parent := st.parent, children := st.children, isTitle := p1.1, latest := p1.2 }

end OxiVerif.C14
