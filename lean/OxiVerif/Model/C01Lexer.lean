import OxiVerif.Model.C01Filters
/-!
C01 — model of `parser/lexer.rs` (`Lexer::next_token` and its readers) and of
`parser/objects.rs` (`PdfObject::parse_with_options` without stream bodies), with an explicit
CALL-DEPTH counter: every function of the real code that calls itself (directly or through the
mutual recursion of the object parser) adds one to the depth it returns, loops do not.
All recursion on the input is structural (the termination checker is the termination proof) except
the object parser, which threads an explicit fuel (see `parseTop`).
-/
namespace OxiVerif.C01

inductive Tok where
  | bool (b : Bool) | int (i : Int) | real | str (bs : Bytes) | name (cs : Bytes)
  | arrStart | arrEnd | dictStart | dictEnd
  | kStream | kEndStream | kObj | kEndObj | kStartXRef | null | comment | eof
  /-- the bare keyword `R`: the code returns `Token::Name("R")` for it, as for the name `/R`, and
  remembers in `last_token_was_ref_keyword` (until the next `next_token` call) that it was the keyword -/
  | refKw
deriving Repr, DecidableEq

structure LexOpts where
  lenientSyntax : Bool
  lenientEncoding : Bool
deriving Repr, DecidableEq

/-- delimiters of `read_name` / `read_word` (note: `{` `}` are NOT in the lexer's set) -/
def isDelim (b : Nat) : Bool :=
  isWs b || b == 47 || b == 60 || b == 62 || b == 91 || b == 93 || b == 40 || b == 41 || b == 37

def isDigit (b : Nat) : Bool := 48 ≤ b && b ≤ 57
def isOct (b : Nat) : Bool := 48 ≤ b && b ≤ 55
def isAlpha (b : Nat) : Bool := (65 ≤ b && b ≤ 90) || (97 ≤ b && b ≤ 122)

def hexVal? (b : Nat) : Option Nat :=
  if 48 ≤ b ∧ b ≤ 57 then some (b - 48)
  else if 65 ≤ b ∧ b ≤ 70 then some (b - 55)
  else if 97 ≤ b ∧ b ≤ 102 then some (b - 87)
  else none

/-- `u8::from_str_radix(&format!("{}{}", h1 as char, h2 as char), 16)` : an unsigned parse accepts
one leading `+` -/
def hexByte? (h1 h2 : Nat) : Option Nat :=
  match hexVal? h2 with
  | none => none
  | some lo =>
    if h1 == 43 then some lo
    else match hexVal? h1 with
      | some hi => some (hi * 16 + lo)
      | none => none

def readWord : Bytes → Bytes × Bytes
  | [] => ([], [])
  | b :: rest =>
    if isDelim b then ([], b :: rest)
    else let (w, r) := readWord rest; (b :: w, r)

/-- after `%`: up to (not including) LF or CR -/
def readComment : Bytes → Bytes
  | [] => []
  | b :: rest => if b == 10 || b == 13 then b :: rest else readComment rest

/-- after `/` -/
def readName : Bytes → Outcome (Bytes × Bytes)
  | [] => .ok ([], [])
  | b :: rest =>
    if isDelim b then .ok ([], b :: rest)
    else if b == 35 then
      match rest with
      | h1 :: h2 :: rest' =>
        match hexByte? h1 h2 with
        | some v => do let (n, r) ← readName rest'; pure (v :: n, r)
        | none => .err
      | _ => .err
    else do let (n, r) ← readName rest; pure (b :: n, r)

inductive LitMode where
  | normal | esc | oct (v k : Nat)
deriving Repr, DecidableEq

def escMap (b : Nat) : Nat :=
  if b == 110 then 10 else if b == 114 then 13 else if b == 116 then 9
  else if b == 98 then 8 else if b == 102 then 12 else b

/-- what the non-escape arm of `read_literal_string` does with one byte -/
def litNormalStep (b d : Nat) (acc : Bytes) : LitMode × Nat × Bytes :=
  if b == 92 then (.esc, d, acc)
  else if b == 40 then (.normal, d + 1, acc ++ [b])
  else if b == 41 then (.normal, d - 1, if d - 1 > 0 then acc ++ [b] else acc)
  else (.normal, d, acc ++ [b])

/-- after `(`; `d` = paren_depth (an `i32` in the code: 2^31 nested `(` would overflow it — an input
of 2 GiB, outside what the model or the harness can feed).  Octal value arithmetic is `u16`, checked. -/
def readLit (lenient : Bool) : Bytes → LitMode → Nat → Bytes → Outcome (Bytes × Bytes)
  | [], mode, _, acc =>
    let acc := match mode with
      | .oct v _ => acc ++ [v % 256]
      | _ => acc
    if lenient then .ok (acc, []) else .err
  | b :: rest, .normal, d, acc =>
    let (m, d', acc') := litNormalStep b d acc
    if d' == 0 then .ok (acc', rest) else readLit lenient rest m d' acc'
  | b :: rest, .esc, d, acc =>
    if isOct b then readLit lenient rest (.oct (b - 48) 2) d acc
    else readLit lenient rest .normal d (acc ++ [escMap b])
  | b :: rest, .oct v k, d, acc =>
    if k > 0 ∧ isOct b then do
      let m ← mulU U16 v 8
      let v' ← addU U16 m (b - 48)
      readLit lenient rest (.oct v' (k - 1)) d acc
    else
      let acc := acc ++ [v % 256]
      let (m, d', acc') := litNormalStep b d acc
      if d' == 0 then .ok (acc', rest) else readLit lenient rest m d' acc'

def hexPairs : Bytes → Bytes
  | a :: b :: rest => ((hexVal? a).getD 0 * 16 + (hexVal? b).getD 0) :: hexPairs rest
  | [a] => [(hexVal? a).getD 0 * 16]
  | [] => []

/-- after `<` (not `<<`) -/
def readHexStr (lenient : Bool) : Bytes → Bytes → Outcome (Bytes × Bytes)
  | [], acc => if lenient then .ok (hexPairs acc, []) else .err
  | b :: rest, acc =>
    if b == 62 then .ok (hexPairs acc, rest)
    else if (hexVal? b).isSome then readHexStr lenient rest (acc ++ [b])
    else if isWs b then readHexStr lenient rest acc
    else if lenient then readHexStr lenient rest acc
    else .err

def takeDigits : Bytes → Bytes × Bytes
  | [] => ([], [])
  | b :: rest => if isDigit b then let (d, r) := takeDigits rest; (b :: d, r) else ([], b :: rest)

def digitsVal (ds : Bytes) : Nat := ds.foldl (fun a d => a * 10 + (d - 48)) 0

/-- optional sign: (negative, signed, rest) -/
def numSign : Bytes → Bool × Bool × Bytes
  | 43 :: r => (false, true, r)
  | 45 :: r => (true, true, r)
  | r => (false, false, r)

/-- optional fraction: (has dot, fraction digits, rest) -/
def numFrac : Bytes → Bool × Bytes × Bytes
  | 46 :: r => (true, (takeDigits r).1, (takeDigits r).2)
  | r => (false, [], r)

/-- optional exponent: (has exponent, exponent digits, rest) -/
def numExp : Bytes → Bool × Bytes × Bytes
  | [] => (false, [], [])
  | e :: r =>
    if e == 101 || e == 69 then
      let r1 := match r with
        | 43 :: r' => r'
        | 45 :: r' => r'
        | r' => r'
      (true, (takeDigits r1).1, (takeDigits r1).2)
    else (false, [], e :: r)

/-- `read_number` (input starts at the sign / digit / dot) -/
def readNumber (inp : Bytes) : Outcome (Tok × Bytes) :=
  let s := numSign inp
  let badAfterSign := s.2.1 && (match s.2.2 with
    | [] => false
    | n :: _ => !isDigit n && n != 46)
  if badAfterSign then .err
  else
    let d := takeDigits s.2.2
    let f := numFrac d.2
    let e := numExp f.2.2
    if f.1 || e.1 then
      -- `str::parse::<f64>` : at least one mantissa digit; an exponent needs a digit
      if d.1.length + f.2.1.length ≥ 1 ∧ (!e.1 || e.2.1.length ≥ 1) then .ok (.real, e.2.2) else .err
    else
      -- `str::parse::<i64>` : at least one digit; a value out of range (Pos/NegOverflow) is parsed as
      -- `f64` and returned as a real; any failure is an error, not a panic
      if d.1.isEmpty then .err
      else
        let v : Int := if s.1 then -(digitsVal d.1 : Int) else (digitsVal d.1 : Int)
        if I64MIN ≤ v ∧ v ≤ I64MAX then .ok (.int v, e.2.2) else .ok (.real, e.2.2)

def keywordTok (w : Bytes) : Outcome Tok :=
  if w == [116, 114, 117, 101] then .ok (.bool true)
  else if w == [102, 97, 108, 115, 101] then .ok (.bool false)
  else if w == [110, 117, 108, 108] then .ok .null
  else if w == [115, 116, 114, 101, 97, 109] then .ok .kStream
  else if w == [101, 110, 100, 115, 116, 114, 101, 97, 109] then .ok .kEndStream
  else if w == [111, 98, 106] then .ok .kObj
  else if w == [101, 110, 100, 111, 98, 106] then .ok .kEndObj
  else if w == [115, 116, 97, 114, 116, 120, 114, 101, 102] then .ok .kStartXRef
  else .err

def isProblematic (o : LexOpts) (b : Nat) : Bool :=
  (128 ≤ b && b ≤ 159) || b == 7 || (b ≤ 31 && b != 9 && b != 10 && b != 13) ||
  (o.lenientSyntax && b ≥ 160)

def dropWs : Bytes → Bytes
  | [] => []
  | b :: rest => if isWs b then dropWs rest else b :: rest

structure LexRes where
  tok : Outcome Tok
  rest : Bytes
  /-- number of nested `next_token` activations at the deepest point -/
  depth : Nat
deriving Repr

def lexOf (x : Outcome (Tok × Bytes)) : LexRes :=
  match x with
  | .ok (t, r) => ⟨.ok t, r, 1⟩
  | .err => ⟨.err, [], 1⟩
  | .panic k => ⟨.panic k, [], 1⟩
  | .diverge => ⟨.diverge, [], 1⟩

/-- `Lexer::next_token` with an empty push-back buffer.  The white-space skip, the `;` arm, the
lenient-syntax skip and the lenient-encoding skip all `continue` the `loop` of the same activation
(before the repair they called `next_token` again, see `nextTokenOld`): `depth` is always 1. -/
def nextToken (o : LexOpts) : Bytes → LexRes
  | [] => ⟨.ok .eof, [], 1⟩
  | b :: rest =>
    if isWs b then nextToken o rest
    else if b == 37 then ⟨.ok .comment, readComment rest, 1⟩
    else if b == 47 then lexOf (do let (n, r) ← readName rest; pure (.name n, r))
    else if b == 40 then
      lexOf (do let (s, r) ← readLit o.lenientSyntax rest .normal 1 []; pure (.str s, r))
    else if b == 60 then
      match rest with
      | 60 :: rest' => ⟨.ok .dictStart, rest', 1⟩
      | _ => lexOf (do let (s, r) ← readHexStr o.lenientSyntax rest []; pure (.str s, r))
    else if b == 62 then
      match rest with
      | 62 :: rest' => ⟨.ok .dictEnd, rest', 1⟩
      | _ => ⟨.err, [], 1⟩
    else if b == 91 then ⟨.ok .arrStart, rest, 1⟩
    else if b == 93 then ⟨.ok .arrEnd, rest, 1⟩
    else if b == 116 || b == 102 || b == 110 then
      let (w, r) := readWord (b :: rest)
      lexOf (do let t ← keywordTok w; pure (t, r))
    else if b == 43 || b == 45 || isDigit b || b == 46 then lexOf (readNumber (b :: rest))
    else if b == 82 then ⟨.ok .refKw, rest, 1⟩
    else if isAlpha b then
      let (w, r) := readWord (b :: rest)
      -- `true` / `false` / `null` reach `process_keyword` only through t/f/n
      lexOf (do
        let t ← keywordTok w
        match t with
        | .bool _ => .err
        | .null => .err
        | t => pure (t, r))
    else if b == 59 then nextToken o rest
    else if isProblematic o b then
      if o.lenientEncoding then
        if (dropWs rest).isEmpty then ⟨.err, [], 1⟩
        else nextToken o rest
      else ⟨.err, [], 1⟩
    else if o.lenientSyntax then nextToken o rest
    else ⟨.err, [], 1⟩

/-- all tokens up to `Eof` or the first error; returns the tokens, whether it ended in an error,
and the deepest `next_token` nesting.  `fuel` bounds the number of tokens (each non-Eof token
consumes at least one byte, see `Props/C01`). -/
def lexAll (o : LexOpts) : Nat → Bytes → List Tok → Nat → List Tok × Outcome Unit × Nat
  | 0, _, acc, d => (acc.reverse, .diverge, d)
  | fuel + 1, inp, acc, d =>
    let r := nextToken o inp
    let d := max d r.depth
    match r.tok with
    | .ok .eof => (acc.reverse, .ok (), d)
    | .ok t => lexAll o fuel r.rest (t :: acc) d
    | .err => (acc.reverse, .err, d)
    | .panic k => (acc.reverse, .panic k, d)
    | .diverge => (acc.reverse, .diverge, d)

/-! ## object parser (`PdfObject::parse_with_options`) -/

inductive Obj where
  | null | bool (b : Bool) | int (i : Int) | real | str (bs : Bytes) | name (cs : Bytes)
  | arr (xs : List Obj) | dict (kvs : List (Bytes × Obj)) | ref (n g : Nat)
deriving Repr

structure PS where
  inp : Bytes
  /-- `token_buffer`, head = next token to pop -/
  buf : List Tok
  lexDepth : Nat
  /-- a `stream` keyword followed a dictionary: stream bodies are outside this model -/
  sawStream : Bool
deriving Repr

def PS.next (o : LexOpts) (s : PS) : Outcome Tok × PS :=
  match s.buf with
  | t :: b => (.ok t, { s with buf := b })
  | [] =>
    let r := nextToken o s.inp
    (r.tok, { s with inp := r.rest, lexDepth := max s.lexDepth r.depth })

/-- `push_token`: a token that comes back out of the buffer is never "the keyword just lexed"
(`next_token` clears the flag before it pops) -/
def PS.push (s : PS) (t : Tok) : PS :=
  { s with buf := (match t with
    | .refKw => .name [82]
    | t => t) :: s.buf }

/-- `Token::Name(key)` of the dictionary loop (the keyword `R` is such a token) -/
def tokKey : Tok → Option Bytes
  | .name k => some k
  | .refKw => some [82]
  | _ => none

structure PR (α : Type) where
  val : Outcome α
  st : PS
  /-- deepest nesting of `parse_from_token_nested` activations -/
  depth : Nat

/-- `MAX_OBJECT_NESTING` (objects.rs): deepest nesting of arrays and dictionaries in one object -/
def MAX_OBJECT_NESTING : Nat := 256

/-- the `while matches!(token, Token::Comment(_))` loop of the comment arm: the first token that is
not a comment (a loop of one activation) -/
def skipComments (o : LexOpts) : Nat → PS → Outcome Tok × PS
  | 0, s => (.diverge, s)
  | fuel + 1, s =>
    match s.next o with
    | (.ok .comment, s') => skipComments o fuel s'
    | r => r

mutual
/-- `parse_nested` : next token, then `parse_from_token_nested`; `nd` = number of arrays and
dictionaries the object is nested in (`parse_with_options` is `parse_nested … 0`) -/
def parseObj (o : LexOpts) : Nat → Nat → PS → PR Obj
  | 0, _, s => ⟨.diverge, s, 0⟩
  | fuel + 1, nd, s =>
    match s.next o with
    | (.ok t, s') => parseFromTok o fuel t nd s'
    | (.err, s') => ⟨.err, s', 0⟩
    | (.panic k, s') => ⟨.panic k, s', 0⟩
    | (.diverge, s') => ⟨.diverge, s', 0⟩

/-- `parse_from_token_nested`.  `[` and `<<` first pass `nested_depth` (error at
`MAX_OBJECT_NESTING`); a comment is followed by a loop over further comments and ONE call on the
first other token. -/
def parseFromTok (o : LexOpts) : Nat → Tok → Nat → PS → PR Obj
  | 0, _, _, s => ⟨.diverge, s, 0⟩
  | fuel + 1, t, nd, s =>
    match t with
    | .null => ⟨.ok .null, s, 1⟩
    | .bool b => ⟨.ok (.bool b), s, 1⟩
    | .real => ⟨.ok .real, s, 1⟩
    | .str bs => ⟨.ok (.str bs), s, 1⟩
    | .name n => ⟨.ok (.name n), s, 1⟩
    | .refKw => ⟨.ok (.name [82]), s, 1⟩
    | .int i =>
      -- an object number is a `u32`
      if ¬ (0 ≤ i ∧ i ≤ 4294967295) then ⟨.ok (.int i), s, 1⟩
      else
        match s.next o with
        | (.ok (.int g), s1) =>
          if 0 ≤ g ∧ g ≤ 65535 then
            match s1.next o with
            -- `Token::Name(s) if s == "R" && lexer.last_token_was_ref_keyword()`
            | (.ok .refKw, s2) => ⟨.ok (.ref i.toNat g.toNat), s2, 1⟩
            | (.ok t2, s2) => ⟨.ok (.int i), (s2.push t2).push (.int g), 1⟩
            | (.err, s2) => ⟨.err, s2, 1⟩
            | (.panic k, s2) => ⟨.panic k, s2, 1⟩
            | (.diverge, s2) => ⟨.diverge, s2, 1⟩
          else ⟨.ok (.int i), s1.push (.int g), 1⟩
        | (.ok t1, s1) => ⟨.ok (.int i), s1.push t1, 1⟩
        | (.err, s1) => ⟨.err, s1, 1⟩
        | (.panic k, s1) => ⟨.panic k, s1, 1⟩
        | (.diverge, s1) => ⟨.diverge, s1, 1⟩
    | .arrStart =>
      if nd ≥ MAX_OBJECT_NESTING then ⟨.err, s, 1⟩
      else
        let r := parseArr o fuel (nd + 1) s []
        ⟨r.val, r.st, r.depth + 1⟩
    | .dictStart =>
      if nd ≥ MAX_OBJECT_NESTING then ⟨.err, s, 1⟩
      else
        let r := parseDictInner o fuel (nd + 1) s []
        match r.val with
        | .ok kvs =>
          let r2 := afterDict o fuel r.st
          ⟨(match r2.val with
            | .ok _ => .ok (.dict kvs)
            | .err => .err
            | .panic k => .panic k
            | .diverge => .diverge), r2.st, r.depth + 1⟩
        | .err => ⟨.err, r.st, r.depth + 1⟩
        | .panic k => ⟨.panic k, r.st, r.depth + 1⟩
        | .diverge => ⟨.diverge, r.st, r.depth + 1⟩
    | .comment =>
      match skipComments o fuel s with
      | (.ok t', s') =>
        let r := parseFromTok o fuel t' nd s'
        ⟨r.val, r.st, r.depth + 1⟩
      | (.err, s') => ⟨.err, s', 1⟩
      | (.panic k, s') => ⟨.panic k, s', 1⟩
      | (.diverge, s') => ⟨.diverge, s', 1⟩
    | _ => ⟨.err, s, 1⟩

/-- the loop of `parse_array_with_options`; `nd` = nesting depth of the elements -/
def parseArr (o : LexOpts) : Nat → Nat → PS → List Obj → PR Obj
  | 0, _, s, _ => ⟨.diverge, s, 0⟩
  | fuel + 1, nd, s, acc =>
    match s.next o with
    | (.ok .arrEnd, s') => ⟨.ok (.arr acc.reverse), s', 0⟩
    | (.ok .comment, s') => parseArr o fuel nd s' acc
    | (.ok t, s') =>
      let r := parseFromTok o fuel t nd s'
      match r.val with
      | .ok v =>
        let r2 := parseArr o fuel nd r.st (v :: acc)
        ⟨r2.val, r2.st, max r.depth r2.depth⟩
      | .err => ⟨.err, r.st, r.depth⟩
      | .panic k => ⟨.panic k, r.st, r.depth⟩
      | .diverge => ⟨.diverge, r.st, r.depth⟩
    | (.err, s') => ⟨.err, s', 0⟩
    | (.panic k, s') => ⟨.panic k, s', 0⟩
    | (.diverge, s') => ⟨.diverge, s', 0⟩

/-- the loop of `parse_dictionary_inner_nested`; `nd` = nesting depth of the values -/
def parseDictInner (o : LexOpts) : Nat → Nat → PS → List (Bytes × Obj) → PR (List (Bytes × Obj))
  | 0, _, s, _ => ⟨.diverge, s, 0⟩
  | fuel + 1, nd, s, acc =>
    match s.next o with
    | (.ok .dictEnd, s') => ⟨.ok acc.reverse, s', 0⟩
    | (.ok .comment, s') => parseDictInner o fuel nd s' acc
    | (.ok t, s') =>
      match tokKey t with
      | some key =>
        let r := parseObj o fuel nd s'
        match r.val with
        | .ok v =>
          let r2 := parseDictInner o fuel nd r.st ((key, v) :: acc)
          ⟨r2.val, r2.st, max r.depth r2.depth⟩
        | .err => ⟨.err, r.st, r.depth⟩
        | .panic k => ⟨.panic k, r.st, r.depth⟩
        | .diverge => ⟨.diverge, r.st, r.depth⟩
      | none => ⟨.err, s', 0⟩
    | (.err, s') => ⟨.err, s', 0⟩
    | (.panic k, s') => ⟨.panic k, s', 0⟩
    | (.diverge, s') => ⟨.diverge, s', 0⟩

/-- the loop after the dictionary in `parse_dictionary_or_stream_with_options` -/
def afterDict (o : LexOpts) : Nat → PS → PR Unit
  | 0, s => ⟨.diverge, s, 0⟩
  | fuel + 1, s =>
    match s.next o with
    | (.ok .kStream, s') => ⟨.ok (), { s' with sawStream := true }, 0⟩
    | (.ok .comment, s') => afterDict o fuel s'
    | (.ok t, s') => ⟨.ok (), s'.push t, 0⟩
    | (.err, s') => ⟨.err, s', 0⟩
    | (.panic k, s') => ⟨.panic k, s', 0⟩
    | (.diverge, s') => ⟨.diverge, s', 0⟩
end

/-- one object from the start of `inp` (`PdfObject::parse_with_options`); the fuel `3 * length + 8`
is never exhausted (every activation that does not return at once has consumed a byte or popped a
pushed-back token, and at most two tokens are ever pushed back) -/
def parseTop (o : LexOpts) (inp : Bytes) : PR Obj :=
  parseObj o (3 * inp.length + 8) 0 ⟨inp, [], 0, false⟩

/-! ## content-stream tokenizer (`ContentTokenizer::next_token`, content.rs 452-866):
structure only (token boundaries and the self-call depth), no values -/

/-- delimiters of `read_operator` -/
def isOpDelim (b : Nat) : Bool :=
  b == 32 || b == 9 || b == 13 || b == 10 || b == 12 || b == 40 || b == 41 || b == 60 || b == 62 ||
  b == 91 || b == 93 || b == 123 || b == 125 || b == 47 || b == 37 || b == 59

def cSkipOp : Bytes → Bytes × Bytes
  | [] => ([], [])
  | b :: rest => if isOpDelim b then ([], b :: rest) else let (w, r) := cSkipOp rest; (b :: w, r)

/-- nesting of `ContentTokenizer::next_token` activations seen from one token start: the stray
delimiters `; ) { }` (and the white space and comments between them) are skipped by a `loop` of the
same activation (before the repair each of them was a self-call, see `cSkipDepthOld`) -/
def cSkipDepth (_ : Bytes) : Nat := 1

end OxiVerif.C01
