import OxiVerif.Base.Driver
import OxiVerif.Model.C08
/-!
Wire format shared by the C08 and C07 drivers (request tokens ↔ model values).

  filters : `-` (no /Filter) | `x` (not a name/array) | `n:<F>` | `a:<F>,<F>,…` (`a:` = empty array;
            `#` = an element that is not a name)
            F ∈ Hex A85 Lzw Fl Rl Ccf Jb2 Dct Jpx Crypt Bogus
  parms   : `-` | `x` | `d:<dict>` | `a:<el>|<el>|…`   el = `0` (not a dictionary) | dict
            dict = `e` (empty) | items joined by `;` : `P<int>` Predictor, `C<int>` Columns,
            `K<int>` Colors, `B<int>` BitsPerComponent, `E<int>` EarlyChange; `<key>r` = present but
            not an integer
  ztab    : `-` | entries joined by `,` : `z<in>=<out>` (zlib stream result, `!` = reader error),
            `r<in>=<out>` (result of decode_flate's recovery strategies); `<in>` = hex or `@` (= the
            request's data); `<out>` = hex or `-` (empty)
  result  : `ok:<hex>` | `err:decode` | `err:syntax` | `panic:mul` | `panic:add` | `ext`
-/
namespace OxiVerif.Flt

def parseInt? (s : String) : Option Int :=
  match s.toList with
  | '-' :: r => (String.ofList r).toNat?.map fun n => -(n : Int)
  | _ => s.toNat?.map fun n => (n : Int)

def parseFName? (s : String) : Option FName :=
  match s with
  | "Hex" => some .hex | "A85" => some .a85 | "Lzw" => some .lzw | "Fl" => some .flate
  | "Rl" => some .rl | "Ccf" => some .ccitt | "Jb2" => some .jbig2 | "Dct" => some .dct
  | "Jpx" => some .jpx | "Crypt" => some .crypt | "Bogus" => some .unknown
  | _ => none

def parseFilters? (s : String) : Option FilterSpec :=
  if s = "-" then some .none
  else if s = "x" then some .invalid
  else match s.splitOn ":" with
    | ["n", f] => (parseFName? f).map .single
    | ["a", l] =>
      if l = "" then some (.array [])
      else ((l.splitOn ",").mapM fun t => if t = "#" then some none else (parseFName? t).map some).map .array
    | _ => none

def parsePVal? (s : String) : Option PVal :=
  if s = "r" then some .nonInt else (parseInt? s).map .int

def parseDict? (s : String) : Option Dict :=
  if s = "e" then some {}
  else (s.splitOn ";").foldlM (init := ({} : Dict)) fun d item =>
    match item.toList with
    | 'P' :: r => (parsePVal? (String.ofList r)).map fun v => { d with predictor := v }
    | 'C' :: r => (parsePVal? (String.ofList r)).map fun v => { d with columns := v }
    | 'K' :: r => (parsePVal? (String.ofList r)).map fun v => { d with colors := v }
    | 'B' :: r => (parsePVal? (String.ofList r)).map fun v => { d with bpc := v }
    | 'E' :: r => (parsePVal? (String.ofList r)).map fun v => { d with early := v }
    | _ => none

def parseParms? (s : String) : Option ParmSpec :=
  if s = "-" then some .none
  else if s = "x" then some .other
  else match s.toList with
    | 'd' :: ':' :: r => (parseDict? (String.ofList r)).map .dict
    | 'a' :: ':' :: r =>
      (((String.ofList r).splitOn "|").mapM fun t =>
        if t = "0" then some none else (parseDict? t).map some).map .array
    | _ => none

structure ZTab where
  z : List (List Nat × Option (List Nat))
  r : List (List Nat × List Nat)

def parseZTab? (data : List Nat) (s : String) : Option ZTab :=
  if s = "-" then some ⟨[], []⟩
  else (s.splitOn ",").foldlM (init := (⟨[], []⟩ : ZTab)) fun t e =>
    match e.toList with
    | k :: rest =>
      match (String.ofList rest).splitOn "=" with
      | [i, o] =>
        let key := if i = "@" then some data else bytesOfHex? i
        match key with
        | none => none
        | some key =>
          if k = 'z' then
            if o = "!" then some { t with z := t.z ++ [(key, none)] }
            else (bytesOfHex? o).map fun ob => { t with z := t.z ++ [(key, some ob)] }
          else if k = 'r' then
            (bytesOfHex? o).map fun ob => { t with r := t.r ++ [(key, ob)] }
          else none
      | _ => none
    | [] => none

def lookupL {β} (k : List Nat) : List (List Nat × β) → Option β
  | [] => none
  | (k', v) :: r => if k' = k then some v else lookupL k r

def ZTab.ext (t : ZTab) : Ext where
  zlib x := match lookupL x t.z with
    | some v => .ok v
    | none => .ext 1
  recover x := match lookupL x t.r with
    | some v => .ok v
    | none => .ext 1

def showRes : Res (List Nat) → String
  | .ok o => "ok:" ++ hexField o
  | .err .decode => "err:decode"
  | .err .syntax => "err:syntax"
  | .panic .mul => "panic:mul"
  | .panic .add => "panic:add"
  | .ext 0 => "ext"
  | .ext _ => "missing-ztab-entry"

def parseRes? (s : String) : Option (Res (List Nat)) :=
  match s with
  | "err:decode" => some (.err .decode)
  | "err:syntax" => some (.err .syntax)
  | "panic:mul" => some (.panic .mul)
  | "panic:add" => some (.panic .add)
  | "ext" => some (.ext 0)
  | _ =>
    match s.toList with
    | 'o' :: 'k' :: ':' :: r => (bytesOfHex? (String.ofList r)).map .ok
    | _ => none

def parseNats? (s : String) : Option (List Nat) :=
  if s = "-" then some [] else (s.splitOn ",").mapM String.toNat?

end OxiVerif.Flt
