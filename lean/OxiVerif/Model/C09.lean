import OxiVerif.Spec.Syntax
import OxiVerif.Model.Serializer
import OxiVerif.Model.Lexer
import OxiVerif.Model.ObjParser
/-!
# Model.C09 — the hypotheses of the C09 round-trip theorems, as executable predicates

`SafeSpec v rest` / `SafeLib v rest` say when the tree `v`, serialized by the writer and followed by
the bytes `rest`, is inside the fragment for which `Props/C09.lean` proves that the independent
reader / the library's parser return `readBack v` and leave exactly `rest`.  They are *decidable
and evaluated by the driver on every generated case* (the oracle must say `ok` whenever they
hold; when they do not hold the case is one of the listed defect classes or the property's
violation is reported).

What they exclude is exactly what the code gets wrong (or what needs context):
* names / keys: since commit 16fac722 the writer escapes them (`escapeName`), so the independent
  reader needs nothing but "these are bytes" (`NameBytes`); the library's `read_name` builds the
  `String` one `char` per byte (`value as char`), so the *same `String`* comes back only for
  ASCII names (`NameAscii`); `SpecNameOk` / `LibNameOk` are the conditions for names written
  *raw* (the writer before that commit; content-stream operands, C30);
* (literal strings: nothing any more — CR is written `\r` since the CR repair; before, a raw CR
  was read as LF by the independent reader: `NoCR`, `escapePdfStringRawCR`);
* an integer that the *following bytes* turn into an indirect reference
  (`Spec.refAhead` / the library's `Integer Integer R` look-ahead — since the repair of C09-F3
  only a bare `R`, no longer the name `/R`);
* integers (`Object::Integer`) outside `i64` — not constructible — and non-decimal real tokens
  (non-finite reals).  A real written as an integer token outside `i64` is read by the library
  as a real carrying that token (`readBackLib`; before the repair of C09-F4: an error).
-/
namespace OxiVerif.C09
open OxiVerif.Spec.Syntax (Obj)
open OxiVerif.Model

/-! ## what a faithful reader returns -/

/-- the number a written real denotes: the trimmed token; an integer when no period is left -/
def readBackReal (fix6 : List Nat) : Obj :=
  let t := trimReal fix6
  if Spec.Syntax.isIntTok t then .int (Spec.Syntax.intVal t) else .real t

def inI64 (i : Int) : Bool := -9223372036854775808 ≤ i && i ≤ 9223372036854775807

/-- what the library returns for a written real: like `readBackReal`, except that an integer
    token outside `i64` stays a real carrying that token (the same number: `intVal` of the token) -/
def readBackRealLib (fix6 : List Nat) : Obj :=
  let t := trimReal fix6
  if Spec.Syntax.isIntTok t && inI64 (Spec.Syntax.intVal t) then .int (Spec.Syntax.intVal t) else .real t

mutual
/-- the value the library's parser returns for a written tree: `readBack` with `readBackRealLib` -/
def readBackLib : Obj → Obj
  | .real t => readBackRealLib t
  | .hexstr s => .str s
  | .arr xs => .arr (readBackLibList xs)
  | .dict kvs => .dict (readBackLibKVs kvs)
  | o => o
def readBackLibList : List Obj → List Obj
  | [] => []
  | x :: xs => readBackLib x :: readBackLibList xs
def readBackLibKVs : List (List Nat × Obj) → List (List Nat × Obj)
  | [] => []
  | (k, v) :: rest => (k, readBackLib v) :: readBackLibKVs rest
end

attribute [simp] readBackLib readBackLibList readBackLibKVs

mutual
/-- the value a reader must return for a written tree: hexadecimal strings are strings, a real is
    the decimal token that was emitted (never a float) -/
def readBack : Obj → Obj
  | .real t => readBackReal t
  | .hexstr s => .str s
  | .arr xs => .arr (readBackList xs)
  | .dict kvs => .dict (readBackKVs kvs)
  | o => o
def readBackList : List Obj → List Obj
  | [] => []
  | x :: xs => readBack x :: readBackList xs
def readBackKVs : List (List Nat × Obj) → List (List Nat × Obj)
  | [] => []
  | (k, v) :: rest => (k, readBack v) :: readBackKVs rest
end

/-! ## token-level conditions -/

def allB (p : Nat → Bool) : List Nat → Bool
  | [] => true
  | b :: r => p b && allB p r

/-- a name is a byte string — all the independent reader needs since the writer escapes names
    (commit 16fac722) -/
def NameBytes (n : List Nat) : Bool := allB (fun b => b < 256) n

/-- a name the library reads back as the same `String`: ASCII only.  `read_name` pushes
    `byte as char` / `value as char`, so the `char`s read are the *bytes* written
    (`lib_next_name_bytes`, every byte string) and the `String` they form is the one written
    exactly when no byte is ≥ 0x80 (`utf8OfLatin1_eq_iff`). -/
def NameAscii (n : List Nat) : Bool := allB (fun b => b < 128) n

/-- a *raw* (unescaped) name the independent reader reads back verbatim: regular characters only,
    no `#` — the hypothesis the writer needed before commit 16fac722, still what a name written
    verbatim (content streams, C30) needs -/
def SpecNameOk (n : List Nat) : Bool := allB (fun b => Spec.Syntax.isRegular b && b != 35) n

/-- a *raw* name the library reads back as the same `String`: no terminator of `read_name`, no
    `#`, ASCII only (bytes ≥ 0x80 are read one `char` per byte) -/
def LibNameOk (n : List Nat) : Bool := allB (fun b => !Lexer.isBreak b && b != 35 && b < 128) n

def NoCR (s : List Nat) : Bool := allB (fun b => b != 13) s

/-- the continuation ends a token for the independent reader -/
def specEnds : List Nat → Bool
  | [] => true
  | b :: _ => !Spec.Syntax.isRegular b

/-- the continuation ends a word / name / number for the library's lexer (and does not start
    an exponent) -/
def libEnds : List Nat → Bool
  | [] => true
  | b :: _ => Lexer.isBreak b

def dropMinus : List Nat → List Nat
  | 45 :: r => r
  | l => l

/-- the writer's real token is a decimal token `-? digits+ (. digits+)?` — the *syntactic
    hypothesis on the formatter*; checked on every emitted real at run time -/
def IsDecTok (t : List Nat) : Bool :=
  match Spec.Syntax.splitDot (dropMinus t) with
  | (a, none) => !a.isEmpty && Spec.Syntax.allDigits a
  | (a, some f) => !a.isEmpty && Spec.Syntax.allDigits a && !f.isEmpty && Spec.Syntax.allDigits f

/-- the library's look-ahead after an in-range integer neither fails nor finds `gen R` -/
def libIntFollowOk (rest : List Nat) : Bool :=
  match Lexer.next rest with
  | .error _ => false
  | .ok (.int g, rest2) =>
    if 0 ≤ g && g ≤ 65535 then
      match Lexer.next rest2 with
      | .error _ => false
      | .ok (.name [82], _) => !Lexer.bareRAhead rest2
      | .ok _ => true
    else true
  | .ok _ => true

/-- the token after a dictionary lexes, and is neither `stream` nor a comment -/
def libDictFollowOk (rest : List Nat) : Bool :=
  match Lexer.next rest with
  | .error _ => false
  | .ok (.stream, _) => false
  | .ok (.comment _, _) => false
  | .ok _ => true

/-! ## tree-level conditions (continuation passing: `rest` = the bytes that follow the value) -/

mutual
def SafeSpec : Obj → List Nat → Bool
  | .null, rest => specEnds rest
  | .bool _, rest => specEnds rest
  | .int i, rest => specEnds rest && (i < 0 || (Spec.Syntax.refAhead rest).isNone)
  | .real t, rest =>
    IsDecTok (trimReal t) && specEnds rest &&
      (!Spec.Syntax.allDigits (trimReal t) || (Spec.Syntax.refAhead rest).isNone)
  | .str _, _ => true
  | .hexstr bs, _ => allB (fun b => b < 256) bs
  | .name n, rest => NameBytes n && specEnds rest
  | .ref _ _, rest => specEnds rest
  | .arr xs, rest => SafeSpecElems true xs (93 :: rest)
  | .dict kvs, rest => SafeSpecEntries kvs (10 :: 62 :: 62 :: rest)
def SafeSpecElems : Bool → List Obj → List Nat → Bool
  | _, [], _ => true
  | _, x :: xs, rest => SafeSpec x (serElems false xs ++ rest) && SafeSpecElems false xs rest
def SafeSpecEntries : List (List Nat × Obj) → List Nat → Bool
  | [], _ => true
  | (k, v) :: kvs, rest =>
    NameBytes k && SafeSpec v (serEntries kvs ++ rest) && SafeSpecEntries kvs rest
end

mutual
def SafeLib : Obj → List Nat → Bool
  | .null, rest => libEnds rest
  | .bool _, rest => libEnds rest
  | .int i, rest =>
    inI64 i && libEnds rest && (!(0 ≤ i && i ≤ 4294967295) || libIntFollowOk rest)
  | .real t, rest =>
    let tok := trimReal t
    IsDecTok tok && libEnds rest &&
      (if Spec.Syntax.isIntTok tok then
        let i := Spec.Syntax.intVal tok
        (!(0 ≤ i && i ≤ 4294967295) || libIntFollowOk rest)
      else true)
  | .str _, _ => true
  | .hexstr bs, _ => allB (fun b => b < 256) bs
  | .name n, rest => NameAscii n && libEnds rest
  | .ref n g, rest => n ≤ 4294967295 && g ≤ 65535 && libEnds rest
  | .arr xs, rest => SafeLibElems true xs (93 :: rest)
  | .dict kvs, rest => SafeLibEntries kvs (10 :: 62 :: 62 :: rest) && libDictFollowOk rest
def SafeLibElems : Bool → List Obj → List Nat → Bool
  | _, [], _ => true
  | _, x :: xs, rest => SafeLib x (serElems false xs ++ rest) && SafeLibElems false xs rest
def SafeLibEntries : List (List Nat × Obj) → List Nat → Bool
  | [], _ => true
  | (k, v) :: kvs, rest =>
    NameAscii k && SafeLib v (serEntries kvs ++ rest) && SafeLibEntries kvs rest
end

/-! ## defect classes present in a tree (for the oracle's explanation of a failure) -/

mutual
/-- some name or key is not read back verbatim by the given reader -/
def hasBadName (ok : List Nat → Bool) : Obj → Bool
  | .name n => !ok n
  | .arr xs => hasBadNameList ok xs
  | .dict kvs => hasBadNameKVs ok kvs
  | _ => false
def hasBadNameList (ok : List Nat → Bool) : List Obj → Bool
  | [] => false
  | x :: xs => hasBadName ok x || hasBadNameList ok xs
def hasBadNameKVs (ok : List Nat → Bool) : List (List Nat × Obj) → Bool
  | [] => false
  | (k, v) :: rest => !ok k || hasBadName ok v || hasBadNameKVs ok rest
end

mutual
def hasCRString : Obj → Bool
  | .str s => !NoCR s
  | .arr xs => hasCRStringList xs
  | .dict kvs => hasCRStringKVs kvs
  | _ => false
def hasCRStringList : List Obj → Bool
  | [] => false
  | x :: xs => hasCRString x || hasCRStringList xs
def hasCRStringKVs : List (List Nat × Obj) → Bool
  | [] => false
  | (_, v) :: rest => hasCRString v || hasCRStringKVs rest
end

/-- does the (read-back) element denote an integer in the given range? -/
def isIntIn (lo hi : Int) : Obj → Bool
  | .int i => lo ≤ i && i ≤ hi
  | _ => false

/-- `i g /R` as three consecutive array elements -/
def refLikeRun : List Obj → Bool
  | a :: b :: c :: rest =>
    (isIntIn 0 4294967295 a && isIntIn 0 65535 b && (match c with | .name [82] => true | _ => false)) ||
      refLikeRun (b :: c :: rest)
  | _ => false

mutual
/-- on a `readBack` tree: some array holds `i g /R` -/
def hasRefLike : Obj → Bool
  | .arr xs => refLikeRun xs || hasRefLikeList xs
  | .dict kvs => hasRefLikeKVs kvs
  | _ => false
def hasRefLikeList : List Obj → Bool
  | [] => false
  | x :: xs => hasRefLike x || hasRefLikeList xs
def hasRefLikeKVs : List (List Nat × Obj) → Bool
  | [] => false
  | (_, v) :: rest => hasRefLike v || hasRefLikeKVs rest
end

mutual
/-- some real is written as an integer token outside `i64` -/
def hasBigReal : Obj → Bool
  | .real t => Spec.Syntax.isIntTok (trimReal t) && !inI64 (Spec.Syntax.intVal (trimReal t))
  | .arr xs => hasBigRealList xs
  | .dict kvs => hasBigRealKVs kvs
  | _ => false
def hasBigRealList : List Obj → Bool
  | [] => false
  | x :: xs => hasBigReal x || hasBigRealList xs
def hasBigRealKVs : List (List Nat × Obj) → Bool
  | [] => false
  | (_, v) :: rest => hasBigReal v || hasBigRealKVs rest
end

mutual
/-- some real is not finite (`NaN`, `inf`, `-inf` from Rust's formatter): outside the property -/
def hasNonFinite : Obj → Bool
  | .real t => !IsDecTok (trimReal t)
  | .arr xs => hasNonFiniteList xs
  | .dict kvs => hasNonFiniteKVs kvs
  | _ => false
def hasNonFiniteList : List Obj → Bool
  | [] => false
  | x :: xs => hasNonFinite x || hasNonFiniteList xs
def hasNonFiniteKVs : List (List Nat × Obj) → Bool
  | [] => false
  | (_, v) :: rest => hasNonFinite v || hasNonFiniteKVs rest
end

mutual
/-- a reference outside the library's look-ahead window (object number > `u32::MAX`; before the
    repair of C09-F5: > 9 999 999): `n g R` is then read as three objects.  `ObjectId` holds a
    `u32`, so the writer cannot emit one any more. -/
def hasFarRef : Obj → Bool
  | .ref n _ => n > 4294967295
  | .arr xs => hasFarRefList xs
  | .dict kvs => hasFarRefKVs kvs
  | _ => false
def hasFarRefList : List Obj → Bool
  | [] => false
  | x :: xs => hasFarRef x || hasFarRefList xs
def hasFarRefKVs : List (List Nat × Obj) → Bool
  | [] => false
  | (_, v) :: rest => hasFarRef v || hasFarRefKVs rest
end

end OxiVerif.C09
