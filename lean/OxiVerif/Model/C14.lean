/-
C14 — model of `oxidize-pdf-core/src/pipeline/hybrid_chunking.rs` (`HybridChunker::{chunk,
chunk_with_graph, flush_buffer, make_chunk}`, `append_element_text`, `can_merge_elements`,
`is_inline_element`, `is_splittable_element`, `split_by_sentences`, `split_into_sentences`,
`make_text_fragment_element`), `pipeline/graph.rs` (`ElementGraph::build`, `top_level_sections`,
`elements_in_section`), `pipeline/element.rs` (`Element::{text, display_text}`) and
`pipeline/token_counter.rs` (`WordProxyCounter`).

Transcription notes
  * Rust `String`/`&str` ↦ `Str := List Char` (the code iterates `chars()`, `trim()`s and
    `split_whitespace()`s by Unicode scalar value; it never slices by byte offset).
  * `char::is_whitespace` ↦ `isWs` (Unicode `White_Space`, the table of Rust 1.7x `core::unicode`).
  * `str::trim` ↦ `trim` (drop leading, then trailing white space).
  * `Element` ↦ `Elem` = kind tag + payload + metadata.  Metadata keeps `page`, `parent_heading`,
    `heading_path`, `font_name`, `is_bold`, `is_italic`, "font_size is Some" and an opaque `id`
    standing for the four `bbox` floats (which the code only ever copies).  `confidence` (a float
    that `make_text_fragment_element` resets to its default) is not modelled.
  * the token counter is a PARAMETER: `Counter.count : Str → Nat` and the self-declared flag
    `Counter.additive` (`TokenCounter::is_additive_over_whitespace_join`).  `usize` arithmetic on
    counts is modelled in `Nat` (no overflow: counts of real counters are bounded by the text length).
  * `ElementGraph::build` + `elements_in_section` + the `unattached` pass and the gather loop of
    `chunk_with_graph` are fused into one left-to-right pass (`gstep`): a `HashMap<String, usize>`
    that is overwritten at every title is "the most recent title with that text", a non-title
    element is pushed onto the children of that title, elements with no (matching)
    `parent_heading` onto the children of the nearest preceding title.  Sections are processed in
    title order, children in index order, exactly as the code does.  The LITERAL index-based
    transcription (two hash maps, `parent`/`children` vectors, `top_level_sections`, the
    `unattached` vectors, `sort_unstable`) is `Model/C14Graph.lean`; the driver runs both.
Import-free.
-/
namespace OxiVerif.C14

abbrev Str := List Char

/-- Rust `char::is_whitespace` (Unicode White_Space). -/
def isWs (c : Char) : Bool :=
  let n := c.toNat
  (9 ≤ n && n ≤ 13) || n == 32 || n == 0x85 || n == 0xA0 || n == 0x1680 ||
  (0x2000 ≤ n && n ≤ 0x200A) || n == 0x2028 || n == 0x2029 || n == 0x202F || n == 0x205F ||
  n == 0x3000

def trimStart (s : Str) : Str := s.dropWhile isWs
def trimEnd (s : Str) : Str := (s.reverse.dropWhile isWs).reverse
/-- `str::trim` -/
def trim (s : Str) : Str := trimEnd (trimStart s)

/-- `[String]::join(sep)` -/
def joinWith (sep : Str) : List Str → Str
  | [] => []
  | [a] => a
  | a :: b :: rest => a ++ sep ++ joinWith sep (b :: rest)

inductive Kind where
  | title | paragraph | table | header | footer | listItem | image | codeBlock | keyValue
  deriving DecidableEq, Repr

structure Meta where
  id : Nat                      -- stands for `bbox`
  page : Nat
  parentHeading : Option Str
  headingPath : List Str
  fontName : Option Str
  fontSize : Bool               -- `font_size.is_some()`
  bold : Bool
  italic : Bool
  deriving DecidableEq, Repr

inductive Payload where
  | text (s : Str)                       -- Title/Paragraph/Header/Footer/ListItem/CodeBlock
  | table (rows : List (List Str))
  | image (alt : Option Str)
  | kv (key value : Str)
  deriving DecidableEq, Repr

structure Elem where
  kind : Kind
  payload : Payload
  md : Meta
  deriving DecidableEq, Repr

/-- `Element::text` -/
def Elem.text (e : Elem) : Str :=
  match e.payload with
  | .text s => s
  | .table _ => []
  | .image alt => alt.getD []
  | .kv _ v => v

/-- `Element::display_text` -/
def Elem.display (e : Elem) : Str :=
  match e.payload with
  | .text s => s
  | .table rows => joinWith ['\n'] (rows.map (joinWith [' ', '|', ' ']))
  | .image alt => alt.getD []
  | .kv k v => k ++ [':', ' '] ++ v

def Elem.isTitle (e : Elem) : Bool := e.kind == .title

/-- `is_inline_element` -/
def isInline (e : Elem) : Bool :=
  e.kind == .paragraph || e.kind == .listItem || e.kind == .keyValue

/-- `is_splittable_element` -/
def isSplittable (e : Elem) : Bool :=
  e.kind == .paragraph || e.kind == .listItem

structure Config where
  maxTokens : Nat
  mergeAdjacent : Bool
  propagateHeadings : Bool
  sameTypeOnly : Bool            -- `MergePolicy::SameTypeOnly` (else `AnyInlineContent`)
  deriving Repr

/-- `can_merge_elements` -/
def canMergeElems (a b : Elem) (cfg : Config) : Bool :=
  if cfg.sameTypeOnly then
    (a.kind == .paragraph && b.kind == .paragraph) || (a.kind == .listItem && b.kind == .listItem)
  else isInline a && isInline b

structure Counter where
  count : Str → Nat
  additive : Bool               -- `is_additive_over_whitespace_join()`

structure Chunk where
  elements : List Elem
  heading : Option Str
  oversized : Bool
  tokenEstimate : Nat
  deriving DecidableEq, Repr

/-- `HybridChunk::text` -/
def textOf (es : List Elem) : Str := joinWith ['\n'] (es.map Elem.display)
def Chunk.text (c : Chunk) : Str := textOf c.elements

/-- `HybridChunk::full_text` -/
def Chunk.fullText (c : Chunk) : Str :=
  match c.heading with
  | some h => h ++ ['\n', '\n'] ++ c.text
  | none => c.text

/-- `make_chunk` -/
def mkChunk (cnt : Counter) (es : List Elem) (h : Option Str) (over : Bool) : Chunk :=
  { elements := es, heading := h, oversized := over, tokenEstimate := cnt.count (textOf es) }

/-! ### sentence splitting -/

/-- `split_into_sentences`: `cur` is the `current` accumulator. -/
def splitSent : Str → Str → List Str
  | [], cur => let r := trim cur; if r.isEmpty then [] else [r]
  | ch :: rest, cur =>
    let cur := cur ++ [ch]
    if ch == '.' || ch == '!' || ch == '?' then
      match h : rest with
      | ' ' :: rest' => trim cur :: splitSent rest' []
      | _ => splitSent rest cur
    else if ch == '\n' then
      let t := trim cur
      (if t.isEmpty then [] else [t]) ++ splitSent rest []
    else splitSent rest cur
termination_by s => s.length
decreasing_by
  all_goals simp_wf
  all_goals (try subst h)
  all_goals (try simp only [List.length_cons])
  all_goals omega

def splitIntoSentences (text : Str) : List Str := splitSent text []

structure SplitSt where
  fragments : List Str
  current : Str
  currentTokens : Nat

/-- one iteration of the loop of `split_by_sentences` -/
def splitStep (cnt : Counter) (max : Nat) (st : SplitSt) (sentence : Str) : SplitSt :=
  let s := trim sentence
  if s.isEmpty then st
  else if st.current.isEmpty then
    { st with current := s, currentTokens := if cnt.additive then cnt.count s else 0 }
  else
    let sTokens := cnt.count s
    if cnt.additive then
      if st.currentTokens + sTokens ≤ max then
        { st with current := st.current ++ [' '] ++ s, currentTokens := st.currentTokens + sTokens }
      else
        { fragments := st.fragments ++ [st.current], current := s, currentTokens := sTokens }
    else
      let candidate := st.current ++ [' '] ++ s
      if cnt.count candidate ≤ max then { st with current := candidate }
      else { fragments := st.fragments ++ [st.current], current := s, currentTokens := sTokens }

/-- `split_by_sentences` -/
def splitBySentences (text : Str) (cnt : Counter) (max : Nat) : List Str :=
  let st := (splitIntoSentences text).foldl (splitStep cnt max) ⟨[], [], 0⟩
  let frags := if st.current.isEmpty then st.fragments else st.fragments ++ [st.current]
  if frags.isEmpty then [text] else frags

/-- `make_text_fragment_element` -/
def mkFragment (src : Elem) (frag : Str) : Elem :=
  { kind := .paragraph, payload := .text frag,
    md := { id := src.md.id, page := src.md.page, parentHeading := src.md.parentHeading,
              headingPath := src.md.headingPath, fontName := none, fontSize := false,
              bold := false, italic := false } }

/-! ### `HybridChunker::chunk` -/

structure St where
  chunks : List Chunk
  buffer : List Elem
  bufferText : Str
  bufferTokens : Nat
  bufferHeading : Option Str

def St.init : St := ⟨[], [], [], 0, none⟩

/-- `flush_buffer` -/
def flush (cnt : Counter) (st : St) : St :=
  { chunks := st.chunks ++ [mkChunk cnt st.buffer st.bufferHeading false],
    buffer := [], bufferText := [], bufferTokens := 0, bufferHeading := none }

def elemHeading (cfg : Config) (e : Elem) : Option Str :=
  if cfg.propagateHeadings then e.md.parentHeading else none

/-- the chunks emitted for an element that alone exceeds the budget (buffer empty) -/
def oversizedChunks (cfg : Config) (cnt : Counter) (e : Elem) : List Chunk :=
  if isSplittable e then
    (splitBySentences e.display cnt cfg.maxTokens).map fun fragment =>
      let fragment := trim fragment
      let over := decide (cnt.count fragment > cfg.maxTokens)
      mkChunk cnt [mkFragment e fragment] (elemHeading cfg e) over
  else [mkChunk cnt [e] (elemHeading cfg e) true]

/-- one iteration of the `for element in elements` loop of `chunk` -/
def step (cfg : Config) (cnt : Counter) (st : St) (e : Elem) : St :=
  let elemText := e.display
  let elemTokens := cnt.count elemText
  let joinedText : Option Str :=
    if !st.buffer.isEmpty && !cnt.additive then some (st.bufferText ++ ['\n'] ++ elemText) else none
  let joinedTokens : Nat :=
    match joinedText with
    | some j => cnt.count j
    | none => if st.buffer.isEmpty then elemTokens else st.bufferTokens + elemTokens
  let lastOk : Bool :=
    match st.buffer.getLast? with
    | some l => canMergeElems l e cfg
    | none => false
  let canMerge := cfg.mergeAdjacent && !st.buffer.isEmpty && lastOk && decide (joinedTokens ≤ cfg.maxTokens)
  if canMerge then
    { st with bufferText := joinedText.getD st.bufferText, buffer := st.buffer ++ [e],
              bufferTokens := joinedTokens }
  else
    let st1 :=
      if !st.buffer.isEmpty && (decide (joinedTokens > cfg.maxTokens) || !lastOk || !cfg.mergeAdjacent)
      then flush cnt st else st
    if decide (elemTokens > cfg.maxTokens) && st1.buffer.isEmpty then
      { st1 with chunks := st1.chunks ++ oversizedChunks cfg cnt e }
    else
      { st1 with bufferHeading := elemHeading cfg e,
                 bufferText := if !cnt.additive then elemText else st1.bufferText,
                 bufferTokens := elemTokens,
                 buffer := st1.buffer ++ [e] }

/-- the final flush -/
def finish (cnt : Counter) (st : St) : List Chunk :=
  if st.buffer.isEmpty then st.chunks
  else st.chunks ++ [mkChunk cnt st.buffer st.bufferHeading false]

/-- `HybridChunker::chunk` -/
def chunk (cfg : Config) (cnt : Counter) (els : List Elem) : List Chunk :=
  finish cnt (els.foldl (step cfg cnt) St.init)

/-! ### `ElementGraph::build` + `HybridChunker::chunk_with_graph` -/

structure Sec where
  title : Elem
  children : List Elem
  deriving Repr

/-- push `e` onto the children of the most recent title whose text is `h`
    (`secsRev` = sections, most recent first); nowhere when there is none. -/
def addChild (h : Str) (e : Elem) : List Sec → List Sec
  | [] => []
  | s :: rest =>
    if s.title.text = h then { s with children := s.children ++ [e] } :: rest
    else s :: addChild h e rest

/-- `active_title_for_heading.get(h).is_some()`: some earlier title has text `h` -/
def hasTitle (h : Str) (secsRev : List Sec) : Bool := secsRev.any fun s => decide (s.title.text = h)

/-- push `e` onto the children of the nearest preceding title (the `unattached` pass of
    `chunk_with_graph`) -/
def addToHead (e : Elem) : List Sec → List Sec
  | [] => []
  | s :: rest => { s with children := s.children ++ [e] } :: rest

/-- one element of the second pass of `ElementGraph::build` (after the first title), fused with the
    `unattached` pass of `chunk_with_graph`: an element that the graph gives no parent
    (`parent_heading` is `None` or names no earlier title) goes to the nearest preceding title.
    One left-to-right pass appends in index order, which is what `child_indices.sort_unstable()`
    restores in the code. -/
def gstep (secsRev : List Sec) (e : Elem) : List Sec :=
  if e.isTitle then ⟨e, []⟩ :: secsRev
  else
    match e.md.parentHeading with
    | some h => if hasTitle h secsRev then addChild h e secsRev else addToHead e secsRev
    | none => addToHead e secsRev

def Sec.elems (s : Sec) : List Elem := s.title :: s.children

/-- `title_heading` -/
def titleHeadingOf (t : Elem) : Option Str :=
  match t.md.parentHeading with
  | some h => some h
  | none => some t.text

/-- the body of the `for (section_pos, &title_idx) in top_sections…` loop: the whole-section chunk
    is built first (`make_chunk` stamps `count(joined text)`) and approved on that stamp -/
def processSection (cfg : Config) (cnt : Counter) (s : Sec) : List Chunk :=
  let titleHeading := titleHeadingOf s.title
  let sectionChunk := mkChunk cnt s.elems titleHeading false
  if sectionChunk.tokenEstimate ≤ cfg.maxTokens then [sectionChunk]
  else (chunk cfg cnt sectionChunk.elements).map fun c => { c with heading := titleHeading }

def preamble (els : List Elem) : List Elem := els.takeWhile fun e => !e.isTitle
def afterPreamble (els : List Elem) : List Elem := els.dropWhile fun e => !e.isTitle

def sections (els : List Elem) : List Sec := ((afterPreamble els).foldl gstep []).reverse

/-- `chunk_with_graph(elements, &ElementGraph::build(elements))` -/
def chunkWithGraph (cfg : Config) (cnt : Counter) (els : List Elem) : List Chunk :=
  chunk cfg cnt (preamble els) ++ (sections els).flatMap (processSection cfg cnt)

/-! ### counters used by the correspondence run -/

/-- `split_whitespace().count()`: `inWord` = the previous char was not white space -/
def wordCountAux : Bool → Str → Nat
  | _, [] => 0
  | inWord, c :: rest =>
    if isWs c then wordCountAux false rest
    else (if inWord then 0 else 1) + wordCountAux true rest

/-- `WordProxyCounter` -/
def wordCount (s : Str) : Nat := wordCountAux false s
def wordProxy : Counter := ⟨wordCount, true⟩

def nwsCount (s : Str) : Nat := (s.filter fun c => !isWs c).length
def c3Count (s : Str) : Nat := (s.length + 2) / 3

end OxiVerif.C14
