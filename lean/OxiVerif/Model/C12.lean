/-
C12 — model of `oxidize-pdf-core/src/text/fonts/truetype_subsetter.rs`
(`TrueTypeSubsetter::subset`, `subset_font_by_gids`, `expand_composite_glyphs`,
`renumber_and_build`, `build_subset_font` / `remap_composite_glyph` / `build_hmtx`,
`filter_mapping_to_used`, `should_skip_subsetting`) over an ABSTRACT font.

Abstraction (what the independent sfnt reader of the harness extracts from font bytes):
  * `glyph : Gid → Glyph`   — what `TrueTypeFont::get_glyph_data` + a glyph decoder see:
                               `empty` (`Ok(vec![])`: the id's loca entry pair lies outside the
                               loca TABLE, or start ≥ end — checked BEFORE any bounds check, so
                               an empty entry beyond a truncated glyf is still empty),
                               `simple fp` (fp = fingerprint of contour count, bbox, endPts and
                               the decoded point list — hinting instructions are NOT part of it,
                               the subsetter strips them), `composite hdr comps` (hdr =
                               fingerprint of the bbox, comps = component glyph id × fingerprint
                               of flags/arguments/transform), `bad` (`get_glyph_data` returns
                               `Err`: glyf.offset + end lies beyond the FILE, or the loca entry
                               does).  Neither numGlyphs nor glyf's declared length is consulted.
  * `adv`, `lsb`             — hmtx entries (`get_glyph_metrics(old).unwrap_or((units_per_em, 0))`)
  * `cmap : Nat → Option Gid` — the selected Unicode cmap subtable (`cmap.mappings`)
Transcription:
  * `HashSet<u16>`           ↦ duplicate-free `List Gid` (membership only is observable; the
                               result is sorted before use)
  * `worklist: Vec<u16>`, `pop()`/`push()` ↦ list, head = top of stack
  * `sorted_glyphs.sort()` + `enumerate()` ↦ insertion sort `sortGids` + `idxOf`
  * `glyph_map.get(&old).copied().unwrap_or(0)` ↦ `(remap? old).getD 0`
  * `subset_ratio > 0.5` on `f32` ↦ `2 * needed > num_glyphs` (exact for u16-sized operands:
    the quotient differs from 0.5 by at least 2⁻¹⁷, far above f32 rounding)
Import-free.
-/
namespace OxiVerif.C12

abbrev Gid := Nat

inductive Glyph where
  | empty
  | simple (fp : Nat)
  | composite (hdr : Nat) (comps : List (Gid × Nat))
  | bad
  deriving DecidableEq, Repr, Inhabited

/-- `extract_composite_components` on the result of `get_glyph_data` (nothing on `Err`). -/
def Glyph.comps : Glyph → List Gid
  | .composite _ cs => cs.map (·.1)
  | _ => []

/-! ### expand_composite_glyphs -/

/-- `for component_gid in …: if needed_glyphs.insert(c) { worklist.push(c) }` -/
def addComps : List Gid → List Gid → List Gid → List Gid × List Gid
  | [], w, s => (w, s)
  | c :: cs, w, s => if s.contains c then addComps cs w s else addComps cs (c :: w) (c :: s)

/-- `while let Some(gid) = worklist.pop() { … }`; `none` = fuel exhausted (never happens with
    enough fuel: `C12_closure_terminates`). -/
def expand (comps : Gid → List Gid) : Nat → List Gid → List Gid → Option (List Gid)
  | _, [], s => some s
  | 0, _ :: _, _ => none
  | fuel + 1, g :: w, s =>
    let r := addComps (comps g) w s
    expand comps fuel r.1 r.2

/-- HashSet insert -/
def insertNew (s : List Gid) (g : Gid) : List Gid := if s.contains g then s else g :: s

/-- `needed_glyphs.insert(0); for ch in used_chars { if let Some(g) = cmap.get(ch) { insert(g) } }` -/
def initNeeded (used : List Nat) (cmap : Nat → Option Gid) : List Gid :=
  (used.filterMap cmap).foldl insertNew [0]

/-- u16 universe: fuel that always suffices (`C12_closure_terminates`) -/
def fuelBound : Nat := 65536

def closure (glyph : Gid → Glyph) (init : List Gid) : Option (List Gid) :=
  expand (fun g => (glyph g).comps) (init.length + fuelBound) init init

/-! ### renumber_and_build -/

/-- insertion into an ascending list (structural, so that concrete instances reduce) -/
def insertGid (a : Nat) : List Nat → List Nat
  | [] => [a]
  | b :: l => if a ≤ b then a :: b :: l else b :: insertGid a l

/-- `sorted_glyphs.sort()` -/
def sortGids (s : List Gid) : List Gid := s.foldr insertGid []

/-- `glyph_map.get(&old)` where `glyph_map = sorted.enumerate()` -/
def remap? (sorted : List Gid) (old : Gid) : Option Gid :=
  if sorted.contains old then some (sorted.idxOf old) else none

/-- `remap_composite_glyph` (+ `strip_glyph_instructions`, which is the identity on the abstraction) -/
def remapGlyph (sorted : List Gid) : Glyph → Glyph
  | .composite h cs => .composite h (cs.map fun p => (((remap? sorted p.1).getD 0), p.2))
  | g => g

structure Font where
  glyph : Gid → Glyph
  adv : Gid → Nat
  lsb : Gid → Int
  cmap : Nat → Option Gid

/-- one row of the subset: what glyf / hmtx hold for a new glyph id -/
structure Row where
  adv : Nat
  lsb : Int
  glyph : Glyph
  deriving DecidableEq, Repr, Inhabited

/-- `build_subset_font` + `build_hmtx`: new glyph id `i` carries old glyph `sorted[i]`;
    `none` = `get_glyph_data(old)?` failed. -/
def buildRows (f : Font) (sorted : List Gid) : Option (List Row) :=
  sorted.mapM fun old =>
    match f.glyph old with
    | .bad => none
    | g => some { adv := f.adv old, lsb := f.lsb old, glyph := remapGlyph sorted g }

/-- `filter_mapping_to_used` -/
def filterMapping (cmap : Nat → Option Gid) (used : List Nat) : List (Nat × Gid) :=
  used.filterMap fun c => (cmap c).map fun g => (c, g)

/-- `new_cmap`: used char ↦ new glyph id -/
def newMapping (cmap : Nat → Option Gid) (sorted : List Gid) (used : List Nat) : List (Nat × Gid) :=
  used.filterMap fun c => (cmap c).bind fun g => (remap? sorted g).map fun n => (c, n)

def shouldSkip (fontSize charCount : Nat) : Bool :=
  charCount == 0 || (fontSize < 100000 && charCount < 10)

/-- `subset_ratio > SUBSETTING_RATIO_THRESHOLD || font_data.len() < 100_000` -/
def keepFull (fontSize needed numGlyphs : Nat) : Bool :=
  decide (2 * needed > numGlyphs) || fontSize < 100000

inductive Ans where
  /-- original bytes returned, mapping carries ORIGINAL glyph ids -/
  | full (map : List (Nat × Gid))
  /-- build failure fallback: original bytes, the WHOLE cmap (not filtered) -/
  | fullAll
  | subset (map : List (Nat × Gid)) (rows : List Row)
  /-- handed to `cff_subsetter::subset_cff_font` -/
  | cff
  | stuck
  deriving Repr, DecidableEq

/-- `TrueTypeSubsetter::subset` -/
def subsetChars (f : Font) (fontSize numGlyphs : Nat) (isCff : Bool) (used : List Nat) : Ans :=
  if shouldSkip fontSize used.length then .full (filterMapping f.cmap used)
  else
    match closure f.glyph (initNeeded used f.cmap) with
    | none => .stuck
    | some needed =>
      if keepFull fontSize needed.length numGlyphs then .full (filterMapping f.cmap used)
      else if isCff then .cff
      else
        let sorted := sortGids needed
        match buildRows f sorted with
        | none => .fullAll
        | some rows => .subset (newMapping f.cmap sorted used) rows

inductive GAns where
  | err
  | subset (map : List (Gid × Gid)) (rows : List Row)
  | stuck
  deriving Repr, DecidableEq

/-- `subset_font_by_gids` (TrueType only) -/
def subsetGids (f : Font) (isCff : Bool) (used : List Gid) : GAns :=
  if isCff then .err
  else
    match closure f.glyph (used.foldl insertNew [] |> fun s => insertNew s 0) with
    | none => .stuck
    | some needed =>
      let sorted := sortGids needed
      match buildRows f sorted with
      | none => .err
      | some rows => .subset (sorted.map fun g => (g, sorted.idxOf g)) rows

/-! ### loca (byte level): `build_subset_font` collects `glyph_offsets`, then picks the format -/

/-- `if new_glyf.len() % 2 != 0 { new_glyf.push(0) }` -/
def padEven (n : Nat) : Nat := n + n % 2

/-- `glyph_offsets`: `N + 1` entries; every (instruction-stripped) glyph is padded to an even
    length, so every offset is even and representable in the short format -/
def glyphOffsets : Nat → List Nat → List Nat
  | cur, [] => [cur]
  | cur, l :: ls => cur :: glyphOffsets (padEven (cur + l)) ls

/-- the offsets as the code computed them BEFORE the padding repair (`current_offset +=
    stripped.len()`): kept as the regression the check must catch (`C12_witness_short_loca_odd`) -/
def glyphOffsetsOld : Nat → List Nat → List Nat
  | cur, [] => [cur]
  | cur, l :: ls => cur :: glyphOffsetsOld (cur + l) ls

/-- short format is kept iff the original was short and the last offset fits `2 * u16` -/
def useShort (origShort : Bool) (total : Nat) : Bool := origShort && decide (total ≤ 0x1FFFE)

/-- `((offset / 2) as u16)` for short, `offset` for long -/
def locaEntries (short : Bool) (offs : List Nat) : List Nat :=
  if short then offs.map (· / 2) else offs

/-- how every reader decodes the table (OpenType `loca`): short entries are offset/2 -/
def readLoca (short : Bool) (es : List Nat) : List Nat :=
  if short then es.map (· * 2) else es

/-! ### spec side: flattening a glyph to its outline leaves -/

/-- A leaf of the flattened outline: the path of (composite header, component record)
    fingerprints leading to it and the simple outline's fingerprint (`none` = empty glyph). -/
abbrev Leaf := List Nat × Option Nat

/-- `none`: fuel exhausted (cyclic component graph) or a `bad` glyph on the way. -/
def flatten (glyph : Gid → Glyph) : Nat → Gid → Option (List Leaf)
  | 0, _ => none
  | n + 1, g =>
    match glyph g with
    | .empty => some [([], none)]
    | .simple fp => some [([], some fp)]
    | .bad => none
    | .composite h cs =>
      (cs.mapM fun p =>
        (flatten glyph n p.1).map fun l => l.map fun lf => (h :: p.2 :: lf.1, lf.2)).map List.flatten

/-- glyph table of a subset given as rows -/
def rowGlyph (rows : List Row) (i : Gid) : Glyph :=
  match rows[i]? with
  | some r => r.glyph
  | none => .bad

def rowAdv (rows : List Row) (i : Gid) : Option Nat := (rows[i]?).map (·.adv)

end OxiVerif.C12
