import OxiVerif.Model.C01Lexer
/-!
C01 kernels of `parser/xref_stream.rs`, `parser/xref.rs` (classic sections, `/Prev` walk),
`parser/page_tree.rs` (`flatten_page_tree`), `parser/object_stream.rs`, `parser/objects.rs`
(stream `/Length`).
-/
namespace OxiVerif.C01

/-! ## xref streams: `XRefStream::parse` + `to_xref_entries` -/

/-- `/W` : exactly three integers, each `as usize` -/
def xrsWidths (w : List Int) : Outcome (List Nat) :=
  if w.length != 3 then .err else .ok (w.map (asU USIZE))

def pairsOf : List Int → List (Nat × Nat)
  | a :: b :: rest => (asU U32 a, asU U32 b) :: pairsOf rest
  | _ => []

/-- `/Index` pairs (`as u32`; an odd trailing element is ignored) or `[(0, /Size as u32)]` -/
def xrsIndex (index : Option (List Int)) (size : Option Int) : Outcome (List (Nat × Nat)) :=
  match index with
  | some xs => .ok (pairsOf xs)
  | none =>
    match size with
    | some s => .ok [(0, asU U32 s)]
    | none => .err

/-- `widths.iter().sum::<usize>()` (before the repair: an unchecked sum) -/
def sumUsize : Nat → List Nat → Outcome Nat
  | acc, [] => .ok acc
  | acc, w :: rest => do let a ← addU USIZE acc w; sumUsize a rest

/-- `widths.iter().try_fold(0usize, |sum, &w| sum.checked_add(w))` : an overflow is an error -/
def sumUsizeCk : Nat → List Nat → Outcome Nat
  | acc, [] => .ok acc
  | acc, w :: rest => if acc + w < USIZE then sumUsizeCk (acc + w) rest else .err

/-- `read_field` : `value = (value << 8) | byte` on `u64` (bits shifted out are lost, no check) -/
def readField (bs : Bytes) : Nat := bs.foldl (fun v b => (v * 256 + b) % U64) 0

structure XEntry where
  obj : Nat
  kind : Nat
  f1 : Nat
  f2 : Nat
deriving Repr, DecidableEq

def readFields (data : Bytes) : Nat → List Nat → Outcome (List Nat)
  | _, [] => .ok []
  | off, w :: rest => do
    let v ← if w == 0 then pure 0 else (do let s ← slice data off (off + w); pure (readField s))
    let r ← readFields data (off + w) rest
    pure (v :: r)

/-- `for i in 0..count` of one `/Index` pair; `fuel` ≥ number of entries that fit in the data -/
def xrsInner (data : Bytes) (widths : List Nat) (entrySize first count : Nat) :
    Nat → Nat → Nat → List XEntry → Outcome (Nat × List XEntry)
  | 0, _, off, acc => .ok (off, acc)
  | fuel + 1, i, off, acc =>
    if i ≥ count then .ok (off, acc)
    -- `entry_size.checked_add(data_offset).is_some_and(|end| end <= data.len())`; the error message
    -- formats the object number in `u64`
    else if ¬ (entrySize + off < USIZE ∧ entrySize + off ≤ data.length) then .err
    else do
      let fields ← readFields data off widths
      let ty := fields.getD 0 0
      -- `first_obj.checked_add(i)` : an overflow is an error
      if ¬ (first + i < U32) then .err
      else
        let obj := first + i
        if ty > 2 then .err
        else
          let f1 := fields.getD 1 0
          let f2 := fields.getD 2 0
          let e : XEntry := match ty with
            | 0 => ⟨obj, 0, f1 % U32, f2 % U16⟩
            | 1 => ⟨obj, 1, f1, f2 % U16⟩
            | _ => ⟨obj, 2, f1 % U32, f2 % U32⟩
          xrsInner data widths entrySize first count fuel (i + 1) (off + entrySize) (acc ++ [e])

def xrsOuter (data : Bytes) (widths : List Nat) (entrySize : Nat) :
    List (Nat × Nat) → Nat → List XEntry → Outcome (List XEntry)
  | [], _, acc => .ok acc
  | (first, count) :: rest, off, acc => do
    let (off', acc') ← xrsInner data widths entrySize first count (data.length + 1) 0 off acc
    xrsOuter data widths entrySize rest off' acc'

def xrsEntries (w : List Int) (index : Option (List Int)) (size : Option Int) (data : Bytes) :
    Outcome (List XEntry) := do
  let widths ← xrsWidths w
  let idx ← xrsIndex index size
  let entrySize ← sumUsizeCk 0 widths
  if entrySize == 0 then .err
  else xrsOuter data widths entrySize idx 0 []

/-! ## classic xref section: `parse_traditional_xref_with_options` on the list of lines that
`read_pdf_line` delivers after the `xref` line.  A line is the bytes between terminators after
`String::from_utf8_lossy`; the model's alphabet is ASCII plus the byte `0xFF`, which lossy decoding
turns into U+FFFD (three bytes of UTF-8, one `char`).  Every line of the list was terminated (read
`> 0` bytes); the end of the list is EOF (`read_pdf_line` returns `0` and an empty string). -/

/-- width in UTF-8 bytes of the unit after lossy decoding -/
def uw (b : Nat) : Nat := if b < 128 then 1 else 3

def strLen (l : Bytes) : Nat := (l.map uw).foldl (· + ·) 0

/-- `char::is_whitespace` on ASCII: HT LF VT FF CR SP -/
def isRWs (b : Nat) : Bool := (9 ≤ b && b ≤ 13) || b == 32

def trimStart : Bytes → Bytes
  | [] => []
  | b :: rest => if isRWs b then trimStart rest else b :: rest

def trimB (l : Bytes) : Bytes := (trimStart (trimStart l).reverse).reverse

def splitWsAux : Bytes → Bytes → List Bytes → List Bytes
  | [], cur, acc => (if cur.isEmpty then acc else cur.reverse :: acc).reverse
  | b :: rest, cur, acc =>
    if isRWs b then splitWsAux rest [] (if cur.isEmpty then acc else cur.reverse :: acc)
    else splitWsAux rest (b :: cur) acc

def splitWs (l : Bytes) : List Bytes := splitWsAux l [] []

def startsWith (l p : Bytes) : Bool := l.take p.length == p

def hasSub (p : Bytes) : Bytes → Bool
  | [] => p.isEmpty
  | b :: rest => startsWith (b :: rest) p || hasSub p rest

/-- `str::parse::<uN>()` : optional `+`, at least one ASCII digit, value `< m` -/
def parseUnsigned (m : Nat) (s : Bytes) : Option Nat :=
  let ds := match s with
    | 43 :: r => r
    | r => r
  if ds.isEmpty || !ds.all isDigit then none
  else let v := digitsVal ds; if v < m then some v else none

/-- `&line[a..b]` on the lossy-decoded string: byte offsets must fall on unit boundaries (indexing
panics otherwise; `line.get(a..b)` returns `None`, see `strGet`) -/
def strSliceAux : Bytes → Nat → Nat → Nat → Bytes → Outcome Bytes
  | [], pos, a, b, acc => if pos == b ∧ a ≤ b then .ok acc.reverse else .panic .boundary
  | u :: rest, pos, a, b, acc =>
    if pos == b then (if a ≤ b then .ok acc.reverse else .panic .boundary)
    else if pos > b then .panic .boundary
    else if pos < a then
      (if pos + uw u > a then .panic .boundary else strSliceAux rest (pos + uw u) a b acc)
    else strSliceAux rest (pos + uw u) a b (u :: acc)

def strSlice (l : Bytes) (a b : Nat) : Outcome Bytes := strSliceAux l 0 a b []

/-- `line.get(a..b)` -/
def strGet (l : Bytes) (a b : Nat) : Option Bytes :=
  match strSlice l a b with
  | .ok s => some s
  | _ => none

structure XrefEntry where
  offset : Nat
  gen : Nat
  inUse : Bool
deriving Repr, DecidableEq

/-- `parse_xref_entry_standard` on the trimmed line (`Option` = the function's `Result`); the two
columns are taken with `line.get(..)`, a column inside a multi-byte character is `InvalidXRef` -/
def entryStandard (l : Bytes) : Option XrefEntry :=
  if strLen l < 18 then none
  else
    match strGet l 0 10, strGet l 11 16 with
    | some offS, some genS =>
      let flag := l[17]?          -- `line.chars().nth(17)`
      match parseUnsigned U64 (trimB offS) with
      | none => none
      | some off =>
        match parseUnsigned U16 (trimB genS) with
        | none => none
        | some g =>
          if flag == some 110 then some ⟨off, g, true⟩
          else if flag == some 102 then some ⟨off, g, false⟩
          else none
    | _, _ => none

def entryFlexible (l : Bytes) : Option XrefEntry :=
  match splitWs l with
  | [] => none
  | p0 :: ps =>
    match parseUnsigned U64 p0 with
    | none => none
    | some off =>
      match ps with
      | [] => some ⟨off, 0, true⟩
      | g :: ps' =>
        if g == [110] then some ⟨off, 0, true⟩
        else if g == [102] then some ⟨off, 0, false⟩
        else if g.getLast? == some 110 ∨ g.getLast? == some 102 then
          let fl := g.getLast? == some 110
          let gs := g.dropLast
          if gs.isEmpty then some ⟨off, 0, fl⟩
          else match parseUnsigned U16 gs with
            | some gv => some ⟨off, gv, fl⟩
            | none => none
        else
          match parseUnsigned U16 g with
          | none => none
          | some gv =>
            match ps' with
            | [] => some ⟨off, gv, true⟩
            | f :: _ => some ⟨off, gv, f.head? != some 102⟩

/-- `parse_xref_entry(&line)` -/
def parseEntry (line : Bytes) : Option XrefEntry :=
  let l := trimB line
  if strLen l ≥ 18 then
    match entryStandard l with
    | some e => some e
    | none => entryFlexible l
  else entryFlexible l

def kwTrailer : Bytes := [116, 114, 97, 105, 108, 101, 114]

/-- the `while i < count` loop; returns the remaining lines and the inserted keys (in order) -/
def entryLoop (first count : Nat) : List Bytes → Nat → List Nat → Outcome (List Bytes × List Nat)
  | [], _, keys => .ok ([], keys)            -- `bytes_read == 0` : break
  | line :: rest, i, keys =>
    if i ≥ count then .ok (line :: rest, keys)
    else
      let t := trimB line
      if t.head? == some 37 then entryLoop first count rest i keys
      else if t == kwTrailer then .ok (rest, keys)
      else
        match parseEntry line with
        | some _ =>
          -- `first_obj_num.checked_add(i).ok_or(InvalidXRef)?`
          if first + i < U32 then entryLoop first count rest (i + 1) (keys ++ [first + i])
          else .err
        | none => entryLoop first count rest (i + 1) keys

inductive SectionEnd where
  /-- a line `trailer` was consumed; the trailer object starts in the remaining lines -/
  | keyword (rest : List Bytes)
  /-- the trailer dictionary starts inside this line (at `<<`) -/
  | inline (line : Bytes) (rest : List Bytes)
deriving Repr

/-- the outer `loop` over subsections.  At EOF `read_pdf_line` returns 0 bytes: `InvalidXRef`
(before the repair the loop `continue`d on the empty line for ever, see `sectionLoopOld`).  The fuel
(one unit per line read by the outer loop) is never exhausted, see `Props/C01`. -/
def sectionLoop : Nat → List Bytes → List Nat → Outcome (SectionEnd × List Nat)
  | 0, _, _ => .diverge
  | _, [], _ => .err
  | fuel + 1, line :: rest, keys =>
    let t := trimB line
    if t.isEmpty || t.head? == some 37 then sectionLoop fuel rest keys
    else if t == kwTrailer then .ok (.keyword rest, keys)
    else if hasSub [60, 60] t && startsWith t kwTrailer then .ok (.inline line rest, keys)
    else if startsWith t [60, 60] then .ok (.inline line rest, keys)
    else
      match splitWs t with
      | [a, b] =>
        match parseUnsigned U32 a, parseUnsigned U32 b with
        | some first, some count => do
          let (rest', keys') ← entryLoop first count rest 0 keys
          -- every path of `entryLoop` that returns has consumed no more than `rest`
          if rest'.length ≤ rest.length then sectionLoop fuel rest' keys' else .diverge
        | _, _ => .err
      | _ => .err

def dropTo (p : Bytes) : Bytes → Bytes
  | [] => []
  | b :: rest => if startsWith (b :: rest) p then b :: rest else dropTo p rest

def joinLines : List Bytes → Bytes
  | [] => []
  | l :: rest => l ++ [10] ++ joinLines rest

def dictGet (kvs : List (Bytes × Obj)) (k : Bytes) : Option Obj :=
  (kvs.reverse.find? (fun kv => kv.1 == k)).map (·.2)

def kSize : Bytes := [83, 105, 122, 101]

/-- whole function: section loop, trailer object (through the object-parser model), `/Size` check
with `*max_obj_num as i64 + 1`.  Result: the keys inserted, in insertion order. -/
def classicXref (o : LexOpts) (lines : List Bytes) : Outcome (List Nat × Bool) := do
  let (e, keys) ← sectionLoop (lines.length + 1) lines []
  let text := match e with
    | .keyword rest => joinLines rest
    | .inline line rest => dropTo [60, 60] line ++ [10] ++ joinLines rest
  let r := parseTop o text
  let tr ← r.val
  match tr with
  | .dict kvs =>
    match dictGet kvs kSize with
    | some (.int sz) =>
      match keys.foldl (fun m k => match m with
          | none => some k
          | some x => some (max x k)) none with
      | some mx =>
        if ((mx + 1 : Nat) : Int) > sz then .err else pure (keys, r.st.sawStream)
      | none => pure (keys, r.st.sawStream)
    | _ => pure (keys, r.st.sawStream)
  | _ => pure (keys, r.st.sawStream)

/-! ## `/Prev` chain (`parse_with_incremental_updates_options`): sections by offset, each with an
optional `/Prev`; a missing section is a parse error -/

def prevWalk (sections : List (Nat × Option Nat)) : Nat → Option Nat → List Nat → Outcome (List Nat)
  | 0, _, _ => .diverge
  | _, none, visited => .ok visited.reverse
  | fuel + 1, some off, visited =>
    if visited.contains off then .ok visited.reverse
    else
      match sections.find? (fun s => s.1 == off) with
      | none => .err
      | some s => prevWalk sections fuel s.2 (off :: visited)

def prevChain (sections : List (Nat × Option Nat)) (start : Nat) : Outcome (List Nat) :=
  prevWalk sections (sections.length + 1) (some start) []

/-! ## `flatten_page_tree` : explicit stack, visited set, `MAX_PAGES` -/

inductive PNode where
  | page
  | pages (kids : List Nat)
  | other
deriving Repr, DecidableEq

def MAX_PAGES : Nat := 100000

structure FState where
  stack : List Nat      -- head = top
  visited : List Nat
  pages : List Nat      -- reversed
deriving Repr

def lookupNode (g : List (Nat × PNode)) (r : Nat) : Option PNode :=
  (g.find? (fun e => e.1 == r)).map (·.2)

/-- one iteration of `while let Some(obj_ref) = stack.pop()`; `none` = loop left -/
def flattenStep (maxPages : Nat) (g : List (Nat × PNode)) (s : FState) : Option FState :=
  match s.stack with
  | [] => none
  | r :: st =>
    if s.pages.length ≥ maxPages then none
    else if s.visited.contains r then some { s with stack := st }
    else
      let s' := { s with stack := st, visited := r :: s.visited }
      match lookupNode g r with
      | some .page => some { s' with pages := r :: s'.pages }
      | some (.pages kids) => some { s' with stack := kids ++ st }
      | _ => some s'

def flattenRun (maxPages : Nat) (g : List (Nat × PNode)) : Nat → FState → Option FState
  | 0, _ => none
  | fuel + 1, s =>
    match flattenStep maxPages g s with
    | none => some s
    | some s' => flattenRun maxPages g fuel s'

/-! ## stream `/Length` (`parse_stream_data_with_options` → `Lexer::read_bytes`):
`Vec::with_capacity(n.min(64 * 1024))`, then `take(n).read_to_end` grows the buffer with the bytes
that are really read (before the repair: `Vec::with_capacity(n)` and `vec![0u8; n]`, see
`streamAllocRequestOld`) -/

def READ_BYTES_RESERVE : Nat := 65536

/-- bytes requested from the allocator BEFORE any byte is read, for a declared `/Length` (not
lenient: negative → error) -/
def streamAllocRequest (len : Int) : Outcome Nat :=
  if len < 0 then .err else .ok (min len.toNat READ_BYTES_RESERVE)

/-- outcome of reading a stream body of `avail` bytes with declared `/Length len` when the
allocator refuses requests of `limit` bytes or more (strict options; the body is `avail` bytes
`x`, then LF, then `endstream`: the read succeeds when it ends right before or right after the LF) -/
def streamRead (limit : Nat) (len : Int) (avail : Nat) : Outcome Unit := do
  let req ← streamAllocRequest len
  let n := len.toNat
  if req ≥ limit then .panic .alloc
  else if n == avail ∨ n == avail + 1 then .ok ()
  else .err

end OxiVerif.C01

namespace OxiVerif.C01

/-! ## object streams: `ObjectStream::parse` (default options) -/

def defaultOpts : LexOpts := ⟨false, true⟩
def strictOpts : LexOpts := ⟨false, false⟩

/-- the `for _ in 0..self.n` header loop: two integer tokens per object -/
def objStmPairs (o : LexOpts) : Nat → Nat → Bytes → List (Nat × Nat) → Outcome (List (Nat × Nat))
  | 0, _, _, acc => .ok acc.reverse          -- fuel (never exhausted: two tokens consume ≥ 2 bytes)
  | fuel + 1, n, inp, acc =>
    if n == 0 then .ok acc.reverse
    else
      let r1 := nextToken o inp
      match r1.tok with
      | .ok (.int num) =>
        let r2 := nextToken o r1.rest
        match r2.tok with
        | .ok (.int off) => objStmPairs o fuel (n - 1) r2.rest ((asU U32 num, asU U32 off) :: acc)
        | .panic k => .panic k
        | _ => .err
      | .panic k => .panic k
      | _ => .err

/-- second loop: `abs_offset = self.first.checked_add(*offset)` (u32; overflow → error), parse one
object there -/
def objStmObjects (o : LexOpts) (first : Nat) (data : Bytes) :
    List (Nat × Nat) → List (Nat × Obj) → Bool → Outcome (List (Nat × Obj) × Bool)
  | [], acc, ss => .ok (acc.reverse, ss)
  | (num, off) :: rest, acc, ss => do
    let abs ← (if first + off < U32 then .ok (first + off) else .err : Outcome Nat)
    let r := parseTop o (data.drop abs)
    let v ← r.val
    objStmObjects o first data rest ((num, v) :: acc) (ss || r.st.sawStream)

def objStm (n first : Int) (data : Bytes) : Outcome (List (Nat × Obj) × Bool) := do
  let pairs ← objStmPairs defaultOpts (data.length + 1) (asU U32 n) data []
  objStmObjects defaultOpts (asU U32 first) data pairs [] false

end OxiVerif.C01
