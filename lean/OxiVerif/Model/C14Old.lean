import OxiVerif.Model.C14
/-
C14 — `chunk_with_graph` as it was BEFORE the repairs of C14-F1 (elements the graph attaches to no
section were dropped) and C14-F3 (whole-section chunk approved by the SUM of per-element counts).
Kept only so that the old witnesses remain kernel-checked statements: they are the regressions
the correspondence run must catch.  Import-free apart from the model.
-/
namespace OxiVerif.C14

/-- second pass of `ElementGraph::build` alone: an element with no (matching) `parent_heading`
    is pushed nowhere -/
def gstepOld (secsRev : List Sec) (e : Elem) : List Sec :=
  if e.isTitle then ⟨e, []⟩ :: secsRev
  else
    match e.md.parentHeading with
    | some h => addChild h e secsRev
    | none => secsRev

def sectionsOld (els : List Elem) : List Sec := ((afterPreamble els).foldl gstepOld []).reverse

/-- the section loop with `section_tokens = Σ count(display_text)` -/
def processSectionSum (cfg : Config) (cnt : Counter) (s : Sec) : List Chunk :=
  let titleHeading := titleHeadingOf s.title
  let sectionTokens := (s.elems.map fun e => cnt.count e.display).foldl (· + ·) 0
  if sectionTokens ≤ cfg.maxTokens then [mkChunk cnt s.elems titleHeading false]
  else (chunk cfg cnt s.elems).map fun c => { c with heading := titleHeading }

/-- `chunk_with_graph` before both repairs -/
def chunkWithGraphOld (cfg : Config) (cnt : Counter) (els : List Elem) : List Chunk :=
  chunk cfg cnt (preamble els) ++ (sectionsOld els).flatMap (processSectionSum cfg cnt)

/-- `chunk_with_graph` with F1 repaired but the summed approval -/
def chunkWithGraphSum (cfg : Config) (cnt : Counter) (els : List Elem) : List Chunk :=
  chunk cfg cnt (preamble els) ++ (sections els).flatMap (processSectionSum cfg cnt)

end OxiVerif.C14
