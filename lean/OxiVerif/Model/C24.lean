/-
Executable model of the image-embedding code of oxidize-pdf-core, transcribed by hand from

  graphics/png_decoder.rs   decode_png, PngDecoder::{decode, read_chunk, process_ihdr, process_plte,
                            process_trns, decompress_idat, decode_image_data, unfilter_row,
                            expand_palette, color_key_alpha, separate_alpha}, read_sample,
                            paeth_predictor, PngColorType::{from_byte, channels, samples_per_pixel,
                            has_alpha}
  graphics/pdf_image.rs     Image::{from_png_data, from_raw_data, from_rgba_data, from_gray_data,
                            from_jpeg_data, to_pdf_object, to_pdf_object_with_transparency,
                            has_transparency}, parse_jpeg_header
  writer/pdf_writer/mod.rs  the image branch of the page-resources writer (SMask written as a
                            separate object and referenced from the image dictionary)

as of the repairs of C24-F2a/F2b/F3a/F3b/F4/F5 (the code before them is `Model/C24Old.lean`).
Bytes are `Nat`s < 256, `usize`/`u32` arithmetic is checked (a wrap is `Outcome.panic`, as in the
debug build).  zlib inflate is a parameter (`Inflate`); `storedInflate` below is the instance for
streams made of stored blocks only, following flate2's `read::ZlibDecoder` as driven by
`decompress_idat` (a truncated stream yields the bytes produced so far, not an error).
Import-free.
-/
namespace OxiVerif.C24

inductive Err where
  | signature | eof | chunklen | ihdr | colortype | method | interlaced | plte | noihdr | dims
  | noidat | inflate | toolarge | insufficient | filtertype | size
  | depth | noplte | palindex
  | notjpeg | jpegMarker | jpegTrunc | jpegNodims | jpegComponents
  /-- the model cannot tell (compressed deflate blocks): never produced on generated requests -/
  | inflateUnknown
  deriving Repr, BEq, DecidableEq

def Err.name : Err → String
  | .signature => "signature" | .eof => "eof" | .chunklen => "chunklen" | .ihdr => "ihdr"
  | .colortype => "colortype" | .method => "method" | .interlaced => "interlaced"
  | .plte => "plte" | .noihdr => "noihdr" | .dims => "dims" | .noidat => "noidat"
  | .inflate => "inflate" | .toolarge => "toolarge" | .insufficient => "insufficient"
  | .filtertype => "filtertype" | .size => "size" | .notjpeg => "notjpeg"
  | .jpegMarker => "jpeg-marker" | .jpegTrunc => "jpeg-trunc" | .jpegNodims => "jpeg-nodims"
  | .jpegComponents => "jpeg-components" | .inflateUnknown => "inflate-unknown"
  | .depth => "depth" | .noplte => "noplte" | .palindex => "palindex"

inductive Outcome (α : Type) where
  | ok (a : α)
  | err (e : Err)
  | panic
  deriving Repr, BEq, DecidableEq

instance : Monad Outcome where
  pure := .ok
  bind x f := match x with
    | .ok a => f a
    | .err e => .err e
    | .panic => .panic

def usizeMax : Nat := 2 ^ 64
def u32Max : Nat := 2 ^ 32

/-! ### png_decoder.rs -/

inductive ColorType where
  | gray | rgb | palette | grayAlpha | rgbAlpha
  deriving Repr, BEq, DecidableEq

/-- `PngColorType::from_byte` -/
def ColorType.fromByte : Nat → Option ColorType
  | 0 => some .gray
  | 2 => some .rgb
  | 3 => some .palette
  | 4 => some .grayAlpha
  | 6 => some .rgbAlpha
  | _ => none

/-- `PngColorType::channels` (note: `Palette` counts 3) -/
def ColorType.channels : ColorType → Nat
  | .gray => 1
  | .rgb => 3
  | .palette => 3
  | .grayAlpha => 2
  | .rgbAlpha => 4

/-- `PngColorType::samples_per_pixel`: what a scanline stores per pixel (one index for `Palette`) -/
def ColorType.samplesPerPixel : ColorType → Nat
  | .palette => 1
  | ct => ct.channels

/-- the `depth_allowed` table of `process_ihdr` (PNG table 11.1) -/
def depthAllowed (ct : ColorType) (d : Nat) : Bool :=
  match ct with
  | .gray => d == 1 || d == 2 || d == 4 || d == 8 || d == 16
  | .palette => d == 1 || d == 2 || d == 4 || d == 8
  | _ => d == 8 || d == 16

def ColorType.hasAlpha : ColorType → Bool
  | .grayAlpha => true
  | .rgbAlpha => true
  | _ => false

inductive Trns where
  | gray (v : Nat)
  | rgb (r g b : Nat)
  | palette (a : List Nat)
  deriving Repr, BEq, DecidableEq

structure Decoder where
  width : Nat := 0
  height : Nat := 0
  bitDepth : Nat := 0
  colorType : ColorType := .rgb
  idat : List (List Nat) := []
  palette : Option (List Nat) := none
  trns : Option Trns := none
  hasIhdr : Bool := false
  deriving Repr, BEq, DecidableEq

def be32At (d : List Nat) (i : Nat) : Nat :=
  d.getD i 0 * 16777216 + d.getD (i + 1) 0 * 65536 + d.getD (i + 2) 0 * 256 + d.getD (i + 3) 0

def be16At (d : List Nat) (i : Nat) : Nat := d.getD i 0 * 256 + d.getD (i + 1) 0

/-- `process_ihdr`: the fields are assigned before the validation errors are raised (the error
aborts the whole decode, so the partial assignment is not observable). -/
def processIhdr (st : Decoder) (d : List Nat) : Outcome Decoder :=
  if d.length < 13 then .err .ihdr
  else
    match ColorType.fromByte (d.getD 9 0) with
    | none => .err .colortype
    | some ct =>
      if d.getD 10 0 ≠ 0 ∨ d.getD 11 0 ≠ 0 then .err .method
      else if !depthAllowed ct (d.getD 8 0) then .err .depth
      else if d.getD 12 0 ≠ 0 then .err .interlaced
      else .ok { st with width := be32At d 0, height := be32At d 4, bitDepth := d.getD 8 0,
                         colorType := ct, hasIhdr := true }

/-- `process_plte` -/
def processPlte (st : Decoder) (d : List Nat) : Outcome Decoder :=
  if d.length % 3 ≠ 0 then .err .plte else .ok { st with palette := some d }

/-- `process_trns` (interpreted with the colour type seen so far; default `Rgb`) -/
def processTrns (st : Decoder) (d : List Nat) : Decoder :=
  { st with trns :=
      match st.colorType with
      | .gray => if d.length ≥ 2 then some (.gray (be16At d 0)) else none
      | .rgb => if d.length ≥ 6 then some (.rgb (be16At d 0) (be16At d 2) (be16At d 4)) else none
      | .palette => some (.palette d)
      | _ => none }

def tagIHDR : List Nat := [73, 72, 68, 82]
def tagPLTE : List Nat := [80, 76, 84, 69]
def tagIDAT : List Nat := [73, 68, 65, 84]
def tagTRNS : List Nat := [116, 82, 78, 83]
def tagIEND : List Nat := [73, 69, 78, 68]

/-- one iteration of the `while self.pos < self.data.len()` loop of `decode` with `read_chunk`
inlined; `rest` = `data[pos..]`, `k` = the remaining iterations. -/
def walkBody (k : List Nat → Decoder → Outcome Decoder) (rest : List Nat) (st : Decoder) :
    Outcome Decoder :=
  if rest.isEmpty then .ok st
  else if rest.length < 8 then .err .eof
  else
    let length := be32At rest 0
    let tag := (rest.drop 4).take 4
    let body := rest.drop 8
    if body.length < length + 4 then .err .chunklen
    else
      let cdata := body.take length
      let rest' := body.drop (length + 4)
      if tag = tagIHDR then
        match processIhdr st cdata with
        | .ok st' => k rest' st'
        | .err e => .err e
        | .panic => .panic
      else if tag = tagPLTE then
        match processPlte st cdata with
        | .ok st' => k rest' st'
        | .err e => .err e
        | .panic => .panic
      else if tag = tagIDAT then k rest' { st with idat := st.idat ++ [cdata] }
      else if tag = tagTRNS then k rest' (processTrns st cdata)
      else if tag = tagIEND then .ok st
      else k rest' st

/-- the loop; every iteration consumes at least 12 bytes, `fuel` ≥ `rest.length` -/
def walk : Nat → List Nat → Decoder → Outcome Decoder
  | 0, _, st => .ok st
  | fuel + 1, rest, st => walkBody (walk fuel) rest st

/-- `paeth_predictor` (i16 arithmetic, result is one of the inputs) -/
def paethPredictor (a b c : Nat) : Nat :=
  let p : Int := (a : Int) + (b : Int) - (c : Int)
  let pa := (p - (a : Int)).natAbs
  let pb := (p - (b : Int)).natAbs
  let pc := (p - (c : Int)).natAbs
  if pa ≤ pb ∧ pa ≤ pc then a else if pb ≤ pc then b else c

/-- the value added to the filtered byte by `unfilter_row` for a valid filter type -/
def predicted (ft a b c : Nat) : Nat :=
  match ft with
  | 0 => 0
  | 1 => a
  | 2 => b
  | 3 => ((a + b) / 2) % 256
  | _ => paethPredictor a b c

/-- one pass over a row: `doneRev` are the bytes of `result` written so far (reversed),
`prevRev` the bytes of `prev_row` passed so far (reversed); `result[i - bpp]` is
`doneRev[bpp-1]` and absent exactly when `i < bpp`. -/
def unfilterGo (ft bpp : Nat) : List Nat → List Nat → List Nat → List Nat → List Nat
  | [], _, _, _ => []
  | x :: xs, prev, doneRev, prevRev =>
    let b := prev.headD 0
    let a := doneRev.getD (bpp - 1) 0
    let c := prevRev.getD (bpp - 1) 0
    let v := (x + predicted ft a b c) % 256
    v :: unfilterGo ft bpp xs prev.tail (v :: doneRev) (b :: prevRev)

/-- `unfilter_row` -/
def unfilterRow (ft : Nat) (row prev : List Nat) (bpp : Nat) : Option (List Nat) :=
  if ft ≤ 4 then some (unfilterGo ft bpp row prev [] []) else none

/-- the `for y in 0..self.height` loop of `decode_image_data`; `raw` = `raw_data[row_start..]`,
`rowLen` = `bytes_per_row - 1` -/
def decodeRows (bpp rowLen : Nat) : Nat → List Nat → List Nat → Outcome (List Nat)
  | 0, _, _ => .ok []
  | h + 1, raw, prev =>
    match unfilterRow (raw.headD 0) ((raw.drop 1).take rowLen) prev bpp with
    | none => .err .filtertype
    | some cur =>
      match decodeRows bpp rowLen h (raw.drop (rowLen + 1)) cur with
      | .ok rest => .ok (cur ++ rest)
      | .err e => .err e
      | .panic => .panic

/-- consecutive groups of `n` elements, `k` of them -/
def splitEvery (n : Nat) : Nat → List Nat → List (List Nat)
  | 0, _ => []
  | k + 1, xs => xs.take n :: splitEvery n k (xs.drop n)

/-- `data.chunks_exact(n)` mapped and flattened: split complete `n`-byte groups -/
def splitChunks (n : Nat) (keep : Nat) : Nat → List Nat → List Nat × List Nat
  | 0, _ => ([], [])
  | fuel + 1, xs =>
    if xs.length < n then ([], [])
    else
      let c := xs.take n
      let (a, b) := splitChunks n keep fuel (xs.drop n)
      (c.take keep ++ a, c.drop keep ++ b)

/-- `separate_alpha`: a sample is one byte at depth 8 and two bytes at depth 16; grey+alpha pixels
are 2 samples, RGBA pixels 4 samples; the last sample of each pixel goes to the alpha plane -/
def separateAlpha (ct : ColorType) (depth : Nat) (data : List Nat) : List Nat × Option (List Nat) :=
  let s := if depth = 16 then 2 else 1
  match ct with
  | .grayAlpha => let (g, a) := splitChunks (2 * s) s data.length data; (g, some a)
  | .rgbAlpha => let (c, a) := splitChunks (4 * s) (3 * s) data.length data; (c, some a)
  | _ => (data, none)

/-- `read_sample`: sample `i` of an unfiltered scanline, samples packed most significant bit first
(`>>` and `&` on a `u16`; the depth is one of 1, 2, 4, 8, 16 after `process_ihdr`) -/
def readSample (row : List Nat) (i depth : Nat) : Nat :=
  if depth = 16 then row.getD (2 * i) 0 * 256 + row.getD (2 * i + 1) 0
  else
    let bit := i * depth
    (row.getD (bit / 8) 0 / 2 ^ (8 - depth - bit % 8)) % 2 ^ depth

/-- `data.chunks_exact(n)` (complete chunks only) -/
def chunksExact (n : Nat) : Nat → List Nat → List (List Nat)
  | 0, _ => []
  | fuel + 1, xs =>
    if xs.length < n ∨ xs.isEmpty then []
    else xs.take n :: chunksExact n fuel (xs.drop n)

/-- the samples `0 .. perRow-1` of every scanline, in order -/
def rowSamples (depth perRow rowLen : Nat) (data : List Nat) : List (List Nat) :=
  (chunksExact rowLen data.length data).map fun row =>
    (List.range perRow).map fun i => readSample row i depth

/-- `expand_palette`: indices → PLTE entries; with a palette tRNS also the alpha of every pixel
(entries beyond the end of tRNS are opaque) -/
def expandPalette (st : Decoder) (data : List Nat) (rowLen : Nat) :
    Outcome (List Nat × Option (List Nat)) :=
  match st.palette with
  | none => .err .noplte
  | some pal =>
    let entryAlpha : Option (List Nat) := match st.trns with
      | some (.palette a) => some a
      | _ => none
    let idx := (rowSamples st.bitDepth st.width rowLen data).flatten
    if idx.any (fun i => decide (pal.length / 3 ≤ i)) then .err .palindex
    else
      .ok (idx.flatMap (fun i => [pal.getD (3 * i) 0, pal.getD (3 * i + 1) 0, pal.getD (3 * i + 2) 0]),
           entryAlpha.map fun a => idx.map fun i => a.getD i 255)

/-- the key of `color_key_alpha` (only a tRNS of the image's own colour type counts) -/
def colorKey (st : Decoder) : Option (List Nat) :=
  match st.colorType, st.trns with
  | .gray, some (.gray g) => some [g]
  | .rgb, some (.rgb r g b) => some [r, g, b]
  | _, _ => none

/-- `color_key_alpha`: 0 for a pixel equal to the key, 255 otherwise; one byte per pixel, two at
depth 16 -/
def colorKeyAlpha (st : Decoder) (data : List Nat) (rowLen : Nat) : Option (List Nat) :=
  (colorKey st).map fun key =>
    (rowSamples st.bitDepth (st.width * key.length) rowLen data).flatMap fun ss =>
      (splitEvery key.length st.width ss).flatMap fun px =>
        List.replicate (if st.bitDepth = 16 then 2 else 1) (if px = key then 0 else 255)

/-- `bytes_per_pixel` of `decode_image_data` -/
def bytesPerPixel (depth : Nat) (ct : ColorType) : Nat := (depth * ct.samplesPerPixel + 7) / 8

/-- `bytes_per_row` of `decode_image_data` (filter byte included) -/
def bytesPerRow (w depth : Nat) (ct : ColorType) : Nat :=
  (w * (depth * ct.samplesPerPixel) + 7) / 8 + 1

/-- the tail of `decode_image_data`: from the unfiltered scanlines to the colour and alpha planes -/
def planesOf (st : Decoder) (decoded : List Nat) (rowLen : Nat) :
    Outcome (List Nat × Option (List Nat)) :=
  if st.colorType = .palette then expandPalette st decoded rowLen
  else if st.colorType.hasAlpha then .ok (separateAlpha st.colorType st.bitDepth decoded)
  else .ok (decoded, colorKeyAlpha st decoded rowLen)

/-- `decode_image_data` -/
def decodeImageData (st : Decoder) (raw : List Nat) : Outcome (List Nat × Option (List Nat)) :=
  let bpp := bytesPerPixel st.bitDepth st.colorType
  let bytesPerRow := bytesPerRow st.width st.bitDepth st.colorType
  if st.height * bytesPerRow ≥ usizeMax then .panic
  else if raw.length < st.height * bytesPerRow then .err .insufficient
  else
    match decodeRows bpp (bytesPerRow - 1) st.height raw (List.replicate (bytesPerRow - 1) 0) with
    | .ok decoded => planesOf st decoded (bytesPerRow - 1)
    | .err e => .err e
    | .panic => .panic

inductive InflRes where
  | ok (bytes : List Nat)
  | fail
  | unknown
  deriving Repr, BEq, DecidableEq

abbrev Inflate := List Nat → InflRes

structure DecodedPng where
  width : Nat
  height : Nat
  bitDepth : Nat
  colorType : ColorType
  imageData : List Nat
  alphaData : Option (List Nat)
  palette : Option (List Nat)
  trns : Option Trns
  deriving Repr, BEq, DecidableEq

def signature : List Nat := [0x89, 0x50, 0x4E, 0x47, 0x0D, 0x0A, 0x1A, 0x0A]

/-- `decode_png` -/
def decodePng (inflate : Inflate) (data : List Nat) : Outcome DecodedPng :=
  if data.length < 8 ∨ data.take 8 ≠ signature then .err .signature
  else
    match walk (data.length + 1) (data.drop 8) {} with
    | .err e => .err e
    | .panic => .panic
    | .ok st =>
      if !st.hasIhdr then .err .noihdr
      else if st.width = 0 ∨ st.height = 0 then .err .dims
      else if st.idat.isEmpty then .err .noidat
      else
        match inflate st.idat.flatten with
        | .fail => .err .inflate
        | .unknown => .err .inflateUnknown
        | .ok raw =>
          match decodeImageData st raw with
          | .err e => .err e
          | .panic => .panic
          | .ok (img, alpha) =>
            .ok { width := st.width, height := st.height, bitDepth := st.bitDepth,
                  colorType := st.colorType, imageData := img, alphaData := alpha,
                  palette := st.palette, trns := st.trns }

/-! ### zlib streams made of stored blocks, as `decompress_idat` sees them

flate2's `read::ZlibDecoder` hands out what miniz produced; at end of input without end of stream
its `read` returns `Ok(0)`, which `decompress_idat` takes for the end: the result is the bytes
produced so far.  Errors: bad header (check bits, method, window, preset dictionary), block type
3, LEN/NLEN mismatch, wrong Adler-32. -/

def adler32 (bs : List Nat) : Nat :=
  let (a, b) := bs.foldl (fun (p : Nat × Nat) x =>
    let a := (p.1 + x) % 65521
    (a, (p.2 + a) % 65521)) (1, 0)
  b * 65536 + a

def storedBlocksInflate : Nat → List Nat → List Nat → InflRes
  | 0, _, out => .ok out
  | fuel + 1, z, out =>
    match z with
    | [] => .ok out
    | hdr :: z1 =>
      let final := hdr % 2 = 1
      let btype := (hdr / 2) % 4
      if btype = 3 then .fail
      else if btype ≠ 0 then .unknown
      else if z1.length < 4 then .ok out
      else
        let len := z1.getD 0 0 + 256 * z1.getD 1 0
        let nlen := z1.getD 2 0 + 256 * z1.getD 3 0
        if len + nlen ≠ 65535 then .fail
        else
          let body := z1.drop 4
          let out' := out ++ body.take len
          if body.length < len then .ok out'
          else
            let rest := body.drop len
            if final then
              if rest.length < 4 then .ok out'
              else if be32At rest 0 = adler32 out' then .ok out' else .fail
            else storedBlocksInflate fuel rest out'

def storedInflate (z : List Nat) : InflRes :=
  match z with
  | [] => .ok []
  | [_] => .ok []
  | cmf :: flg :: rest =>
    if (cmf * 256 + flg) % 31 ≠ 0 ∨ cmf % 16 ≠ 8 ∨ cmf / 16 > 7 ∨ (flg / 32) % 2 = 1 then .fail
    else storedBlocksInflate (rest.length + 1) rest []

/-! ### pdf_image.rs -/

inductive Format where
  | jpeg | png | tiff | raw
  deriving Repr, BEq, DecidableEq

inductive ColorSpace where
  | deviceGray | deviceRGB | deviceCMYK
  deriving Repr, BEq, DecidableEq

def ColorSpace.name : ColorSpace → String
  | .deviceGray => "DeviceGray"
  | .deviceRGB => "DeviceRGB"
  | .deviceCMYK => "DeviceCMYK"

structure Mask where
  data : List Nat
  width : Nat
  height : Nat
  bpc : Nat
  deriving Repr, BEq, DecidableEq

structure Image where
  data : List Nat
  format : Format
  width : Nat
  height : Nat
  colorSpace : ColorSpace
  bitsPerComponent : Nat
  alphaData : Option (List Nat)
  /-- always `Raw`, DeviceGray when built by this module's constructors -/
  softMask : Option Mask
  deriving Repr, BEq, DecidableEq

/-- `Image::from_png_data` -/
def Image.fromPngData (inflate : Inflate) (data : List Nat) : Outcome Image :=
  match decodePng inflate data with
  | .err e => .err e
  | .panic => .panic
  | .ok d =>
    let cs := match d.colorType with
      | .gray | .grayAlpha => ColorSpace.deviceGray
      | _ => ColorSpace.deviceRGB
    -- palette indices have been expanded to 8-bit RGB; everything else keeps the PNG's depth
    let bpc := if d.colorType = .palette then 8 else d.bitDepth
    .ok { data := d.imageData, format := .png, width := d.width, height := d.height,
          colorSpace := cs, bitsPerComponent := bpc, alphaData := d.alphaData,
          softMask := d.alphaData.map fun a =>
            { data := a, width := d.width, height := d.height, bpc := if bpc = 16 then 16 else 8 } }

/-- `Image::from_raw_data` -/
def Image.fromRawData (data : List Nat) (w h : Nat) (cs : ColorSpace) (bpc : Nat) : Image :=
  { data := data, format := .raw, width := w, height := h, colorSpace := cs,
    bitsPerComponent := bpc, alphaData := none, softMask := none }

/-- `u32` product as in the debug build -/
def mulU32 (a b : Nat) : Option Nat := if a * b < u32Max then some (a * b) else none

/-- `Image::from_rgba_data` -/
def Image.fromRgbaData (data : List Nat) (w h : Nat) : Outcome Image :=
  match (mulU32 w h).bind (mulU32 · 4) with
  | none => .panic
  | some n =>
    if data.length ≠ n then .err .size
    else
      let (rgb, a) := splitChunks 4 3 data.length data
      .ok { data := rgb, format := .raw, width := w, height := h, colorSpace := .deviceRGB,
            bitsPerComponent := 8, alphaData := some a,
            softMask := some { data := a, width := w, height := h, bpc := 8 } }

/-- `Image::from_gray_data` -/
def Image.fromGrayData (data : List Nat) (w h : Nat) : Outcome Image :=
  match mulU32 w h with
  | none => .panic
  | some n =>
    if data.length ≠ n then .err .size
    else .ok { data := data, format := .raw, width := w, height := h, colorSpace := .deviceGray,
               bitsPerComponent := 8, alphaData := none, softMask := none }

/-- the scanning loop of `parse_jpeg_header`; returns (width, height, components) -/
def jpegScan (d : List Nat) : Nat → Nat → Outcome (Nat × Nat × Nat)
  | 0, _ => .ok (0, 0, 0)
  | fuel + 1, pos =>
    if ¬ (pos < d.length - 1) then .ok (0, 0, 0)
    else if d.getD pos 0 ≠ 0xFF then .err .jpegMarker
    else
      let marker := d.getD (pos + 1) 0
      let pos := pos + 2
      if marker = 0xFF then jpegScan d fuel pos
      else if 0xC0 ≤ marker ∧ marker ≤ 0xCF ∧ marker ≠ 0xC4 ∧ marker ≠ 0xC8 ∧ marker ≠ 0xCC then
        if pos + 7 ≥ d.length then .err .jpegTrunc
        else .ok (be16At d (pos + 5), be16At d (pos + 3), d.getD (pos + 7) 0)
      else if marker = 0xD9 then .ok (0, 0, 0)
      else if marker = 0xD8 ∨ (0xD0 ≤ marker ∧ marker ≤ 0xD7) then jpegScan d fuel pos
      else if pos + 1 ≥ d.length then .err .jpegTrunc
      else jpegScan d fuel (pos + be16At d pos)

/-- the `match components` of `parse_jpeg_header` -/
def csOfComponents : Nat → Option ColorSpace
  | 1 => some .deviceGray
  | 3 => some .deviceRGB
  | 4 => some .deviceCMYK
  | _ => none

/-- `parse_jpeg_header` + `Image::from_jpeg_data` -/
def Image.fromJpegData (d : List Nat) : Outcome Image :=
  if d.length < 2 ∨ d.getD 0 0 ≠ 0xFF ∨ d.getD 1 0 ≠ 0xD8 then .err .notjpeg
  else
    match jpegScan d (d.length + 1) 2 with
    | .err e => .err e
    | .panic => .panic
    | .ok (w, h, comps) =>
      if w = 0 ∨ h = 0 then .err .jpegNodims
      else
        match csOfComponents comps with
        | none => .err .jpegComponents
        | some cs =>
          .ok { data := d, format := .jpeg, width := w, height := h, colorSpace := cs,
                bitsPerComponent := 8, alphaData := none, softMask := none }

def Image.hasTransparency (i : Image) : Bool := i.softMask.isSome || i.alphaData.isSome

/-- What the reader sees of one stream object: dictionary entries and the data after the
stream's filter has been undone (FlateDecode inverse of the writer's zlib encoder is assumed;
DCTDecode data is reported raw). -/
structure StreamView where
  width : Nat
  height : Nat
  bpc : Nat
  cs : String
  filter : String
  data : List Nat
  deriving Repr, BEq, DecidableEq

structure Embedded where
  main : StreamView
  smask : Option StreamView
  deriving Repr, BEq, DecidableEq

/-- the image branch of the writer: `to_pdf_object_with_transparency` + separate SMask object when
`has_transparency`, `to_pdf_object` otherwise -/
def Image.embed (i : Image) : Embedded :=
  if i.hasTransparency then
    { main := { width := i.width, height := i.height, bpc := i.bitsPerComponent,
                cs := i.colorSpace.name,
                filter := if i.format == .jpeg then "DCTDecode" else "FlateDecode",
                data := i.data },
      smask := i.softMask.map fun m =>
        { width := m.width, height := m.height, bpc := m.bpc, cs := "DeviceGray",
          filter := "FlateDecode", data := m.data } }
  else
    { main := { width := i.width, height := i.height, bpc := i.bitsPerComponent,
                cs := i.colorSpace.name,
                filter := match i.format with
                  | .jpeg => "DCTDecode"
                  | .raw => "none"
                  | _ => "FlateDecode",
                data := i.data },
      smask := none }

end OxiVerif.C24
