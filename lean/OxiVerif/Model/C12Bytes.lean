import OxiVerif.Model.C12
/-!
C12 — BYTE-LEVEL model of the TrueType subsetter: everything between the original font FILE and
the subset font FILE.

Transcribed line by line from
  * `text/fonts/truetype.rs`: `TrueTypeFont::parse` (directory, head, maxp), `get_glyph_data`,
    `get_glyph_metrics`, `read_u16/u32`
  * `text/fonts/truetype_subsetter.rs`: `extract_composite_components`, `remap_composite_glyph`,
    `strip_glyph_instructions`, `walk_composite_components`, `strip_composite_glyph_instructions`,
    `calculate_checksum`, `build_post_v3_header`, `expand_composite_glyphs`, `renumber_and_build`,
    `build_subset_font` (glyf / loca / format choice), `build_hmtx`, `build_font_file` (header,
    directory, alignment, checksums, checkSumAdjustment), `update_head_table`,
    `get_original_maxp`, `update_hhea_table`, `subset`, `subset_font_by_gids`.

Bytes are `Nat`s < 256 in a `List`.  The original file is given SPARSELY (`File`): its length and
the byte runs the run needs (directory, small tables, the glyphs of the closure); a read that
touches a byte that was not provided yields `Rd.gap`, which the driver reports instead of
guessing.  `Rd.err` = the Rust function returns `Err`.
The cmap is NOT parsed here (`cmap : Nat → Option Gid` is an input, as in Model/C12.lean).
Import-free apart from Model/C12.lean (closure / sort / remap are shared with the abstract model).
-/
namespace OxiVerif.C12

abbrev Bytes := List Nat

/-! ### byte helpers -/

/-- `u16::from_be_bytes([d[o], d[o+1]])` -/
def u16At (d : Bytes) (o : Nat) : Nat := d.getD o 0 * 256 + d.getD (o + 1) 0

def u16be (v : Nat) : Bytes := [v / 256 % 256, v % 256]

def u32be (v : Nat) : Bytes := [v / 16777216 % 256, v / 65536 % 256, v / 256 % 256, v % 256]

/-- `d[o] = (v >> 8) as u8; d[o+1] = (v & 0xFF) as u8` -/
def setU16 (d : Bytes) (o v : Nat) : Bytes := (d.set o (v / 256 % 256)).set (o + 1) (v % 256)

/-! ### composite glyph walking -/

/-- bytes of one component record after flags+glyphIndex: arguments, then transform -/
def compArgsLen (flags : Nat) : Nat :=
  (if flags.testBit 0 then 4 else 2) +
  (if flags.testBit 7 then 8 else if flags.testBit 6 then 4 else if flags.testBit 3 then 2 else 0)

/-- the loop of `extract_composite_components` (fuel = glyph length; the cursor grows by ≥ 6) -/
def extractLoop (g : Bytes) : Nat → Nat → List Nat
  | 0, _ => []
  | fuel + 1, cursor =>
    if cursor + 4 > g.length then []
    else
      let flags := u16At g cursor
      u16At g (cursor + 2) ::
        (if flags.testBit 5 then extractLoop g fuel (cursor + 4 + compArgsLen flags) else [])

/-- `extract_composite_components` -/
def extractComponents (g : Bytes) : List Nat :=
  if g.length < 12 then []
  else if u16At g 0 < 32768 then []      -- numberOfContours ≥ 0
  else extractLoop g g.length 10

/-- the loop of `remap_composite_glyph` (reads flags from the buffer it is rewriting, as the code) -/
def remapLoop (m : Nat → Option Nat) : Nat → Nat → Bytes → Bytes
  | 0, _, r => r
  | fuel + 1, cursor, r =>
    if cursor + 4 > r.length then r
    else
      let flags := u16At r cursor
      let new := (m (u16At r (cursor + 2))).getD 0
      let r' := setU16 r (cursor + 2) new
      if flags.testBit 5 then remapLoop m fuel (cursor + 4 + compArgsLen flags) r' else r'

/-- `remap_composite_glyph` -/
def remapComposite (g : Bytes) (m : Nat → Option Nat) : Bytes :=
  if g.length < 12 then g
  else if u16At g 0 < 32768 then g
  else remapLoop m g.length 10 g

/-- the loop of `walk_composite_components`: `(last_flags_offset, cursor_after_last)` -/
def walkLoop (g : Bytes) : Nat → Nat → Option (Nat × Nat)
  | 0, _ => none
  | fuel + 1, cursor =>
    if cursor + 4 > g.length then none
    else
      let flags := u16At g cursor
      let next := cursor + 4 + compArgsLen flags
      if next > g.length then none
      else if flags.testBit 5 then walkLoop g fuel next
      else some (cursor, next)

def walkComposite (g : Bytes) : Option (Nat × Nat) :=
  if g.length < 12 then none else walkLoop g g.length 10

/-- `strip_composite_glyph_instructions` -/
def stripComposite (g : Bytes) : Bytes :=
  match walkComposite g with
  | none => g
  | some (lfo, cursor) =>
    let lastFlags := u16At g lfo
    if !lastFlags.testBit 8 then g
    else setU16 (g.take cursor) lfo (lastFlags - 256)     -- `last_flags & !0x0100`

/-- `strip_glyph_instructions` -/
def stripInstructions (g : Bytes) : Bytes :=
  if g.length < 12 then g
  else if u16At g 0 ≥ 32768 then stripComposite g
  else
    let off := 10 + u16At g 0 * 2
    if off + 2 > g.length then g
    else
      let il := u16At g off
      if il = 0 then g
      else if off + 2 + il > g.length then g
      else g.take off ++ [0, 0] ++ g.drop (off + 2 + il)

/-! ### the original file, read sparsely -/

structure File where
  len : Nat
  segs : List (Nat × Bytes)

inductive Rd (α : Type) where
  | ok (a : α)
  | err
  | gap
  deriving Repr, DecidableEq

def Rd.bind {α β} (x : Rd α) (f : α → Rd β) : Rd β :=
  match x with
  | .ok a => f a
  | .err => .err
  | .gap => .gap

instance : Monad Rd where
  pure := Rd.ok
  bind := Rd.bind

/-- bytes `[o, o+n)` when a provided run contains them -/
def File.slice? (f : File) (o n : Nat) : Option Bytes :=
  f.segs.findSome? fun p =>
    if p.1 ≤ o ∧ o + n ≤ p.1 + p.2.length then some ((p.2.drop (o - p.1)).take n) else none

/-- `&data[o..o+n]` for a range known to lie inside the file -/
def File.read (f : File) (o n : Nat) : Rd Bytes :=
  if n = 0 then .ok []
  else match f.slice? o n with
    | some b => .ok b
    | none => .gap

/-- `read_u16(data, o)` -/
def File.u16 (f : File) (o : Nat) : Rd Nat :=
  if o + 2 > f.len then .err else (f.read o 2).bind fun b => .ok (u16At b 0)

/-- `read_u32(data, o)` -/
def File.u32 (f : File) (o : Nat) : Rd Nat :=
  if o + 4 > f.len then .err else (f.read o 4).bind fun b => .ok (u16At b 0 * 65536 + u16At b 2)

/-- a directory entry `(offset, length)` -/
abbrev TableEntry := Nat × Nat

structure Hdr where
  tables : List (Bytes × TableEntry)      -- `HashMap<[u8;4], TableEntry>`: later insert wins
  numGlyphs : Nat
  upem : Nat
  locaFormat : Nat
  isCff : Bool

def tagHead : Bytes := [104, 101, 97, 100]
def tagCmap : Bytes := [99, 109, 97, 112]
def tagGlyf : Bytes := [103, 108, 121, 102]
def tagLoca : Bytes := [108, 111, 99, 97]
def tagMaxp : Bytes := [109, 97, 120, 112]
def tagHhea : Bytes := [104, 104, 101, 97]
def tagHmtx : Bytes := [104, 109, 116, 120]
def tagPost : Bytes := [112, 111, 115, 116]
def tagCff : Bytes := [67, 70, 70, 32]

def lookupTable (ts : List (Bytes × TableEntry)) (tag : Bytes) : Option TableEntry :=
  -- HashMap semantics: the LAST record with this tag
  (ts.reverse.find? (·.1 == tag)).map (·.2)

/-- the directory loop of `TrueTypeFont::parse` -/
def readDir (f : File) : Nat → Nat → Rd (List (Bytes × TableEntry))
  | 0, _ => .ok []
  | n + 1, off =>
    -- `data[offset] …` is direct indexing (a truncated directory panics; not generated)
    if off + 16 > f.len then .err
    else do
      let tag ← f.read off 4
      let o ← f.u32 (off + 8)
      let l ← f.u32 (off + 12)
      let rest ← readDir f n (off + 16)
      pure ((tag, (o, l)) :: rest)

/-- `TrueTypeFont::parse` -/
def parseFont (f : File) : Rd Hdr :=
  if f.len < 12 then .err
  else do
    let sig ← f.u32 0
    if sig ≠ 0x4F54544F ∧ sig ≠ 0x00010000 ∧ sig ≠ 0x74727565 then Rd.err
    else do
      let nt ← f.u16 4
      let tables ← readDir f nt 12
      let isCff := (lookupTable tables tagCff).isSome
      let required := if isCff then [tagHead, tagCmap, tagCff, tagMaxp, tagHhea, tagHmtx]
                      else [tagHead, tagCmap, tagGlyf, tagLoca, tagMaxp, tagHhea, tagHmtx]
      if required.any fun t => (lookupTable tables t).isNone then Rd.err
      else
        match lookupTable tables tagHead, lookupTable tables tagMaxp with
        | some (ho, _), some (mo, _) =>
          if ho + 54 > f.len then Rd.err
          else do
            let upem ← f.u16 (ho + 18)
            let lf ← f.u16 (ho + 50)
            if mo + 6 > f.len then Rd.err
            else do
              let ng ← f.u16 (mo + 4)
              pure { tables, numGlyphs := ng, upem, locaFormat := lf, isCff }
        | _, _ => Rd.err

/-- `TrueTypeFont::get_glyph_data` -/
def getGlyphData (f : File) (h : Hdr) (gid : Nat) : Rd Bytes :=
  if h.isCff then .err
  else
    match lookupTable h.tables tagGlyf, lookupTable h.tables tagLoca with
    | some (glyfOff, _), some (locaOff, locaLen) =>
      let pair : Rd (Option (Nat × Nat)) :=
        if h.locaFormat = 0 then
          let idx := gid * 2
          if idx + 4 > locaLen then .ok none
          else do
            let s ← f.u16 (locaOff + idx)
            let e ← f.u16 (locaOff + idx + 2)
            pure (some (s * 2, e * 2))
        else
          let idx := gid * 4
          if idx + 8 > locaLen then .ok none
          else do
            let s ← f.u32 (locaOff + idx)
            let e ← f.u32 (locaOff + idx + 4)
            pure (some (s, e))
      pair.bind fun
        | none => .ok []
        | some (s, e) =>
          if s ≥ e then .ok []
          else if glyfOff + e > f.len then .err
          else f.read (glyfOff + s) (e - s)
    | _, _ => .err

/-- `TrueTypeFont::get_glyph_metrics`: `(advance, lsb as raw u16)` -/
def getGlyphMetrics (f : File) (h : Hdr) (gid : Nat) : Rd (Nat × Nat) :=
  match lookupTable h.tables tagHhea, lookupTable h.tables tagHmtx with
  | some (hheaOff, _), some (hmtxOff, _) =>
    if hheaOff + 36 > f.len then .err
    else (f.u16 (hheaOff + 34)).bind fun nh =>
      if gid < nh then
        let o := hmtxOff + gid * 4
        if o + 4 > f.len then .err
        else do
          let a ← f.u16 o
          let l ← f.u16 (o + 2)
          pure (a, l)
      else
        -- `(num_h_metrics - 1)`: underflow when 0 (not generated)
        let la := hmtxOff + (nh - 1) * 4
        if la + 2 > f.len then .err
        else (f.u16 la).bind fun a =>
          let lo := hmtxOff + nh * 4 + (gid - nh) * 2
          if lo + 2 > f.len then .ok (a, 0)
          else (f.u16 lo).bind fun l => .ok (a, l)
  | _, _ => .err

/-- `get_table_data` (slices the file: an entry beyond the file panics; not generated) -/
def getTableData (f : File) (h : Hdr) (tag : Bytes) : Rd Bytes :=
  match lookupTable h.tables tag with
  | none => .err
  | some (o, l) => if o + l > f.len then .err else f.read o l

/-! ### checksums, directory, file assembly -/

/-- `calculate_checksum`: big-endian u32 words, last one zero-padded, wrapping sum -/
def checksumAux : Bytes → Nat → Nat
  | a :: b :: c :: d :: rest, acc => checksumAux rest ((acc + (a * 16777216 + b * 65536 + c * 256 + d)) % 4294967296)
  | [a, b, c], acc => (acc + (a * 16777216 + b * 65536 + c * 256)) % 4294967296
  | [a, b], acc => (acc + (a * 16777216 + b * 65536)) % 4294967296
  | [a], acc => (acc + a * 16777216) % 4294967296
  | [], acc => acc

def checksum (d : Bytes) : Nat := checksumAux d 0

/-- `build_post_v3_header` -/
def buildPostV3 (orig : Option Bytes) : Bytes :=
  [0, 3, 0, 0] ++
    (match orig with
     | some src => if src.length ≥ 32 then (src.drop 4).take 28 else List.replicate 28 0
     | none => List.replicate 28 0)

/-- `while off % 4 != 0 { off += 1 }` -/
def align4 (n : Nat) : Nat := (n + 3) / 4 * 4

/-- first pass of `build_font_file`: table offsets -/
def tableOffsets : Nat → List Bytes → List Nat
  | _, [] => []
  | cur, t :: ts => align4 cur :: tableOffsets (align4 cur + t.length) ts

/-- second pass: pad to a 4-byte boundary, then the table -/
def appendTables : Bytes → List Bytes → Bytes
  | out, [] => out
  | out, t :: ts => appendTables (out ++ List.replicate (align4 out.length - out.length) 0 ++ t) ts

def subsetTags : List Bytes := [tagGlyf, tagHead, tagHhea, tagHmtx, tagLoca, tagMaxp, tagPost]

/-- sfnt header + table directory for the 7 tables of a subset -/
def fontHeader (version : Nat) (tables : List Bytes) : Bytes :=
  let n := tables.length
  -- entry_selector = floor(log2 n), search_range = 2^es * 16, range_shift = n*16 - search_range
  let es := Nat.log2 n
  let sr := 2 ^ es * 16
  let offs := tableOffsets (12 + n * 16) tables
  u32be version ++ u16be n ++ u16be sr ++ u16be es ++ u16be (n * 16 - sr) ++
    (List.zip subsetTags (List.zip tables offs)).flatMap fun (tag, t, o) =>
      tag ++ u32be (checksum t) ++ u32be o ++ u32be t.length

/-- write a big-endian u32 at `o` -/
def setU32 (d : Bytes) (o v : Nat) : Bytes :=
  (((d.set o (v / 16777216 % 256)).set (o + 1) (v / 65536 % 256)).set (o + 2) (v / 256 % 256)).set (o + 3) (v % 256)

/-- `build_font_file` after the tables are known.  `head` arrives with checkSumAdjustment
    zeroed (`update_head_table`); once the file is assembled the adjustment
    `0xB1B0AFBA - checksum(file)` is stored at `head + 8`. -/
def assembleFont (version : Nat) (tables : List Bytes) : Bytes :=
  let file := appendTables (fontHeader version tables) tables
  match (tableOffsets (12 + tables.length * 16) tables)[1]? with
  | some headOff => setU32 file (headOff + 8) ((0xB1B0AFBA + 4294967296 - checksum file) % 4294967296)
  | none => file

/-- the file as the code assembled it BEFORE the checkSumAdjustment repair (regression witness) -/
def assembleFontOld (version : Nat) (tables : List Bytes) : Bytes :=
  appendTables (fontHeader version tables) tables

/-! ### build_subset_font -/

/-- glyf of the subset: remapped, instruction-stripped glyphs, each padded to an even length;
    returns the glyph offsets (N+1 entries) and the table -/
def buildGlyf : Nat → List Bytes → List Nat × Bytes
  | cur, [] => ([cur], [])
  | cur, g :: gs =>
    let padded := if (cur + g.length) % 2 ≠ 0 then g ++ [0] else g
    let r := buildGlyf (cur + padded.length) gs
    (cur :: r.1, padded ++ r.2)

/-- the same loop before the padding repair: glyphs appended as they are (regression witness) -/
def buildGlyfOld : Nat → List Bytes → List Nat × Bytes
  | cur, [] => ([cur], [])
  | cur, g :: gs =>
    let r := buildGlyfOld (cur + g.length) gs
    (cur :: r.1, g ++ r.2)

/-- loca bytes in the chosen format: `((offset / 2) as u16)` or the u32 -/
def locaBytes (short : Bool) (offs : List Nat) : Bytes :=
  offs.flatMap fun o => if short then u16be (o / 2 % 65536) else u32be o

def mapM' {α β} (f : α → Rd β) : List α → Rd (List β)
  | [] => .ok []
  | a :: as => (f a).bind fun b => (mapM' f as).bind fun bs => .ok (b :: bs)

/-- `build_subset_font` + `build_hmtx` + `build_font_file` for `sorted` = old ids in new-id order -/
def buildSubsetFont (f : File) (h : Hdr) (sorted : List Gid) : Rd Bytes :=
  let m := remap? sorted
  (mapM' (fun old => (getGlyphData f h old).bind fun d =>
      .ok (stripInstructions (remapComposite d m))) sorted).bind fun glyphs =>
  let (offs, glyf) := buildGlyf 0 glyphs
  let total := offs.getLastD 0
  let short := h.locaFormat == 0 && decide (total ≤ 0x1FFFE)
  let loca := locaBytes short offs
  -- build_hmtx: `get_glyph_metrics(old).unwrap_or((units_per_em, 0))` (a gap stays a gap)
  (mapM' (fun old => match getGlyphMetrics f h old with
      | .ok p => .ok (u16be p.1 ++ u16be p.2)
      | .err => .ok (u16be h.upem ++ [0, 0])
      | .gap => .gap) sorted).bind fun hm =>
  let hmtx := hm.flatten
  let n := sorted.length % 65536
  (f.u32 0).bind fun version =>
  (getTableData f h tagHead).bind fun head =>
  (getTableData f h tagHhea).bind fun hhea =>
  if hhea.length < 36 then .err else
  (getTableData f h tagMaxp).bind fun maxp =>
  if maxp.length < 6 then .err else
  (match getTableData f h tagPost with
    | .ok p => Rd.ok (some p)
    | .err => .ok none
    | .gap => .gap).bind fun post =>
  if head.length < 54 then .err else
  let head' := setU32 (setU16 head 50 (if short then 0 else 1)) 8 0
  .ok (assembleFont version [glyf, head', setU16 hhea 34 n, hmtx, loca, setU16 maxp 4 n, buildPostV3 post])

/-- component lists as `expand_composite_glyphs` sees them (`if let Ok(data) = …`) -/
def byteComps (f : File) (h : Hdr) (g : Gid) : List Gid :=
  match getGlyphData f h g with
  | .ok d => extractComponents d
  | _ => []

def byteClosure (f : File) (h : Hdr) (init : List Gid) : Option (List Gid) :=
  expand (byteComps f h) (init.length + fuelBound) init init

inductive BAns where
  | full (map : List (Nat × Gid))
  | fullAll
  | subset (map : List (Nat × Gid)) (bytes : Bytes)
  | cff
  | err
  | gap
  | stuck
  deriving Repr, DecidableEq

/-- `subset_font(font_data, used_chars)` at the byte level (cmap given) -/
def subsetCharsBytes (f : File) (cmap : Nat → Option Gid) (used : List Nat) : BAns :=
  match parseFont f with
  | .err => .err
  | .gap => .gap
  | .ok h =>
    if shouldSkip f.len used.length then .full (filterMapping cmap used)
    else
      match byteClosure f h (initNeeded used cmap) with
      | none => .stuck
      | some needed =>
        if keepFull f.len needed.length h.numGlyphs then .full (filterMapping cmap used)
        else if h.isCff then .cff
        else
          let sorted := sortGids needed
          match buildSubsetFont f h sorted with
          | .err => .fullAll
          | .gap => .gap
          | .ok bytes => .subset (newMapping cmap sorted used) bytes

/-- `subset_font_by_gids` at the byte level -/
def subsetGidsBytes (f : File) (used : List Gid) : BAns :=
  match parseFont f with
  | .err => .err
  | .gap => .gap
  | .ok h =>
    if h.isCff then .err
    else
      match byteClosure f h (insertNew (used.foldl insertNew []) 0) with
      | none => .stuck
      | some needed =>
        let sorted := sortGids needed
        match buildSubsetFont f h sorted with
        | .err => .err
        | .gap => .gap
        | .ok bytes => .subset (sorted.map fun g => (g, sorted.idxOf g)) bytes

end OxiVerif.C12
