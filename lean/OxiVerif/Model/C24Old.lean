import OxiVerif.Model.C24
/-
The PNG decoding path of oxidize-pdf-core **before** the repairs of C24-F2a/F2b/F3a/F3b/F4/F5
(png_decoder.rs / pdf_image.rs as of /repo fd49685d), kept as the regression the C24 check must
catch: the witness theorems of `Props/C24.lean` are statements about these definitions, and
`Props/C24.lean` proves that the current model does not share them.

  * `bytes_per_row = width * ceil(depth * channels / 8) + 1`          (F2a: wrong below 8 bits)
  * `PngColorType::Palette.channels() = 3` used for the scanline size (F3a), no palette expansion (F3b)
  * `separate_alpha` on 2- / 4-byte groups whatever the depth          (F4)
  * `BitsPerComponent 8` always                                         (F2b, F4)
  * `DecodedPng.transparency` never read                                (F5)
Import-free apart from the current model, whose unchanged parts (chunk walk, unfiltering) it shares.
-/
namespace OxiVerif.C24.Old

def separateAlpha (ct : ColorType) (data : List Nat) : List Nat × Option (List Nat) :=
  match ct with
  | .grayAlpha => let (g, a) := splitChunks 2 1 data.length data; (g, some a)
  | .rgbAlpha => let (c, a) := splitChunks 4 3 data.length data; (c, some a)
  | _ => (data, none)

def bytesPerPixel (depth : Nat) (ct : ColorType) : Nat := (depth * ct.channels + 7) / 8

def decodeImageData (st : Decoder) (raw : List Nat) : Outcome (List Nat × Option (List Nat)) :=
  let bpp := bytesPerPixel st.bitDepth st.colorType
  let bytesPerRow := st.width * bpp + 1
  if st.height * bytesPerRow ≥ usizeMax then .panic
  else if raw.length < st.height * bytesPerRow then .err .insufficient
  else
    match decodeRows bpp (bytesPerRow - 1) st.height raw (List.replicate (bytesPerRow - 1) 0) with
    | .ok decoded =>
      if st.colorType.hasAlpha then .ok (separateAlpha st.colorType decoded) else .ok (decoded, none)
    | .err e => .err e
    | .panic => .panic

/-- what `from_png_data` declared for every accepted PNG -/
def bitsPerComponent (_depth : Nat) : Nat := 8

end OxiVerif.C24.Old
