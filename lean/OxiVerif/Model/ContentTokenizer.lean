/-!
# Model.ContentTokenizer — `parser/content.rs` `ContentTokenizer` and `ContentParser`,
transcribed by hand

* `ContentTokenizer::next_token` and its helpers (`skip_whitespace`, `skip_comment`,
  `read_number`, `read_literal_string`, `read_octal_escape`, `read_hex_string`, `read_name`,
  `decode_name`, `read_operator`)
* `ContentParser::parse_content` (tokenise until `None` **or the first error — the tail is
  dropped silently**), `parse_operators` (an operator whose operands do not fit is skipped, the
  operand stack is cleared after every operator), `parse_operator` and the `pop_*` helpers,
  `parse_text_array`, `parse_dash_array`, `pop_dict_or_name`, `token_to_mc_value`.
* Not modelled: inline images (`BI … ID … EI`): the token after an `ID` operator and the `BI`
  operator answer `unmodelled`.

Quirks kept: white space is {20,09,0D,0A,0C} (NUL is not); a comment runs to LF only (CR does
not end it); `; ) { }` at token start are skipped by a self-call; a lone sign or period is an
error that ends tokenisation; integers are `i32`; `#` in a name skips the next two bytes whatever
they are (when two bytes remain) and `u8::from_str_radix` accepts `#+5`; names and operators must
be valid UTF-8; an unterminated literal string is accepted, an unterminated hex string is an
error; `\` + end-of-line in a string is not a continuation.
Numbers keep their token text (floats are never modelled).  Import-free.
-/
namespace OxiVerif.Model.CT

inductive Token where
  /-- `Token::Number(f32)`: the token text -/
  | number (tok : List Nat)
  | integer (i : Int)
  | str (bs : List Nat)
  | hexStr (bs : List Nat)
  /-- the UTF-8 bytes of the `String` -/
  | name (bs : List Nat)
  | operator (bs : List Nat)
  | arrayStart
  | arrayEnd
  | dictStart
  | dictEnd
  deriving Repr, DecidableEq, Inhabited

/-- outcome of one `next_token` call -/
inductive Step where
  | tok (t : Token) (rest : List Nat)
  /-- `Ok(None)` -/
  | done
  /-- `Err(_)` -/
  | err
  deriving Repr

def isWs (b : Nat) : Bool := b == 32 || b == 9 || b == 13 || b == 10 || b == 12

/-- terminators in `read_name` -/
def isNameBreak (b : Nat) : Bool :=
  isWs b || b == 40 || b == 41 || b == 60 || b == 62 || b == 91 || b == 93 || b == 123 ||
  b == 125 || b == 47 || b == 37

/-- terminators in `read_operator` (`;` too) -/
def isOpBreak (b : Nat) : Bool := isNameBreak b || b == 59

def isDigit (b : Nat) : Bool := 48 ≤ b && b ≤ 57
def isOctal (b : Nat) : Bool := 48 ≤ b && b ≤ 55

def hexVal (b : Nat) : Option Nat :=
  if 48 ≤ b && b ≤ 57 then some (b - 48)
  else if 65 ≤ b && b ≤ 70 then some (b - 55)
  else if 97 ≤ b && b ≤ 102 then some (b - 87)
  else none

/-! ### `std::str::from_utf8` (std, trusted): well-formed UTF-8 -/

def isCont (b : Nat) : Bool := 128 ≤ b && b ≤ 191

def validUtf8 : List Nat → Bool
  | [] => true
  | b :: r =>
    if b < 128 then validUtf8 r
    else if 194 ≤ b && b ≤ 223 then
      match r with
      | c1 :: r1 => isCont c1 && validUtf8 r1
      | _ => false
    else if 224 ≤ b && b ≤ 239 then
      match r with
      | c1 :: c2 :: r2 =>
        isCont c1 && isCont c2 && (b != 224 || 160 ≤ c1) && (b != 237 || c1 ≤ 159) && validUtf8 r2
      | _ => false
    else if 240 ≤ b && b ≤ 244 then
      match r with
      | c1 :: c2 :: c3 :: r3 =>
        isCont c1 && isCont c2 && isCont c3 && (b != 240 || 144 ≤ c1) && (b != 244 || c1 ≤ 143) &&
          validUtf8 r3
      | _ => false
    else false

/-! ### numbers -/

/-- digits and at most one period: (chars, has_dot, rest) -/
def takeMantissa : Bool → List Nat → List Nat × Bool × List Nat
  | hd, [] => ([], hd, [])
  | hd, b :: r =>
    if isDigit b then
      let m := takeMantissa hd r
      (b :: m.1, m.2.1, m.2.2)
    else if b == 46 && !hd then
      let m := takeMantissa true r
      (b :: m.1, m.2.1, m.2.2)
    else ([], hd, b :: r)

def allDigits : List Nat → Bool
  | [] => true
  | b :: r => isDigit b && allDigits r

def digitsVal : List Nat → Nat → Nat
  | [], acc => acc
  | b :: r, acc => digitsVal r (acc * 10 + (b - 48))

def countDigits : List Nat → Nat
  | [] => 0
  | b :: r => (if isDigit b then 1 else 0) + countDigits r

def splitSign : List Nat → Bool × List Nat
  | 43 :: r => (false, r)
  | 45 :: r => (true, r)
  | l => (false, l)

/-- `str::parse::<i32>()` (std, trusted) -/
def parseI32 (s : List Nat) : Option Int :=
  let p := splitSign s
  if p.2.isEmpty || !allDigits p.2 then none
  else
    let n := digitsVal p.2 0
    if p.1 then (if n ≤ 2147483648 then some (- (Int.ofNat n)) else none)
    else (if n ≤ 2147483647 then some (Int.ofNat n) else none)

/-- `read_number`: optional sign, digits with at most one period; `parse::<f32>` needs a digit -/
def readNumber (inp : List Nat) : Step :=
  let sr : List Nat × List Nat :=
    match inp with
    | b :: r => if b == 43 || b == 45 then ([b], r) else ([], inp)
    | [] => ([], inp)
  let m := takeMantissa false sr.2
  let numStr := sr.1 ++ m.1
  if m.2.1 then
    (if countDigits m.1 > 0 then .tok (.number numStr) m.2.2 else .err)
  else
    match parseI32 numStr with
    | some i => .tok (.integer i) m.2.2
    | none => .err

/-! ### strings -/

inductive LitSt where
  | normal
  | esc
  /-- inside `read_octal_escape`: `count` digits read (1 or 2), value so far -/
  | oct1 (v : Nat)
  | oct2 (v : Nat)
  deriving Repr, DecidableEq

/-- `read_literal_string` after the `(`; `d` = `paren_depth - 1`.  End of input ends the loop:
    the string read so far is returned (an octal escape in progress is completed first). -/
def readLit : Nat → LitSt → List Nat → List Nat × List Nat
  | _, .oct1 v, [] => ([v % 256], [])
  | _, .oct2 v, [] => ([v % 256], [])
  | _, _, [] => ([], [])
  | d, .esc, c :: r =>
    let cons (x : Nat) (t : List Nat × List Nat) : List Nat × List Nat := (x :: t.1, t.2)
    if c == 110 then cons 10 (readLit d .normal r)
    else if c == 114 then cons 13 (readLit d .normal r)
    else if c == 116 then cons 9 (readLit d .normal r)
    else if c == 98 then cons 8 (readLit d .normal r)
    else if c == 102 then cons 12 (readLit d .normal r)
    else if isOctal c then readLit d (.oct1 (c - 48)) r
    else cons c (readLit d .normal r)
  | d, st, b :: r =>
    let cons (x : Nat) (t : List Nat × List Nat) : List Nat × List Nat := (x :: t.1, t.2)
    let pending : Option Nat × Bool :=
      match st with
      | .oct1 v => if isOctal b then (none, true) else (some (v % 256), false)
      | .oct2 v => if isOctal b then (some ((v * 8 + (b - 48)) % 256), true) else (some (v % 256), false)
      | _ => (none, false)
    let out (t : List Nat × List Nat) : List Nat × List Nat :=
      match pending.1 with
      | some x => cons x t
      | none => t
    if pending.2 then
      match st with
      | .oct1 v => readLit d (.oct2 (v * 8 + (b - 48))) r
      | _ => out (readLit d .normal r)
    else if b == 92 then out (readLit d .esc r)
    else if b == 40 then out (cons 40 (readLit (d + 1) .normal r))
    else if b == 41 then
      (if d == 0 then out ([], r) else out (cons 41 (readLit (d - 1) .normal r)))
    else out (cons b (readLit d .normal r))

/-- `read_hex_string` after the `<`: `none` = error (bad character / unterminated) -/
def readHexStr : Option Nat → List Nat → Option (List Nat × List Nat)
  | _, [] => none
  | p, b :: r =>
    if b == 62 then
      match p with
      | some h => some ([h * 16], r)
      | none => some ([], r)
    else
      match hexVal b with
      | some v =>
        match p with
        | none => readHexStr (some v) r
        | some h =>
          match readHexStr none r with
          | some (s, rest) => some ((h * 16 + v) :: s, rest)
          | none => none
      | none => if isWs b then readHexStr p r else none

/-! ### names -/

/-- the scan loop of `read_name`: after `#` the next two bytes are skipped when two bytes remain.
    `skip` = bytes still to be skipped.  Returns (raw name bytes, rest). -/
def scanName : Nat → List Nat → List Nat × List Nat
  | _, [] => ([], [])
  | skip + 1, b :: r =>
    let t := scanName skip r
    (b :: t.1, t.2)
  | 0, b :: r =>
    if isNameBreak b then ([], b :: r)
    else
      let t := scanName (if b == 35 && 2 ≤ r.length then 2 else 0) r
      (b :: t.1, t.2)

/-- `u8::from_str_radix(two bytes, 16)`: two hex digits, or `+` and one hex digit -/
def hexPair (h1 h2 : Nat) : Option Nat :=
  if h1 == 43 then hexVal h2
  else
    match hexVal h1, hexVal h2 with
    | some a, some c => some (a * 16 + c)
    | _, _ => none

inductive DecSt where
  | plain
  | h1
  | h2 (a : Nat)
  deriving Repr, DecidableEq

/-- `decode_name` before the UTF-8 check: `#` followed by at least two bytes is a hex escape -/
def decodeName : DecSt → List Nat → Option (List Nat)
  | .plain, [] => some []
  | _, [] => none
  | .plain, b :: r =>
    if b == 35 && 2 ≤ r.length then decodeName .h1 r
    else (decodeName .plain r).map (b :: ·)
  | .h1, b :: r => decodeName (.h2 b) r
  | .h2 a, b :: r =>
    match hexPair a b with
    | some v => (decodeName .plain r).map (v :: ·)
    | none => none

/-- `read_name` after the `/` -/
def readName (inp : List Nat) : Step :=
  let s := scanName 0 inp
  match decodeName .plain s.1 with
  | some bs => if validUtf8 bs then .tok (.name bs) s.2 else .err
  | none => .err

/-- the scan loop of `read_operator` -/
def scanOp : List Nat → List Nat × List Nat
  | [] => ([], [])
  | b :: r =>
    if isOpBreak b then ([], b :: r)
    else
      let t := scanOp r
      (b :: t.1, t.2)

/-! ### `next_token` -/

/-- `next_token` with `in_inline_image = false`.  `inComment` = inside `skip_comment` (a comment
    runs up to LF; the LF itself is then skipped as white space). -/
def nextTok : Bool → List Nat → Step
  | _, [] => .done
  | true, b :: r => if b == 10 then nextTok false r else nextTok true r
  | false, b :: r =>
    if isWs b then nextTok false r
    else if b == 37 then nextTok true r
    else if b == 43 || b == 45 || b == 46 || isDigit b then readNumber (b :: r)
    else if b == 40 then
      let t := readLit 0 .normal r
      .tok (.str t.1) t.2
    else if b == 60 then
      match r with
      | 60 :: r' => .tok .dictStart r'
      | _ =>
        match readHexStr none r with
        | some (s, rest) => .tok (.hexStr s) rest
        | none => .err
    else if b == 62 then
      match r with
      | 62 :: r' => .tok .dictEnd r'
      | _ => .err
    else if b == 91 then .tok .arrayStart r
    else if b == 93 then .tok .arrayEnd r
    else if b == 47 then readName r
    else if b == 59 || b == 41 || b == 123 || b == 125 then nextTok false r
    else
      let t := scanOp (b :: r)
      if validUtf8 t.1 then .tok (.operator t.1) t.2 else .err

def nextToken (inp : List Nat) : Step := nextTok false inp

/-- the tokenising loop of `parse_content`: all tokens up to `Ok(None)` or the first `Err`;
    the `Bool` says that an `ID` operator was met (inline image data follows: not modelled) -/
def tokenize : Nat → List Nat → List Token × Bool
  | 0, _ => ([], false)
  | fuel + 1, inp =>
    match nextToken inp with
    | .done => ([], false)
    | .err => ([], false)
    | .tok t rest =>
      if t == .operator [73, 68] then ([t], true)
      else
        let r := tokenize fuel rest
        (t :: r.1, r.2)

/-! ## `ContentParser` -/

inductive McValue where
  | str (bs : List Nat)
  | int (i : Int)
  | real (tok : List Nat)
  | name (bs : List Nat)
  | arr (xs : List McValue)
  | dict (kvs : List (List Nat × McValue))
  deriving Repr, Inhabited

inductive Arg where
  /-- an `f32` that came from `Token::Number` (token text) -/
  | num (tok : List Nat)
  /-- an `f32` that came from `Token::Integer` (`i as f32`) -/
  | numI (i : Int)
  | int (i : Int)
  | name (bs : List Nat)
  | str (bs : List Nat)
  | nums (xs : List Arg)
  | textArr (xs : List Arg)
  | propsRef (bs : List Nat)
  | propsInline (kvs : List (List Nat × McValue))
  deriving Repr, Inhabited

/-- a parsed `ContentOperation`: canonical operator keyword + arguments in declaration order -/
structure Parsed where
  kw : List Nat
  args : List Arg
  deriving Repr, Inhabited

/-- the operand stack: top of the stack first -/
abbrev Stack := List Token

def popNumber : Stack → Option (Arg × Stack)
  | .number t :: r => some (.num t, r)
  | .integer i :: r => some (.numI i, r)
  | _ => none

def popInteger : Stack → Option (Arg × Stack)
  | .integer i :: r => some (.int i, r)
  | _ => none

def popName : Stack → Option (List Nat × Stack)
  | .name n :: r => some (n, r)
  | _ => none

def popString : Stack → Option (Arg × Stack)
  | .str s :: r => some (.str s, r)
  | .hexStr s :: r => some (.str s, r)
  | _ => none

/-- pop `n` numbers; the result lists them in source order (first popped = last) -/
def popNumbers : Nat → Stack → Option (List Arg × Stack)
  | 0, s => some ([], s)
  | n + 1, s =>
    match popNumber s with
    | none => none
    | some (a, s') =>
      match popNumbers n s' with
      | none => none
      | some (as, s'') => some (as ++ [a], s'')

/-- the collecting loop of `pop_array` (after an optional leading `ArrayEnd` was removed):
    tokens in pop order until `ArrayStart`; further `ArrayEnd`s are skipped -/
def popArrayLoop : Stack → Option (List Token × Stack)
  | [] => none
  | .arrayStart :: r => some ([], r)
  | .arrayEnd :: r => popArrayLoop r
  | t :: r =>
    match popArrayLoop r with
    | some (ts, r') => some (t :: ts, r')
    | none => none

/-- `pop_array`: the tokens of the array in source order -/
def popArray (s : Stack) : Option (List Token × Stack) :=
  let s' := match s with
    | .arrayEnd :: r => r
    | l => l
  match popArrayLoop s' with
  | some (ts, r) => some (ts.reverse, r)
  | none => none

def textArray : List Token → Option (List Arg)
  | [] => some []
  | .str s :: r => (textArray r).map (.str s :: ·)
  | .hexStr s :: r => (textArray r).map (.str s :: ·)
  | .number t :: r => (textArray r).map (.num t :: ·)
  | .integer i :: r => (textArray r).map (.numI i :: ·)
  | _ => none

def dashArray : List Token → Option (List Arg)
  | [] => some []
  | .number t :: r => (dashArray r).map (.num t :: ·)
  | .integer i :: r => (dashArray r).map (.numI i :: ·)
  | _ => none

/-- `pop_color_components`: all numbers on top of the stack, in source order -/
def popColorComponents : Stack → List Arg → List Arg × Stack
  | .number t :: r, acc => popColorComponents r (.num t :: acc)
  | .integer i :: r, acc => popColorComponents r (.numI i :: acc)
  | s, acc => (acc, s)

mutual
/-- `token_to_mc_value(token, operands)` -/
def mcValue : Nat → Token → Stack → Option (McValue × Stack)
  | 0, _, _ => none
  | fuel + 1, tok, s =>
    match tok with
    | .str b => some (.str b, s)
    | .hexStr b => some (.str b, s)
    | .integer i => some (.int i, s)
    | .number t => some (.real t, s)
    | .name n => some (.name n, s)
    | .arrayEnd =>
      match mcArrayItems fuel s with
      | some (items, s') => some (.arr items.reverse, s')
      | none => none
    | .dictEnd =>
      match mcDictItems fuel s with
      | some (kvs, s') => some (.dict kvs, s')
      | none => none
    | _ => none
/-- items popped until `ArrayStart` (pop order) -/
def mcArrayItems : Nat → Stack → Option (List McValue × Stack)
  | 0, _ => none
  | _, [] => none
  | fuel + 1, t :: r =>
    if t == .arrayStart then some ([], r)
    else
      match mcValue fuel t r with
      | none => none
      | some (v, r') =>
        match mcArrayItems fuel r' with
        | some (vs, r'') => some (v :: vs, r'')
        | none => none
/-- value-then-key pairs popped until `DictStart`; insertion order = pop order -/
def mcDictItems : Nat → Stack → Option (List (List Nat × McValue) × Stack)
  | 0, _ => none
  | _, [] => none
  | fuel + 1, t :: r =>
    if t == .dictStart then some ([], r)
    else
      match mcValue fuel t r with
      | none => none
      | some (v, r') =>
        match r' with
        | .name k :: r'' =>
          match mcDictItems fuel r'' with
          | some (kvs, r''') => some ((k, v) :: kvs, r''')
          | none => none
        | _ => none
end

/-- `pop_dict_or_name` -/
def popDictOrName (s : Stack) : Option (Arg × Stack) :=
  match s with
  | .name n :: r => some (.propsRef n, r)
  | .dictEnd :: r =>
    match mcDictItems (2 * r.length + 2) r with
    | some (kvs, r') => some (.propsInline kvs, r')
    | none => none
  | _ => none

/-- operators that take `n` numbers: (keyword, n) -/
def numOps : List (List Nat × Nat) :=
  [([84, 99], 1), ([84, 119], 1), ([84, 122], 1), ([84, 76], 1), ([84, 115], 1), ([84, 100], 2), ([84, 68], 2), ([84, 109], 6), ([99, 109], 6), ([119], 1), ([77], 1), ([105], 1), ([109], 2), ([108], 2), ([99], 6), ([118], 4), ([121], 4), ([114, 101], 4), ([71], 1), ([103], 1), ([82, 71], 3), ([114, 103], 3), ([75], 4), ([107], 4)]

/-- operators without operands: (keyword, canonical keyword) — `F` is `Fill` like `f` -/
def noArgOps : List (List Nat × List Nat) :=
  [([66, 84], [66, 84]), ([69, 84], [69, 84]), ([84, 42], [84, 42]), ([113], [113]), ([81], [81]), ([104], [104]), ([83], [83]), ([115], [115]), ([102], [102]), ([70], [102]), ([102, 42], [102, 42]), ([66], [66]), ([66, 42], [66, 42]), ([98], [98]), ([98, 42], [98, 42]), ([110], [110]), ([87], [87]), ([87, 42], [87, 42]), ([69, 77, 67], [69, 77, 67]), ([66, 88], [66, 88]), ([69, 88], [69, 88])]

/-- `ri gs CS cs sh Do BMC MP` -/
def nameOps : List (List Nat) := [[114, 105], [103, 115], [67, 83], [99, 115], [115, 104], [68, 111], [66, 77, 67], [77, 80]]

/-- `Tr J j` -/
def intOps : List (List Nat) := [[84, 114], [74], [106]]

def kTf : List Nat := [84, 102]
def kTj : List Nat := [84, 106]
def kQuote : List Nat := [39]
def kDQuote : List Nat := [34]
def kTJ : List Nat := [84, 74]
def kd : List Nat := [100]
def kSC : List Nat := [83, 67]
def kSCN : List Nat := [83, 67, 78]
def ksc : List Nat := [115, 99]
def kscn : List Nat := [115, 99, 110]
def kBDC : List Nat := [66, 68, 67]
def kDP : List Nat := [68, 80]
def kBI : List Nat := [66, 73]

def lookup2 {β : Type} (k : List Nat) : List (List Nat × β) → Option β
  | [] => none
  | (k', v) :: r => if k == k' then some v else lookup2 k r

inductive OpResult where
  | ok (p : Parsed)
  /-- `Err`: the operator is skipped -/
  | skip
  | unmodelled

/-- `parse_operator(op, operands)` -/
def parseOperator (op : List Nat) (s : Stack) : OpResult :=
  match lookup2 op noArgOps with
  | some k => .ok ⟨k, []⟩
  | none =>
  match lookup2 op numOps with
  | some n =>
    (match popNumbers n s with
     | some (as, _) => .ok ⟨op, as⟩
     | none => .skip)
  | none =>
  if nameOps.contains op then
    (match popName s with
     | some (n, _) => .ok ⟨op, [.name n]⟩
     | none => .skip)
  else if intOps.contains op then
    (match popInteger s with
     | some (a, _) => .ok ⟨op, [a]⟩
     | none => .skip)
  else if op == kTf then
    (match popNumber s with
     | some (size, s') =>
       (match popName s' with
        | some (n, _) => .ok ⟨kTf, [.name n, size]⟩
        | none => .skip)
     | none => .skip)
  else if op == kTj || op == kQuote then
    (match popString s with
     | some (a, _) => .ok ⟨op, [a]⟩
     | none => .skip)
  else if op == kDQuote then
    (match popString s with
     | some (t, s1) =>
       (match popNumber s1 with
        | some (ac, s2) =>
          (match popNumber s2 with
           | some (aw, _) => .ok ⟨kDQuote, [aw, ac, t]⟩
           | none => .skip)
        | none => .skip)
     | none => .skip)
  else if op == kTJ then
    (match popArray s with
     | some (ts, _) =>
       (match textArray ts with
        | some es => .ok ⟨kTJ, [.textArr es]⟩
        | none => .skip)
     | none => .skip)
  else if op == kd then
    (match popNumber s with
     | some (phase, s1) =>
       (match popArray s1 with
        | some (ts, _) =>
          (match dashArray ts with
           | some es => .ok ⟨kd, [.nums es, phase]⟩
           | none => .skip)
        | none => .skip)
     | none => .skip)
  else if op == kSC || op == kSCN then .ok ⟨kSC, [.nums (popColorComponents s []).1]⟩
  else if op == ksc || op == kscn then .ok ⟨ksc, [.nums (popColorComponents s []).1]⟩
  else if op == kBDC || op == kDP then
    (match popDictOrName s with
     | some (props, s1) =>
       (match popName s1 with
        | some (tag, _) => .ok ⟨op, [.name tag, props]⟩
        | none => .skip)
     | none => .skip)
  else if op == kBI then .unmodelled
  else .skip

/-- `parse_operators`: `stack` = operand stack (top first).  `none` = a path not modelled. -/
def parseOperators : List Token → Stack → Option (List Parsed)
  | [], _ => some []
  | .operator op :: r, stack =>
    match parseOperator op stack with
    | .ok p => (parseOperators r []).map (p :: ·)
    | .skip => parseOperators r []
    | .unmodelled => none
  | t :: r, stack => parseOperators r (t :: stack)

/-- `ContentParser::parse` / `parse_content`: `none` = inline image met (not modelled) -/
def parseContent (content : List Nat) : Option (List Parsed) :=
  let t := tokenize (content.length + 1) content
  if t.2 then none else parseOperators t.1 []

end OxiVerif.Model.CT
