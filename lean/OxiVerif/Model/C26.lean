/-
C26 — executable model of `oxidize-pdf-core/src/text/cmap.rs`:
`tokenize_cmap`, `parse_hex`, `CMap::parse` (token state machine), `CMap::map`, `is_valid_code`,
`to_unicode`, `increment_be`, `calculate_offset`, `CodeRange::contains`,
`ToUnicodeCMapBuilder::build`, `string_to_utf16_be_bytes`, `hex_string`.

Bytes and code units are `Nat`; a CMap text is a `List Nat` of bytes.  The tokenizer works on the
BYTES of the text and turns every byte into one `char` (Latin-1 reading) when it builds names,
keywords and the inside of `<…>`; so names/keywords are lists of char codes 0..255 here, and
`parse_hex` sees chars 0..255.  `CMap::parse` rejects texts that are not UTF-8 (`parseText`).
`usize` arithmetic in `calculate_offset` is modelled in ℕ (no overflow below 8-byte codes; code
spaces are 1–4 bytes).
Import-free.
-/
namespace OxiVerif.C26

abbrev Bytes := List Nat

inductive Tok where
  | hex (b : Bytes)
  | arr (l : List Bytes)
  | name (s : Bytes)
  | int (i : Int)
  | kw (s : Bytes)
  deriving DecidableEq, Repr, Inhabited

/-! ### byte-string helpers -/

/-- Rust slice ordering `a <= b` on `[u8]`: lexicographic, a proper prefix is smaller. -/
def leLex : Bytes → Bytes → Bool
  | [], _ => true
  | _ :: _, [] => false
  | x :: xs, y :: ys => if x < y then true else if y < x then false else leLex xs ys

/-- big-endian value -/
def be (bs : Bytes) : Nat := bs.foldl (fun acc b => acc * 256 + b) 0

/-- `increment_be`: +1 with carry, in place; the flag is "no overflow". -/
def incRev : Bytes → Bytes × Bool     -- on the reversed (little-endian) list
  | [] => ([], false)
  | b :: r =>
    if b + 1 < 256 then ((b + 1) :: r, true)
    else
      let (r', ok) := incRev r
      (0 :: r', ok)

def incrementBe (bs : Bytes) : Bytes × Bool :=
  let (r, ok) := incRev bs.reverse
  (r.reverse, ok)

/-- the add-with-carry loop of `CMap::map` (and `source_code_for_unicode`), on the reversed list:
`sum = byte + carry; byte = sum & 0xFF; carry = sum >> 8; if carry == 0 break` -/
def addRev : Bytes → Nat → Bytes
  | [], _ => []
  | b :: r, carry =>
    let sum := b + carry
    let c' := sum / 256
    (sum % 256) :: (if c' = 0 then r else addRev r c')

def addCarry (dst : Bytes) (k : Nat) : Bytes := (addRev dst.reverse k).reverse

/-- `calculate_offset` (saturating) -/
def calculateOffset (code start : Bytes) : Nat := be code - be start

/-! ### `parse_hex` (chars 0..255: the tokenizer hands every byte over as one char) -/

def isWsChar (c : Nat) : Bool :=   -- `char::is_whitespace` below U+0100
  (0x09 ≤ c && c ≤ 0x0D) || c == 0x20 || c == 0x85 || c == 0xA0

def isAsciiWs (c : Nat) : Bool :=  -- `u8::is_ascii_whitespace`
  c == 0x09 || c == 0x0A || c == 0x0C || c == 0x0D || c == 0x20

def hexDigitVal (c : Nat) : Option Nat :=
  if 48 ≤ c ∧ c ≤ 57 then some (c - 48)
  else if 97 ≤ c ∧ c ≤ 102 then some (c - 87)
  else if 65 ≤ c ∧ c ≤ 70 then some (c - 55)
  else none

/-- `u8::from_str_radix(two chars, 16)`: two hex digits, or `+` and one hex digit. -/
def hexPair (a b : Nat) : Option Nat :=
  match hexDigitVal a, hexDigitVal b with
  | some x, some y => some (x * 16 + y)
  | none, some y => if a == 0x2B then some y else none
  | _, _ => none

def hexPairs : Bytes → Option Bytes
  | [] => some []
  | [_] => none
  | a :: b :: r =>
    match hexPair a b, hexPairs r with
    | some v, some vs => some (v :: vs)
    | _, _ => none

def dropWhileEq (c : Nat) : Bytes → Bytes
  | [] => []
  | x :: r => if x == c then dropWhileEq c r else x :: r

/-- `parse_hex(s)`: trim leading `<`, trailing `>`, drop white space (`char::is_whitespace`), refuse
anything non-ASCII (`!clean.is_ascii()`), then pairs of hex digits. -/
def parseHex (s : Bytes) : Option Bytes :=
  let s := dropWhileEq 0x3C s
  let s := (dropWhileEq 0x3E s.reverse).reverse
  let clean := s.filter fun c => !isWsChar c
  if clean.any (fun c => c ≥ 0x80) then none
  else if clean.length % 2 != 0 then none else hexPairs clean

/-! #### the definition before the repair (kept as the regression the check must catch)
`clean` was a `String`; `clean.len()` counted UTF-8 bytes (2 per char ≥ 0x80) and the loop took
`&clean[i..i + 2]` at BYTE offsets — a panic when `i` or `i + 2` is not a char boundary. -/

inductive HexOld where
  | panic                      -- `byte index … is not a char boundary`
  | res (r : Option Bytes)
  deriving DecidableEq, Repr

/-- UTF-8 image of a string of chars 0..255 -/
def latin1Utf8 (cs : Bytes) : Bytes :=
  cs.flatMap fun c => if c < 0x80 then [c] else [0xC0 + c / 64, 0x80 + c % 64]

def isContByte (b : Nat) : Bool := 0x80 ≤ b && b ≤ 0xBF

/-- the `for i in (0..len).step_by(2)` loop over the UTF-8 bytes; `rest` starts at a byte offset `i` -/
def hexPairsOld : Bytes → List Nat → HexOld
  | [], acc => .res (some acc.reverse)
  | [_], _ => .panic                         -- unreachable: the length is even
  | a :: b :: r, acc =>
    -- `i` is a boundary iff `a` is not a continuation byte; `i + 2` iff the next byte is not one
    if isContByte a || (r.head?.map isContByte).getD false then .panic
    else
      match hexPair a b with
      | some v => hexPairsOld r (v :: acc)
      | none => .res none

def parseHexOld (s : Bytes) : HexOld :=
  let s := dropWhileEq 0x3C s
  let s := (dropWhileEq 0x3E s.reverse).reverse
  let clean := latin1Utf8 (s.filter fun c => !isWsChar c)
  if clean.length % 2 != 0 then .res none else hexPairsOld clean []

/-! ### `tokenize_cmap` -/

def isDelim (c : Nat) : Bool :=
  isAsciiWs c || c == 0x3C || c == 0x3E || c == 0x2F || c == 0x5B || c == 0x5D || c == 0x28 ||
  c == 0x29 || c == 0x25

def isDigit (c : Nat) : Bool := 48 ≤ c && c ≤ 57

/-- index of the first `>` unless a `<` comes first (hex string scan at top level) -/
def scanHexTop : Bytes → Nat → Option Nat
  | [], _ => none
  | c :: r, i => if c == 0x3E then some i else if c == 0x3C then none else scanHexTop r (i + 1)

/-- index of the first `>` (inside arrays: `position(|c| c == '>')`) -/
def scanGt : Bytes → Nat → Option Nat
  | [], _ => none
  | c :: r, i => if c == 0x3E then some i else scanGt r (i + 1)

def decDigits (ds : Bytes) : Nat := ds.foldl (fun a d => a * 10 + (d - 48)) 0

/-- `str::parse::<i64>` of `-?digits` (`none` on overflow) -/
def parseI64 (s : Bytes) : Option Int :=
  match s with
  | 0x2D :: ds =>
    let v := decDigits ds
    if v ≤ 9223372036854775808 then some (-(Int.ofNat v)) else none
  | ds =>
    let v := decDigits ds
    if v ≤ 9223372036854775807 then some (Int.ofNat v) else none

/-- literal string skipper: returns the rest after the balanced `( … )` -/
def skipLit : Nat → Bytes → Nat → Bytes
  | 0, r, _ => r
  | _, [], _ => []
  | fuel + 1, c :: r, depth =>
    if depth == 0 then c :: r
    else if c == 0x5C then
      match r with
      | _ :: r' => skipLit fuel r' depth          -- `\` with a following byte: skip both
      | [] => skipLit fuel [] depth               -- `\` last byte: `_ => i += 1`
    else if c == 0x28 then skipLit fuel r (depth + 1)
    else if c == 0x29 then skipLit fuel r (depth - 1)
    else skipLit fuel r depth

/-- the array branch: returns (values, rest) -/
def tokArray : Nat → Bytes → List Bytes → List Bytes × Bytes
  | 0, r, acc => (acc.reverse, r)
  | _, [], acc => (acc.reverse, [])
  | fuel + 1, c :: r, acc =>
    if isAsciiWs c then tokArray fuel r acc
    else if c == 0x5D then (acc.reverse, r)
    else if c == 0x3C then
      match scanGt r 0 with
      | some n =>
        let inner := r.take n
        let rest := r.drop (n + 1)
        match parseHex inner with
        | some d => tokArray fuel rest (d :: acc)
        | none => tokArray fuel rest acc
      | none => (acc.reverse, c :: r)        -- `break`: the `<` is not consumed
    else tokArray fuel r acc

def spanP (p : Nat → Bool) : Bytes → Bytes × Bytes
  | [] => ([], [])
  | c :: r => if p c then let (a, b) := spanP p r; (c :: a, b) else ([], c :: r)

def tokenizeAux : Nat → Bytes → List Tok → List Tok
  | 0, _, acc => acc.reverse
  | _, [], acc => acc.reverse
  | fuel + 1, b :: r, acc =>
    if isAsciiWs b then tokenizeAux fuel r acc
    else if b == 0x25 then                                   -- comment up to (not including) LF
      tokenizeAux fuel (spanP (fun c => c != 0x0A) r).2 acc
    else if b == 0x3C && r.head? == some 0x3C then tokenizeAux fuel (r.drop 1) acc
    else if b == 0x3E && r.head? == some 0x3E then tokenizeAux fuel (r.drop 1) acc
    else if b == 0x3C then
      match scanHexTop r 0 with
      | some n =>
        let inner := r.take n
        let rest := r.drop (n + 1)
        match parseHex inner with
        | some d => tokenizeAux fuel rest (.hex d :: acc)
        | none => tokenizeAux fuel rest acc
      | none => tokenizeAux fuel r acc
    else if b == 0x5B then
      let (vals, rest) := tokArray (r.length + 1) r []
      tokenizeAux fuel rest (.arr vals :: acc)
    else if b == 0x28 then tokenizeAux fuel (skipLit (r.length + 1) r 1) acc
    else if b == 0x2F then
      let (nm, rest) := spanP (fun c => !isDelim c) r
      if nm.isEmpty then tokenizeAux fuel rest acc else tokenizeAux fuel rest (.name nm :: acc)
    else if isDigit b || (b == 0x2D && (r.head?.map isDigit).getD false) then
      let (ds, rest) := spanP isDigit r
      match parseI64 (b :: ds) with
      | some n => tokenizeAux fuel rest (.int n :: acc)
      | none => tokenizeAux fuel rest acc
    else
      let (kw, rest) := spanP (fun c => !isDelim c) (b :: r)
      if kw.isEmpty then tokenizeAux fuel r acc              -- stray close delimiter
      else tokenizeAux fuel rest (.kw kw :: acc)

def tokenize (text : Bytes) : List Tok := tokenizeAux (text.length + 1) text []

/-! ### `CMap::parse` on tokens -/

inductive Entry where
  | single (src dst : Bytes)
  | range (lo hi dst : Bytes)
  deriving DecidableEq, Repr, Inhabited

structure CMap where
  name : Option Bytes := none
  wmode : Nat := 0
  codespace : List (Bytes × Bytes) := []
  mappings : List Entry := []           -- in push order
  singles : List (Bytes × Bytes) := []  -- `single_mappings` as an insertion log, NEWEST FIRST
  inherited : Option Bytes := none
  deriving Repr, Inhabited

def str (s : String) : Bytes := s.toList.map Char.toNat

/-- the `for dst in dsts` loop of the bfrange array form -/
def arrayLoop : List Bytes → Bytes → Bytes → CMap → CMap
  | [], _, _, m => m
  | d :: ds, cur, hi, m =>
    let m := { m with singles := (cur, d) :: m.singles, mappings := m.mappings ++ [.single cur d] }
    if leLex hi cur then m else arrayLoop ds (incrementBe cur).1 hi m

def sectionCs : Nat → List Tok → CMap → List Tok × CMap
  | 0, ts, m => (ts, m)
  | _, [], m => ([], m)
  | fuel + 1, t :: ts, m =>
    match t with
    | .kw k => if k == str "endcodespacerange" then (ts, m) else sectionCs fuel ts m
    | .hex a =>
      match ts with
      | .hex b :: ts' => sectionCs fuel ts' { m with codespace := m.codespace ++ [(a, b)] }
      | _ => sectionCs fuel ts m
    | _ => sectionCs fuel ts m

def sectionChar : Nat → List Tok → CMap → List Tok × CMap
  | 0, ts, m => (ts, m)
  | _, [], m => ([], m)
  | fuel + 1, t :: ts, m =>
    match t with
    | .kw k => if k == str "endbfchar" then (ts, m) else sectionChar fuel ts m
    | .hex a =>
      match ts with
      | .hex b :: ts' =>
        sectionChar fuel ts' { m with singles := (a, b) :: m.singles, mappings := m.mappings ++ [.single a b] }
      | _ => sectionChar fuel ts m
    | _ => sectionChar fuel ts m

def sectionRange : Nat → List Tok → CMap → List Tok × CMap
  | 0, ts, m => (ts, m)
  | _, [], m => ([], m)
  | fuel + 1, t :: ts, m =>
    match t with
    | .kw k => if k == str "endbfrange" then (ts, m) else sectionRange fuel ts m
    | .hex lo =>
      match ts with
      | .hex hi :: .hex dst :: ts' =>
        sectionRange fuel ts' { m with mappings := m.mappings ++ [.range lo hi dst] }
      | .hex hi :: .arr ds :: ts' => sectionRange fuel ts' (arrayLoop ds lo hi m)
      | _ => sectionRange fuel ts m
    | _ => sectionRange fuel ts m

/-- nearest `Name` token before the `usecmap` keyword -/
def lastName : List Tok → Option Bytes     -- the list of already consumed tokens, newest first
  | [] => none
  | .name n :: _ => some n
  | _ :: r => lastName r

def parseAux : Nat → List Tok → List Tok → CMap → CMap   -- fuel, remaining, consumed (newest first)
  | 0, _, _, m => m
  | _, [], _, m => m
  | fuel + 1, t :: ts, seen, m =>
    match t with
    | .name n =>
      if n == str "CMapName" then
        match ts with
        | .name v :: ts' => parseAux fuel ts' (.name v :: t :: seen) { m with name := some v }
        | _ => parseAux fuel ts (t :: seen) m
      else if n == str "WMode" then
        match ts with
        | .int w :: ts' => parseAux fuel ts' (.int w :: t :: seen) { m with wmode := (w % 256).toNat }
        | _ => parseAux fuel ts (t :: seen) m
      else parseAux fuel ts (t :: seen) m
    | .kw k =>
      if k == str "usecmap" then
        let m := match lastName seen with
          | some p => { m with inherited := some p }
          | none => m
        parseAux fuel ts (t :: seen) m
      else if k == str "begincodespacerange" then
        let (rest, m') := sectionCs (ts.length + 1) ts m
        parseAux fuel rest ((ts.take (ts.length - rest.length)).reverse ++ t :: seen) m'
      else if k == str "beginbfchar" then
        let (rest, m') := sectionChar (ts.length + 1) ts m
        parseAux fuel rest ((ts.take (ts.length - rest.length)).reverse ++ t :: seen) m'
      else if k == str "beginbfrange" then
        let (rest, m') := sectionRange (ts.length + 1) ts m
        parseAux fuel rest ((ts.take (ts.length - rest.length)).reverse ++ t :: seen) m'
      else parseAux fuel ts (t :: seen) m
    | _ => parseAux fuel ts (t :: seen) m

def parseTokens (ts : List Tok) : CMap := parseAux (ts.length + 1) ts [] {}

def parse (text : Bytes) : CMap := parseTokens (tokenize text)

/-! ### lookup -/

def lookupSingle : List (Bytes × Bytes) → Bytes → Option Bytes
  | [], _ => none
  | (k, v) :: r, c => if k == c then some v else lookupSingle r c

/-- the `zip … all` of `CodeRange::contains`: every byte between the corresponding bounds -/
def bytesWithin : Bytes → Bytes → Bytes → Bool
  | c :: cs, l :: ls, h :: hs => l ≤ c && c ≤ h && bytesWithin cs ls hs
  | _, _, _ => true

/-- `CodeRange::contains` (byte-wise since the repair) -/
def rangeContains (r : Bytes × Bytes) (code : Bytes) : Bool :=
  if code.length != r.1.length || code.length != r.2.length then false
  else bytesWithin code r.1 r.2

/-- `CodeRange::contains` before the repair: a numeric (lexicographic) interval -/
def rangeContainsOld (r : Bytes × Bytes) (code : Bytes) : Bool :=
  if code.length != r.1.length || code.length != r.2.length then false
  else leLex r.1 code && leLex code r.2

def inheritedIs (m : CMap) (n : String) : Bool := m.inherited == some (str n)

/-- `is_valid_code` -/
def isValidCode (m : CMap) (code : Bytes) : Bool :=
  m.codespace.any (fun r => rangeContains r code) ||
  (code.length == 2 && (inheritedIs m "Identity-H" || inheritedIs m "Identity-V"))

def lookupRange : List Entry → Bytes → Option Bytes
  | [], _ => none
  | .range lo hi dst :: r, c =>
    if c.length == lo.length && leLex lo c && leLex c hi then some (addCarry dst (calculateOffset c lo))
    else lookupRange r c
  | _ :: r, c => lookupRange r c

/-- `CMap::map` for a parsed CMap (`cmap_type` is always `ToUnicode` after `parse`). -/
def map (m : CMap) (code : Bytes) : Option Bytes :=
  match lookupSingle m.singles code with
  | some d => some d
  | none =>
    match lookupRange m.mappings code with
    | some d => some d
    | none =>
      if !isValidCode m code then none
      else if code.length == 2 && (inheritedIs m "Identity-H" || inheritedIs m "Identity-V") then some code
      else none

/-! ### `to_unicode` (ToUnicode type): UTF-16BE for even length, UTF-8 otherwise (strict) -/

def units : Bytes → List Nat
  | a :: b :: r => (a * 256 + b) :: units r
  | _ => []

/-- `String::from_utf16(..).ok()` -/
def utf16Strict : List Nat → Option (List Nat)
  | [] => some []
  | u :: r =>
    if u < 0xD800 ∨ 0xDFFF < u then (utf16Strict r).map (u :: ·)
    else if u ≤ 0xDBFF then
      match r with
      | l :: r' =>
        if 0xDC00 ≤ l ∧ l ≤ 0xDFFF then
          (utf16Strict r').map ((0x10000 + (u - 0xD800) * 1024 + (l - 0xDC00)) :: ·)
        else none
      | [] => none
    else none

/-- strict UTF-8 (`String::from_utf8(..).ok()`) -/
def utf8Strict : Nat → Bytes → Option (List Nat)
  | 0, _ => some []
  | _, [] => some []
  | fuel + 1, b :: r =>
    if b < 0x80 then (utf8Strict fuel r).map (b :: ·)
    else if 0xC2 ≤ b ∧ b ≤ 0xDF then
      match r with
      | c1 :: r1 => if 0x80 ≤ c1 ∧ c1 ≤ 0xBF then (utf8Strict fuel r1).map (((b - 0xC0) * 64 + (c1 - 0x80)) :: ·) else none
      | [] => none
    else if 0xE0 ≤ b ∧ b ≤ 0xEF then
      match r with
      | c1 :: c2 :: r2 =>
        let ok1 := (b == 0xE0 && 0xA0 ≤ c1 && c1 ≤ 0xBF) || (0xE1 ≤ b && b ≤ 0xEC && 0x80 ≤ c1 && c1 ≤ 0xBF) ||
          (b == 0xED && 0x80 ≤ c1 && c1 ≤ 0x9F) || (0xEE ≤ b && 0x80 ≤ c1 && c1 ≤ 0xBF)
        if ok1 && 0x80 ≤ c2 && c2 ≤ 0xBF then
          (utf8Strict fuel r2).map (((b - 0xE0) * 4096 + (c1 - 0x80) * 64 + (c2 - 0x80)) :: ·)
        else none
      | _ => none
    else if 0xF0 ≤ b ∧ b ≤ 0xF4 then
      match r with
      | c1 :: c2 :: c3 :: r3 =>
        let ok1 := (b == 0xF0 && 0x90 ≤ c1 && c1 ≤ 0xBF) || (0xF1 ≤ b && b ≤ 0xF3 && 0x80 ≤ c1 && c1 ≤ 0xBF) ||
          (b == 0xF4 && 0x80 ≤ c1 && c1 ≤ 0x8F)
        if ok1 && 0x80 ≤ c2 && c2 ≤ 0xBF && 0x80 ≤ c3 && c3 ≤ 0xBF then
          (utf8Strict fuel r3).map (((b - 0xF0) * 262144 + (c1 - 0x80) * 4096 + (c2 - 0x80) * 64 + (c3 - 0x80)) :: ·)
        else none
      | _ => none
    else none

def toUnicode (mapped : Bytes) : Option (List Nat) :=
  if mapped.length % 2 == 0 then utf16Strict (units mapped) else utf8Strict mapped.length mapped

/-- `CMap::parse(data)`: `std::str::from_utf8(data)` must succeed (`none` = `Err`), then tokens. -/
def parseText (text : Bytes) : Option CMap :=
  if (utf8Strict text.length text).isSome then some (parse text) else none

/-! ### `ToUnicodeCMapBuilder` -/

def utf16Enc (c : Nat) : List Nat :=
  if c < 0x10000 then [c] else [0xD800 + (c - 0x10000) / 1024, 0xDC00 + (c - 0x10000) % 1024]

/-- `string_to_utf16_be_bytes` -/
def utf16beBytes (s : List Nat) : Bytes := (s.flatMap utf16Enc).flatMap fun u => [u / 256, u % 256]

def hexUpper (n : Nat) : Nat := if n < 10 then 48 + n else 55 + n

/-- `hex_string`: `{:02X}` per byte -/
def hexString (bs : Bytes) : Bytes := bs.flatMap fun b => [hexUpper (b / 16), hexUpper (b % 16)]

/-- strict lexicographic `<` used by `sort_by_key` on `Vec<u8>` keys -/
def ltLex (a b : Bytes) : Bool := leLex a b && a != b

def insertSorted (kv : Bytes × List Nat) : List (Bytes × List Nat) → List (Bytes × List Nat)
  | [] => [kv]
  | x :: r => if ltLex kv.1 x.1 then kv :: x :: r else x :: insertSorted kv r

/-- `HashMap::insert` (last write wins) followed by `sort_by_key` -/
def builderEntries (adds : List (Bytes × List Nat)) : List (Bytes × List Nat) :=
  let dedup := adds.foldl (fun acc kv => (acc.filter fun x => x.1 != kv.1) ++ [kv]) []
  dedup.foldl (fun acc kv => insertSorted kv acc) []

def chunks100 : Nat → List α → List (List α)
  | 0, _ => []
  | _, [] => []
  | fuel + 1, l => l.take 100 :: chunks100 fuel (l.drop 100)

def natDec (n : Nat) : Bytes := (Nat.toDigits 10 n).map Char.toNat

/-- `ToUnicodeCMapBuilder::build` -/
def build (codeLen : Nat) (adds : List (Bytes × List Nat)) : Bytes :=
  let header := str "/CIDInit /ProcSet findresource begin\n12 dict begin\nbegincmap\n/CIDSystemInfo\n<< /Registry (Adobe)\n   /Ordering (UCS)\n   /Supplement 0\n>> def\n/CMapName /Adobe-Identity-UCS def\n/CMapType 2 def\n1 begincodespacerange\n"
  let cs := if codeLen == 1 then str "<00> <FF>\n"
    else str "<" ++ hexString (List.replicate codeLen 0) ++ str "> <" ++ hexString (List.replicate codeLen 0xFF) ++ str ">\n"
  let es := builderEntries adds
  let body := (chunks100 (es.length + 1) es).flatMap fun ch =>
    natDec ch.length ++ str " beginbfchar\n" ++
    (ch.flatMap fun (code, u) => str "<" ++ hexString code ++ str "> <" ++ hexString (utf16beBytes u) ++ str ">\n") ++
    str "endbfchar\n"
  header ++ cs ++ str "endcodespacerange\n" ++ body ++
    str "endcmap\nCMapName currentdict /CMap defineresource pop\nend\nend\n"

end OxiVerif.C26
