/-
C23 — executable model of the Rust code in
  encryption/rc4.rs            Rc4::{new, process, process_in_place}
  encryption/aes.rs            Aes::{encrypt_cbc, decrypt_cbc, encrypt_ecb, decrypt_ecb, *_cbc_raw}
  encryption/standard_security.rs   StandardSecurityHandler (R2–R6), compute_hash_r6_algorithm_2b
  encryption/permissions.rs    Permissions
  parser/encryption_handler.rs EncryptionHandler::{new, unlock_with_user_password,
                               unlock_with_owner_password}
transcribed by hand, quirks included.  The primitives the Rust code takes from crates
(`md5`, `sha2`, `aes`, `cbc`/`cipher` with `Pkcs7`) and its own RC4 are represented by the
reference definitions of `Spec.Crypto*`; that they agree is exactly what the correspondence
run checks on every request.  Passwords arrive as the UTF-8 bytes of the Rust `&str`.
-/
import OxiVerif.Spec.CryptoPdf
namespace OxiVerif.C23
open OxiVerif.Crypto

/-- `Result<Vec<u8>, AesError>` of the `Aes` wrappers -/
inductive AesRes where
  | ok (b : Bytes)
  | keylen | ivlen | enc | dec | pad
deriving DecidableEq, Repr

/-- `Aes::encrypt_cbc`: IV check, then CBC over the PKCS#7-padded data -/
def aesEncryptCbc (key iv data : Bytes) : AesRes :=
  if iv.length ≠ 16 then .ivlen
  else match aesCbcPadEnc key iv data with
    | some c => .ok c
    | none => .keylen

/-- `Aes::decrypt_cbc`: IV check, length check, CBC, strict PKCS#7 removal -/
def aesDecryptCbc (key iv data : Bytes) : AesRes :=
  if iv.length ≠ 16 then .ivlen
  else if data.length % 16 ≠ 0 then .dec
  else match keySched key with
    | none => .keylen
    | some ks => match pkcs7Unpad (cbcDec (aesDecBlock ks) iv data) with
      | some p => .ok p
      | none => .pad

def aesEncryptEcb (key data : Bytes) : AesRes :=
  if data.length % 16 ≠ 0 then .enc
  else match aesEcbEnc key data with
    | some c => .ok c
    | none => .keylen

def aesDecryptEcb (key data : Bytes) : AesRes :=
  if data.length % 16 ≠ 0 then .dec
  else match aesEcbDec key data with
    | some c => .ok c
    | none => .keylen

def aesEncryptCbcRaw (key iv data : Bytes) : AesRes :=
  if iv.length ≠ 16 then .ivlen
  else if data.length % 16 ≠ 0 then .enc
  else match aesCbcRawEnc key iv data with
    | some c => .ok c
    | none => .keylen

def aesDecryptCbcRaw (key iv data : Bytes) : AesRes :=
  if iv.length ≠ 16 then .ivlen
  else if data.length % 16 ≠ 0 then .dec
  else match aesCbcRawDec key iv data with
    | some c => .ok c
    | none => .keylen

/-! ### R2–R4 (`revision`, `key_length` are the two public fields of the handler) -/

/-- `pad_password` on the UTF-8 bytes -/
def padPw (pw : Bytes) : Bytes := padPassword pw

/-- `compute_owner_hash` -/
def computeOwnerHash (rev n : Nat) (ownerPw userPw : Bytes) : Bytes := alg3 rev n ownerPw userPw

/-- `compute_key_from_padded`: the 0xFFFFFFFF suffix depends on the flag only (the revision
gate is the caller's) -/
def computeKeyFromPadded (rev n : Nat) (padded o : Bytes) (p : Nat) (id : Option Bytes)
    (em : Bool) : Bytes :=
  let d := padded ++ o ++ le32OfNat p ++ id.getD [] ++ (if em then [] else [0xFF, 0xFF, 0xFF, 0xFF])
  let h := md5 d
  let h := if rev ≥ 3 then iter (fun h => md5 (h.take n)) 50 h else h
  h.take n

/-- `compute_aes_encryption_key` (R5/R6, not an algorithm of the standard) -/
def computeAesKey (pw o : Bytes) (p : Nat) (id : Option Bytes) : Bytes :=
  (iter sha256 100 (sha256 (pw ++ o ++ le32OfNat p ++ id.getD []))).take 32

/-- `compute_user_hash_from_padded` for R2–R4 -/
def computeUserHashFromPadded (rev n : Nat) (padded o : Bytes) (p : Nat) (id : Option Bytes)
    (em : Bool) : Bytes :=
  let key := computeKeyFromPadded rev n padded o p id em
  if rev = 2 then rc4 key pwPadding
  else (rc4Chain key (rc4 key (md5 (pwPadding ++ id.getD [])))) ++ List.replicate 16 0

/-- `compute_user_hash_with_metadata` -/
def computeUserHash (rev n : Nat) (pw o : Bytes) (p : Nat) (id : Option Bytes) (em : Bool) : Bytes :=
  if rev ≥ 5 then sha256 (computeAesKey pw o p id)
  else computeUserHashFromPadded rev n (padPw pw) o p id em

/-- `compute_encryption_key_with_metadata` -/
def computeEncryptionKey (rev n : Nat) (pw o : Bytes) (p : Nat) (id : Option Bytes) (em : Bool) : Bytes :=
  if rev ≥ 5 then computeAesKey pw o p id
  else computeKeyFromPadded rev n (padPw pw) o p id em

/-- `validate_user_password` -/
def validateUserPassword (rev n : Nat) (pw u o : Bytes) (p : Nat) (id : Option Bytes) : Bool :=
  if rev ≥ 5 then
    -- validate_aes_user_password: the U entry is fed where the O entry belongs
    decide (u.length ≥ 32) && decide ((sha256 (computeAesKey pw u p id)).take 32 = u.take 32)
  else
    let key := computeEncryptionKey rev n pw o p id true
    if rev = 2 then decide (u.length ≥ 32) && decide (rc4 key pwPadding = u.take 32)
    else decide (u.length ≥ 16) &&
      decide ((rc4Chain key (rc4 key (md5 (pwPadding ++ id.getD [])))).take 16 = u.take 16)

/-! `String::from_utf8_lossy` followed by `.as_bytes()` — every maximal invalid subpart becomes
U+FFFD (EF BF BD), as `core::str::Utf8Chunks` does. -/

def isCont (b : UInt8) : Bool := 0x80 ≤ b && b ≤ 0xBF

def fffd : Bytes := [0xEF, 0xBF, 0xBD]

def utf8LossyGo : Nat → Bytes → Bytes
  | 0, _ => []
  | _, [] => []
  | fuel + 1, b :: rest =>
    if b < 0x80 then b :: utf8LossyGo fuel rest
    else if 0xC2 ≤ b && b ≤ 0xDF then
      match rest with
      | c :: r => if isCont c then b :: c :: utf8LossyGo fuel r else fffd ++ utf8LossyGo fuel rest
      | [] => fffd
    else if 0xE0 ≤ b && b ≤ 0xEF then
      match rest with
      | c :: r =>
        let ok2 := if b = 0xE0 then 0xA0 ≤ c && c ≤ 0xBF
                   else if b = 0xED then 0x80 ≤ c && c ≤ 0x9F
                   else isCont c
        if ok2 then
          match r with
          | d :: r2 => if isCont d then b :: c :: d :: utf8LossyGo fuel r2 else fffd ++ utf8LossyGo fuel r
          | [] => fffd
        else fffd ++ utf8LossyGo fuel rest
      | [] => fffd
    else if 0xF0 ≤ b && b ≤ 0xF4 then
      match rest with
      | c :: r =>
        let ok2 := if b = 0xF0 then 0x90 ≤ c && c ≤ 0xBF
                   else if b = 0xF4 then 0x80 ≤ c && c ≤ 0x8F
                   else isCont c
        if ok2 then
          match r with
          | d :: r2 =>
            if isCont d then
              match r2 with
              | e :: r3 => if isCont e then b :: c :: d :: e :: utf8LossyGo fuel r3 else fffd ++ utf8LossyGo fuel r2
              | [] => fffd
            else fffd ++ utf8LossyGo fuel r
          | [] => fffd
        else fffd ++ utf8LossyGo fuel rest
      | [] => fffd
    else fffd ++ utf8LossyGo fuel rest

def utf8Lossy (b : Bytes) : Bytes := utf8LossyGo b.length b

/-- the RC4 key of Algorithm 3 (a)–(d) as the code computes it -/
def ownerRc4Key (rev n : Nat) (ownerPw : Bytes) : Bytes := ownerKey rev n ownerPw

/-- the loop `for i in (0..20).rev()`: keys `k ⊕ 19 … k ⊕ 0` -/
def rc4Down20 (k data : Bytes) : Bytes :=
  (List.range 20).foldr (fun i d => rc4 (xorKey k i) d) data

/-- `validate_owner_password` for R2–R4 WITHOUT a /U entry (and, before the repair of C23-F2, in
every case): the recovered padded password is cut at the first `(` (0x28) unless it is exactly
the padding string, then turned into a `String` lossily and re-padded — a plausibility check. -/
def validateOwnerPasswordLegacy (rev n : Nat) (ownerPw o : Bytes) : Bool :=
  let k := ownerRc4Key rev n ownerPw
  let dec := if rev ≥ 3 then rc4Down20 k (o.take 32) else rc4 k (o.take 32)
  let userBytes := if pwPadding.isPrefixOf dec then dec else dec.takeWhile (· ≠ 0x28)
  let recovered := utf8Lossy userBytes
  decide ((computeOwnerHash rev n ownerPw recovered).take 32 = o.take 32)

/-- `validate_owner_password` for R2–R4 (public API, not used by the reader). With the /U entry
the 32 recovered bytes go through `compute_user_hash_from_padded` (metadata flag `true`) and are
compared with /U as Algorithm 6 does; without it the plausibility check above is all there is. -/
def validateOwnerPassword (rev n : Nat) (ownerPw o : Bytes) (p : Nat) (id : Option Bytes)
    (u : Option Bytes) : Bool :=
  match u with
  | none => validateOwnerPasswordLegacy rev n ownerPw o
  | some u =>
    let k := ownerRc4Key rev n ownerPw
    let dec := if rev ≥ 3 then rc4Down20 k (o.take 32) else rc4 k (o.take 32)
    let cu := computeUserHashFromPadded rev n dec o p id true
    let len := if rev ≥ 3 then 16 else 32
    decide (cu.length ≥ len) && decide (u.length ≥ len) && decide (cu.take len = u.take len)

/-! ### Algorithm 2.B as coded (cap 2048, error above 127 bytes) -/

def alg2bCode (pw salt udata : Bytes) : Option Bytes :=
  if pw.length > 127 then none
  else
    let u := udata.take 48
    some (((alg2bLoop pw u 2048 0 (sha256 (pw ++ salt ++ u))).1).take 32)

/-- `r5_r6_password_bytes`: the first 127 bytes of the UTF-8 password (Algorithm 2.A (a)) -/
def pw56 (pw : Bytes) : Bytes := pw.take 127

/-- the hash of the R5 / R6 entry points: SHA-256 resp. Algorithm 2.B on the truncated password -/
def hashCode (rev : Nat) (pw salt udata : Bytes) : Option Bytes :=
  if rev = 5 then some (sha256 (pw56 pw ++ salt ++ udata)) else alg2bCode (pw56 pw) salt udata

/-- `defined_entry_prefix` -/
def entryPrefix (e : Bytes) : Option Bytes := if e.length < 48 then none else some (e.take 48)

/-- `validate_r5_user_password` / `validate_r6_user_password` -/
def validateUser56 (rev : Nat) (pw u : Bytes) : Option Bool := do
  let u ← entryPrefix u
  let h ← hashCode rev pw (vSalt u) []
  pure (decide (h.take 32 = u.take 32))

/-- `validate_r5_owner_password` / `validate_r6_owner_password` -/
def validateOwner56 (rev : Nat) (pw o u : Bytes) : Option Bool := do
  let o ← entryPrefix o
  let u ← entryPrefix u
  let h ← hashCode rev pw (vSalt o) u
  pure (decide (h.take 32 = o.take 32))

/-- `compute_r5_ue_entry` / `compute_r6_ue_entry` -/
def computeUE (rev : Nat) (pw u key : Bytes) : Option Bytes :=
  if u.length ≠ 48 ∨ key.length ≠ 32 then none
  else do
    let ik ← hashCode rev pw (kSalt u) []
    aesCbcRawEnc (ik.take 32) zeroIv key

/-- `compute_r5_oe_entry` / `compute_r6_oe_entry` -/
def computeOE (rev : Nat) (pw o u key : Bytes) : Option Bytes :=
  if o.length ≠ 48 ∨ u.length ≠ 48 ∨ key.length ≠ 32 then none
  else do
    let ik ← hashCode rev pw (kSalt o) u
    (aesCbcRawEnc (ik.take 32) zeroIv key).map (·.take 32)

/-- `recover_r5_encryption_key` / `recover_r6_encryption_key` -/
def recoverUser56 (rev : Nat) (pw u ue : Bytes) : Option Bytes :=
  if ue.length ≠ 32 then none
  else do
    let u ← entryPrefix u
    let ik ← hashCode rev pw (kSalt u) []
    aesCbcRawDec (ik.take 32) zeroIv ue

/-- `recover_r5_owner_encryption_key` / `recover_r6_owner_encryption_key` -/
def recoverOwner56 (rev : Nat) (pw o u oe : Bytes) : Option Bytes := do
  let o ← entryPrefix o
  let u ← entryPrefix u
  if oe.length ≠ 32 then none
  else
    let ik ← hashCode rev pw (kSalt o) u
    aesCbcRawDec (ik.take 32) zeroIv oe

/-- `validate_r6_perms`: `none` = Err -/
def validatePerms (perms key : Bytes) (p : Nat) : Option Bool :=
  if perms.length ≠ 16 ∨ key.length ≠ 32 then none
  else do
    let d ← aesEcbDec key perms
    if (d.drop 4).take 4 ≠ [0xFF, 0xFF, 0xFF, 0xFF] then pure false
    else if (d.drop 9).take 3 ≠ [0x61, 0x64, 0x62] then pure false
    else pure (decide (le32OfNat p = d.take 4))

/-- `extract_r6_encrypt_metadata`: "T" / "F" / "none" -/
def extractEncryptMetadata (perms key : Bytes) : String :=
  if perms.length ≠ 16 ∨ key.length ≠ 32 then "none"
  else match aesEcbDec key perms with
    | none => "none"
    | some d =>
      if (d.drop 4).take 4 ≠ [0xFF, 0xFF, 0xFF, 0xFF] ∨ (d.drop 9).take 3 ≠ [0x61, 0x64, 0x62] then "none"
      else match (d.drop 8).head? with
        | some 0x54 => "T"
        | some 0x46 => "F"
        | _ => "none"

/-! ### strings and streams -/

/-- `compute_object_key` (and, with `salt`, `compute_r4_aes_object_key`) -/
def objKey (key : Bytes) (num gen : Nat) (salt : Bool) : Bytes := objectKey key num gen salt

/-- the AES key `encrypt_aes`/`decrypt_aes` use; `none` = the `Err` cases -/
def aesObjKey (rev : Nat) (key : Bytes) (num gen : Nat) : Option Bytes :=
  if rev = 4 then
    let k := objKey key num gen true
    if k.length = 16 then some k else none
  else if rev ≥ 5 then (if key.length = 32 then some key else none)
  else none

/-- `decrypt_aes` -/
def decryptAes (rev : Nat) (key : Bytes) (num gen : Nat) (data : Bytes) : Option Bytes :=
  if data.length < 16 then none
  else do
    let k ← aesObjKey rev key num gen
    match aesDecryptCbc k (data.take 16) (data.drop 16) with
    | .ok p => some p
    | _ => none

/-- `decrypt_string` = `decrypt_stream` (lenient: failure is the empty vector) -/
def decryptString (rev : Nat) (key : Bytes) (num gen : Nat) (data : Bytes) : Bytes :=
  if rev ≥ 4 then (decryptAes rev key num gen data).getD []
  else rc4 (objKey key num gen false) data

/-! ### Permissions (bit i of the word = PDF bit position i+1) -/

def permNew : Nat := 0xFFFFF0C0
def permAll : Nat := 0xFFFFFFFC   -- 0xFFFFF0C0 ||| 0x0F3C

/-- bit indices of print, modify, copy, annotate, fill-forms, accessibility, assemble, print-HQ -/
def permBitIdx : List Nat := [2, 3, 4, 5, 8, 9, 10, 11]

def permFromFlags (fl : List Bool) : Nat :=
  (List.zip permBitIdx fl).foldl (fun acc (i, b) => if b then acc ||| (1 <<< i) else acc) permNew

def permFlags (bits : Nat) : List Bool := permBitIdx.map fun i => bits.testBit i

def permContains (a b : Nat) : Bool := decide ((a &&& b) = b)

def permSetAll (bits : Nat) (v : Bool) : Nat :=
  permBitIdx.foldl (fun acc i => if v then acc ||| (1 <<< i) else acc &&& (0xFFFFFFFF ^^^ (1 <<< i))) bits

/-! ### `EncryptionHandler` unlock paths -/

structure EncDict where
  r : Nat
  v : Nat
  cfm : Option String      -- /CF /StdCF /CFM of the filter named by /StmF (only read when V ≥ 4)
  em : Option Bool         -- /EncryptMetadata
  o : Bytes
  u : Bytes
  p : Nat                  -- low 32 bits of /P
  id : Option Bytes
  ue : Option Bytes
  oe : Option Bytes

/-- handler chosen by `EncryptionHandler::new`: (revision, key_length); /Length is not consulted -/
def handlerOf (d : EncDict) : Option (Nat × Nat) :=
  match d.r with
  | 2 => some (2, 5)
  | 3 => some (3, 16)
  | 4 => if d.v ≥ 4 ∧ d.cfm = some "V2" then some (3, 16) else some (4, 16)
  | 5 => some (5, 32)
  | 6 => some (6, 32)
  | _ => none

inductive Unlock where
  | newErr | err | refused
  | key (k : Bytes)
deriving DecidableEq, Repr

def unlockUser (d : EncDict) (pw : Bytes) : Unlock :=
  match handlerOf d with
  | none => .newErr
  | some (hr, n) =>
    if d.r ≥ 5 then
      match validateUser56 d.r pw d.u with
      | none => .err
      | some false => .refused
      | some true =>
        match d.ue with
        | none => .err
        | some ue => match recoverUser56 d.r pw d.u ue with
          | none => .err
          | some k => .key k
    else
      let em := d.em.getD true || decide (d.r < 4)
      let cu := computeUserHash hr n pw d.o d.p d.id em
      let len := if d.r ≥ 3 then 16 else 32
      if cu.length < len ∨ d.u.length < len then .refused
      else if cu.take len = d.u.take len then .key (computeEncryptionKey hr n pw d.o d.p d.id em)
      else .refused

def unlockOwner (d : EncDict) (pw : Bytes) : Unlock :=
  match handlerOf d with
  | none => .newErr
  | some (hr, n) =>
    if d.r ≥ 5 then
      match validateOwner56 d.r pw d.o d.u with
      | none => .err
      | some false => .refused
      | some true =>
        match d.oe with
        | none => .err
        | some oe => match recoverOwner56 d.r pw d.o d.u oe with
          | none => .err
          | some k => .key k
    else
      let h := md5 (padPw pw)
      let h := if d.r ≥ 3 then iter md5 50 h else h
      if d.o.length < 32 then .refused
      else
        let k := h.take n
        let dec := if d.r ≥ 3 then rc4Down20 k (d.o.take 32) else rc4 k (d.o.take 32)
        let em := d.em.getD true || decide (d.r < 4)
        let cu := computeUserHashFromPadded hr n dec d.o d.p d.id em
        let len := if d.r ≥ 3 then 16 else 32
        if cu.length < len ∨ d.u.length < len then .refused
        else if cu.take len ≠ d.u.take len then .refused
        else .key (computeKeyFromPadded hr n dec d.o d.p d.id em)

end OxiVerif.C23
