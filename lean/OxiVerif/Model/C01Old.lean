import OxiVerif.Model.C01Xref
/-!
C01 — the definitions of the kernels AS THEY WERE BEFORE the repairs landed in /repo (`fix:` commits
for the lexer self-calls, the object-parser recursion, the classic xref section, xref streams, object
streams, the stream `/Length` allocation, `/Rotate` composition and page-label numbers).

They are kept only so that the old counter-witnesses remain kernel-checked statements: each
`C01_witness_…` of `Props/C01.lean` about an `…Old` definition is a regression the check must catch
again if the repair is undone (the corpus replays the same inputs against the real code).
The current code is modelled by the definitions without the suffix.
-/
namespace OxiVerif.C01

/-! ## lexer: `next_token` calling itself for `;` and the lenient skips -/
/-- `Lexer::next_token` with an empty push-back buffer.  The white-space skip is a loop of the same
activation; the `;` arm, the lenient-syntax skip and the lenient-encoding skip call `next_token`
again (a tail call the debug build does not turn into a loop). -/
def nextTokenOld (o : LexOpts) : Bytes → LexRes
  | [] => ⟨.ok .eof, [], 1⟩
  | b :: rest =>
    if isWs b then nextTokenOld o rest
    else if b == 37 then ⟨.ok .comment, readComment rest, 1⟩
    else if b == 47 then lexOf (do let (n, r) ← readName rest; pure (.name n, r))
    else if b == 40 then
      lexOf (do let (s, r) ← readLit o.lenientSyntax rest .normal 1 []; pure (.str s, r))
    else if b == 60 then
      match rest with
      | 60 :: rest' => ⟨.ok .dictStart, rest', 1⟩
      | _ => lexOf (do let (s, r) ← readHexStr o.lenientSyntax rest []; pure (.str s, r))
    else if b == 62 then
      match rest with
      | 62 :: rest' => ⟨.ok .dictEnd, rest', 1⟩
      | _ => ⟨.err, [], 1⟩
    else if b == 91 then ⟨.ok .arrStart, rest, 1⟩
    else if b == 93 then ⟨.ok .arrEnd, rest, 1⟩
    else if b == 116 || b == 102 || b == 110 then
      let (w, r) := readWord (b :: rest)
      lexOf (do let t ← keywordTok w; pure (t, r))
    else if b == 43 || b == 45 || isDigit b || b == 46 then lexOf (readNumber (b :: rest))
    else if b == 82 then ⟨.ok (.name [82]), rest, 1⟩
    else if isAlpha b then
      let (w, r) := readWord (b :: rest)
      -- `true` / `false` / `null` reach `process_keyword` only through t/f/n
      lexOf (do
        let t ← keywordTok w
        match t with
        | .bool _ => .err
        | .null => .err
        | t => pure (t, r))
    else if b == 59 then
      let r := nextTokenOld o rest
      ⟨r.tok, r.rest, r.depth + 1⟩
    else if isProblematic o b then
      if o.lenientEncoding then
        if (dropWs rest).isEmpty then ⟨.err, [], 1⟩
        else
          let r := nextTokenOld o rest
          ⟨r.tok, r.rest, r.depth + 1⟩
      else ⟨.err, [], 1⟩
    else if o.lenientSyntax then
      let r := nextTokenOld o rest
      ⟨r.tok, r.rest, r.depth + 1⟩
    else ⟨.err, [], 1⟩

/-! ## object parser without a depth guard -/

def PS.nextOld (o : LexOpts) (s : PS) : Outcome Tok × PS :=
  match s.buf with
  | t :: b => (.ok t, { s with buf := b })
  | [] =>
    let r := nextTokenOld o s.inp
    (r.tok, { s with inp := r.rest, lexDepth := max s.lexDepth r.depth })

mutual
/-- `parse_with_options` : next token, then `parse_from_token_with_options` -/
def parseObjOld (o : LexOpts) : Nat → PS → PR Obj
  | 0, s => ⟨.diverge, s, 0⟩
  | fuel + 1, s =>
    match s.nextOld o with
    | (.ok t, s') => parseFromTokOld o fuel t s'
    | (.err, s') => ⟨.err, s', 0⟩
    | (.panic k, s') => ⟨.panic k, s', 0⟩
    | (.diverge, s') => ⟨.diverge, s', 0⟩

def parseFromTokOld (o : LexOpts) : Nat → Tok → PS → PR Obj
  | 0, _, s => ⟨.diverge, s, 0⟩
  | fuel + 1, t, s =>
    match t with
    | .null => ⟨.ok .null, s, 1⟩
    | .bool b => ⟨.ok (.bool b), s, 1⟩
    | .real => ⟨.ok .real, s, 1⟩
    | .str bs => ⟨.ok (.str bs), s, 1⟩
    | .name n => ⟨.ok (.name n), s, 1⟩
    | .int i =>
      if ¬ (0 ≤ i ∧ i ≤ 9999999) then ⟨.ok (.int i), s, 1⟩
      else
        match s.nextOld o with
        | (.ok (.int g), s1) =>
          if 0 ≤ g ∧ g ≤ 65535 then
            match s1.nextOld o with
            | (.ok (.name [82]), s2) => ⟨.ok (.ref i.toNat g.toNat), s2, 1⟩
            | (.ok t2, s2) => ⟨.ok (.int i), (s2.push t2).push (.int g), 1⟩
            | (.err, s2) => ⟨.err, s2, 1⟩
            | (.panic k, s2) => ⟨.panic k, s2, 1⟩
            | (.diverge, s2) => ⟨.diverge, s2, 1⟩
          else ⟨.ok (.int i), s1.push (.int g), 1⟩
        | (.ok t1, s1) => ⟨.ok (.int i), s1.push t1, 1⟩
        | (.err, s1) => ⟨.err, s1, 1⟩
        | (.panic k, s1) => ⟨.panic k, s1, 1⟩
        | (.diverge, s1) => ⟨.diverge, s1, 1⟩
    | .arrStart =>
      let r := parseArrOld o fuel s []
      ⟨r.val, r.st, r.depth + 1⟩
    | .dictStart =>
      let r := parseDictInnerOld o fuel s []
      match r.val with
      | .ok kvs =>
        let r2 := afterDictOld o fuel r.st
        ⟨(match r2.val with
          | .ok _ => .ok (.dict kvs)
          | .err => .err
          | .panic k => .panic k
          | .diverge => .diverge), r2.st, r.depth + 1⟩
      | .err => ⟨.err, r.st, r.depth + 1⟩
      | .panic k => ⟨.panic k, r.st, r.depth + 1⟩
      | .diverge => ⟨.diverge, r.st, r.depth + 1⟩
    | .comment =>
      let r := parseObjOld o fuel s
      ⟨r.val, r.st, r.depth + 1⟩
    | _ => ⟨.err, s, 1⟩

/-- the loop of `parse_array_with_options` -/
def parseArrOld (o : LexOpts) : Nat → PS → List Obj → PR Obj
  | 0, s, _ => ⟨.diverge, s, 0⟩
  | fuel + 1, s, acc =>
    match s.nextOld o with
    | (.ok .arrEnd, s') => ⟨.ok (.arr acc.reverse), s', 0⟩
    | (.ok .comment, s') => parseArrOld o fuel s' acc
    | (.ok t, s') =>
      let r := parseFromTokOld o fuel t s'
      match r.val with
      | .ok v =>
        let r2 := parseArrOld o fuel r.st (v :: acc)
        ⟨r2.val, r2.st, max r.depth r2.depth⟩
      | .err => ⟨.err, r.st, r.depth⟩
      | .panic k => ⟨.panic k, r.st, r.depth⟩
      | .diverge => ⟨.diverge, r.st, r.depth⟩
    | (.err, s') => ⟨.err, s', 0⟩
    | (.panic k, s') => ⟨.panic k, s', 0⟩
    | (.diverge, s') => ⟨.diverge, s', 0⟩

/-- the loop of `parse_dictionary_inner_with_options` -/
def parseDictInnerOld (o : LexOpts) : Nat → PS → List (Bytes × Obj) → PR (List (Bytes × Obj))
  | 0, s, _ => ⟨.diverge, s, 0⟩
  | fuel + 1, s, acc =>
    match s.nextOld o with
    | (.ok .dictEnd, s') => ⟨.ok acc.reverse, s', 0⟩
    | (.ok .comment, s') => parseDictInnerOld o fuel s' acc
    | (.ok (.name key), s') =>
      let r := parseObjOld o fuel s'
      match r.val with
      | .ok v =>
        let r2 := parseDictInnerOld o fuel r.st ((key, v) :: acc)
        ⟨r2.val, r2.st, max r.depth r2.depth⟩
      | .err => ⟨.err, r.st, r.depth⟩
      | .panic k => ⟨.panic k, r.st, r.depth⟩
      | .diverge => ⟨.diverge, r.st, r.depth⟩
    | (.ok _, s') => ⟨.err, s', 0⟩
    | (.err, s') => ⟨.err, s', 0⟩
    | (.panic k, s') => ⟨.panic k, s', 0⟩
    | (.diverge, s') => ⟨.diverge, s', 0⟩

/-- the loop after the dictionary in `parse_dictionary_or_stream_with_options` -/
def afterDictOld (o : LexOpts) : Nat → PS → PR Unit
  | 0, s => ⟨.diverge, s, 0⟩
  | fuel + 1, s =>
    match s.nextOld o with
    | (.ok .kStream, s') => ⟨.ok (), { s' with sawStream := true }, 0⟩
    | (.ok .comment, s') => afterDictOld o fuel s'
    | (.ok t, s') => ⟨.ok (), s'.push t, 0⟩
    | (.err, s') => ⟨.err, s', 0⟩
    | (.panic k, s') => ⟨.panic k, s', 0⟩
    | (.diverge, s') => ⟨.diverge, s', 0⟩
end

/-- one object from the start of `inp`; the fuel `3 * length + 8` is never exhausted (every
activation that does not return at once has consumed a byte or popped a pushed-back token, and at
most two tokens are ever pushed back) -/
def parseTopOld (o : LexOpts) (inp : Bytes) : PR Obj :=
  parseObjOld o (3 * inp.length + 8) ⟨inp, [], 0, false⟩

/-! ## xref streams with unchecked `first_obj + i` and width sum -/

/-- `for i in 0..count` of one `/Index` pair; `fuel` ≥ number of entries that fit in the data -/
def xrsInnerOld (data : Bytes) (widths : List Nat) (entrySize first count : Nat) :
    Nat → Nat → Nat → List XEntry → Outcome (Nat × List XEntry)
  | 0, _, off, acc => .ok (off, acc)
  | fuel + 1, i, off, acc =>
    if i ≥ count then .ok (off, acc)
    else do
      let endOff ← addU USIZE off entrySize
      if endOff > data.length then do
        -- the error message formats `first_obj + i`
        let _ ← addU U32 first i
        .err
      else do
        let fields ← readFields data off widths
        let ty := fields.getD 0 0
        let obj ← addU U32 first i
        if ty > 2 then .err
        else
          let f1 := fields.getD 1 0
          let f2 := fields.getD 2 0
          let e : XEntry := match ty with
            | 0 => ⟨obj, 0, f1 % U32, f2 % U16⟩
            | 1 => ⟨obj, 1, f1, f2 % U16⟩
            | _ => ⟨obj, 2, f1 % U32, f2 % U32⟩
          xrsInnerOld data widths entrySize first count fuel (i + 1) (off + entrySize) (acc ++ [e])

def xrsOuterOld (data : Bytes) (widths : List Nat) (entrySize : Nat) :
    List (Nat × Nat) → Nat → List XEntry → Outcome (List XEntry)
  | [], _, acc => .ok acc
  | (first, count) :: rest, off, acc => do
    let (off', acc') ← xrsInnerOld data widths entrySize first count (data.length + 1) 0 off acc
    xrsOuterOld data widths entrySize rest off' acc'

def xrsEntriesOld (w : List Int) (index : Option (List Int)) (size : Option Int) (data : Bytes) :
    Outcome (List XEntry) := do
  let widths ← xrsWidths w
  let idx ← xrsIndex index size
  let entrySize ← sumUsize 0 widths
  if entrySize == 0 then .err
  else xrsOuterOld data widths entrySize idx 0 []

/-! ## classic xref section: boundary slicing, unchecked `first + i`, EOF loop -/

/-- `parse_xref_entry_standard` on the trimmed line (`Option` = the function's `Result`) -/
def entryStandardOld (l : Bytes) : Outcome (Option XrefEntry) :=
  if strLen l < 18 then .ok none
  else do
    let offS ← strSlice l 0 10
    let genS ← strSlice l 11 16
    let flag := l[17]?          -- `line.chars().nth(17)`
    match parseUnsigned U64 (trimB offS) with
    | none => pure none
    | some off =>
      match parseUnsigned U16 (trimB genS) with
      | none => pure none
      | some g =>
        if flag == some 110 then pure (some ⟨off, g, true⟩)
        else if flag == some 102 then pure (some ⟨off, g, false⟩)
        else pure none

/-- `parse_xref_entry(&line)` -/
def parseEntryOld (line : Bytes) : Outcome (Option XrefEntry) := do
  let l := trimB line
  if strLen l ≥ 18 then
    match ← entryStandardOld l with
    | some e => pure (some e)
    | none => pure (entryFlexible l)
  else pure (entryFlexible l)

/-- the `while i < count` loop; returns the remaining lines and the inserted keys (in order) -/
def entryLoopOld (first count : Nat) : List Bytes → Nat → List Nat → Outcome (List Bytes × List Nat)
  | [], _, keys => .ok ([], keys)            -- `bytes_read == 0` : break
  | line :: rest, i, keys =>
    if i ≥ count then .ok (line :: rest, keys)
    else
      let t := trimB line
      if t.head? == some 37 then entryLoopOld first count rest i keys
      else if t == kwTrailer then .ok (rest, keys)
      else do
        match ← parseEntryOld line with
        | some _ => do
          let k ← addU U32 first i
          entryLoopOld first count rest (i + 1) (keys ++ [k])
        | none => entryLoopOld first count rest (i + 1) keys

/-- the outer `loop` over subsections.  At EOF the real loop reads an empty line, `continue`s and
reads again — for ever. -/
def sectionLoopOld : Nat → List Bytes → List Nat → Outcome (SectionEnd × List Nat)
  | 0, _, _ => .diverge
  | _, [], _ => .diverge
  | fuel + 1, line :: rest, keys =>
    let t := trimB line
    if t.isEmpty || t.head? == some 37 then sectionLoopOld fuel rest keys
    else if t == kwTrailer then .ok (.keyword rest, keys)
    else if hasSub [60, 60] t && startsWith t kwTrailer then .ok (.inline line rest, keys)
    else if startsWith t [60, 60] then .ok (.inline line rest, keys)
    else
      match splitWs t with
      | [a, b] =>
        match parseUnsigned U32 a, parseUnsigned U32 b with
        | some first, some count => do
          let (rest', keys') ← entryLoopOld first count rest 0 keys
          -- every path of `entryLoopOld` that returns has consumed no more than `rest`
          if rest'.length ≤ rest.length then sectionLoopOld fuel rest' keys' else .diverge
        | _, _ => .err
      | _ => .err

/-- whole function: section loop, trailer object (through the object-parser model), `/Size` check
with `(*max_obj_num + 1) as i64`.  Result: the keys inserted, in insertion order. -/
def classicXrefOld (o : LexOpts) (lines : List Bytes) : Outcome (List Nat × Bool) := do
  let (e, keys) ← sectionLoopOld (lines.length + 1) lines []
  let text := match e with
    | .keyword rest => joinLines rest
    | .inline line rest => dropTo [60, 60] line ++ [10] ++ joinLines rest
  let r := parseTopOld o text
  let tr ← r.val
  match tr with
  | .dict kvs =>
    match dictGet kvs kSize with
    | some (.int sz) =>
      match keys.foldl (fun m k => match m with
          | none => some k
          | some x => some (max x k)) none with
      | some mx => do
        let m1 ← addU U32 mx 1
        if (m1 : Int) > sz then .err else pure (keys, r.st.sawStream)
      | none => pure (keys, r.st.sawStream)
    | _ => pure (keys, r.st.sawStream)
  | _ => pure (keys, r.st.sawStream)

/-! ## stream `/Length`: the declared length was allocated before reading -/

/-- bytes requested from the allocator for a declared `/Length` (not lenient: negative → error) -/
def streamAllocRequestOld (len : Int) : Outcome Nat :=
  if len < 0 then .err else .ok len.toNat

/-- outcome of reading a stream body of `avail` bytes with declared `/Length len` when the
allocator refuses requests of `limit` bytes or more (strict options; the body is `avail` bytes
`x`, then LF, then `endstream`: the read succeeds when it ends right before or right after the LF) -/
def streamReadOld (limit : Nat) (len : Int) (avail : Nat) : Outcome Unit := do
  let n ← streamAllocRequestOld len
  if n ≥ limit then .panic .alloc
  else if n == avail ∨ n == avail + 1 then .ok ()
  else .err

/-! ## object streams: unchecked `first + offset` -/

/-- second loop: `abs_offset = self.first + offset` (u32, CHECKED ADD → panic), parse one object there -/
def objStmObjectsOld (o : LexOpts) (first : Nat) (data : Bytes) :
    List (Nat × Nat) → List (Nat × Obj) → Bool → Outcome (List (Nat × Obj) × Bool)
  | [], acc, ss => .ok (acc.reverse, ss)
  | (num, off) :: rest, acc, ss => do
    let abs ← addU U32 first off
    let r := parseTopOld o (data.drop abs)
    let v ← r.val
    objStmObjectsOld o first data rest ((num, v) :: acc) (ss || r.st.sawStream)

def objStmOld (n first : Int) (data : Bytes) : Outcome (List (Nat × Obj) × Bool) := do
  let pairs ← objStmPairs defaultOpts (data.length + 1) (asU U32 n) data []
  objStmObjectsOld defaultOpts (asU U32 first) data pairs [] false

/-! ## ASCII85 with the unchecked group value, `is_ascii_whitespace` filter and the prefix test that
dropped the byte after a lone `<` -/

/-- the unchecked positional sum in `u32` (filters.rs:688-692, 728-732 before the repair) -/
def groupValueOld (g : List Nat) : Outcome Nat := groupSum 0 0 g

/-- the part after the `while` loop: pad the incomplete group with `u`, output `len-1` bytes -/
def a85TailOld (max : Nat) (group res : Bytes) : Outcome Bytes :=
  if group.isEmpty then .ok res
  else do
    let padded := group ++ List.replicate (5 - group.length) 117
    let v ← groupValueOld padded
    extendBounded res ((be4 v).take (group.length - 1)) max

/-- main loop over the white-space-filtered characters -/
def a85LoopOld (max : Nat) : Bytes → Bytes → Bytes → Outcome Bytes
  | [], group, res => a85TailOld max group res
  | c :: rest, group, res =>
    if c == 126 then            -- '~'
      match rest with
      | 62 :: _ => a85TailOld max group res
      | _ => .err
    else if c == 122 && group.isEmpty then do   -- 'z'
      let res' ← extendBounded res [0, 0, 0, 0] max
      a85LoopOld max rest group res'
    else if 33 ≤ c && c ≤ 117 then
      let g := group ++ [c]
      if g.length == 5 then do
        let v ← groupValueOld g
        let res' ← extendBounded res (be4 v) max
        a85LoopOld max rest [] res'
      else a85LoopOld max rest g res
    else .err

def a85DecodeOld (data : Bytes) (max : Nat) : Outcome Bytes :=
  let cs := data.filter (fun b => !isWs b)
  -- optional `<~` prefix; a `<` followed by something else loses that next character
  match cs with
  | 60 :: 126 :: rest => a85LoopOld max rest [] []
  | 60 :: _ :: rest => a85LoopOld max (60 :: rest) [] []
  | _ => a85LoopOld max cs [] []

/-! ## PNG predictor with the unchecked `bpc * colors` -/

/-- lines 1830-1868: the casts, `(bpc * colors).div_ceil(8)` (UNCHECKED product), the checked row
size, the divisibility test -/
def predSizingOld (columns bpc colors : Int) (len : Nat) : Outcome PredSizing := do
  let columns := asU USIZE columns
  let bpc := asU USIZE bpc
  let colors := asU USIZE colors
  let prod ← mulU USIZE bpc colors
  let bpp := (prod + 7) / 8
  let samples ← ckMul columns colors
  let bits ← ckMul samples bpc
  let bits7 ← ckAdd bits 7
  let rowBytes := bits7 / 8
  let rowSize ← ckAdd rowBytes 1
  if len % rowSize != 0 then .err
  else .ok { bpp := bpp, rowBytes := rowBytes, rowSize := rowSize, numRows := len / rowSize }

def pngPredictOld (data : Bytes) (columns bpc colors : Int) : Outcome Bytes := do
  let s ← predSizingOld columns bpc colors data.length
  predRows data s (s.numRows + 1) 0 []

/-- `apply_predictor(data, predictor as u32, params)`; absent keys take the defaults 1 / 8 / 1 -/
def applyPredictorOld (data : Bytes) (predictor : Int) (columns bpc colors : Option Int) : Outcome Bytes :=
  let p := asU U32 predictor
  if 10 ≤ p ∧ p ≤ 15 then pngPredictOld data (columns.getD 1) (bpc.getD 8) (colors.getD 1)
  else .ok data


/-! ## content tokenizer self-calls -/

/-- the self-recursion of `ContentTokenizer::next_token` seen from one token start (content.rs:510
before the repair): number of activations until a token start that is not one of `; ) { }` (white
space and comments in between are skipped by the loop `skip_whitespace` of each activation) -/
def cSkipDepthOld : Bytes → Nat
  | [] => 1
  | b :: rest =>
    if b == 59 || b == 41 || b == 123 || b == 125 then cSkipDepthOld rest + 1
    else if b == 32 || b == 9 || b == 13 || b == 10 || b == 12 then cSkipDepthOld rest
    else 1

/-! ## small arithmetic sites -/

/-- operations/rotate.rs:172 `(parsed_page.rotation + angle.to_degrees()).rem_euclid(360)` with
`rotation = /Rotate as i32` (page_tree.rs:569) -/
def rotateComposeOld (rotate : Int) (angle : Int) : Outcome Int := do
  let r := asI U32 rotate
  let s ← addI I32MIN I32MAX r angle
  pure (s % 360)

/-- page_labels/page_label.rs:136 `self.start + offset` (u32) -/
def labelNumberOld (start offset : Nat) : Outcome Nat := addU U32 start offset

/-- object_stream.rs:95 `self.first + offset` (u32), for the list of offsets in order; the
objects at earlier offsets parse successfully (`okBefore`) -/
def objStmOffsetsOld (first : Int) : List Int → Outcome (List Nat)
  | [] => .ok []
  | o :: rest => do
    let a ← addU U32 (asU U32 first) (asU U32 o)
    let r ← objStmOffsetsOld first rest
    pure (a :: r)

end OxiVerif.C01
