/-!
# C22 — the batch module BEFORE the repairs of C22-F1/F1b/F2/F3 (/repo commits 08e667bd, ee30711a, b8d0a5b8)

This is the model of `oxidize-pdf-core/src/batch/{worker,mod,progress}.rs` as the code was before
those commits, kept unchanged as the subject of the counter-witnesses in `Props/C22.lean`
(`OxiVerif.C22Old.C22_witness_*`).  The model of the current code is `Model/C22.lean`.
Line numbers below refer to the pre-repair worker.rs.

A labelled transition system.  One `Act` = one atomic (synchronising) statement of the code:

dispatcher  (`WorkerPool::process_jobs`, the `for (idx, job) in jobs` loop)
  * `dLoad`   `if cancelled.load(SeqCst)`                                   worker.rs:80
  * `dSendC`  `result_sender.send((idx, JobResult::Cancelled{..})); continue` worker.rs:81-87
  * `dEnq`    `self.sender.send(WorkerMessage::Job(idx, wrapped_job))`; `.is_err()` (every worker
              thread has gone, the receiver is dropped) → `break`            worker.rs:189-195
  * `dClose`  `drop(result_sender); drop(self.sender)`                       worker.rs:199-200
worker thread (`Worker::new` loop + the wrapped closure built in `process_jobs`)
  * `deq`     `receiver.lock(); receiver.recv()` → `Ok(Job(idx, job))`       worker.rs:243-254
  * `w k`     the next statement of the worker that holds job `k`:
      `got`      → `progress.start_job()` (running += 1)                    worker.rs:101 / 147
      `started`  → custom: `cancelled_clone.load()` → `Err(OperationCancelled)` | run `operation()`
                   non-custom: `execute_job(job)` (NO look at `cancelled`)   worker.rs:104-108 / 150
      `go`       → the user operation: returns Ok / Err, or panics: the thread unwinds, the
                   worker is gone, nothing is sent, `running` stays incremented
      `done r`   → `running_jobs.fetch_sub(1)`                               progress.rs complete_job/fail_job
      `dec r`    → `completed_jobs.fetch_add(1)` | `failed_jobs.fetch_add(1)`
      `cnt r`    → `result_sender.send((idx, Success|Failed))`               worker.rs:115 / 126 / 156 / 167
                   (the job leaves `inflight`; non-custom ∧ Err ∧ `stop_on_error`: the worker
                   moves to `storing`, otherwise it goes back to the job channel)
  * `store k` the worker that has just reported the failure of non-custom job `k`:
                   `cancelled.store(true)`                                   worker.rs:176-178
                   (custom jobs never store: worker.rs:96-138 has no such statement)
collector: `results[idx] = Some(result)` for every message, then `results.into_iter().flatten()`
  — modelled by the log `sent` and `summary` (slot array read-out).
outside: `extCancel` (`BatchProcessor::cancel` / a store on the shared flag at any time),
  `monExit` (the progress-callback thread of `BatchProcessor::execute` leaves its loop only when
  `cancelled` or `completed + failed >= total`; `execute` joins it).

Worker threads are interchangeable; the state keeps the jobs in flight and the number of idle
workers (split by the instrumentation bit `wk`, see `Fl`).  Logs are kept sorted (they are sets).

Import-free.
-/
namespace OxiVerif.C22Old

inductive Out | ok | err | panic
deriving DecidableEq, Repr, Hashable

structure JobSpec where
  custom : Bool
  out : Out
  /-- the operation itself sets the shared cancel flag before it returns (a job that calls
  `cancel()`); used to probe the workers' look at the flag without a race -/
  cancels : Bool := false
deriving DecidableEq, Repr

structure Cfg where
  jobs : List JobSpec
  workers : Nat
  /-- `stop_on_error` -/
  soe : Bool
  /-- the flag is already set when processing starts (`cancel()` before `execute()`) -/
  pre : Bool
  /-- somebody may set the flag at any moment during processing -/
  ext : Bool
  /-- `BatchProcessor::execute` with a progress callback: a polling thread is joined at the end -/
  monitor : Bool
deriving Repr

inductive Kind | success | failed | cancelled
deriving DecidableEq, Repr, Hashable

inductive Pc
  | got | started | go
  | done (okr : Bool) | dec (okr : Bool) | cnt (okr : Bool)
deriving DecidableEq, Repr, Hashable

/-- A job in flight on some worker thread. -/
structure Fl where
  idx : Nat
  pc : Pc
  /-- instrumentation: this worker thread has returned an operation error from a custom job before -/
  wk : Bool
  /-- instrumentation: `wk` when the job was dequeued -/
  prov : Bool
  /-- ghost: the cancel flag was set when `start_job` ran -/
  lateC : Bool
  /-- ghost: `failed_jobs ≥ 1` (a failure was recorded) when `start_job` ran -/
  lateF : Bool
deriving DecidableEq, Repr, Hashable

inductive DPc | top | sendC | enq | closed
deriving DecidableEq, Repr, Hashable

structure St where
  dnext : Nat
  dpc : DPc
  cancelled : Bool
  extDone : Bool
  queue : List Nat
  inflight : List Fl
  /-- workers between `send(Failed)` and `cancelled.store(true)` (non-custom, stop_on_error) -/
  storing : List Fl
  idleK : Nat
  idleN : Nat
  /-- jobs whose operation panicked (their worker thread is gone) -/
  lost : List Nat
  running : Nat
  completed : Nat
  failed : Nat
  /-- ghost: number of `start_job` calls / of `running_jobs.fetch_sub` calls -/
  startedN : Nat
  finishedN : Nat
  /-- every message sent on the result channel -/
  sent : List (Nat × Kind)
  /-- jobs whose operation was entered -/
  ranLog : List Nat
  /-- instrumentation: custom jobs entered on a worker with `prov` -/
  provLog : List Nat
  /-- ghost: jobs entered although the cancel flag was set when they started -/
  ranLateC : List Nat
  /-- ghost: jobs entered although a failure had been recorded when they started -/
  ranLateF : List Nat
  mon : Bool
deriving DecidableEq, Repr, Hashable

inductive Act
  | dLoad | dSendC | dEnq | dClose
  | deq (knows : Bool)
  | w (k : Nat)
  | store (k : Nat)
  | extCancel | monExit
deriving DecidableEq, Repr

def init (cfg : Cfg) : St :=
  { dnext := 0, dpc := .top, cancelled := cfg.pre, extDone := false, queue := [], inflight := [], storing := [],
    idleK := 0, idleN := cfg.workers, lost := [], running := 0, completed := 0, failed := 0,
    startedN := 0, finishedN := 0, sent := [], ranLog := [], provLog := [], ranLateC := [],
    ranLateF := [], mon := cfg.monitor }

/-- sorted insertion (logs are sets; keeping them sorted makes equal sets equal states) -/
def ins (k : Nat) : List Nat → List Nat
  | [] => [k]
  | a :: l => if k ≤ a then k :: a :: l else a :: ins k l

def insSent (m : Nat × Kind) : List (Nat × Kind) → List (Nat × Kind)
  | [] => [m]
  | a :: l => if m.1 ≤ a.1 then m :: a :: l else a :: insSent m l

def specOf (cfg : Cfg) (k : Nat) : JobSpec :=
  (cfg.jobs[k]?).getD { custom := true, out := .ok }

def findFl (k : Nat) (l : List Fl) : Option Fl := l.find? (fun f => f.idx == k)
def setPc (k : Nat) (pc : Pc) (l : List Fl) : List Fl :=
  l.map (fun f => if f.idx == k then { f with pc := pc } else f)
def updFl (k : Nat) (g : Fl → Fl) (l : List Fl) : List Fl :=
  l.map (fun f => if f.idx == k then g f else f)
def dropFl (k : Nat) (l : List Fl) : List Fl := l.filter (fun f => !(f.idx == k))

def alive (s : St) : Nat := s.idleK + s.idleN + s.inflight.length + s.storing.length

/-- a worker goes back to waiting on the job channel -/
def release (s : St) (wk : Bool) : St :=
  if wk then { s with idleK := s.idleK + 1 } else { s with idleN := s.idleN + 1 }

def kindOf (okr : Bool) : Kind := if okr then .success else .failed

/-- entering the operation of job `f.idx` -/
def runOp (cfg : Cfg) (s : St) (f : Fl) : St :=
  let k := f.idx
  let sp := specOf cfg k
  let s := { s with
    ranLog := ins k s.ranLog,
    provLog := if sp.custom && f.prov then ins k s.provLog else s.provLog,
    ranLateC := if f.lateC then ins k s.ranLateC else s.ranLateC,
    ranLateF := if f.lateF then ins k s.ranLateF else s.ranLateF,
    cancelled := s.cancelled || sp.cancels }
  match sp.out with
  | .ok => { s with inflight := setPc k (.done true) s.inflight }
  | .err => { s with inflight := updFl k (fun f => { f with pc := .done false, wk := f.wk || sp.custom }) s.inflight }
  | .panic => { s with inflight := dropFl k s.inflight, lost := ins k s.lost }

def wstep (cfg : Cfg) (s : St) (f : Fl) : St :=
  let k := f.idx
  let sp := specOf cfg k
  match f.pc with
  | .got =>
    { s with running := s.running + 1, startedN := s.startedN + 1,
             inflight := updFl k (fun f => { f with pc := .started, lateC := s.cancelled,
                                                     lateF := decide (0 < s.failed) }) s.inflight }
  | .started =>
    if sp.custom then
      if s.cancelled then { s with inflight := setPc k (.done false) s.inflight }
      else { s with inflight := setPc k .go s.inflight }
    else runOp cfg s f
  | .go => runOp cfg s f
  | .done r =>
    { s with running := s.running - 1, finishedN := s.finishedN + 1,
             inflight := setPc k (.dec r) s.inflight }
  | .dec r =>
    if r then { s with completed := s.completed + 1, inflight := setPc k (.cnt r) s.inflight }
    else { s with failed := s.failed + 1, inflight := setPc k (.cnt r) s.inflight }
  | .cnt r =>
    let s := { s with sent := insSent (k, kindOf r) s.sent, inflight := dropFl k s.inflight }
    if !sp.custom && !r && cfg.soe then { s with storing := s.storing ++ [f] }
    else release s f.wk

def step (cfg : Cfg) (s : St) : Act → Option St
  | .dLoad =>
    if s.dpc = .top ∧ s.dnext < cfg.jobs.length then
      some { s with dpc := if s.cancelled then .sendC else .enq }
    else none
  | .dClose =>
    if s.dpc = .top ∧ ¬ s.dnext < cfg.jobs.length then some { s with dpc := .closed } else none
  | .dSendC =>
    if s.dpc = .sendC then
      some { s with sent := insSent (s.dnext, .cancelled) s.sent, dnext := s.dnext + 1, dpc := .top }
    else none
  | .dEnq =>
    if s.dpc = .enq then
      if alive s = 0 then some { s with dpc := .closed }
      else some { s with queue := s.queue ++ [s.dnext], dnext := s.dnext + 1, dpc := .top }
    else none
  | .deq b =>
    match s.queue with
    | [] => none
    | k :: q =>
      let f : Fl := { idx := k, pc := .got, wk := b, prov := b, lateC := false, lateF := false }
      if b then
        if 0 < s.idleK then some { s with queue := q, idleK := s.idleK - 1, inflight := s.inflight ++ [f] }
        else none
      else
        if 0 < s.idleN then some { s with queue := q, idleN := s.idleN - 1, inflight := s.inflight ++ [f] }
        else none
  | .w k =>
    match findFl k s.inflight with
    | none => none
    | some f => some (wstep cfg s f)
  | .store k =>
    match findFl k s.storing with
    | none => none
    | some f => some (release { s with cancelled := true, storing := s.storing.erase f } f.wk)
  | .extCancel =>
    if cfg.ext ∧ s.extDone = false then some { s with cancelled := true, extDone := true } else none
  | .monExit =>
    if s.mon ∧ (s.cancelled ∨ cfg.jobs.length ≤ s.completed + s.failed) then some { s with mon := false }
    else none

/-- every action that can possibly be enabled in `s` -/
def acts (s : St) : List Act :=
  [.dLoad, .dSendC, .dEnq, .dClose, .deq true, .deq false, .extCancel, .monExit]
    ++ s.inflight.map (fun f => .w f.idx) ++ s.storing.map (fun f => .store f.idx)

def next (cfg : Cfg) (s : St) : List St := (acts s).filterMap (step cfg s)

/-- run a sequence of actions -/
def runActs (cfg : Cfg) : St → List Act → Option St
  | s, [] => some s
  | s, a :: as => match step cfg s a with
    | some s' => runActs cfg s' as
    | none => none

inductive Reachable (cfg : Cfg) : St → Prop
  | init : Reachable cfg (init cfg)
  | step {s s' a} : Reachable cfg s → step cfg s a = some s' → Reachable cfg s'

/-- `process_jobs` has returned (all workers joined, collector drained): dispatcher closed,
nothing in flight, nothing a live worker could still dequeue. -/
def workersDone (s : St) : Bool :=
  s.dpc == .closed && s.inflight.isEmpty && s.storing.isEmpty && (s.queue.isEmpty || s.idleK + s.idleN == 0)

/-- `execute` / `process_jobs` has returned to the caller -/
def quiescent (s : St) : Bool := workersDone s && !s.mon

/-- `execute` can never return: the polling thread it joins cannot leave its loop -/
def stuck (cfg : Cfg) (s : St) : Bool :=
  workersDone s && s.mon && !s.cancelled && decide (s.completed + s.failed < cfg.jobs.length)
    && (!cfg.ext || s.extDone)

/-- slot `i` of the collector's array: `insSent` puts a new message in front of older ones with
the same index, so the first match is the last write -/
def lookupSent (i : Nat) (l : List (Nat × Kind)) : Option Kind :=
  (l.find? (fun m => m.1 == i)).map (fun m => m.2)

/-- `results[idx] = Some(result)` for every message, then `into_iter().flatten()` -/
def summary (cfg : Cfg) (s : St) : List (Nat × Kind) :=
  (List.range cfg.jobs.length).filterMap (fun i => (lookupSent i s.sent).map (fun k => (i, k)))

def countKind (k : Kind) (l : List (Nat × Kind)) : Nat := (l.filter (fun m => m.2 == k)).length

end OxiVerif.C22Old
