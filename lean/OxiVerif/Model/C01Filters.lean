import OxiVerif.Model.C01Mach
/-!
C01 kernels of `parser/filters.rs` and a few small arithmetic sites elsewhere.
Bytes are `Nat < 256` in `List Nat`.
-/
namespace OxiVerif.C01

abbrev Bytes := List Nat

/-- `u8::is_ascii_whitespace` : SP, HT, LF, FF, CR (not NUL, not VT) -/
def isWs (b : Nat) : Bool := b == 32 || b == 9 || b == 10 || b == 12 || b == 13

/-- `is_pdf_whitespace` of filters.rs : NUL or `is_ascii_whitespace` -/
def isPdfWs (b : Nat) : Bool := b == 0 || isWs b

/-! ## ASCII85 (`decode_ascii85_with_limit`, filters.rs 649-742) -/

/-- `85u32.pow(4 - i)` -/
def pow85 : Nat → Nat
  | 0 => 52200625
  | 1 => 614125
  | 2 => 7225
  | 3 => 85
  | _ => 1

/-- `.map(|(i, &ch)| (ch - b'!') as u32 * 85u32.pow(4 - i as u32)).sum::<u32>()`, from index `i`,
accumulator `acc` (`Sum` starts at 0 and adds with overflow checks inherited from the caller). -/
def groupSum : Nat → Nat → List Nat → Outcome Nat
  | _, acc, [] => .ok acc
  | i, acc, c :: rest => do
    let t ← mulU U32 (c - 33) (pow85 i)
    let acc' ← addU U32 acc t
    groupSum (i + 1) acc' rest

/-- `ascii85_group_value`: `try_fold(0u32, |v, &ch| v.checked_mul(85).and_then(|v| v.checked_add((ch - b'!') as u32)))`
— a value above `u32::MAX` is a decode ERROR (before the repair: the unchecked positional sum
`groupSum`, see `groupValueOld`).  Callers only pass characters `33..=117`. -/
def groupHorner : Nat → List Nat → Outcome Nat
  | v, [] => .ok v
  | v, c :: rest =>
    if v * 85 < U32 ∧ v * 85 + (c - 33) < U32 then groupHorner (v * 85 + (c - 33)) rest else .err

def groupValue (g : List Nat) : Outcome Nat := groupHorner 0 g

/-- `extend_bounded` / `push_bounded` : error when the result would exceed `max` -/
def extendBounded (res bs : Bytes) (max : Nat) : Outcome Bytes :=
  if bs.length > max - res.length then .err else .ok (res ++ bs)

def be4 (v : Nat) : Bytes := [(v / 2 ^ 24) % 256, (v / 2 ^ 16) % 256, (v / 2 ^ 8) % 256, v % 256]

/-- the part after the `while` loop: pad the incomplete group with `u`, output `len-1` bytes -/
def a85Tail (max : Nat) (group res : Bytes) : Outcome Bytes :=
  if group.isEmpty then .ok res
  else do
    let padded := group ++ List.replicate (5 - group.length) 117
    let v ← groupValue padded
    extendBounded res ((be4 v).take (group.length - 1)) max

/-- main loop over the white-space-filtered characters -/
def a85Loop (max : Nat) : Bytes → Bytes → Bytes → Outcome Bytes
  | [], group, res => a85Tail max group res
  | c :: rest, group, res =>
    if c == 126 then            -- '~'
      match rest with
      | 62 :: _ => a85Tail max group res
      | _ => .err
    else if c == 122 && group.isEmpty then do   -- 'z'
      let res' ← extendBounded res [0, 0, 0, 0] max
      a85Loop max rest group res'
    else if 33 ≤ c && c ≤ 117 then
      let g := group ++ [c]
      if g.length == 5 then do
        let v ← groupValue g
        let res' ← extendBounded res (be4 v) max
        a85Loop max rest [] res'
      else a85Loop max rest g res
    else .err

def a85Decode (data : Bytes) (max : Nat) : Outcome Bytes :=
  let cs := data.filter (fun b => !isPdfWs b)
  -- optional `<~` prefix (peeked: a `<` followed by something else is an ordinary digit)
  match cs with
  | 60 :: 126 :: rest => a85Loop max rest [] []
  | _ => a85Loop max cs [] []

def MAX_DECOMPRESSED_SIZE : Nat := 256 * 1024 * 1024

/-! ## PNG predictor (`apply_predictor`, `apply_png_predictor_advanced`, filters.rs 1804-2015) -/

structure PredSizing where
  bpp : Nat
  rowBytes : Nat
  rowSize : Nat
  numRows : Nat
deriving Repr, DecidableEq

/-- `checked_mul` / `checked_add` : `None` becomes the function's error -/
def ckMul (a b : Nat) : Outcome Nat := if a * b < USIZE then .ok (a * b) else .err
def ckAdd (a b : Nat) : Outcome Nat := if a + b < USIZE then .ok (a + b) else .err

/-- the casts, `bpc.checked_mul(colors)` then `div_ceil(8)` (before the repair an UNCHECKED product,
see `predSizingOld`), the checked row size, the divisibility test -/
def predSizing (columns bpc colors : Int) (len : Nat) : Outcome PredSizing := do
  let columns := asU USIZE columns
  let bpc := asU USIZE bpc
  let colors := asU USIZE colors
  let prod ← ckMul bpc colors
  let bpp := (prod + 7) / 8
  let samples ← ckMul columns colors
  let bits ← ckMul samples bpc
  let bits7 ← ckAdd bits 7
  let rowBytes := bits7 / 8
  let rowSize ← ckAdd rowBytes 1
  if len % rowSize != 0 then .err
  else .ok { bpp := bpp, rowBytes := rowBytes, rowSize := rowSize, numRows := len / rowSize }

def paeth (left up upLeft : Nat) : Nat :=
  let p : Int := (left : Int) + up - upLeft
  let pa := (p - left).natAbs
  let pb := (p - up).natAbs
  let pc := (p - upLeft).natAbs
  if pa ≤ pb ∧ pa ≤ pc then left else if pb ≤ pc then up else upLeft

/-- one filtered row; `out` is the already produced prefix of this row (`result` in the Rust
helpers), `i` the index; `result[i - bpp]` is a checked index -/
def filterRow (ft bpp : Nat) (prev : Option Bytes) : Nat → Bytes → Bytes → Outcome Bytes
  | _, [], out => .ok out
  | i, b :: rest, out => do
    let up := match prev with
      | some r => r.getD i 0
      | none => 0
    -- `result[i - bytes_per_pixel]` is evaluated by the Sub, Average and Paeth helpers only
    let left ← if i < bpp ∨ ft = 0 ∨ ft = 2 then pure 0 else idx out (i - bpp)
    let upLeft := if i < bpp then 0 else match prev with
      | some r => r.getD (i - bpp) 0
      | none => 0
    let v := match ft with
      | 0 => b
      | 1 => if i < bpp then b else (b + left) % 256
      | 2 => (b + up) % 256
      | 3 => (b + (left + up) / 2) % 256
      | _ => (b + paeth left up upLeft) % 256
    filterRow ft bpp prev (i + 1) rest (out ++ [v])

/-- `&data[a..b]` -/
def slice (xs : Bytes) (a b : Nat) : Outcome Bytes :=
  if a ≤ b ∧ b ≤ xs.length then .ok ((xs.drop a).take (b - a)) else .panic .index

/-- the row loop, lines 1871-1921 -/
def predRows (data : Bytes) (s : PredSizing) : Nat → Nat → Bytes → Outcome Bytes
  | 0, _, res => .ok res
  | fuel + 1, row, res =>
    if row ≥ s.numRows then .ok res
    else do
      let rowStart := row * s.rowSize
      let ft ← idx data rowStart
      let rowData ← slice data (rowStart + 1) (rowStart + s.rowSize)
      if ft > 4 then .err
      else do
        let prev ← if ft ≥ 2 ∧ row > 0 then
            (do let p ← slice res ((row - 1) * s.rowBytes) (row * s.rowBytes); pure (some p))
          else pure none
        let out ← filterRow ft s.bpp prev 0 rowData []
        predRows data s fuel (row + 1) (res ++ out)

def pngPredict (data : Bytes) (columns bpc colors : Int) : Outcome Bytes := do
  let s ← predSizing columns bpc colors data.length
  predRows data s (s.numRows + 1) 0 []

/-- `/Predictor 2` (TIFF horizontal differencing, `apply_tiff_predictor`) is outside this model: the
driver makes no prediction for it (C07/C08 model it) -/
def predictorModelled (predictor : Int) : Bool := asU U32 predictor != 2

/-- `apply_predictor(data, predictor as u32, params)` for the predictors other than 2; absent keys take
the defaults 1 / 8 / 1 -/
def applyPredictor (data : Bytes) (predictor : Int) (columns bpc colors : Option Int) : Outcome Bytes :=
  let p := asU U32 predictor
  if 10 ≤ p ∧ p ≤ 15 then pngPredict data (columns.getD 1) (bpc.getD 8) (colors.getD 1)
  else .ok data

/-- tail of `apply_filter_with_params`: a predictor *error* falls back to the undecoded data,
a panic does not -/
def filterThenPredict (decoded : Bytes) (predictor : Option Int) (columns bpc colors : Option Int) :
    Outcome Bytes :=
  match predictor with
  | none => .ok decoded
  | some p =>
    match applyPredictor decoded p columns bpc colors with
    | .err => .ok decoded
    | o => o

/-! ## `read_to_end_limited` (filters.rs 55-81): chunks as delivered by the decoder -/

def readToEndLimited (max : Nat) : List Bytes → Bytes → Outcome Bytes
  | [], res => .ok res
  | c :: rest, res =>
    if c.isEmpty then .ok res          -- `Ok(0) => break`
    else if res.length + c.length > max then .err
    else readToEndLimited max rest (res ++ c)

/-! ## small arithmetic sites -/

/-- operations/rotate.rs `(parsed_page.rotation.rem_euclid(360) + angle.to_degrees()).rem_euclid(360)`
with `rotation = /Rotate as i32` (page_tree.rs:569); the addition is still a checked `i32` addition,
its left operand is now in `[0, 360)` -/
def rotateCompose (rotate : Int) (angle : Int) : Outcome Int := do
  let r := asI U32 rotate
  let s ← addI I32MIN I32MAX (r % 360) angle
  pure (s % 360)

/-- text/cmap.rs:781 `code.iter().fold(0, |acc, &b| acc * 256 + b as usize)` -/
def beFold : Nat → Bytes → Outcome Nat
  | acc, [] => .ok acc
  | acc, b :: rest => do
    let m ← mulU USIZE acc 256
    let a ← addU USIZE m b
    beFold a rest

def calculateOffset (code start : Bytes) : Outcome Nat := do
  let c ← beFold 0 code
  let s ← beFold 0 start
  pure (c - s)

/-- page_labels/page_label.rs `self.start.saturating_add(offset)` (u32) -/
def labelNumber (start offset : Nat) : Outcome Nat := .ok (min (start + offset) (U32 - 1))

/-- encryption/rc4.rs:45 `key.key[i % key.key.len()]` for `i = 0` -/
def rc4FirstIndex (keyLen : Nat) : Outcome Nat := remU 0 keyLen

/-- object_stream.rs `self.first.checked_add(*offset)` (u32; overflow → error), for the list of
offsets in order; the objects at earlier offsets parse successfully -/
def objStmOffsets (first : Int) : List Int → Outcome (List Nat)
  | [] => .ok []
  | o :: rest => do
    let a ← (if asU U32 first + asU U32 o < U32 then .ok (asU U32 first + asU U32 o) else .err : Outcome Nat)
    let r ← objStmOffsets first rest
    pure (a :: r)

end OxiVerif.C01
