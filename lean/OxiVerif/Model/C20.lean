/-
C20 — the writer with every `HashMap` iteration replaced by an ORDER ORACLE (builder b0320).

Rust's `HashMap` iterates in an order that depends on a per-map random seed.  Every site of the
writing path that iterates a map is modelled as: take the logical content `l` (an association
list), let an arbitrary oracle `π` reorder it (`π l ~ l`), then do what the code does.  A site is
deterministic iff its output does not depend on `π`.  The sites (docs/C20.md has the inventory
with line numbers) built on the C03 layout model:

  * `emitSortedDict`   — `write_object_value` / `write_object_value_to_buffer`, Dictionary arm:
                          `dict.entries().collect()`, `sort_by_key(k)`, emit           (SORTED)
  * `streamBodyO`      — Stream arm: clone, `set("Length")`, then the Dictionary arm     (SORTED)
  * `packStreamsO`     — `flush_object_streams`: `buffered_objects.iter().collect()`,
                          `sort_by_key(id.number())`                                     (SORTED)
  * `classicTailO`     — `write_xref` + `write_trailer`: `xref_positions.iter()` collected,
                          sorted by number, looked up by number; `keys().max()`          (SORTED / order-insensitive)
  * `xrefStreamEntriesO` — `write_xref_stream`: same collection + `compressed_object_map.get`  (SORTED / lookup)
  * `xrefStreamDictO`  — `write_xref_stream`: `dict.iter().collect()`, `sort_by_key(k)`, emit  (SORTED since
                          fix 8d436ce0; `xrefStreamDictUnsortedO` = the code before the repair)
  * `externalizeO`     — annotation /AP: `ap_dict.iter().collect()`, `sort_by_key(k)`, then object ids
                          allocated in that order (SORTED since fix b6546a33; `externalizeUnsortedO` =
                          the code before the repair)
Clock and RNG do not occur: dates come from the document (`set_creation_date`,
`set_modification_date`), the only RNG use is the encryption file id (excluded: unencrypted).
Import-free apart from the C03 model.
-/
import OxiVerif.Model.C03
namespace OxiVerif.C20
open OxiVerif.C03

abbrev Oracle (α : Type) := List α → List α

/-- Dictionary arm -/
def emitSortedDict (π : Oracle DictE) (d : List DictE) : List Nat := emitDict (sortEntries (π d))

/-- Stream arm: `dict.clone()` (a new map, new order), `set("Length", …)`, Dictionary arm -/
def streamBodyO (π : Oracle DictE) (dict : List DictE) (data : List Nat) : List Nat :=
  emitSortedDict π (setKey dict kLength (dec data.length)) ++ kStream ++ data ++ kEndstream

/-- `flush_object_streams` -/
def packStreamsO (π : Oracle (Nat × List Nat)) (buffered : List (Nat × List Nat)) : List ObjStm :=
  let sorted := (π (dedupNewest buffered)).mergeSort (fun a b => a.1 ≤ b.1)
  numberFrom kFirstStreamId (chunks kMaxPerStream sorted.length sorted)

/-- `entries.sort_by_key(|(id, _)| id.number())` then `entries.iter().find(number == n)` -/
def lookupSorted (π : Oracle (Nat × Nat)) (x : List (Nat × Nat)) (n : Nat) : Option Nat :=
  (((π (dedupNewest x)).mergeSort (fun a b => a.1 ≤ b.1)).find? (fun e => e.1 == n)).map (·.2)

def maxIdO (π : Oracle (Nat × Nat)) (x : List (Nat × Nat)) : Nat :=
  (π (dedupNewest x)).foldl (fun m e => max m e.1) 0

/-- `write_xref` -/
def classicEntriesO (π : Oracle (Nat × Nat)) (x : List (Nat × Nat)) : List Entry :=
  .free 0 65535 :: (List.range' 1 (maxIdO π x)).map (fun n =>
    match lookupSorted π x n with
    | some p => .inUse p 0
    | none => .free 0 0)

/-- `write_xref` + `write_trailer` (`xref_positions.keys().max()` iterates again: second oracle) -/
def classicTailO (π π' : Oracle (Nat × Nat)) (x : List (Nat × Nat)) (root info pos : Nat) : List Nat :=
  classicXrefBytes (classicEntriesO π x) ++ trailerBytes (maxIdO π' x + 1) root info pos

/-- the dictionary of `write_xref_stream`: collected, sorted by key, emitted (pdf_writer/mod.rs,
`entries.sort_by_key(|(k, _)| k.as_str())` in `write_xref_stream`) -/
def xrefStreamDictO (π : Oracle DictE) (n root info : Nat) (w : Nat × Nat × Nat) (len : Nat) : List Nat :=
  emitSortedDict π (xrefStreamDict n root info w len)

/-- the same site as it was before repair 8d436ce0 (`for (key, value) in dict.iter()` emitted as
iterated); kept as the regression the witness theorem speaks about -/
def xrefStreamDictUnsortedO (π : Oracle DictE) (n root info : Nat) (w : Nat × Nat × Nat) (len : Nat) : List Nat :=
  emitDict (π (xrefStreamDict n root info w len))

/-- `allocate_object_id()` + `write_object` per inline stream while walking a list of entries
(annotation /AP, /N, /D dictionaries): the object NUMBER an appearance stream receives is its
position in the walk -/
def allocFrom {κ β} (next : Nat) : List (κ × β) → List (κ × Nat)
  | [] => []
  | (k, _) :: r => (k, next) :: allocFrom (next + 1) r

/-- the /AP sites as repaired by b6546a33: `ap_dict.iter().collect()`, `sort_by_key(k)`, walk -/
def externalizeO (π : Oracle DictE) (next : Nat) (streams : List DictE) : List (List Nat × Nat) :=
  allocFrom next (sortEntries (π streams))

/-- the same sites before the repair (`for (state_key, state_val) in ap_dict.iter()`) -/
def externalizeUnsortedO {κ β} (π : Oracle (κ × β)) (next : Nat) (streams : List (κ × β)) : List (κ × Nat) :=
  allocFrom next (π streams)

end OxiVerif.C20
