/-
C17 — model of the two incremental-revision writers of oxidize-pdf-core/src/writer:

  * `incremental_update.rs`  `IncrementalUpdate::{allocate_id, replace, finish}`, `partial_xref`,
    `write_trailer`, `write_indirect_object`            (used by the text-note editor)
  * `incremental_form_fill.rs` the assembly part of `fill_many_impl`, `write_partial_xref_section`,
    `write_incremental_trailer`, `write_indirect_object`   (the form filler's own copies)

Bytes are `List Nat`.  Object *bodies* (what `write_object` produces for the replaced dictionaries,
the Form XObject text of the appearance streams) are opaque byte strings here: serialisation is
C09's subject; this model is about where the bytes go, the cross-reference section and the trailer.
Import-free.
-/
namespace OxiVerif.C17

abbrev Bytes := List Nat

def ascii (s : String) : Bytes := s.toList.map Char.toNat

/-- `n.to_string()` -/
def dec (n : Nat) : Bytes := ascii (toString n)

/-- `format!("{n:0w$}")`: at least `w` digits -/
def decPad (w n : Nat) : Bytes :=
  let d := dec n
  List.replicate (w - d.length) 48 ++ d

/-- `format!("{number} {generation} obj\n")` -/
def objHeader (n g : Nat) : Bytes := dec n ++ [32] ++ dec g ++ ascii " obj\n"

/-- `write_indirect_object` (both files) with the body already serialised -/
def writeIndirect (n g : Nat) (body : Bytes) : Bytes :=
  objHeader n g ++ body ++ ascii "\nendobj\n"

structure Obj where
  num : Nat
  gen : Nat
  body : Bytes
  deriving Repr, DecidableEq

/-- (number, generation, offset) -/
structure Changed where
  num : Nat
  gen : Nat
  off : Nat
  deriving Repr, DecidableEq

/-- the loop `for … { let offset = out.len(); write_indirect_object(..); changed.push(..) }`:
    `start` = `out.len()` before the loop -/
def layout : Nat → List Obj → Bytes × List Changed
  | _, [] => ([], [])
  | start, o :: rest =>
    let b := writeIndirect o.num o.gen o.body
    let (bs, cs) := layout (start + b.length) rest
    (b ++ bs, ⟨o.num, o.gen, start⟩ :: cs)

/-- stable insertion sort by a key (`sort_by_key` is stable) -/
def insertBy {α} (key : α → Nat) (x : α) : List α → List α
  | [] => [x]
  | y :: r => if key x < key y then x :: y :: r else y :: insertBy key x r

def sortBy {α} (key : α → Nat) (xs : List α) : List α :=
  xs.foldl (fun acc x => insertBy key x acc) []

/-- maximal runs of consecutive numbers: `(start, entries)` per subsection
    (the `while end + 1 < len && changed[end+1].0 == changed[end].0 + 1` loop) -/
def groupRuns : List Changed → List (Nat × List Changed)
  | [] => []
  | c :: rest =>
    match groupRuns rest with
    | (s, es) :: more => if s = c.num + 1 then (c.num, c :: es) :: more else (c.num, [c]) :: (s, es) :: more
    | [] => [(c.num, [c])]

def entryLine (c : Changed) : Bytes :=
  decPad 10 c.off ++ [32] ++ decPad 5 c.gen ++ ascii " n \n"

def subsectionBytes (s : Nat × List Changed) : Bytes :=
  dec s.1 ++ [32] ++ dec s.2.length ++ [10] ++ s.2.flatMap entryLine

/-- `partial_xref` (incremental_update.rs): `changed` as given (finish sorted the objects) -/
def partialXref (changed : List Changed) : Bytes :=
  ascii "xref\n" ++ (groupRuns changed).flatMap subsectionBytes

/-- `write_partial_xref_section` (incremental_form_fill.rs): sorts by number first -/
def writePartialXrefSection (changed : List Changed) : Bytes :=
  partialXref (sortBy (·.num) changed)

/-- `write_trailer` / `write_incremental_trailer` + startxref + %%EOF; `idPart` is the
    `/ID [<…> <…>] ` text or empty -/
def trailerBytes (size rootN rootG prev xrefPos : Nat) (idPart : Bytes) : Bytes :=
  ascii "trailer\n<< /Size " ++ dec size ++ ascii " /Root " ++ dec rootN ++ [32] ++ dec rootG ++
    ascii " R /Prev " ++ dec prev ++ [32] ++ idPart ++ ascii ">>\nstartxref\n" ++ dec xrefPos ++
    ascii "\n%%EOF\n"

def endsWithEol (b : Bytes) : Bool :=
  match b.getLast? with
  | some 10 => true
  | some 13 => true
  | _ => false

/-- (num, gen) as one sort key — generations are below 65536 -/
def objKey (o : Obj) : Nat := o.num * 65536 + o.gen

/-- what is appended by `IncrementalUpdate::finish` -/
def finishSuffix (base : Bytes) (prev rootN rootG size : Nat) (repl : List Obj) (idPart : Bytes) : Bytes :=
  let nl : Bytes := if endsWithEol base then [] else [10]
  let objs := sortBy objKey repl
  let (ob, changed) := layout (base.length + nl.length) objs
  let xrefPos := base.length + nl.length + ob.length
  nl ++ ob ++ partialXref changed ++ trailerBytes size rootN rootG prev xrefPos idPart

def finish (base : Bytes) (prev rootN rootG size : Nat) (repl : List Obj) (idPart : Bytes) : Bytes :=
  base ++ finishSuffix base prev rootN rootG size repl idPart

/-- what is appended by `fill_many_impl` (objects in the planner's order, no EOL guard) -/
def fillSuffix (base : Bytes) (prev rootN rootG size : Nat) (objs : List Obj) (idPart : Bytes) : Bytes :=
  let (ob, changed) := layout base.length objs
  let xrefPos := base.length + ob.length
  ob ++ writePartialXrefSection changed ++ trailerBytes size rootN rootG prev xrefPos idPart

def fill (base : Bytes) (prev rootN rootG size : Nat) (objs : List Obj) (idPart : Bytes) : Bytes :=
  base ++ fillSuffix base prev rootN rootG size objs idPart

/-- `/Size` of the new trailer: `next_id` after allocating one fresh number per new object -/
def newSize (prevSize : Nat) (objs : List Obj) : Nat :=
  prevSize + (objs.filter (fun o => prevSize ≤ o.num)).length

/-- the first object numbers the PdfWriter page paths (`write_incremental_update`,
    `write_incremental_with_page_replacement`, `write_incremental_with_overlay` in
    pdf_writer/mod.rs) give their NEW catalog, /Pages and /Info: `allocate_object_id` counts up
    from `next_object_id`, which `PdfWriter::with_config` initialises to 1 and none of the three
    functions moves to the base file's /Size (contrast `IncrementalUpdate::allocate_id`:
    `next_id = size`) -/
def pageStepFirstIds (nextObjectId : Nat) : List Nat := [nextObjectId, nextObjectId + 1, nextObjectId + 2]

end OxiVerif.C17
