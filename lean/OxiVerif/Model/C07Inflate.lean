import OxiVerif.Spec.C07Codecs
/-
C07 — executable inflate (RFC 1951) inside a zlib wrapper (RFC 1950), the stand-in for the external
`flate2::read::ZlibDecoder` that `parser/filters.rs` calls (`try_standard_zlib_decode`,
`decode_flate_with_limit`).  flate2/miniz_oxide is NOT transcribed; this is written from the RFCs
(decoding loop after Mark Adler's `puff.c`), and the C07 driver uses it as the model's `Ext.zlib`, so
on every Flate case of the correspondence run its output is compared with what the real crate
decoded (stored, fixed-Huffman and dynamic-Huffman blocks produced by flate2 levels 0–9 and by the
reference stored-block encoder).

Only well-formed streams matter for C07: on malformed input this function returns `none` in some
cases where flate2 is more lenient or reports partial output; the driver then falls back to the
answer carried in the request.
Bytes are `Nat`s < 256.  Core Lean only.
-/
namespace OxiVerif.Inflate
open OxiVerif.Codec

/-- LSB-first bit reader: `data` = bytes not yet consumed, `bit` = next bit of the head byte -/
structure BR where
  data : List Nat
  bit : Nat
  deriving Repr

def BR.readBit : BR → Option (Nat × BR)
  | ⟨[], _⟩ => none
  | ⟨b :: tl, k⟩ => some (b / 2 ^ k % 2, if k ≥ 7 then ⟨tl, 0⟩ else ⟨b :: tl, k + 1⟩)

/-- `n` bits, least significant first (RFC 1951 §3.1.1 "data elements other than Huffman codes") -/
def readBitsLE : Nat → BR → Option (Nat × BR)
  | 0, r => some (0, r)
  | n + 1, r =>
    match r.readBit with
    | none => none
    | some (b, r) =>
      match readBitsLE n r with
      | none => none
      | some (v, r) => some (b + 2 * v, r)

/-- skip to the next byte boundary -/
def BR.align : BR → BR
  | ⟨d, 0⟩ => ⟨d, 0⟩
  | ⟨_ :: tl, _ + 1⟩ => ⟨tl, 0⟩
  | ⟨[], _ + 1⟩ => ⟨[], 0⟩

/-- §3.2.4 non-compressed block, after the 3 header bits -/
def stored (r : BR) (out : Array Nat) : Option (Array Nat × BR) :=
  match r.align.data with
  | l0 :: l1 :: n0 :: n1 :: rest =>
    if l0 + 256 * l1 + (n0 + 256 * n1) ≠ 65535 then none
    else if rest.length < l0 + 256 * l1 then none
    else some (out ++ (rest.take (l0 + 256 * l1)).toArray, ⟨rest.drop (l0 + 256 * l1), 0⟩)
  | _ => none

/-- canonical Huffman code (§3.2.2): `count[l]` = number of symbols of length `l`, `symbol` = symbols
ordered by (length, value) -/
structure Huff where
  count : Array Nat
  symbol : Array Nat

def mkHuff (lengths : Array Nat) : Huff :=
  let count := (Array.range 16).map fun l => (lengths.toList.filter (· == l)).length
  let symbol := ((List.range 16).drop 1).flatMap fun l =>
    (List.range lengths.size).filter fun s => lengths.getD s 0 == l
  ⟨count, symbol.toArray⟩

/-- decode one symbol, one bit at a time (codes are packed most significant bit first); `code` and
`first` are absolute as in puff.c -/
def decodeSymGo (h : Huff) : Nat → Nat → Nat → Nat → Nat → BR → Option (Nat × BR)
  | 0, _, _, _, _, _ => none
  | fuel + 1, len, code, first, index, r =>
    match r.readBit with
    | none => none
    | some (b, r) =>
      let code := code + b
      let count := h.count.getD len 0
      if code < first + count then some (h.symbol.getD (index + (code - first)) 0, r)
      else decodeSymGo h fuel (len + 1) (code * 2) ((first + count) * 2) (index + count) r

def decodeSym (h : Huff) (r : BR) : Option (Nat × BR) := decodeSymGo h 15 1 0 0 0 r

def lbase : Array Nat := #[3, 4, 5, 6, 7, 8, 9, 10, 11, 13, 15, 17, 19, 23, 27, 31, 35, 43, 51, 59, 67, 83, 99, 115,
  131, 163, 195, 227, 258]
def lext : Array Nat := #[0, 0, 0, 0, 0, 0, 0, 0, 1, 1, 1, 1, 2, 2, 2, 2, 3, 3, 3, 3, 4, 4, 4, 4, 5, 5, 5, 5, 0]
def dbase : Array Nat := #[1, 2, 3, 4, 5, 7, 9, 13, 17, 25, 33, 49, 65, 97, 129, 193, 257, 385, 513, 769, 1025, 1537,
  2049, 3073, 4097, 6145, 8193, 12289, 16385, 24577]
def dext : Array Nat := #[0, 0, 0, 0, 1, 1, 2, 2, 3, 3, 4, 4, 5, 5, 6, 6, 7, 7, 8, 8, 9, 9, 10, 10, 11, 11, 12, 12,
  13, 13]

/-- copy `len` bytes from `dist` back, byte by byte (the ranges may overlap) -/
def copyBack : Nat → Nat → Array Nat → Array Nat
  | 0, _, out => out
  | len + 1, dist, out => copyBack len dist (out.push (out.getD (out.size - dist) 0))

/-- §3.2.5 a length symbol (257 … 285) with its extra bits, then the distance code and its extra bits:
copy `length` bytes from `distance` back -/
@[irreducible] def lenDist (dh : Huff) (sym : Nat) (r : BR) (out : Array Nat) : Option (Array Nat × BR) :=
  if sym - 257 ≥ 29 then none
  else
    match readBitsLE (lext.getD (sym - 257) 0) r with
    | none => none
    | some (eb, r) =>
      match decodeSym dh r with
      | none => none
      | some (ds, r) =>
        if ds ≥ 30 then none
        else
          match readBitsLE (dext.getD ds 0) r with
          | none => none
          | some (eb2, r) =>
            if dbase.getD ds 0 + eb2 > out.size then none
            else some (copyBack (lbase.getD (sym - 257) 0 + eb) (dbase.getD ds 0 + eb2) out, r)

/-- §3.2.3 decode literal/length and distance codes until end-of-block -/
def codes (lh dh : Huff) : Nat → BR → Array Nat → Option (Array Nat × BR)
  | 0, _, _ => none
  | fuel + 1, r, out =>
    match decodeSym lh r with
    | none => none
    | some (sym, r) =>
      if sym < 256 then codes lh dh fuel r (out.push sym)
      else if sym = 256 then some (out, r)
      else
        match lenDist dh sym r out with
        | none => none
        | some (out, r) => codes lh dh fuel r out

def fixedLit : Huff :=
  mkHuff ((List.replicate 144 8 ++ List.replicate 112 9 ++ List.replicate 24 7 ++ List.replicate 8 8).toArray)
def fixedDist : Huff := mkHuff (List.replicate 30 5).toArray

def clOrder : List Nat := [16, 17, 18, 0, 8, 7, 9, 6, 10, 5, 11, 4, 12, 3, 13, 2, 14, 1, 15]

/-- read `n` 3-bit code-length-code lengths -/
def readClens : Nat → BR → Option (List Nat × BR)
  | 0, r => some ([], r)
  | n + 1, r =>
    match readBitsLE 3 r with
    | none => none
    | some (v, r) =>
      match readClens n r with
      | none => none
      | some (vs, r) => some (v :: vs, r)

/-- §3.2.7 the literal/length + distance code lengths with the repeat codes 16/17/18 -/
def readLengths (ch : Huff) (total : Nat) : Nat → BR → Array Nat → Option (Array Nat × BR)
  | 0, _, _ => none
  | fuel + 1, r, acc =>
    if acc.size ≥ total then some (acc, r)
    else
      match decodeSym ch r with
      | none => none
      | some (sym, r) =>
        if sym < 16 then readLengths ch total fuel r (acc.push sym)
        else if sym = 16 then
          if acc.size = 0 then none
          else match readBitsLE 2 r with
            | none => none
            | some (n, r) => readLengths ch total fuel r (acc ++ (List.replicate (3 + n) (acc.getD (acc.size - 1) 0)).toArray)
        else if sym = 17 then
          match readBitsLE 3 r with
          | none => none
          | some (n, r) => readLengths ch total fuel r (acc ++ (List.replicate (3 + n) 0).toArray)
        else
          match readBitsLE 7 r with
          | none => none
          | some (n, r) => readLengths ch total fuel r (acc ++ (List.replicate (11 + n) 0).toArray)

def dynamic (fuel : Nat) (r : BR) (out : Array Nat) : Option (Array Nat × BR) :=
  match readBitsLE 5 r with
  | none => none
  | some (hlit, r) =>
    match readBitsLE 5 r with
    | none => none
    | some (hdist, r) =>
      match readBitsLE 4 r with
      | none => none
      | some (hclen, r) =>
        match readClens (hclen + 4) r with
        | none => none
        | some (cls, r) =>
          let clArr := (clOrder.zip cls).foldl (fun (a : Array Nat) p => a.setIfInBounds p.1 p.2) (Array.replicate 19 0)
          match readLengths (mkHuff clArr) (hlit + 257 + (hdist + 1)) 400 r #[] with
          | none => none
          | some (lens, r) =>
            if lens.size ≠ hlit + 257 + (hdist + 1) then none
            else
              codes (mkHuff (lens.extract 0 (hlit + 257))) (mkHuff (lens.extract (hlit + 257) lens.size)) fuel r out

/-- §3.2.3 the block loop -/
def blocks (cfuel : Nat) : Nat → BR → Array Nat → Option (Array Nat × BR)
  | 0, _, _ => none
  | fuel + 1, r, out =>
    match readBitsLE 3 r with
    | none => none
    | some (hdr, r) =>
      let res :=
        if hdr / 2 = 0 then stored r out
        else if hdr / 2 = 1 then codes fixedLit fixedDist cfuel r out
        else if hdr / 2 = 2 then dynamic cfuel r out
        else none
      match res with
      | none => none
      | some (out, r) => if hdr % 2 = 1 then some (out, r) else blocks cfuel fuel r out

def inflateRaw (data : List Nat) : Option (Array Nat × BR) :=
  blocks (8 * data.length + 8) (8 * data.length + 8) ⟨data, 0⟩ #[]

/-- RFC 1950: CMF/FLG check (deflate, no preset dictionary), deflate data, Adler-32 (big endian);
bytes after the checksum are ignored -/
def zlibInflate (data : List Nat) : Option (List Nat) :=
  match data with
  | cmf :: flg :: body =>
    if cmf % 16 ≠ 8 ∨ (cmf * 256 + flg) % 31 ≠ 0 ∨ flg / 32 % 2 = 1 then none
    else
      match inflateRaw body with
      | none => none
      | some (out, r) =>
        match r.align.data with
        | a3 :: a2 :: a1 :: a0 :: _ =>
          if ((a3 * 256 + a2) * 256 + a1) * 256 + a0 = adler32 out.toList then some out.toList else none
        | _ => none
  | _ => none

end OxiVerif.Inflate
