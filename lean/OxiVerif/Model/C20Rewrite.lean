/-
C20, second part — writing the SAME `Document` value twice.  `PdfWriter::write_document` takes
`&mut Document` and mutates it; the only mutation that reaches the output is `document.acro_form`
(pdf_writer/mod.rs):

  * `preallocate_form_manager_fields`: one id per FormManager field, sorted by name → `M`
  * `write_pages`: ids of widget annotations carrying /T are collected in `form_field_ids` → `W`
  * `write_form_fields`:  `if !W.is_empty() { if let Some(acro) = &mut document.acro_form {
                              acro.fields.clear(); for id in W { acro.add_field(id) } } }`
  * `write_catalog`:      `if document.form_manager.is_some() { if document.acro_form.is_none()
                              { document.acro_form = Some(AcroForm::new()) }
                              for r in M { if !acro.fields.contains(r) { acro.fields.push(r) } } }`
                          then `/AcroForm << /Fields acro.fields … >>` is written when `acro_form` is `Some`.

The writer itself is created afresh for every serialisation, so `M` and `W` are the same in both
runs (object ids are allocated deterministically); the state carried from one serialisation to the
next is `acro_form.fields : Option (List Nat)`.  Import-free.
-/
namespace OxiVerif.C20

/-- `for r in M { if !fields.contains(r) { fields.push(r) } }` -/
def appendNew (fields : List Nat) : List Nat → List Nat
  | [] => fields
  | r :: rest => appendNew (if fields.contains r then fields else fields ++ [r]) rest

/-- one `write_document` on a Document whose `acro_form.fields` is `acro`: the new value of
`acro_form.fields`, which is also what the /AcroForm object of this serialisation lists -/
def writeFields (hasMgr : Bool) (M W : List Nat) (acro : Option (List Nat)) : Option (List Nat) :=
  let a1 := match acro with
    | some f => if W.isEmpty then some f else some W
    | none => none
  if hasMgr then some (appendNew (a1.getD []) M) else a1

/-- the /Fields arrays of two consecutive serialisations of the same Document value -/
def writeTwice (hasMgr : Bool) (M W : List Nat) (acro : Option (List Nat)) :
    Option (List Nat) × Option (List Nat) :=
  let s1 := writeFields hasMgr M W acro
  (s1, writeFields hasMgr M W s1)

end OxiVerif.C20
