/-!
# Model.ContentOps — `graphics/ops.rs` (`Op`, `serialize_ops`), `graphics/color.rs`
(`finite_or_zero`, `write_fill_color_bytes`, `write_stroke_color_bytes`),
`text/encoding.rs` (`escape_show_text_literal_bytes`) and the public authoring calls of
`GraphicsContext` / `TextContext` / `Page` that produce `Op`s — transcribed by hand.

Numbers are never floats here.  A numeric operand is the text Rust's formatter produced for the
**raw** argument with the precision the emitting arm uses (`{:.2}`, `{:.3}`, `{:.4}`, `{}`) —
computed by the harness with `format!` (std, trusted) and carried in the request.  The model
applies `finite_or_zero` syntactically: the texts `NaN`, `inf`, `-inf` are replaced by the text of
`0.0` at that precision.  Import-free.
-/
namespace OxiVerif.Model.Content

/-- a formatted number: the formatter's text for the raw argument -/
abbrev Num := List Nat

def txtNaN : List Nat := [78, 97, 78]
def txtInf : List Nat := [105, 110, 102]
def txtNegInf : List Nat := [45, 105, 110, 102]

def isNonFinite (t : Num) : Bool := t == txtNaN || t == txtInf || t == txtNegInf

/-- `0.0` at precision `p` digits: `0`, `0.00`, `0.000`, `0.0000` -/
def zeroAt (p : Nat) : List Nat := if p == 0 then [48] else 48 :: 46 :: List.replicate p 48

/-- `finite_or_zero(v)` followed by formatting at precision `p` (`p = 0`: `Display`) -/
def fin (p : Nat) (t : Num) : List Nat := if isNonFinite t then zeroAt p else t

/-- `graphics::Color` with its components formatted `{:.3}` -/
inductive Color where
  | rgb (r g b : Num)
  | gray (g : Num)
  | cmyk (c m y k : Num)
  deriving Repr, DecidableEq, Inhabited

inductive TJElem where
  | glyphs (hex : List Nat)
  | adjust (v : Num)
  deriving Repr, DecidableEq

/-- `graphics::ops::Op` -/
inductive Op where
  | moveTo (x y : Num)
  | lineTo (x y : Num)
  | curveTo (x1 y1 x2 y2 x3 y3 : Num)
  | rect (x y w h : Num)
  | closePath
  | stroke
  | fillNonZero
  | fillStroke
  | setFillColor (c : Color)
  | setStrokeColor (c : Color)
  | setFillColorSpace (name : List Nat)
  | setStrokeColorSpace (name : List Nat)
  | setFillColorComponents (vs : List Num)
  | setStrokeColorComponents (vs : List Num)
  | setLineWidth (w : Num)
  | setLineCap (c : Nat)
  | setLineJoin (j : Nat)
  | setMiterLimit (l : Num)
  | setDashPatternRaw (s : List Nat)
  | setFlatness (v : Num)
  | setExtGState (name : List Nat)
  | setRenderingIntent (name : List Nat)
  | saveState
  | restoreState
  | cm (a b c d e f : Num)
  | invokeXObject (name : List Nat)
  | beginText
  | endText
  /-- `size` is `Display` text (`{size}`) -/
  | setFont (name : List Nat) (size : Num)
  | setTextPosition (x y : Num)
  /-- bytes already escaped -/
  | showText (escaped : List Nat)
  | showTextHex (hex : List Nat)
  | showTextArray (es : List TJElem)
  | setWordSpacing (v : Num)
  | setCharSpacing (v : Num)
  | setHorizontalScaling (v : Num)
  | setLeading (v : Num)
  | setTextRise (v : Num)
  | setRenderingMode (m : Nat)
  | endPath
  | clipNonZero
  | clipEvenOdd
  | clipStroke
  | paintShading (name : List Nat)
  | comment (text : List Nat)
  | raw (bytes : List Nat)
  deriving Repr, Inhabited

/-! ## decimal `u8` / `usize` Display -/

def natDigitsAux : Nat → Nat → List Nat → List Nat
  | 0, n, acc => (48 + n % 10) :: acc
  | fuel + 1, n, acc =>
    if n < 10 then (48 + n) :: acc else natDigitsAux fuel (n / 10) ((48 + n % 10) :: acc)

def showNat (n : Nat) : List Nat := natDigitsAux n n []

/-! ## `serialize_ops` -/

def sp : List Nat := [32]

/-- numbers at precision `p`, each followed by a space -/
def numsSp (p : Nat) : List Num → List Nat
  | [] => []
  | v :: vs => fin p v ++ 32 :: numsSp p vs

/-- `write_fill_color_bytes` (`stroke = false`) / `write_stroke_color_bytes` (`stroke = true`) -/
def colorBytes (stroke : Bool) : Color → List Nat
  | .rgb r g b => fin 3 r ++ 32 :: (fin 3 g ++ 32 :: (fin 3 b ++ 32 :: (if stroke then [82, 71, 10] else [114, 103, 10])))
  | .gray g => fin 3 g ++ 32 :: (if stroke then [71, 10] else [103, 10])
  | .cmyk c m y k =>
    fin 3 c ++ 32 :: (fin 3 m ++ 32 :: (fin 3 y ++ 32 :: (fin 3 k ++ 32 :: (if stroke then [75, 10] else [107, 10]))))

def tjElems : List TJElem → List Nat
  | [] => []
  | .glyphs h :: r => 32 :: 60 :: (h ++ 62 :: tjElems r)
  | .adjust v :: r => 32 :: (fin 2 v ++ tjElems r)

/-- one arm of the `match` in `serialize_ops` -/
def serOp : Op → List Nat
  | .moveTo x y => fin 2 x ++ 32 :: (fin 2 y ++ [32, 109, 10])
  | .lineTo x y => fin 2 x ++ 32 :: (fin 2 y ++ [32, 108, 10])
  | .curveTo x1 y1 x2 y2 x3 y3 =>
    fin 2 x1 ++ 32 :: (fin 2 y1 ++ 32 :: (fin 2 x2 ++ 32 :: (fin 2 y2 ++ 32 :: (fin 2 x3 ++ 32 :: (fin 2 y3 ++ [32, 99, 10])))))
  | .rect x y w h => fin 2 x ++ 32 :: (fin 2 y ++ 32 :: (fin 2 w ++ 32 :: (fin 2 h ++ [32, 114, 101, 10])))
  | .closePath => [104, 10]
  | .stroke => [83, 10]
  | .fillNonZero => [102, 10]
  | .fillStroke => [66, 10]
  | .setFillColor c => colorBytes false c
  | .setStrokeColor c => colorBytes true c
  | .setFillColorSpace n => 47 :: (n ++ [32, 99, 115, 10])
  | .setStrokeColorSpace n => 47 :: (n ++ [32, 67, 83, 10])
  | .setFillColorComponents vs => numsSp 4 vs ++ [115, 99, 10]
  | .setStrokeColorComponents vs => numsSp 4 vs ++ [83, 67, 10]
  | .setLineWidth w => fin 2 w ++ [32, 119, 10]
  | .setLineCap c => showNat c ++ [32, 74, 10]
  | .setLineJoin j => showNat j ++ [32, 106, 10]
  | .setMiterLimit l => fin 2 l ++ [32, 77, 10]
  | .setDashPatternRaw s => s ++ [32, 100, 10]
  | .setFlatness v => fin 2 v ++ [32, 105, 10]
  | .setExtGState n => 47 :: (n ++ [32, 103, 115, 10])
  | .setRenderingIntent n => 47 :: (n ++ [32, 114, 105, 10])
  | .saveState => [113, 10]
  | .restoreState => [81, 10]
  | .cm a b c d e f =>
    fin 2 a ++ 32 :: (fin 2 b ++ 32 :: (fin 2 c ++ 32 :: (fin 2 d ++ 32 :: (fin 2 e ++ 32 :: (fin 2 f ++ [32, 99, 109, 10])))))
  | .invokeXObject n => 47 :: (n ++ [32, 68, 111, 10])
  | .beginText => [66, 84, 10]
  | .endText => [69, 84, 10]
  | .setFont n size => 47 :: (n ++ 32 :: (fin 0 size ++ [32, 84, 102, 10]))
  | .setTextPosition x y => fin 2 x ++ 32 :: (fin 2 y ++ [32, 84, 100, 10])
  | .showText b => 40 :: (b ++ [41, 32, 84, 106, 10])
  | .showTextHex b => 60 :: (b ++ [62, 32, 84, 106, 10])
  | .showTextArray es => 91 :: (tjElems es ++ [32, 93, 32, 84, 74, 10])
  | .setWordSpacing v => fin 2 v ++ [32, 84, 119, 10]
  | .setCharSpacing v => fin 2 v ++ [32, 84, 99, 10]
  | .setHorizontalScaling v => fin 2 v ++ [32, 84, 122, 10]
  | .setLeading v => fin 2 v ++ [32, 84, 76, 10]
  | .setTextRise v => fin 2 v ++ [32, 84, 115, 10]
  | .setRenderingMode m => showNat m ++ [32, 84, 114, 10]
  | .endPath => [110, 10]
  | .clipNonZero => [87, 10]
  | .clipEvenOdd => [87, 42, 10]
  | .clipStroke => [87, 32, 83, 10]
  | .paintShading n => 47 :: (n ++ [32, 115, 104, 10])
  | .comment t => 37 :: 32 :: (t ++ [10])
  | .raw b => b

def serializeOps : List Op → List Nat
  | [] => []
  | op :: ops => serOp op ++ serializeOps ops

/-! ## `escape_show_text_literal_bytes` -/

def octal3 (b : Nat) : List Nat := [48 + b / 64 % 8, 48 + b / 8 % 8, 48 + b % 8]

def escapeShowText : List Nat → List Nat
  | [] => []
  | b :: r =>
    (if b == 40 then [92, 40]
     else if b == 41 then [92, 41]
     else if b == 92 then [92, 92]
     else if b == 10 then [92, 110]
     else if b == 13 then [92, 114]
     else if b == 9 then [92, 116]
     else if b == 8 then [92, 98]
     else if b == 12 then [92, 102]
     else if 32 ≤ b && b ≤ 126 then [b]
     else 92 :: octal3 b) ++ escapeShowText r

/-- the char-level escape inside `GraphicsContext::show_text` (builtin font): `( ) \ LF CR HT` are
    escaped, every other char is pushed as is (as UTF-8) — here on the UTF-8 bytes of the text,
    which is the same because the six escaped characters are ASCII -/
def escapeGfxShowText : List Nat → List Nat
  | [] => []
  | b :: r =>
    (if b == 40 then [92, 40]
     else if b == 41 then [92, 41]
     else if b == 92 then [92, 92]
     else if b == 10 then [92, 110]
     else if b == 13 then [92, 114]
     else if b == 9 then [92, 116]
     else [b]) ++ escapeGfxShowText r

/-! ## authoring calls (`GraphicsContext`, `TextContext`, `Page`) → `Op`s

Only calls whose bodies pass their arguments through unchanged are modelled (no `clamp`,
`max`, multiplication — those would need float arithmetic). -/

def hexDigitUpper (n : Nat) : Nat := if n < 10 then 48 + n else 55 + n

/-- `{:04X}` of a code unit -/
def hex4 (u : Nat) : List Nat :=
  [hexDigitUpper (u / 4096 % 16), hexDigitUpper (u / 256 % 16), hexDigitUpper (u / 16 % 16), hexDigitUpper (u % 16)]

/-- `encode_char_as_cid` over the code points of the text -/
def cidHex : List Nat → List Nat
  | [] => []
  | c :: r =>
    (if c ≤ 65535 then hex4 c
     else
       let adj := c - 65536
       hex4 ((adj / 1024) % 1024 + 55296) ++ hex4 (adj % 1024 + 56320)) ++ cidHex r

inductive Call where
  | moveTo (x y : Num) | lineTo (x y : Num) | curveTo (x1 y1 x2 y2 x3 y3 : Num)
  | rect (x y w h : Num) | closePath
  | stroke | fill | fillStroke
  | setFillColor (c : Color) | setStrokeColor (c : Color)
  | setLineWidth (w : Num) | setLineCap (c : Nat) | setLineJoin (j : Nat)
  | saveState | restoreState
  | transform (a b c d e f : Num)
  /-- `GraphicsContext::draw_image(name, x, y, w, h)` -/
  | drawImage (name : List Nat) (x y w h : Num)
  | paintShading (name : List Nat)
  /-- `set_fill_color_icc` / `set_fill_color_calibrated_named`-style: `cs` + `sc` -/
  | fillColorSpace (name : List Nat) (comps : List Num)
  | strokeColorSpace (name : List Nat) (comps : List Num)
  /-- `set_custom_font(name, size)`; `size` as `Display` text -/
  | setCustomFont (name : List Nat) (size : Num)
  | beginText | endText
  | setTextPosition (x y : Num)
  /-- `GraphicsContext::show_text(text)`: UTF-8 bytes and code points of the text -/
  | showText (utf8 : List Nat) (codePoints : List Nat)
  | setWordSpacing (v : Num) | setCharSpacing (v : Num)
  | clip | clipEvenOdd | endPath | clipStroke
  /-- `add_command(text)` -/
  | addCommand (utf8 : List Nat)
  deriving Repr, Inhabited

structure GState where
  fill : Color
  stroke : Color
  custom : Bool
  stack : List (Color × Color × Bool)
  deriving Repr

def zero3 : Num := [48, 46, 48, 48, 48]

/-- `GraphicsContext::new()`: both colours `Color::black()` = `Gray(0.0)`, builtin font -/
def GState.init : GState := { fill := .gray zero3, stroke := .gray zero3, custom := false, stack := [] }

/-- one call: the new state and the `Op`s pushed -/
def step (s : GState) : Call → GState × List Op
  | .moveTo x y => (s, [.moveTo x y])
  | .lineTo x y => (s, [.lineTo x y])
  | .curveTo a b c d e f => (s, [.curveTo a b c d e f])
  | .rect x y w h => (s, [.rect x y w h])
  | .closePath => (s, [.closePath])
  | .stroke => (s, [.setStrokeColor s.stroke, .stroke])
  | .fill => (s, [.setFillColor s.fill, .fillNonZero])
  | .fillStroke => (s, [.setFillColor s.fill, .setStrokeColor s.stroke, .fillStroke])
  | .setFillColor c => ({ s with fill := c }, [])
  | .setStrokeColor c => ({ s with stroke := c }, [])
  | .setLineWidth w => (s, [.setLineWidth w])
  | .setLineCap c => (s, [.setLineCap c])
  | .setLineJoin j => (s, [.setLineJoin j])
  | .saveState => ({ s with stack := (s.fill, s.stroke, s.custom) :: s.stack }, [.saveState])
  | .restoreState =>
    match s.stack with
    | [] => (s, [.restoreState])
    | (f, k, c) :: r => ({ fill := f, stroke := k, custom := c, stack := r }, [.restoreState])
  | .transform a b c d e f => (s, [.cm a b c d e f])
  | .drawImage n x y w h =>
    -- save_state; cm w 0 0 h x y; Do; restore_state (state unchanged overall)
    (s, [.saveState, .cm w [48, 46, 48, 48] [48, 46, 48, 48] h x y, .invokeXObject n, .restoreState])
  | .paintShading n => (s, [.paintShading n])
  | .fillColorSpace n vs => (s, [.setFillColorSpace n, .setFillColorComponents vs])
  | .strokeColorSpace n vs => (s, [.setStrokeColorSpace n, .setStrokeColorComponents vs])
  | .setCustomFont n size => ({ s with custom := true }, [.setFont n size])
  | .beginText => (s, [.beginText])
  | .endText => (s, [.endText])
  | .setTextPosition x y => (s, [.setTextPosition x y])
  | .showText utf8 cps =>
    (s, [if s.custom then .showTextHex (cidHex cps) else .showText (escapeGfxShowText utf8)])
  | .setWordSpacing v => (s, [.setWordSpacing v])
  | .setCharSpacing v => (s, [.setCharSpacing v])
  | .clip => (s, [.clipNonZero])
  | .clipEvenOdd => (s, [.clipEvenOdd])
  | .endPath => (s, [.endPath])
  | .clipStroke => (s, [.setStrokeColor s.stroke, .clipStroke])
  | .addCommand t => (s, [.raw (t ++ [10])])

def runCalls : GState → List Call → List Op
  | _, [] => []
  | s, c :: cs => let (s', ops) := step s c; ops ++ runCalls s' cs

/-- the `Op`s of a sequence of `GraphicsContext` calls on a fresh page -/
def opsOfCalls (cs : List Call) : List Op := runCalls GState.init cs

end OxiVerif.Model.Content
