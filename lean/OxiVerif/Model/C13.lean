import OxiVerif.Model.Serializer
import OxiVerif.Model.C10
/-
C13 — text shown in an embedded font: what the writer emits and how it is read back.

Code side (hand transcription of writer/pdf_writer/mod.rs, graphics/mod.rs, text/mod.rs):
  `encode_char_as_cid` / `build_show_text_op` (Font::Custom): the CID is the Unicode code point; the shown
      string is the UTF-16BE code units of the text, four upper-case hex digits each (`showHex`) — a
      character above U+FFFF becomes TWO 2-byte codes (its surrogates);
  `generate_tounicode_cmap_from_font`: used characters ≤ U+FFFF, each mapped to itself, sorted by CID;
      a run of consecutive CIDs (at most 100 entries, ending before the low byte wraps to 00) becomes one
      `1 beginbfrange` block, otherwise the next
      (up to) 100 mappings — consecutive or not — become one `beginbfchar` block (`genBlocks`, `renderCMap`);
  `generate_width_array`: (code point, width) sorted by code point, grouped into `c [w]` / `first last w`
      items over consecutive code points of equal width (`genW`); width = ⌊advance·1000/unitsPerEm⌋ (`as u16`);
  `generate_cid_to_gid_map`: two bytes per CID up to the largest used code point (≤ U+FFFF), big-endian GID
      of the mapping handed in (the subsetter's code point → NEW glyph id), zero elsewhere (`genCidToGid`).
Reader side: `lookupBlocks` = the meaning of the bfchar/bfrange blocks (ISO 32000-1 §9.10.3: a bfrange
  maps `lo+k` to `dst+k`), `extract` = split the shown string into 2-byte codes, map each through the
  blocks (no entry ⇒ no text), read the result as UTF-16.
-/
namespace OxiVerif.C13
open OxiVerif.Model
open OxiVerif.Spec.Syntax (Obj)

/-! ### the shown string -/

def hex4 (u : Nat) : List Nat :=
  [hexDigitUpper (u / 4096 % 16), hexDigitUpper (u / 256 % 16), hexDigitUpper (u / 16 % 16), hexDigitUpper (u % 16)]

/-- the 2-byte codes of a text -/
def showCodes (s : List Nat) : List Nat := s.flatMap C10.utf16Enc

/-- the hexadecimal digits between `<` and `>` -/
def showHex (s : List Nat) : List Nat := (showCodes s).flatMap hex4

/-! ### ToUnicode -/

def insertSorted (c : Nat) : List Nat → List Nat
  | [] => [c]
  | x :: r => if c < x then c :: x :: r else if c == x then x :: r else x :: insertSorted c r

/-- `document_used_chars_by_font[font]` filtered to ≤ U+FFFF, as the sorted `mappings` vector -/
def usedBmp (texts : List (List Nat)) : List Nat :=
  (texts.flatten.filter (· ≤ 0xFFFF)).foldr insertSorted []

inductive Block where
  | range (lo hi dst : Nat)
  | chars (l : List Nat)          -- `<c> <c>` lines
  deriving Repr, DecidableEq

/-- the inner `while`: extend the run while the next CID is the successor, the destination's low byte
does not wrap to 00 (§9.10.3) and fewer than 100 entries are in it (`k` = entries after the first) -/
def takeRun : Nat → Nat → List Nat → Nat × List Nat
  | last, k, x :: r => if x == last + 1 && x % 256 != 0 && k < 99 then takeRun x (k + 1) r else (last, x :: r)
  | last, _, [] => (last, [])

/-- the outer `while i < mappings.len()` -/
def genBlocks : Nat → List Nat → List Block
  | 0, _ => []
  | _, [] => []
  | fuel + 1, c :: rest =>
    let (e, rem) := takeRun c 0 rest
    if e > c then .range c e c :: genBlocks fuel rem
    else .chars ((c :: rest).take 100) :: genBlocks fuel ((c :: rest).drop 100)

/-- the loops as they were before the low-byte condition was added (regression statements only) -/
def takeRunOld : Nat → Nat → List Nat → Nat × List Nat
  | last, k, x :: r => if x == last + 1 && k < 99 then takeRunOld x (k + 1) r else (last, x :: r)
  | last, _, [] => (last, [])

def genBlocksOld : Nat → List Nat → List Block
  | 0, _ => []
  | _, [] => []
  | fuel + 1, c :: rest =>
    let (e, rem) := takeRunOld c 0 rest
    if e > c then .range c e c :: genBlocksOld fuel rem
    else .chars ((c :: rest).take 100) :: genBlocksOld fuel ((c :: rest).drop 100)

def toUnicodeBlocksOld (used : List Nat) : List Block := genBlocksOld (used.length + 1) used

def toUnicodeBlocks (used : List Nat) : List Block := genBlocks (used.length + 1) used

def str (s : String) : List Nat := s.toUTF8.toList.map (·.toNat)

def natDec (n : Nat) : List Nat := showNat n

def renderBlock : Block → List Nat
  | .range lo hi dst =>
    str "1 beginbfrange\n<" ++ hex4 lo ++ str "> <" ++ hex4 hi ++ str "> <" ++ hex4 dst ++ str ">\nendbfrange\n"
  | .chars l =>
    natDec l.length ++ str " beginbfchar\n" ++
      l.flatMap (fun c => 60 :: (hex4 c ++ str "> <" ++ hex4 c ++ str ">\n")) ++ str "endbfchar\n"

def cmapHeader : List Nat := str ("/CIDInit /ProcSet findresource begin\n12 dict begin\nbegincmap\n/CIDSystemInfo\n" ++
  "<< /Registry (Adobe)\n   /Ordering (UCS)\n   /Supplement 0\n>> def\n/CMapName /Adobe-Identity-UCS def\n" ++
  "/CMapType 2 def\n1 begincodespacerange\n<0000> <FFFF>\nendcodespacerange\n")
def cmapFooter : List Nat := str "endcmap\nCMapName currentdict /CMap defineresource pop\nend\nend\n"

/-- the bytes of the ToUnicode stream -/
def renderCMap (used : List Nat) : List Nat :=
  cmapHeader ++ (toUnicodeBlocks used).flatMap renderBlock ++ cmapFooter

/-! ### reading back -/

def Block.lookup : Block → Nat → Option Nat
  | .range lo hi dst, c => if lo ≤ c ∧ c ≤ hi then some (dst + (c - lo)) else none
  | .chars l, c => if l.contains c then some c else none

def lookupBlocks : List Block → Nat → Option Nat
  | [], _ => none
  | b :: r, c => match b.lookup c with
    | some u => some u
    | none => lookupBlocks r c

/-- codes → text: unmapped codes give nothing, the mapped values are UTF-16 code units -/
def extract (bs : List Block) (codes : List Nat) : List Nat :=
  C10.utf16Dec (codes.filterMap (lookupBlocks bs))

/-! ### /W -/

inductive WItem where
  | single (c w : Nat)
  | range (a b w : Nat)
  deriving Repr, DecidableEq

/-- the inner `while`: consecutive code points with the same width -/
def takeW : Nat → Nat → List (Nat × Nat) → Nat × List (Nat × Nat)
  | last, w, (c, w') :: r => if c == last + 1 && w' == w then takeW c w r else (last, (c, w') :: r)
  | last, _, [] => (last, [])

def genW : Nat → List (Nat × Nat) → List WItem
  | 0, _ => []
  | _, [] => []
  | fuel + 1, (c, w) :: rest =>
    let (e, rem) := takeW c w rest
    (if e == c then .single c w else .range c e w) :: genW fuel rem

def wItems (ws : List (Nat × Nat)) : List WItem := genW (ws.length + 1) ws

def WItem.lookup : WItem → Nat → Option Nat
  | .single c w, x => if x = c then some w else none
  | .range a b w, x => if a ≤ x ∧ x ≤ b then some w else none

def lookupW : List WItem → Nat → Option Nat
  | [], _ => none
  | i :: r, x => match i.lookup x with
    | some w => some w
    | none => lookupW r x

def WItem.objs : WItem → List Obj
  | .single c w => [.int c, .arr [.int w]]
  | .range a b w => [.int a, .int b, .int w]

/-- the `/W` array as the serializer writes it -/
def renderW (ws : List (Nat × Nat)) : List Nat := ser (.arr ((wItems ws).flatMap WItem.objs))

/-- `get_glyph_widths`: ⌊advance·1000/unitsPerEm⌋ truncated to `u16` -/
def pdfWidth (adv upem : Nat) : Nat := if upem = 0 then adv else (adv * 1000 / upem) % 65536

/-! ### /CIDToGIDMap -/

def assoc (m : List (Nat × Nat)) (c : Nat) : Option Nat := (m.find? (·.1 == c)).map (·.2)

/-- index = CID·2, value = big-endian glyph id, zero where the mapping is silent (the mapping comes
from a `HashMap`, keys are unique, so the order of the writes is immaterial) -/
def genCidToGid (m : List (Nat × Nat)) (maxCid : Nat) : List Nat :=
  (List.range (maxCid + 1)).flatMap fun c => let g := (assoc m c).getD 0; [g / 256 % 256, g % 256]

def readGid (map : List Nat) (cid : Nat) : Option Nat :=
  match map[2 * cid]?, map[2 * cid + 1]? with
  | some a, some b => some (a * 256 + b)
  | _, _ => none

/-! ### what the library's extractor returns for a page of segments (one show operation per line) -/

/-- a surrogate code has no ToUnicode entry: the character is dropped -/
def libSegment (s : List Nat) : List Nat := s.filter (· ≤ 0xFFFF)

end OxiVerif.C13
