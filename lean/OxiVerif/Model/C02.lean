import OxiVerif.Model.Serializer
import OxiVerif.Model.ObjParser
import OxiVerif.Model.ContentTokenizer
import OxiVerif.Model.C18
import OxiVerif.Model.C09
import OxiVerif.Model.C03
/-!
# C02 — model of "write a document, read it back" (builder b-c02)

Transcribed by hand from
* `page.rs`      `Page::{new, set_rotation, graphics, text, add_image, draw_image, to_dict,
                  generate_content_with_page_info}` (the three operator buffers `page_ops`,
                  `graphics_context`, `text_context` and the flushes between them)
* `graphics/mod.rs`  the `GraphicsContext` calls of the authoring DSL (path, paint, state,
                  colour, line state, `draw_image`), `graphics/ops.rs` `serialize_ops`,
                  `graphics/color.rs` `write_{fill,stroke}_color_bytes`, `graphics/state.rs`
                  `LineDashPattern::to_pdf_string`
* `text/mod.rs`  `TextContext::{set_font, at, write}`, `build_show_text_op`,
                  `text/encoding.rs` `escape_show_text_literal_bytes`
* `graphics/pdf_image.rs`  `Image::{from_raw_data, to_pdf_object}` (raw format)
* `writer/pdf_writer/mod.rs`  `write_document` (id allocation, order of objects), `write_pages`,
                  `write_page_with_fonts` (14 standard fonts, `/XObject` sorted by name),
                  `write_page_content` (Flate when `compress_streams`), `write_catalog`
                  (catalog + XMP metadata stream), `write_info`
* reading: `parser/document.rs` `PdfDocument::{page_count, get_page, get_page_content_streams,
                  metadata}`, `parser/page_tree.rs` `flatten_page_tree` (through `Model/C18`),
                  `parser/content.rs` `ContentParser::parse_content` (through
                  `Model/ContentTokenizer`), the object parser (through `Model/ObjParser`).

Numbers are never floats: an authored number is its decimal token (at most 2 fraction digits
for coordinates, the generator's discipline), `{:.p}` is "pad the fraction to p digits" on such
tokens, `{}` and `{:.6}`-trimmed are the token itself when it is canonical (trusted: Rust's float
formatting is correctly rounded).  Compression is a parameter `z` (what `flate2` returns for the
content), its inverse is the reader's `unz`.  Import-free apart from other models.
-/
namespace OxiVerif.C02
open OxiVerif.Spec.Syntax (Obj)
open OxiVerif.Model (ser showNat showInt sortKV sortDicts)

abbrev Bytes := List Nat
/-- an authored decimal token -/
abbrev Tok := List Nat

def ascii (s : String) : Bytes := s.toList.map (·.toNat)

/-! ## number formatting -/

/-- (sign + integer digits, fraction digits) -/
def splitDot : Tok → Tok × Tok
  | [] => ([], [])
  | 46 :: r => ([], r)
  | b :: r => let p := splitDot r; (b :: p.1, p.2)

/-- `format!("{:.p}", v)` for a token with at most `p` fraction digits -/
def fmtFix (p : Nat) (t : Tok) : Tok :=
  let s := splitDot t
  if p = 0 then s.1 else s.1 ++ 46 :: (s.2 ++ List.replicate (p - s.2.length) 48).take p

def dropZeros : List Nat → List Nat
  | 48 :: r => dropZeros r
  | l => l

/-- canonical 3-digit print of a number token (what the harness prints for the `f32` it got):
    sign, integer part without leading zeros, three fraction digits -/
def norm3 (t : Tok) : Tok :=
  let (neg, body) := match t with
    | 45 :: r => (true, r)
    | 43 :: r => (false, r)
    | r => (false, r)
  let s := splitDot body
  let i := dropZeros s.1
  (if neg then [45] else []) ++ (if i.isEmpty then [48] else i) ++ 46 :: (s.2 ++ List.replicate (3 - s.2.length) 48).take 3

/-! ## content operators at the level of the authoring calls -/

inductive Col where
  | rgb (r g b : Tok)
  | gray (g : Tok)
  | cmyk (c m y k : Tok)
  deriving Repr, DecidableEq, Inhabited

/-- one `graphics::ops::Op` as far as the DSL produces them -/
inductive XOp where
  /-- numeric operands printed `{:.p}`: `m l c re w M cm Td rg RG g G k K` -/
  | num (kw : Bytes) (p : Nat) (args : List Tok)
  /-- no operands: `h S f B n W q Q BT ET` -/
  | plain (kw : Bytes)
  /-- `{u8} J` / `{u8} j` -/
  | int (kw : Bytes) (v : Nat)
  /-- `SetDashPatternRaw(to_pdf_string())`; `[]` = `set_line_solid` (`[] 0`) -/
  | dash (arr : List Tok) (phase : Tok)
  /-- `/name size Tf`, `size` printed with `{}` -/
  | font (name : Bytes) (size : Tok)
  /-- `(escaped) Tj` — the WinAnsi bytes before escaping -/
  | showText (bs : Bytes)
  /-- `/name Do` -/
  | xobj (name : Bytes)
  deriving Repr, DecidableEq, Inhabited

def octal3 (b : Nat) : List Nat := [48 + b / 64 % 8, 48 + b / 8 % 8, 48 + b % 8]

/-- `escape_show_text_literal_bytes` -/
def escapeShowText : Bytes → Bytes
  | [] => []
  | b :: r =>
    (if b == 40 then [92, 40]
     else if b == 41 then [92, 41]
     else if b == 92 then [92, 92]
     else if b == 10 then [92, 110]
     else if b == 13 then [92, 114]
     else if b == 9 then [92, 116]
     else if b == 8 then [92, 98]
     else if b == 12 then [92, 102]
     else if 32 ≤ b && b ≤ 126 then [b]
     else 92 :: octal3 b) ++ escapeShowText r

def numsSp (p : Nat) : List Tok → Bytes
  | [] => []
  | a :: r => fmtFix p a ++ 32 :: numsSp p r

def joinSp (p : Nat) : List Tok → Bytes
  | [] => []
  | [a] => fmtFix p a
  | a :: r => fmtFix p a ++ 32 :: joinSp p r

/-- one arm of `serialize_ops` -/
def serX : XOp → Bytes
  | .num kw p args => numsSp p args ++ kw ++ [10]
  | .plain kw => kw ++ [10]
  | .int kw v => showNat v ++ 32 :: (kw ++ [10])
  | .dash [] _ => ascii "[] 0 d\n"
  | .dash arr ph => 91 :: (joinSp 2 arr ++ 93 :: 32 :: (fmtFix 2 ph ++ [32, 100, 10]))
  | .font n size => 47 :: (n ++ 32 :: (size ++ [32, 84, 102, 10]))
  | .showText bs => 40 :: (escapeShowText bs ++ [41, 32, 84, 106, 10])
  | .xobj n => 47 :: (n ++ [32, 68, 111, 10])

def serXs : List XOp → Bytes
  | [] => []
  | x :: r => serX x ++ serXs r

/-! ## the authoring DSL (harness/src/bin/c03/author.rs) -/

structure Image where
  gray : Bool
  w : Nat
  h : Nat
  data : Bytes
  deriving Repr, DecidableEq, Inhabited

inductive DOp where
  | rotate (deg : Int)
  | moveTo (x y : Tok) | lineTo (x y : Tok) | curveTo (a b c d e f : Tok) | rect (x y w h : Tok)
  | closePath | stroke | fill | fillStroke | endPath | clip
  | save | restore | cm (a b c d e f : Tok)
  | lineWidth (w : Tok) | lineCap (v : Nat) | lineJoin (v : Nat) | miter (m : Tok)
  | dash (a b ph : Tok) | dashSolid
  | fillColor (c : Col) | strokeColor (c : Col)
  /-- `text().set_font(FONTS[font], size).at(x, y).write(text)`; `wa` = WinAnsi bytes of the text -/
  | text (font : Nat) (size x y : Tok) (wa : Bytes)
  /-- `add_image(name, Image::from_raw_data(..))` + `draw_image(name, x, y, w, h)` -/
  | image (name : Bytes) (img : Image) (x y w h : Tok)
  deriving Repr, DecidableEq, Inhabited

structure PageD where
  w : Tok
  h : Tok
  ops : List DOp
  deriving Repr, DecidableEq, Inhabited

structure Doc where
  /-- user-set Info strings `(key, value)` in the order Title Author Subject Keywords Creator Producer -/
  info : List (Bytes × Bytes)
  pages : List PageD
  deriving Repr, DecidableEq, Inhabited

def fontNames : List String :=
  ["Helvetica", "Helvetica-Bold", "Helvetica-Oblique", "Helvetica-BoldOblique",
   "Times-Roman", "Times-Bold", "Times-Italic", "Times-BoldItalic",
   "Courier", "Courier-Bold", "Courier-Oblique", "Courier-BoldOblique", "Symbol", "ZapfDingbats"]

def fontName (i : Nat) : Bytes := ascii (fontNames.getD i "Helvetica")

def colOp (stroke : Bool) : Col → XOp
  | .rgb r g b => .num (if stroke then [82, 71] else [114, 103]) 3 [r, g, b]
  | .gray g => .num (if stroke then [71] else [103]) 3 [g]
  | .cmyk c m y k => .num (if stroke then [75] else [107]) 3 [c, m, y, k]

def zeroTok : Tok := [48]

/-- `Color::black()` -/
def black : Col := .gray zeroTok

/-- graphics-context colour state (`current_color`, `stroke_color`, `state_stack`) -/
structure GS where
  fill : Col := black
  stroke : Col := black
  stack : List (Col × Col) := []
  deriving Repr, DecidableEq, Inhabited

inductive Ctx where
  | gfx | txt | img
  deriving Repr, DecidableEq, Inhabited

/-- which context a DSL op talks to, the new colour state, the new text fill colour and the
    `Op`s it pushes.  `tf` = `text_context.fill_color` *after* the hand-off of `Page::text`. -/
def opEffect (gs : GS) (tf : Option Col) : DOp → Ctx × GS × Option Col × List XOp
  | .rotate _ => (.img, gs, tf, [])          -- `Page::set_rotation`: no context access
  | .moveTo x y => (.gfx, gs, tf, [.num [109] 2 [x, y]])
  | .lineTo x y => (.gfx, gs, tf, [.num [108] 2 [x, y]])
  | .curveTo a b c d e f => (.gfx, gs, tf, [.num [99] 2 [a, b, c, d, e, f]])
  | .rect x y w h => (.gfx, gs, tf, [.num [114, 101] 2 [x, y, w, h]])
  | .closePath => (.gfx, gs, tf, [.plain [104]])
  | .stroke => (.gfx, gs, tf, [colOp true gs.stroke, .plain [83]])
  | .fill => (.gfx, gs, tf, [colOp false gs.fill, .plain [102]])
  | .fillStroke => (.gfx, gs, tf, [colOp false gs.fill, colOp true gs.stroke, .plain [66]])
  | .endPath => (.gfx, gs, tf, [.plain [110]])
  | .clip => (.gfx, gs, tf, [.plain [87]])
  | .save => (.gfx, { gs with stack := (gs.fill, gs.stroke) :: gs.stack }, tf, [.plain [113]])
  | .restore =>
    (.gfx, (match gs.stack with
            | [] => gs
            | (f, k) :: r => { fill := f, stroke := k, stack := r }), tf, [.plain [81]])
  | .cm a b c d e f => (.gfx, gs, tf, [.num [99, 109] 2 [a, b, c, d, e, f]])
  | .lineWidth w => (.gfx, gs, tf, [.num [119] 2 [w]])
  | .lineCap v => (.gfx, gs, tf, [.int [74] v])
  | .lineJoin v => (.gfx, gs, tf, [.int [106] v])
  | .miter m => (.gfx, gs, tf, [.num [77] 2 [m]])
  | .dash a b ph => (.gfx, gs, tf, [.dash [a, b] ph])
  | .dashSolid => (.gfx, gs, tf, [.dash [] zeroTok])
  | .fillColor c => (.gfx, { gs with fill := c }, tf, [])
  | .strokeColor c => (.gfx, { gs with stroke := c }, tf, [])
  | .text font size x y wa =>
    -- `Page::text`: the text fill colour is inherited from the graphics state ONCE
    let c := tf.getD gs.fill
    (.txt, gs, some c,
      [.plain [66, 84], .font (fontName font) size, colOp false c, .num [84, 100] 2 [x, y],
       .showText wa, .plain [69, 84]])
  | .image name _ x y w h =>
    -- `Page::draw_image` goes through `Page::graphics()` (text buffer flushed first, /repo fix of
    -- C02-F3); `save_state` / `restore_state` leave the colour state as it was
    (.gfx, gs, tf, [.plain [113], .num [99, 109] 2 [w, zeroTok, zeroTok, h, x, y], .xobj name, .plain [81]])

/-- `opEffect` as the code was BEFORE the repair of C02-F3: `Page::draw_image` pushed into
    `self.graphics_context` directly, without the flush of `Page::graphics()` -/
def opEffectOld (gs : GS) (tf : Option Col) (op : DOp) : Ctx × GS × Option Col × List XOp :=
  match op with
  | .image .. => (.img, (opEffect gs tf op).2)
  | _ => opEffect gs tf op

/-- the three buffers of `Page` -/
structure Bufs where
  page : List XOp := []
  gfx : List XOp := []
  txt : List XOp := []
  deriving Repr, DecidableEq, Inhabited

/-- `Page::graphics()` / `Page::text()` flushes, then the push -/
def pushOps (b : Bufs) : Ctx → List XOp → Bufs
  | .gfx, ops => { page := b.page ++ b.txt, gfx := b.gfx ++ ops, txt := [] }
  | .txt, ops => { page := b.page ++ b.gfx, gfx := [], txt := b.txt ++ ops }
  | .img, ops => { b with gfx := b.gfx ++ ops }

def runOpsWith (eff : GS → Option Col → DOp → Ctx × GS × Option Col × List XOp) :
    GS → Option Col → Bufs → List DOp → Bufs
  | _, _, b, [] => b
  | gs, tf, b, op :: r =>
    let e := eff gs tf op
    runOpsWith eff e.2.1 e.2.2.1 (pushOps b e.1 e.2.2.2) r

def runOps : GS → Option Col → Bufs → List DOp → Bufs := runOpsWith opEffect

/-- the operators `generate_content` serialises, in the order it serialises them:
    `page_ops`, then the graphics tail, then the text tail -/
def emitOps (p : PageD) : List XOp :=
  let b := runOps {} none {} p.ops
  b.page ++ b.gfx ++ b.txt

/-- the emitted order BEFORE the repair of C02-F3 (the regression the check must catch) -/
def emitOpsOld (p : PageD) : List XOp :=
  let b := runOpsWith opEffectOld {} none {} p.ops
  b.page ++ b.gfx ++ b.txt

/-- the operators in CALL order (what the author asked for) -/
def callOps : GS → Option Col → List DOp → List XOp
  | _, _, [] => []
  | gs, tf, op :: r =>
    let e := opEffect gs tf op
    e.2.2.2 ++ callOps e.2.1 e.2.2.1 r

def specOps (p : PageD) : List XOp := callOps {} none p.ops

/-- `Page::set_rotation` -/
def normRot (deg : Int) : Int :=
  let n := deg % 360
  if n ≤ 44 then 0 else if n ≤ 134 then 90 else if n ≤ 224 then 180 else if n ≤ 315 then 270 else 0

def pageRot : Int → List DOp → Int
  | r, [] => r
  | _, .rotate d :: rest => pageRot (normRot d) rest
  | r, _ :: rest => pageRot r rest

/-- `HashMap::insert`: newest binding wins; listed sorted by name (`sort_by_key(name)`) -/
def insertImg (name : Bytes) (img : Image) : List (Bytes × Image) → List (Bytes × Image)
  | [] => [(name, img)]
  | (n, i) :: r =>
    if name == n then (n, img) :: r
    else if Model.ltBytes name n then (name, img) :: (n, i) :: r
    else (n, i) :: insertImg name img r

/-- images of a page after all `add_image` calls, sorted by name (fold from the left so that a
    later `add_image` with the same name replaces the earlier one) -/
def imagesOf (ops : List DOp) : List (Bytes × Image) :=
  ops.foldl (fun acc op => match op with
    | .image n i _ _ _ _ => insertImg n i acc
    | _ => acc) []

/-! ## the objects the writer builds -/

structure Cfg where
  xref : Bool
  objstm : Bool
  compress : Bool
  deriving Repr, DecidableEq, Inhabited

inductive WBody where
  | plain (o : Obj)
  /-- stream: dictionary entries (without `/Length`), data as written, the data before compression -/
  | stream (dict : List (Bytes × Obj)) (raw : Bytes) (decoded : Bytes)
  /-- the XMP metadata stream (content not modelled) -/
  | xmp
  deriving Repr, Inhabited

structure WObj where
  id : Nat
  body : WBody
  deriving Repr, Inhabited

def nm (s : String) : Obj := .name (ascii s)
def key (s : String) : Bytes := ascii s

def fontDict (base : String) : Obj :=
  .dict [(key "Type", nm "Font"), (key "Subtype", nm "Type1"), (key "BaseFont", nm base),
         (key "Encoding", nm "WinAnsiEncoding")]

/-- the twelve fonts `write_page_with_fonts` injects (Symbol and ZapfDingbats are NOT among them) -/
def injectedFonts : List String :=
  ["Helvetica", "Helvetica-Bold", "Helvetica-Oblique", "Helvetica-BoldOblique",
   "Times-Roman", "Times-Bold", "Times-Italic", "Times-BoldItalic",
   "Courier", "Courier-Bold", "Courier-Oblique", "Courier-BoldOblique"]

def fontResources : Obj := .dict (injectedFonts.map fun f => (key f, fontDict f))

/-- `Object::Real(v)` for an authored token: the `{:.6}` text -/
def realOf (t : Tok) : Obj := .real (fmtFix 6 t)

def pageId (i : Nat) : Nat := 4 + 2 * i
def contentId (i : Nat) : Nat := 5 + 2 * i

/-- ids handed to the images of one page, in name order, starting at `next` -/
def imageIds (next : Nat) : List (Bytes × Image) → List (Bytes × Nat)
  | [] => []
  | (n, _) :: r => (n, next) :: imageIds (next + 1) r

def imageObj (id : Nat) (img : Image) : WObj :=
  { id := id,
    body := .stream
      [(key "Type", nm "XObject"), (key "Subtype", nm "Image"), (key "Width", .int (Int.ofNat img.w)),
       (key "Height", .int (Int.ofNat img.h)), (key "ColorSpace", nm (if img.gray then "DeviceGray" else "DeviceRGB")),
       (key "BitsPerComponent", .int 8)] img.data img.data }

def imageObjs (next : Nat) : List (Bytes × Image) → List WObj
  | [] => []
  | (_, i) :: r => imageObj next i :: imageObjs (next + 1) r

def pageDict (i : Nat) (p : PageD) (imgs : List (Bytes × Nat)) : Obj :=
  let rot := pageRot 0 p.ops
  let res : List (Bytes × Obj) :=
    [(key "Font", fontResources)] ++
    (if imgs.isEmpty then [] else [(key "XObject", .dict (imgs.map fun e => (e.1, .ref e.2 0)))])
  .dict ([(key "MediaBox", .arr [realOf zeroTok, realOf zeroTok, realOf p.w, realOf p.h])] ++
         (if rot != 0 then [(key "Rotate", .int rot)] else []) ++
         [(key "Resources", .dict res), (key "Type", nm "Page"), (key "Parent", .ref 2 0),
          (key "Contents", .ref (contentId i) 0)])

def contentObj (cfg : Cfg) (z : Bytes → Bytes) (i : Nat) (p : PageD) : WObj :=
  let c := serXs (emitOps p)
  { id := contentId i,
    body := if cfg.compress then .stream [(key "Filter", nm "FlateDecode")] (z c) c else .stream [] c c }

/-- the objects of the pages in the order `write_pages` writes them; returns the next free id -/
def pageObjs (cfg : Cfg) (z : Bytes → Bytes) : Nat → Nat → List PageD → List WObj × Nat
  | _, next, [] => ([], next)
  | i, next, p :: r =>
    let imgs := imagesOf p.ops
    let rest := pageObjs cfg z (i + 1) (next + imgs.length) r
    (imageObjs next imgs ++ [{ id := pageId i, body := .plain (pageDict i p (imageIds next imgs)) },
                              contentObj cfg z i p] ++ rest.1, rest.2)

def kidsOf : Nat → Nat → List Obj
  | _, 0 => []
  | i, n + 1 => .ref (pageId i) 0 :: kidsOf (i + 1) n

def pagesDict (n : Nat) : Obj :=
  .dict [(key "Type", nm "Pages"), (key "Count", .int (Int.ofNat n)), (key "Kids", .arr (kidsOf 0 n))]

def catalogDict (xmpId : Nat) : Obj :=
  .dict [(key "Type", nm "Catalog"), (key "Pages", .ref 2 0), (key "Metadata", .ref xmpId 0)]

/-! ### PDF text strings (`Object::text_string`, /repo 32e466e2) -/

/-- UTF-8 → code points (well-formed input: the bytes of a Rust `String`) -/
def utf8Decode : Nat → Bytes → Option (List Nat)
  | 0, _ => none
  | _, [] => some []
  | fuel + 1, b :: r =>
    if b < 128 then (utf8Decode fuel r).map (b :: ·)
    else if 192 ≤ b && b < 224 then
      match r with
      | c :: r' => (utf8Decode fuel r').map (((b - 192) * 64 + (c - 128)) :: ·)
      | _ => none
    else if 224 ≤ b && b < 240 then
      match r with
      | c :: e :: r' => (utf8Decode fuel r').map (((b - 224) * 4096 + (c - 128) * 64 + (e - 128)) :: ·)
      | _ => none
    else if 240 ≤ b && b < 248 then
      match r with
      | c :: e :: f :: r' =>
        (utf8Decode fuel r').map (((b - 240) * 262144 + (c - 128) * 4096 + (e - 128) * 64 + (f - 128)) :: ·)
      | _ => none
    else none

def utf8Encode : List Nat → Bytes
  | [] => []
  | c :: r =>
    (if c < 128 then [c]
     else if c < 2048 then [192 + c / 64, 128 + c % 64]
     else if c < 65536 then [224 + c / 4096, 128 + c / 64 % 64, 128 + c % 64]
     else [240 + c / 262144, 128 + c / 4096 % 64, 128 + c / 64 % 64, 128 + c % 64]) ++ utf8Encode r

/-- `str::encode_utf16` as big-endian bytes -/
def utf16be : List Nat → Bytes
  | [] => []
  | c :: r =>
    (if c < 65536 then [c / 256, c % 256]
     else
       let a := c - 65536
       let hi := 55296 + a / 1024
       let lo := 56320 + a % 1024
       [hi / 256, hi % 256, lo / 256, lo % 256]) ++ utf16be r

/-- `String::from_utf16_lossy` on big-endian pairs (well-formed input) -/
def utf16Decode : Nat → Bytes → List Nat
  | 0, _ => []
  | fuel + 1, a :: b :: r =>
    let u := a * 256 + b
    if 55296 ≤ u && u < 56320 then
      match r with
      | c :: e :: r' => (65536 + (u - 55296) * 1024 + (c * 256 + e - 56320)) :: utf16Decode fuel r'
      | _ => [65533]
    else u :: utf16Decode fuel r
  | _, _ => []

/-- `Object::text_string(text)`: a literal string when every character is HT, LF or printable
    ASCII, otherwise BOM + UTF-16BE in a hexadecimal string -/
def textString (utf8 : Bytes) : Obj :=
  if utf8.all (fun b => b == 9 || b == 10 || (32 ≤ b && b ≤ 126)) then .str utf8
  else match utf8Decode (utf8.length + 1) utf8 with
    | some cps => .hexstr (254 :: 255 :: utf16be cps)
    | none => .str utf8

/-- `PdfString::to_text` printed as UTF-8: BOM → UTF-16BE, otherwise every byte through
    `winansi_decode_char` (ASCII and 0xA0–0xFF map to themselves; 0x80–0x9F, the Windows-1252
    specials, are outside what the generator produces: `none`) -/
def toTextUtf8 (bs : Bytes) : Option Bytes :=
  match bs with
  | 254 :: 255 :: r => some (utf8Encode (utf16Decode (r.length + 1) r))
  | _ => if bs.all (fun b => b < 128 || (160 ≤ b && b < 256)) then some (utf8Encode bs) else none

/-- `write_info`: the user's strings; `extra` = the entries the model does not derive (dates,
    default Creator / Producer, the three `oxidize-pdf-*` entries) -/
def infoDict (d : Doc) (extra : List (Bytes × Obj)) : Obj :=
  .dict (d.info.map (fun e => (e.1, textString e.2)) ++
         extra.filter (fun e => !(d.info.map (·.1)).contains e.1))

/-- every object `write_document` writes, in writing order (without the cross-reference stream) -/
def buildObjects (cfg : Cfg) (z : Bytes → Bytes) (extra : List (Bytes × Obj)) (d : Doc) : List WObj :=
  let n := d.pages.length
  let ps := pageObjs cfg z 0 (4 + 2 * n) d.pages
  [{ id := 2, body := .plain (pagesDict n) }] ++ ps.1 ++
  [{ id := ps.2, body := .xmp }, { id := 1, body := .plain (catalogDict ps.2) },
   { id := 3, body := .plain (infoDict d extra) }]

/-- the dictionary the `Stream` arm of `write_object_value` emits -/
def streamDict (dict : List (Bytes × Obj)) (raw : Bytes) : Obj :=
  .dict ((key "Length", .int (Int.ofNat raw.length)) :: dict.filter (fun e => e.1 != key "Length"))

/-! ## what a reader sees -/

inductive RObj where
  | plain (o : Obj)
  /-- dictionary as parsed, decoded data -/
  | stream (dict : Obj) (data : Bytes)
  deriving Repr, Inhabited

abbrev Graph := List (Nat × RObj)

def Graph.get (g : Graph) (n : Nat) : Option RObj :=
  match g.find? (fun e => e.1 == n) with
  | some e => some e.2
  | none => none

def dictGet (k : Bytes) : List (Bytes × Obj) → Option Obj
  | [] => none
  | (k', v) :: r => if k == k' then some v else dictGet k r

def dget (o : Obj) (k : String) : Option Obj :=
  match o with
  | .dict kvs => dictGet (key k) kvs
  | _ => none

def RObj.dict? : RObj → Option Obj
  | .plain (.dict kvs) => some (.dict kvs)
  | .stream d _ => some d
  | _ => none

/-- `resolve`: follow ONE reference (the reader follows chains; the writer never makes them) -/
def resolve (g : Graph) : Obj → Option RObj
  | .ref n _ => g.get n
  | o => some (.plain o)

def resolveDict (g : Graph) (o : Obj) : Option Obj :=
  match resolve g o with
  | some r => r.dict?
  | none => none

/-! ### page tree (through `Model/C18`) -/

def elemsOf : List Obj → List C18.Elem
  | [] => []
  | .ref n _ :: r => .ref n :: elemsOf r
  | _ :: r => .junk :: elemsOf r

def c18Ty (d : Obj) : C18.Ty :=
  match dget d "Type" with
  | none => .absent
  | some (.name n) => if n == ascii "Page" then .page else if n == ascii "Pages" then .pages else .other
  | some _ => .nonName

def c18Kids (d : Obj) : C18.Kids :=
  match dget d "Kids" with
  | none => .absent
  | some (.arr xs) => .direct (elemsOf xs)
  | some (.ref n _) => .ref n
  | some _ => .junk

def c18Dict (d : Obj) : C18.Dict :=
  { ty := c18Ty d, kids := c18Kids d,
    mb := (dget d "MediaBox").map (fun _ => C18.Raw.junk),
    contents := (dget d "Contents").isSome }

def c18Obj : RObj → C18.Obj
  | .plain (.dict kvs) => .dict (c18Dict (.dict kvs))
  | .plain (.arr xs) => .arr (elemsOf xs)
  | .plain .null => .null
  | .plain _ => .raw .junk
  | .stream _ _ => .stream ""

def c18Graph (g : Graph) : C18.Graph := g.map fun e => (e.1, c18Obj e.2)

/-! ### one page -/

/-- a number as the decimal text the reader parsed -/
def numTok : Obj → Option Tok
  | .int i => some (showInt i)
  | .real t => some t
  | _ => none

def numToks : List Obj → Option (List Tok)
  | [] => some []
  | x :: r => match numTok x, numToks r with
    | some t, some ts => some (t :: ts)
    | _, _ => none

structure ImgR where
  name : Bytes
  w : Option Int
  h : Option Int
  cs : Option Bytes
  bpc : Option Int
  data : Bytes
  deriving Repr, Inhabited

structure PageR where
  mediaBox : List Tok
  rot : Int
  ops : List Model.CT.Parsed
  imgs : List ImgR
  deriving Repr, Inhabited

inductive RErr where
  | noRoot | noPages | flatten | page (i : Nat) | content (i : Nat) | image (i : Nat) | info
  deriving Repr, DecidableEq, Inhabited

def intOf : Option Obj → Option Int
  | some (.int i) => some i
  | _ => none

def nameOf : Option Obj → Option Bytes
  | some (.name n) => some n
  | _ => none

/-- `get_page_content_streams` + `ContentParser::parse_content` on each stream -/
def readContents (g : Graph) (pd : Obj) : Option (List Model.CT.Parsed) :=
  let one (o : Obj) : Option (List Model.CT.Parsed) :=
    match resolve g o with
    | some (.stream _ data) => Model.CT.parseContent data
    | _ => some []          -- non-stream array items are skipped
  match dget pd "Contents" with
  | none => some []
  | some c =>
    match resolve g c with
    | some (.stream _ data) => Model.CT.parseContent data
    | some (.plain (.arr xs)) => xs.foldr (fun o acc => match one o, acc with
        | some a, some b => some (a ++ b)
        | _, _ => none) (some [])
    | _ => none

def readImage (g : Graph) (name : Bytes) (o : Obj) : Option ImgR :=
  match resolve g o with
  | some (.stream d data) =>
    some { name := name, w := intOf (dget d "Width"), h := intOf (dget d "Height"),
           cs := nameOf (dget d "ColorSpace"), bpc := intOf (dget d "BitsPerComponent"), data := data }
  | _ => none

def readImages (g : Graph) : List (Bytes × Obj) → Option (List ImgR)
  | [] => some []
  | (n, o) :: r => match readImage g n o, readImages g r with
    | some i, some is => some (i :: is)
    | _, _ => none

def insertImgR (i : ImgR) : List ImgR → List ImgR
  | [] => [i]
  | a :: r => if Model.ltBytes i.name a.name then i :: a :: r else a :: insertImgR i r

def sortImgs (l : List ImgR) : List ImgR := l.foldr insertImgR []

/-- images named by the page's own `/Resources /XObject` -/
def readPageImages (g : Graph) (pd : Obj) : Option (List ImgR) :=
  match dget pd "Resources" with
  | none => some []
  | some r =>
    match resolveDict g r with
    | none => some []
    | some rd =>
      match dget rd "XObject" with
      | none => some []
      | some x =>
        match resolveDict g x with
        | some (.dict kvs) => (readImages g kvs).map sortImgs
        | _ => none

def defaultBox : List Tok := [[48], [48], ascii "612", ascii "792"]

/-- `load_page_by_ref` + `create_parsed_page` for a page that carries its own attributes (the
    writer's pages always do; inheritance is C18's subject) -/
def readPage (g : Graph) (i id : Nat) : Except RErr PageR :=
  match (g.get id).bind RObj.dict? with
  | none => .error (.page i)
  | some pd =>
    let mb := match dget pd "MediaBox" with
      | some (.arr xs) => if xs.length == 4 then (numToks xs).getD defaultBox else defaultBox
      | _ => defaultBox
    let rot := (intOf (dget pd "Rotate")).getD 0
    match readContents g pd with
    | none => .error (.content i)
    | some ops =>
      match readPageImages g pd with
      | none => .error (.image i)
      | some imgs => .ok { mediaBox := mb, rot := rot, ops := ops, imgs := imgs }

def readPages (g : Graph) : Nat → List Nat → Except RErr (List PageR)
  | _, [] => .ok []
  | i, id :: r =>
    match readPage g i id, readPages g (i + 1) r with
    | .ok p, .ok ps => .ok (p :: ps)
    | .error e, _ => .error e
    | _, .error e => .error e

structure DocR where
  pages : List PageR
  /-- Info strings found for Title Author Subject Keywords Creator Producer -/
  info : List (Bytes × Bytes)
  deriving Repr, Inhabited

def infoKeys : List String := ["Title", "Author", "Subject", "Keywords", "Creator", "Producer"]

def readInfo (g : Graph) (infoId : Option Nat) : List (Bytes × Bytes) :=
  match infoId.bind g.get |>.bind RObj.dict? with
  | none => []
  | some d => infoKeys.filterMap fun k => match dget d k with
    | some (.str s) => some (key k, s)
    | _ => none

/-- the library's reading of an object graph: catalog → page tree → flat page list → pages -/
def readDoc (g : Graph) (root : Nat) (infoId : Option Nat) : Except RErr DocR :=
  match (g.get root).bind RObj.dict? with
  | none => .error .noRoot
  | some cat =>
    match (dget cat "Pages").bind (resolveDict g) with
    | none => .error .noPages
    | some pagesD =>
      match C18.flatten (c18Graph g) (c18Dict pagesD) with
      | none => .error .flatten
      | some ids =>
        match readPages g 0 ids with
        | .error e => .error e
        | .ok ps => .ok { pages := ps, info := readInfo g infoId }

/-! ## from written objects to the reader's graph -/

/-- does the written stream dictionary declare `/Filter /FlateDecode`? -/
def hasFlate (dict : List (Bytes × Obj)) : Bool :=
  match dictGet (key "Filter") dict with
  | some (.name n) => n == ascii "FlateDecode"
  | _ => false

/-- the reader's graph for a list of written objects: every value goes through the object
    parser `parse` (the driver passes the parser model applied to the serialized bytes, the
    theorems pass C09's `readBack ∘ sortDicts`), stream data through `unz` when the dictionary
    declares FlateDecode -/
def graphOf (parse : Obj → Option Obj) (unz : Bytes → Option Bytes) : List WObj → Option Graph
  | [] => some []
  | o :: r =>
    match graphOf parse unz r with
    | none => none
    | some g =>
      match o.body with
      | .plain v => (parse v).map fun v' => (o.id, RObj.plain v') :: g
      | .stream d raw _ =>
        match parse (streamDict d raw), (if hasFlate d then unz raw else some raw) with
        | some d', some data => some ((o.id, RObj.stream d' data) :: g)
        | _, _ => none
      | .xmp => some ((o.id, RObj.stream (.dict []) []) :: g)

/-! ## the authored content (spec side of the property) -/

/-- what the property says a reader must find for one page: the boxes, the rotation, the
    operators IN CALL ORDER with the authored operands, the images -/
structure ExpPage where
  mediaBox : List Tok
  rot : Int
  ops : List XOp
  imgs : List (Bytes × Image)
  deriving Repr, DecidableEq, Inhabited

def observePage (p : PageD) : ExpPage :=
  { mediaBox := [zeroTok, zeroTok, p.w, p.h], rot := pageRot 0 p.ops, ops := specOps p, imgs := imagesOf p.ops }

def observe (d : Doc) : List ExpPage := d.pages.map observePage

/-- the same with the operators in the order the library EMITS them (equal to `observePage`,
    `C02_emit_is_call_order`) -/
def observePageEmit (p : PageD) : ExpPage := { observePage p with ops := emitOps p }

/-- the parsed operator a faithful content parser returns for an emitted operator (the
    statement of C21 for the operators the DSL produces) -/
def expectArgNum (p : Nat) (t : Tok) : Model.CT.Arg := .num (fmtFix p t)

def isIntTokC (t : Tok) : Bool := !t.contains 46

/-- `{}` of an `f64`: an integer token is lexed as `Token::Integer` -/
def expectDisplay (t : Tok) : Model.CT.Arg :=
  if isIntTokC t then .numI (Spec.Syntax.intVal t) else .num t

def expectParsed : XOp → Model.CT.Parsed
  | .num kw p args => ⟨kw, args.map (expectArgNum p)⟩
  | .plain kw => ⟨kw, []⟩
  | .int kw v => ⟨kw, [.int (Int.ofNat v)]⟩
  | .dash [] _ => ⟨[100], [.nums [], .numI 0]⟩
  | .dash arr ph => ⟨[100], [.nums (arr.map (expectArgNum 2)), expectArgNum 2 ph]⟩
  | .font n size => ⟨[84, 102], [.name n, expectDisplay size]⟩
  | .showText bs => ⟨[84, 106], [.str bs]⟩
  | .xobj n => ⟨[68, 111], [.name n]⟩

/-- the decimal text of the number a faithful object parser returns for `Object::Real` of an
    authored token (`C09.readBackReal`: an integer when the trimmed `{:.6}` text is one) -/
def mbTok (t : Tok) : Tok :=
  match C09.readBackReal (fmtFix 6 t) with
  | .int i => showInt i
  | .real t' => t'
  | _ => []

/-- the value the model reader returns for a page the model writer wrote -/
def normPage (p : PageD) : PageR :=
  { mediaBox := [zeroTok, zeroTok, p.w, p.h].map mbTok,
    rot := pageRot 0 p.ops,
    ops := (emitOps p).map expectParsed,
    imgs := (imagesOf p.ops).map fun e =>
      { name := e.1, w := some (Int.ofNat e.2.w), h := some (Int.ofNat e.2.h),
        cs := some (ascii (if e.2.gray then "DeviceGray" else "DeviceRGB")), bpc := some 8, data := e.2.data } }

def norm (d : Doc) (extra : List (Bytes × Obj)) : DocR :=
  { pages := d.pages.map normPage,
    info := infoKeys.filterMap fun k =>
      match dictGet (key k) (d.info.map (fun e => (e.1, textString e.2)) ++
                             extra.filter (fun e => !(d.info.map (·.1)).contains e.1)) with
      | some (.str s) => some (key k, s)
      | some (.hexstr s) => some (key k, s)
      | _ => none }

/-! ## the file (layout = C03's model of `write_object` / xref / trailer) -/

def toC03Body (xmp : C03.Body) : WBody → C03.Body
  | .plain v => .plain (ser v)
  | .stream d raw _ => .stream (d.map fun e => (e.1, ser e.2)) raw
  | .xmp => xmp

/-- `write_document`: the bytes of the file.  `xmp` = the XMP metadata stream (not modelled),
    `perm` = hash order of the cross-reference stream dictionary (sorted since /repo 8d436ce0),
    object streams only together with a cross-reference stream (/repo 4d9cdfbe) -/
def write (cfg : Cfg) (z : Bytes → Bytes) (perm : List C03.DictE → List C03.DictE) (xmp : C03.Body)
    (version : Bytes) (extra : List (Bytes × Obj)) (d : Doc) : Bytes :=
  let objs := buildObjects cfg z extra d
  C03.layout { xrefStreams := cfg.xref, objStreams := cfg.objstm && cfg.xref, compress := cfg.compress } z perm
    { version := version, objs := objs.map (fun o => { id := o.id, body := toC03Body xmp o.body }),
      root := 1, info := 3, nextId := 4 + 2 * d.pages.length + 1 }

/-- reading a file: `fileGraph` = cross-reference data + object parser + stream decoding (the
    part of the reader below the document level), then `readDoc` from `/Root` 1, `/Info` 3 -/
def read (fileGraph : Bytes → Option Graph) (file : Bytes) : Except RErr DocR :=
  match fileGraph file with
  | none => .error .noRoot
  | some g => readDoc g 1 (some 3)

/-- the authored page as a reader's value: boxes, rotation, the operators of the authoring calls
    in CALL order (as the parsed operators a faithful content parser returns), images -/
def observedPage (p : PageD) : PageR := { normPage p with ops := (specOps p).map expectParsed }

end OxiVerif.C02
