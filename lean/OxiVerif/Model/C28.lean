/-!
# C28 — executable model of the outline emission

`oxidize-pdf-core/src/writer/pdf_writer/mod.rs` `write_outline_tree` / `write_outline_item` /
`outline_sibling_ids` (id pool reserved up front, `id_index` consumed in pre-order, the ids of a
sibling list computed from the subtree sizes), `structure/outline.rs` `count_all`,
`count_visible`, `OutlineTree::visible_count`, `outline_item_to_dict` (`/Count` with sign).
Import-free.

The definitions suffixed `Old` / `posCode` transcribe the code as it was before the two repairs
(sibling ids looked up **by sibling position**, closed `/Count` = minus all descendants); the
check keeps them as the regressions it must catch.

An item carries only what the link graph depends on: the open flag and the children; titles and
destinations are identified by the item's pre-order position.
-/
namespace OxiVerif.C28

inductive Item
  | mk (isOpen : Bool) (children : List Item)
  deriving Repr, Inhabited

def Item.isOpen : Item → Bool
  | .mk o _ => o

def Item.children : Item → List Item
  | .mk _ cs => cs

/-- one written outline-item dictionary (references are object numbers) -/
structure Rec where
  id : Nat
  parent : Nat
  prev : Option Nat
  next : Option Nat
  first : Option Nat
  last : Option Nat
  count : Option Int
  deriving DecidableEq, Repr, Inhabited

/-- the outline root dictionary -/
structure Root where
  first : Option Nat
  last : Option Nat
  count : Option Int
  deriving DecidableEq, Repr, Inhabited

mutual
  /-- `OutlineItem::count_all` / `count_items` of the writer: items in the subtree incl. self -/
  def Item.size : Item → Nat
    | .mk _ cs => 1 + sizeList cs
  def sizeList : List Item → Nat
    | [] => 0
    | c :: cs => c.size + sizeList cs
end

mutual
  /-- `OutlineItem::count_visible` -/
  def Item.visible : Item → Nat
    | .mk o cs => 1 + (if o then visibleList cs else 0)
  /-- `OutlineTree::visible_count` -/
  def visibleList : List Item → Nat
    | [] => 0
    | c :: cs => c.visible + visibleList cs
end

/-- `/Count` as `outline_item_to_dict` computes it (only when the item has children):
open — `count_visible() - 1`; closed — minus `children.iter().map(count_visible).sum()` -/
def Item.countEntry (it : Item) : Option Int :=
  if it.children.isEmpty then none
  else if it.isOpen then some (Int.ofNat (it.visible - 1))
  else some (- Int.ofNat (visibleList it.children))

/-- `/Count` as the code computed it before the repair: closed — `-(count_all() - 1)` -/
def Item.countEntryOld (it : Item) : Option Int :=
  if it.children.isEmpty then none
  else if it.isOpen then some (Int.ofNat (it.visible - 1))
  else some (- Int.ofNat (it.size - 1))

/-- `all_ids[i]` (never out of range in the writer) -/
def at' (pool : List Nat) (i : Nat) : Nat := pool.getD i 0

/-! ## the writer as it is -/

/-- `outline_sibling_ids(all_ids, first_idx, items)`: `idx` starts at `first_idx`, every item
takes `all_ids[idx]` and advances `idx` by its `count_all()` -/
def siblingIds (pool : List Nat) : Nat → List Item → List Nat
  | _, [] => []
  | idx, c :: rest => at' pool idx :: siblingIds pool (idx + c.size) rest

/-- `ids[i]` -/
def idAt (ids : List Nat) (i : Nat) : Nat := ids.getD i 0

/-
`write_outline_item(item, item_id, parent_id, prev_id, next_id, all_ids, id_index)` with
`*id_index = idx` on entry, and its `for (i, child)` loop (`ids` = `child_ids`, `n` =
`item.children.len()`, `j` = `i`, `idx` = `*id_index` at the top of the iteration); records are
returned in pre-order.
-/
mutual
  def emitItemN (count : Item → Option Int) (pool : List Nat)
      (itemId parent : Nat) (prev next : Option Nat) (idx : Nat) : Item → List Rec
    | .mk o cs =>
      let ids := siblingIds pool idx cs
      let fl : Option Nat × Option Nat :=
        if cs.isEmpty then (none, none)
        else (some (idAt ids 0), some (idAt ids (ids.length - 1)))
      { id := itemId, parent := parent, prev := prev, next := next,
        first := fl.1, last := fl.2, count := count (.mk o cs) }
        :: emitListN count pool itemId ids cs.length 0 idx cs
  def emitListN (count : Item → Option Int) (pool : List Nat)
      (parent : Nat) (ids : List Nat) (n j idx : Nat) : List Item → List Rec
    | [] => []
    | c :: rest =>
      let childId := at' pool idx
      let prev := if j > 0 then some (idAt ids (j - 1)) else none
      let next := if j < n - 1 then some (idAt ids (j + 1)) else none
      emitItemN count pool childId parent prev next (idx + 1) c
        ++ emitListN count pool parent ids n (j + 1) (idx + c.size) rest
end

/-- `write_outline_tree`: root dictionary + all item dictionaries (pre-order); `rootId` is the
outline root's object number, `pool` the reserved ids (`item_ids`) -/
def writeTreeN (count : Item → Option Int) (rootId : Nat) (pool : List Nat) (items : List Item) :
    Root × List Rec :=
  if items.isEmpty then ({ first := none, last := none, count := none }, [])
  else
    let ids := siblingIds pool 0 items
    ({ first := some (idAt ids 0), last := some (idAt ids (ids.length - 1)),
       count := some (Int.ofNat (visibleList items)) },
     emitListN count pool rootId ids items.length 0 0 items)

/-- the model of the code -/
def Impl.write (rootId : Nat) (pool : List Nat) (items : List Item) : Root × List Rec :=
  writeTreeN Item.countEntry rootId pool items

/-! ## the traversal with the sibling lookup as a parameter

Used for the reference link graph (`posTrue`) and for the code before the repair (`posCode`).
`pos sibs j` is the pool index *relative to the first sibling's index* at which sibling `j` is
looked up: the unrepaired code used `first_idx + j`; the item really lives at
`first_idx + (number of items in the subtrees of siblings 0..j-1)`.


`emitList pos count pool parent firstIdx n j idx sibs rest` processes the siblings `rest`
(= `sibs.drop j`, `n = sibs.length`) with `*id_index = idx`; returns records in pre-order. -/
mutual
  def emitItem (pos : List Item → Nat → Nat) (count : Item → Option Int) (pool : List Nat)
      (itemId parent : Nat) (prev next : Option Nat) (idx : Nat) : Item → List Rec
    | .mk o cs =>
      let n := cs.length
      let firstIdx := idx
      let fl : Option Nat × Option Nat :=
        if n = 0 then (none, none)
        else (some (at' pool firstIdx), some (at' pool (firstIdx + pos cs (n - 1))))
      { id := itemId, parent := parent, prev := prev, next := next,
        first := fl.1, last := fl.2, count := count (.mk o cs) }
        :: emitList pos count pool itemId firstIdx n cs 0 idx cs
  def emitList (pos : List Item → Nat → Nat) (count : Item → Option Int) (pool : List Nat)
      (parent firstIdx n : Nat) (sibs : List Item) (j idx : Nat) : List Item → List Rec
    | [] => []
    | c :: rest =>
      let childId := at' pool idx
      let prev := if j > 0 then some (at' pool (firstIdx + pos sibs (j - 1))) else none
      let next := if j < n - 1 then some (at' pool (firstIdx + pos sibs (j + 1))) else none
      emitItem pos count pool childId parent prev next (idx + 1) c
        ++ emitList pos count pool parent firstIdx n sibs (j + 1) (idx + c.size) rest
end

/-- sibling position as the writer computed it before the repair: `first_idx + j` -/
def posCode (_ : List Item) (j : Nat) : Nat := j

/-- where sibling `j` really is: after the whole subtrees of siblings `0..j-1` -/
def posTrue (sibs : List Item) (j : Nat) : Nat := sizeList (sibs.take j)

/-- `write_outline_tree` over the parameterised traversal -/
def writeTree (pos : List Item → Nat → Nat) (count : Item → Option Int)
    (rootId : Nat) (pool : List Nat) (items : List Item) : Root × List Rec :=
  if items.isEmpty then ({ first := none, last := none, count := none }, [])
  else
    ({ first := some (at' pool 0), last := some (at' pool (pos items (items.length - 1))),
       count := some (Int.ofNat (visibleList items)) },
     emitList pos count pool rootId 0 items.length items 0 0 items)

/-- the code before the repairs (sibling ids by position, closed `/Count` = −all descendants) -/
def ImplOld.write (rootId : Nat) (pool : List Nat) (items : List Item) : Root × List Rec :=
  writeTree posCode Item.countEntryOld rootId pool items

/-! ## Spec side — ISO 32000-1 §12.3.3, Tables 152/153 -/
namespace Spec

/-- number of descendants that are visible when the item is (made) open: its children, plus
recursively the descendants of every *open* child — the recursive process of Table 153 -/
def shownIfOpened (it : Item) : Nat := visibleList it.children

/-- Table 153 `/Count`: absent without children; open: visible descendants; closed: minus the
number of descendants that would become visible if the item were opened -/
def countEntry (it : Item) : Option Int :=
  if it.children.isEmpty then none
  else if it.isOpen then some (Int.ofNat (shownIfOpened it))
  else some (- Int.ofNat (shownIfOpened it))

/-- the link graph the authored forest denotes, with the writer's own id assignment (pre-order):
every sibling reference is the id that sibling was given -/
def write (rootId : Nat) (pool : List Nat) (items : List Item) : Root × List Rec :=
  writeTree posTrue countEntry rootId pool items

end Spec

/-! ## An independent reader of a link graph (what "navigable" means)

Follow `/First` and `/Next` from the root, check `/Parent`, `/Prev`, `/Last` on the way, and
return the forest that a viewer would display (with the `/Count` found on each item). -/

def findRec (recs : List Rec) (id : Nat) : Option Rec := recs.find? (·.id = id)

inductive Nav
  | node (id : Nat) (count : Option Int) (kids : List Nav)
  deriving Repr, Inhabited

mutual
  /-- read the sibling chain starting at `cur`; `prev` is the id we came from -/
  def navChain (recs : List Rec) (parent : Nat) (last : Option Nat) :
      Nat → Option Nat → Option Nat → Option (List Nav)
    | 0, _, _ => none
    | _ + 1, none, prev => if last = prev then some [] else none
    | fuel + 1, some cur, prev =>
      match findRec recs cur with
      | none => none
      | some r =>
        if r.parent ≠ parent ∨ r.prev ≠ prev then none
        else
          match navKids recs r fuel with
          | none => none
          | some kids =>
            match navChain recs parent last fuel r.next (some cur) with
            | none => none
            | some rest => some (.node cur r.count kids :: rest)
  def navKids (recs : List Rec) (r : Rec) : Nat → Option (List Nav)
    | 0 => none
    | fuel + 1 =>
      match r.first, r.last with
      | none, none => some []
      | some f, some l => navChain recs r.id (some l) fuel (some f) none
      | _, _ => none
end

end OxiVerif.C28
