import OxiVerif.Model.C25Arms
import OxiVerif.Gen.C25Tables
import OxiVerif.Spec.AnnexD
/-
C25 — executable model of `oxidize-pdf-core/src/text/encoding.rs` (`TextEncoding::{encode,
encode_strict,decode}`, `winansi_encode_char`, `winansi_decode_char`, `macroman_encode_char`) and of
the single-byte part of `parser/encoding.rs` (`EnhancedDecoder::decode_with_encoding`, lenient).

All tables come from `Gen/C25Tables.lean` (regenerated from the Rust source on every run); what is
hand-written here is only the control flow around them (checked as whole-function templates by the
translator) and UTF-8 (`str::bytes`, `String::from_utf8_lossy`).
Code points and bytes are `Nat`.  Imports only import-free modules.
-/
namespace OxiVerif.C25
open OxiVerif.AnnexD (Enc)
open Gen

/-! ### character level -/

/-- `winansi_encode_char(ch)` -/
def winansiEncodeChar (c : Nat) : Option Nat := applyArms winansiEncodeCharArms winansiEncodeCharDflt c
/-- `macroman_encode_char(ch)` -/
def macromanEncodeChar (c : Nat) : Option Nat := applyArms macromanEncodeCharArms macromanEncodeCharDflt c
/-- `winansi_decode_char(byte)` (`none` cannot happen: the default arm is `byte as char`) -/
def winansiDecodeChar (b : Nat) : Option Nat := applyArms winansiDecodeCharArms winansiDecodeCharDflt b

/-- One iteration of the loop in `TextEncoding::encode_strict`. -/
def strictChar (e : Enc) (c : Nat) : Option Nat :=
  match e with
  | .winAnsi => winansiEncodeChar c
  | .macRoman => macromanEncodeChar c
  | .standard | .pdfDoc => if c ≤ strictAsciiMax then some c else none

/-- `char::encode_utf8` / `str::bytes` for one scalar value. -/
def utf8Enc (c : Nat) : List Nat :=
  if c < 0x80 then [c]
  else if c < 0x800 then [0xC0 + c / 64, 0x80 + c % 64]
  else if c < 0x10000 then [0xE0 + c / 4096, 0x80 + (c / 64) % 64, 0x80 + c % 64]
  else [0xF0 + c / 262144, 0x80 + (c / 4096) % 64, 0x80 + (c / 64) % 64, 0x80 + c % 64]

/-- One iteration of the loops in `TextEncoding::encode` (lossy): the bytes pushed for one char. -/
def lossyChar (e : Enc) (c : Nat) : List Nat :=
  match e with
  | .winAnsi => (applyArms teEncodeWinAnsiArms teEncodeWinAnsiDflt c).toList
  | .macRoman => (applyArms teEncodeMacRomanArms teEncodeMacRomanDflt c).toList
  | .standard | .pdfDoc => utf8Enc c

/-- One iteration of the loops in `TextEncoding::decode` (WinAnsi / MacRoman branches). -/
def decodeByte (e : Enc) (b : Nat) : Option Nat :=
  match e with
  | .winAnsi => applyArms teDecodeWinAnsiArms teDecodeWinAnsiDflt b
  | .macRoman => applyArms teDecodeMacRomanArms teDecodeMacRomanDflt b
  | .standard | .pdfDoc => none

/-! ### `String::from_utf8_lossy` (core::str::Utf8Chunks): every maximal invalid prefix of a
sequence becomes one U+FFFD, decoding resumes at the offending byte. -/

def isCont (b : Nat) : Bool := 0x80 ≤ b && b ≤ 0xBF

/-- admissible second byte of a 3-byte sequence -/
def second3 (b c : Nat) : Bool :=
  (b == 0xE0 && 0xA0 ≤ c && c ≤ 0xBF) || (0xE1 ≤ b && b ≤ 0xEC && isCont c) ||
  (b == 0xED && 0x80 ≤ c && c ≤ 0x9F) || (0xEE ≤ b && b ≤ 0xEF && isCont c)

/-- admissible second byte of a 4-byte sequence -/
def second4 (b c : Nat) : Bool :=
  (b == 0xF0 && 0x90 ≤ c && c ≤ 0xBF) || (0xF1 ≤ b && b ≤ 0xF3 && isCont c) ||
  (b == 0xF4 && 0x80 ≤ c && c ≤ 0x8F)

def utf8LossyAux : Nat → List Nat → List Nat
  | 0, _ => []
  | _, [] => []
  | fuel + 1, b :: r =>
    if b < 0x80 then b :: utf8LossyAux fuel r
    else if 0xC2 ≤ b ∧ b ≤ 0xDF then
      match r with
      | c1 :: r1 =>
        if isCont c1 then ((b - 0xC0) * 64 + (c1 - 0x80)) :: utf8LossyAux fuel r1
        else 0xFFFD :: utf8LossyAux fuel r
      | [] => [0xFFFD]
    else if 0xE0 ≤ b ∧ b ≤ 0xEF then
      match r with
      | c1 :: r1 =>
        if second3 b c1 then
          match r1 with
          | c2 :: r2 =>
            if isCont c2 then
              ((b - 0xE0) * 4096 + (c1 - 0x80) * 64 + (c2 - 0x80)) :: utf8LossyAux fuel r2
            else 0xFFFD :: utf8LossyAux fuel r1
          | [] => [0xFFFD]
        else 0xFFFD :: utf8LossyAux fuel r
      | [] => [0xFFFD]
    else if 0xF0 ≤ b ∧ b ≤ 0xF4 then
      match r with
      | c1 :: r1 =>
        if second4 b c1 then
          match r1 with
          | c2 :: r2 =>
            if isCont c2 then
              match r2 with
              | c3 :: r3 =>
                if isCont c3 then
                  ((b - 0xF0) * 262144 + (c1 - 0x80) * 4096 + (c2 - 0x80) * 64 + (c3 - 0x80))
                    :: utf8LossyAux fuel r3
                else 0xFFFD :: utf8LossyAux fuel r2
              | [] => [0xFFFD]
            else 0xFFFD :: utf8LossyAux fuel r1
          | [] => [0xFFFD]
        else 0xFFFD :: utf8LossyAux fuel r
      | [] => [0xFFFD]
    else 0xFFFD :: utf8LossyAux fuel r

def utf8Lossy (bs : List Nat) : List Nat := utf8LossyAux bs.length bs

/-! ### string level -/

/-- `TextEncoding::encode_strict`: `Err(ch)` for the first char without a byte. -/
def encodeStrict (e : Enc) : List Nat → Except Nat (List Nat)
  | [] => .ok []
  | c :: r =>
    match strictChar e c with
    | none => .error c
    | some b =>
      match encodeStrict e r with
      | .ok bs => .ok (b :: bs)
      | .error x => .error x

/-- `TextEncoding::encode` (lossy). -/
def encode (e : Enc) (s : List Nat) : List Nat := s.flatMap (lossyChar e)

/-- `TextEncoding::decode`. -/
def decode (e : Enc) (bs : List Nat) : List Nat :=
  match e with
  | .standard | .pdfDoc => utf8Lossy bs
  | _ => bs.filterMap (decodeByte e)

/-! ### `parser/encoding.rs` — `EnhancedDecoder::decode_with_encoding(bytes, enc, lenient = true)` -/

inductive EdEnc | latin1 | windows1252 | macRoman | pdfDoc
  deriving DecidableEq, Repr

def edArms : EdEnc → List Arm
  | .latin1 => edLatin1Arms
  | .windows1252 => edWindows1252Arms
  | .macRoman => edMacRomanArms
  | .pdfDoc => edPdfDocArms

/-- Latin-1 / Windows-1252 / MacRoman: `if byte < 0x80 {byte as char} else if let Some(ch) = map.get ..`;
PDFDocEncoding (it has entries below 0x80): the map FIRST, then the ASCII pass-through; a byte the
map lacks is the replacement character (lenient). -/
def edDecodeByte (k : EdEnc) (b : Nat) : Nat :=
  match k with
  | .pdfDoc =>
    match lookupArms edPdfDocArms b with
    | some u => u
    | none => if b < edAsciiSplit then b else edReplacement
  | _ => if b < edAsciiSplit then b else (lookupArms (edArms k) b).getD edReplacement

/-! ### `text/extraction_cmap.rs` — the base-encoding decoders `decode_with_encoding` falls back to for a
font without ToUnicode (`decode_winansi`, `decode_macroman`, `decode_standard`, `_ => byte as char`).
Private functions: tied by the translator only (the run-time path is text extraction, property C11). -/

def xcDecode (e : Enc) (b : Nat) : Option Nat :=
  match e with
  | .winAnsi => applyArms xcDecodeWinAnsiArms xcDecodeWinAnsiDflt b
  | .macRoman => applyArms xcDecodeMacRomanArms xcDecodeMacRomanDflt b
  | .standard => applyArms xcDecodeStandardArms xcDecodeStandardDflt b
  | .pdfDoc => some b

end OxiVerif.C25
