/-
C19 — model of the recovery scan of `oxidize-pdf-core/src/parser/xref.rs`:

  * `parse_obj_header_bytes`        ↦ `parseObjHeader` (`from_utf8_lossy` + `trim` +
        `split_whitespace` + `parse::<u32>` / `parse::<u16>`; Unicode White_Space recognised on
        the UTF-8 bytes; `+` sign accepted like Rust's integer `FromStr`)
  * `scan_window_for_headers`       ↦ `scanWindow` (one left-to-right pass that keeps the start of
        the current line; every occurrence of `obj` is visited in increasing order exactly as
        the `find`-from-`pos` loop does — the keyword cannot overlap itself; `abs < 4` skip;
        de-duplication by line-start offset through `seen` = the offsets already pushed)
  * `scan_object_headers_chunked`   ↦ `scanChunked` (window = carry ++ chunk, carry from the last
        line boundary capped at `CARRY_CAP`, final sort by offset)
  * `read_object_content`, `find_catalog_by_content`, steps 4a–4f of
    `parse_with_recovery_options`   ↦ `readObjectContent`, `findRoot`
  * `add_headers_latest_wins`       ↦ `recoveredEntries` (`upsert` in scan order)
Import-free.
-/
namespace OxiVerif.C19

abbrev Bytes := List Nat

structure Header where
  num : Nat
  gen : Nat
  off : Nat
  deriving Repr, DecidableEq

def CARRY_CAP : Nat := 1024

def isEol (c : Nat) : Bool := c = 10 || c = 13

def isDigit (c : Nat) : Bool := 48 ≤ c && c ≤ 57

/-- length in bytes of a Unicode White_Space character encoded at the head (0: none).
    `char::is_whitespace`: U+0009–000D, 0020, 0085, 00A0, 1680, 2000–200A, 2028, 2029, 202F, 205F, 3000 -/
def wsLen : Bytes → Nat
  | [] => 0
  | c :: r =>
    if c = 32 || (9 ≤ c && c ≤ 13) then 1
    else if c = 0xC2 then
      (match r with
       | 0x85 :: _ => 2
       | 0xA0 :: _ => 2
       | _ => 0)
    else if c = 0xE1 then
      (match r with
       | 0x9A :: 0x80 :: _ => 3
       | _ => 0)
    else if c = 0xE2 then
      (match r with
       | 0x80 :: x :: _ => if (0x80 ≤ x && x ≤ 0x8A) || x = 0xA8 || x = 0xA9 || x = 0xAF then 3 else 0
       | 0x81 :: 0x9F :: _ => 3
       | _ => 0)
    else if c = 0xE3 then
      (match r with
       | 0x80 :: 0x80 :: _ => 3
       | _ => 0)
    else 0

/-- `split_whitespace`: `skip` = bytes of a multi-byte white-space character still to pass,
    `cur` = the current token reversed, `acc` = finished tokens, newest first -/
def tokensGo : Bytes → Nat → Bytes → List Bytes → List Bytes
  | [], _, cur, acc => (if cur.isEmpty then acc else cur.reverse :: acc).reverse
  | _ :: r, skip + 1, cur, acc => tokensGo r skip cur acc
  | c :: r, 0, cur, acc =>
    let w := wsLen (c :: r)
    if w = 0 then tokensGo r 0 (c :: cur) acc
    else tokensGo r (w - 1) [] (if cur.isEmpty then acc else cur.reverse :: acc)

def tokens (line : Bytes) : List Bytes := tokensGo line 0 [] []

def digitsVal (d : Bytes) : Nat := d.foldl (fun a c => a * 10 + (c - 48)) 0

/-- Rust `str::parse::<uN>()`: optional `+`, at least one ASCII digit, no overflow -/
def parseNum (maxv : Nat) (t : Bytes) : Option Nat :=
  let d := match t with
    | 43 :: r => r
    | _ => t
  if d.isEmpty || !d.all isDigit then none
  else
    let v := digitsVal d
    if v ≤ maxv then some v else none

def kwObj : Bytes := [111, 98, 106]

/-- `parse_obj_header_bytes` -/
def parseObjHeader (line : Bytes) : Option (Nat × Nat) :=
  match tokens line with
  | a :: b :: c :: _ =>
    if c = kwObj then
      match parseNum 4294967295 a with
      | some n =>
        match parseNum 65535 b with
        | some g => some (n, g)
        | none => none
      | none => none
    else none
  | _ => none

/-- push unless a header with that line-start offset was already seen -/
def pushHeader (acc : List Header) (h : Header) : List Header :=
  if acc.any (·.off = h.off) then acc else acc ++ [h]

/-- scanner state: `base` = absolute offset of `window[0]`, `ls` = absolute offset of the start
    of the current line, `lr` = the current line so far (reversed), `acc` = `out` (its offsets
    are `seen`) -/
structure St where
  base : Nat
  ls : Nat
  lr : Bytes
  acc : List Header
  /-- `starts_mid_line`: `window[0]` is not a line start (the carry was cut by the cap) -/
  mid : Bool := false

/-- the keyword `obj` is completed by byte `c` after the bytes `lr` (reversed) of the current
    line: the part of the line before the keyword (reversed) -/
def kwEnd (c : Nat) (lr : Bytes) : Option Bytes :=
  match c, lr with
  | 106, 98 :: 111 :: pre => some pre
  | _, _ => none

/-- one byte of `scan_window_for_headers`.  The keyword is recognised when its last byte `j`
    arrives (the Rust loop finds the `o` and looks two bytes ahead — the same occurrences in the
    same order, the keyword cannot overlap itself); `(ls - base) + pre.length` = window-local
    index of the `o` (`abs`). -/
def step (st : St) (c : Nat) : St :=
  if isEol c then { st with ls := st.ls + st.lr.length + 1, lr := [] }
  else
    let acc :=
      match kwEnd c st.lr with
      | some pre =>
        -- `starts_mid_line && line_start == 0`: the tail of a line that began before the window
        if st.mid && st.ls = st.base then st.acc
        else if 4 ≤ (st.ls - st.base) + pre.length then
          (match parseObjHeader (pre.reverse ++ kwObj) with
           | some (n, g) => pushHeader st.acc ⟨n, g, st.ls⟩
           | none => st.acc)
        else st.acc
      | none => st.acc
    { st with lr := c :: st.lr, acc := acc }

def scanWindow (w : Bytes) (base : Nat) (acc : List Header) (mid : Bool := false) : List Header :=
  (w.foldl step ⟨base, base, [], acc, mid⟩).acc

/-- the whole file as one window -/
def scanFull (f : Bytes) : List Header := scanWindow f 0 []

/-- the part of `w` after its last EOL byte -/
def lineTail (w : Bytes) : Bytes := (w.reverse.takeWhile (fun c => !isEol c)).reverse

/-- index after the last EOL byte (0 if none): `rposition(EOL).map(|p| p + 1).unwrap_or(0)` -/
def lastLineStart (w : Bytes) : Nat := w.length - (lineTail w).length

/-- where the carry starts: the last line boundary, but at most `cap` (= `CARRY_CAP`) bytes back -/
def carryStart (cap : Nat) (w : Bytes) : Nat :=
  let s := lastLineStart w
  if w.length - s > cap then w.length - cap else s

/-- the loop of `scan_object_headers_chunked`; `fix = false` is the loop before the repair (no
    `starts_mid_line` flag: a carry cut by the cap was scanned as if it began a line) -/
def scanChunkedAux (fix : Bool) (cap k : Nat) : Nat → Bytes → Bytes → Nat → Bool → List Header → List Header
  | 0, _, _, _, _, acc => acc
  | fuel + 1, rest, carry, base, mid, acc =>
    let chunk := rest.take k
    let eof := chunk.isEmpty
    if eof && carry.isEmpty then acc
    else
      let w := carry ++ chunk
      let acc := scanWindow w base acc (fix && mid)
      if eof then acc
      else
        let s := carryStart cap w
        let capped := decide (w.length - lastLineStart w > cap)
        -- carry_mid_line: false after a line break, unchanged without one, true when the cap cuts
        let mid' := capped || (mid && !(w.any isEol))
        scanChunkedAux fix cap k fuel (rest.drop k) (w.drop s) (base + s) mid' acc

def insertByOff (h : Header) : List Header → List Header
  | [] => [h]
  | y :: r => if h.off < y.off then h :: y :: r else y :: insertByOff h r

/-- `headers.sort_by_key(|h| h.offset)` (stable) -/
def sortByOff (hs : List Header) : List Header := hs.foldl (fun acc h => insertByOff h acc) []

/-- the loop of `scan_object_headers_chunked` before the final sort, carry cap as a parameter -/
def scanChunkedRaw (cap k : Nat) (f : Bytes) : List Header :=
  scanChunkedAux true cap (if k = 0 then 1 else k) (f.length + 2) f [] 0 false []

/-- `scan_object_headers_chunked(reader, chunk_size)` -/
def scanChunked (k : Nat) (f : Bytes) : List Header := sortByOff (scanChunkedRaw CARRY_CAP k f)

/-- the chunked scan as it was before the repair of the capped carry (regression reference) -/
def scanChunkedOld (k : Nat) (f : Bytes) : List Header :=
  sortByOff (scanChunkedAux false CARRY_CAP (if k = 0 then 1 else k) (f.length + 2) f [] 0 false [])

/-! ### catalog search of `parse_with_recovery_options` -/

def startsWith : Bytes → Bytes → Bool
  | _, [] => true
  | [], _ :: _ => false
  | x :: b, y :: p => x == y && startsWith b p

def findSub (p : Bytes) : Bytes → Nat → Option Nat
  | [], _ => none
  | b@(_ :: r), i => if startsWith b p then some i else findSub p r (i + 1)

def containsSub (b p : Bytes) : Bool := (findSub p b 0).isSome

def ascii (s : String) : Bytes := s.toList.map Char.toNat

def dec (n : Nat) : Bytes := ascii (toString n)

/-- `read_object_content` before the repair: 64 KiB window at the entry's offset, from the first
    literal `"{n} 0 obj"` anywhere in it to the first `endobj` after it (regression reference) -/
def readObjectContentOld (f : Bytes) (num off : Nat) : Option Bytes :=
  let w := (f.drop off).take 65536
  match findSub (dec num ++ ascii " 0 obj") w 0 with
  | none => none
  | some s =>
    let t := w.drop s
    match findSub (ascii "endobj") t 0 with
    | none => none
    | some e => some (t.take e)

/-- `u8::is_ascii_whitespace` (space, HT, LF, FF, CR) -/
def isAsciiWs (c : Nat) : Bool := c = 32 || c = 9 || c = 10 || c = 12 || c = 13

/-- `dict_part_len`: position of the first `stream` keyword that directly follows `>>` -/
def dictPartGo : Nat → Bytes → Nat → Nat
  | 0, c, _ => c.length
  | fuel + 1, c, start =>
    match findSub (ascii "stream") (c.drop start) 0 with
    | none => c.length
    | some rel =>
      let at_ := start + rel
      match ((c.take at_).reverse.dropWhile isAsciiWs) with
      | 62 :: 62 :: _ => at_
      | _ => dictPartGo fuel c (at_ + 6)

def dictPartLen (c : Bytes) : Nat := dictPartGo (c.length + 1) c 0

/-- `read_object_content`: the header must stand at the entry's offset itself (any spelling
    `parse_obj_header_bytes` accepts, any generation); the text up to the first `endobj`, without
    the stream data -/
def readObjectContent (f : Bytes) (num off : Nat) : Option Bytes :=
  let w := (f.drop off).take 65536
  match findSub kwObj w 0 with
  | none => none
  | some k =>
    let bs := k + 3
    match parseObjHeader (w.take bs) with
    | some (n, _) =>
      if n = num then
        match findSub (ascii "endobj") (w.drop bs) 0 with
        | none => none
        | some e =>
          let c := w.take (bs + e)
          some (c.take (dictPartLen c))
      else none
    | none => none

def isSig (c : Bytes) : Bool := containsSub c (ascii "/Type/Sig") || containsSub c (ascii "/Type /Sig")

/-- last occurrence -/
def rfindSub (p : Bytes) : Bytes → Nat → Option Nat → Option Nat
  | [], _, best => best
  | b@(_ :: r), i, best => rfindSub p r (i + 1) (if startsWith b p then some i else best)

/-- `str::trim_end` on the reversed bytes (Unicode White_Space, as in `wsLen`) -/
def trimEndRev : Nat → Bytes → Bytes
  | 0, l => l
  | fuel + 1, l =>
    match l with
    | [] => []
    | c :: r =>
      if c = 32 || (9 ≤ c && c ≤ 13) then trimEndRev fuel r
      else
        match l with
        | 0x85 :: 0xC2 :: r' => trimEndRev fuel r'
        | 0xA0 :: 0xC2 :: r' => trimEndRev fuel r'
        | 0x80 :: 0x9A :: 0xE1 :: r' => trimEndRev fuel r'
        | 0x9F :: 0x81 :: 0xE2 :: r' => trimEndRev fuel r'
        | 0x80 :: 0x80 :: 0xE3 :: r' => trimEndRev fuel r'
        | x :: 0x80 :: 0xE2 :: r' =>
          if (0x80 ≤ x && x ≤ 0x8A) || x = 0xA8 || x = 0xA9 || x = 0xAF then trimEndRev fuel r' else l
        | _ => l

/-- step 4e of `parse_with_recovery_options` -/
def tailCatalog (f : Bytes) : Option Nat :=
  let tail := f.drop (f.length - 102400)
  match rfindSub (ascii "/Type/Catalog") tail 0 none with
  | none => none
  | some cp =>
    let area := (tail.take cp).drop (cp - 200)
    match rfindSub (ascii " 0 obj") area 0 none with
    | none => none
    | some op =>
      let before := (area.take op).reverse
      let trimmed := trimEndRev before.length before
      let ds := (trimmed.takeWhile isDigit).reverse
      if ds.isEmpty then none
      else if digitsVal ds ≤ 4294967295 then some (digitsVal ds) else none

/-- entries: (num, off, gen) ascending by number, all in use (recovery table) -/
def findRootWith (fixed : Bool) (f : Bytes) (entries : List (Nat × Nat × Nat)) : Option Nat :=
  let readObjectContent := if fixed then readObjectContent else readObjectContentOld
  -- 4b find_catalog_by_content
  let b := entries.find? fun (n, off, _) =>
    match readObjectContent f n off with
    | some c => containsSub c (ascii "/Type /Catalog") || (fixed && containsSub c (ascii "/Type/Catalog"))
    | none => false
  match b with
  | some (n, _, _) => some n
  | none =>
    -- 4c common object numbers
    let c4 := [1, 2, 3, 4, 5].find? fun n =>
      match entries.find? (·.1 = n) with
      | some (_, off, _) =>
        (match readObjectContent f n off with
         | some c => !isSig c && (containsSub c (ascii "/Type/Catalog") || containsSub c (ascii "/Type /Catalog")
                       || containsSub c (ascii "/Pages"))
         | none => false)
      | none => false
    match c4 with
    | some n => some n
    | none =>
      -- 4d all objects
      let d := entries.find? fun (n, off, _) =>
        match readObjectContent f n off with
        | some c => !isSig c && (containsSub c (ascii "/Type/Catalog") || containsSub c (ascii "/Type /Catalog")
                      || containsSub c (ascii "/Pages"))
        | none => false
      match d with
      | some (n, _, _) => some n
      | none =>
        -- 4e: the last `/Type/Catalog` of the final 100 KiB, the last ` 0 obj` within 200 bytes before it
        match tailCatalog f with
        | some n => some n
        | none =>
          -- 4f: first non-signature object
          let e := entries.find? fun (n, off, _) =>
            match readObjectContent f n off with
            | some c => !isSig c
            | none => false
          e.map (·.1)

/-- the catalog search of `parse_with_recovery_options` -/
def findRoot (f : Bytes) (entries : List (Nat × Nat × Nat)) : Option Nat := findRootWith true f entries

/-- … before the repair of `read_object_content` / `find_catalog_by_content` (regression reference) -/
def findRootOld (f : Bytes) (entries : List (Nat × Nat × Nat)) : Option Nat := findRootWith false f entries

/-- the generation the synthesized trailer gives `/Root` -/
def rootGen (entries : List (Nat × Nat × Nat)) (root : Nat) : Nat :=
  match entries.find? (·.1 = root) with
  | some (_, _, g) => g
  | none => 0

/-! ### step 4a: `/Root` declared by a cross-reference stream in the last 256 KiB -/

/-- `str::lines()`: pieces ended by LF (one CR before the LF is dropped), a non-empty rest -/
def linesLF : Bytes → Bytes → List Bytes
  | [], cur => if cur.isEmpty then [] else [cur.reverse]
  | c :: r, cur =>
    if c = 10 then
      (match cur with
       | 13 :: cur' => cur'.reverse
       | _ => cur.reverse) :: linesLF r []
    else linesLF r (c :: cur)

/-- `extract_root_from_xref_stream` -/
def extractRootGo : List Bytes → Bool → Option Nat
  | [], _ => none
  | l :: rest, inx =>
    if containsSub l (ascii " obj") &&
        (match rest with
         | nx :: _ => containsSub nx (ascii "/Type /XRef")
         | [] => false) then extractRootGo rest true
    else if inx then
      if containsSub l (ascii "endobj") then extractRootGo rest false
      else
        match findSub (ascii "/Root ") l 0 with
        | some p =>
          let after := l.drop (p + 6)
          (match findSub [32] after 0 with
           | some sp =>
             (match parseNum 4294967295 (after.take sp) with
              | some n => some n
              | none => extractRootGo rest true)
           | none => extractRootGo rest true)
        | none => extractRootGo rest true
    else extractRootGo rest false

def extractRootXs (f : Bytes) : Option Nat :=
  extractRootGo (linesLF (f.drop (f.length - 262144)) []) false

/-- steps 4a–4f: the root the synthesized trailer names -/
def findRootRecovery (f : Bytes) (entries : List (Nat × Nat × Nat)) : Option Nat :=
  match extractRootXs f with
  | some r => if entries.any (·.1 = r) then some r else findRoot f entries
  | none => findRoot f entries

/-- `latest.insert(h.obj_num, h)` on a table kept ascending by number (the harness prints the
    `HashMap` sorted) -/
def upsert (h : Header) : List (Nat × Nat × Nat) → List (Nat × Nat × Nat)
  | [] => [(h.num, h.off, h.gen)]
  | e :: r =>
    if h.num < e.1 then (h.num, h.off, h.gen) :: e :: r
    else if h.num = e.1 then (h.num, h.off, h.gen) :: r
    else e :: upsert h r

/-- `add_headers_latest_wins` on an empty table: headers inserted in the order given (ascending
    by offset), a later header of the same number replaces the earlier one; (num, off, gen)
    ascending by number -/
def recoveredEntries (hs : List Header) : List (Nat × Nat × Nat) :=
  hs.foldl (fun m h => upsert h m) []

/-! ### reference description of the scan (what the theorems compare the scanner with) -/

/-- the header a keyword ending at this byte yields -/
def hitAt (c : Nat) (lr : Bytes) : Option (Nat × Nat) :=
  match kwEnd c lr with
  | some pre => parseObjHeader (pre.reverse ++ kwObj)
  | none => none

/-- the first prefix of a line that ends in `obj` and parses as `N G obj`
    (`lr` = the bytes of the line already passed, reversed) -/
def firstHit : Bytes → Bytes → Option (Nat × Nat)
  | _, [] => none
  | lr, c :: r =>
    match hitAt c lr with
    | some x => some x
    | none => firstHit (c :: lr) r

/-- the lines of a byte string with their absolute start offsets: every CR and every LF ends a
    line (`cur` = the current line so far, reversed; `ls` = its start offset) -/
def linesGo : Bytes → Nat → Bytes → List (Nat × Bytes)
  | [], ls, cur => [(ls, cur.reverse)]
  | c :: r, ls, cur =>
    if isEol c then (ls, cur.reverse) :: linesGo r (ls + cur.length + 1) []
    else linesGo r ls (c :: cur)

def lineHeader (x : Nat × Bytes) : Option Header :=
  match firstHit [] x.2 with
  | some (n, g) => some ⟨n, g, x.1⟩
  | none => none

/-- one header per line that has a parsing `… obj` prefix, at the line's start offset -/
def specHeaders (f : Bytes) (base : Nat) : List Header := (linesGo f base []).filterMap lineHeader

end OxiVerif.C19
