import OxiVerif.Spec.Syntax
import OxiVerif.Model.Serializer
import OxiVerif.Model.Lexer
import OxiVerif.Model.ObjParser
/-!
# Model.C09Stream — stream objects: the writer's `Object::Stream` arm and the parser's stream arm

* `writer/pdf_writer/mod.rs` `write_object_value`, `Object::Stream(dict, data)`:
  `corrected_dict.set("Length", data.len())`, the dictionary through `write_object_value`,
  `"\nstream\n"`, the data, `"\nendstream"`                         → `setLength`, `serStream`
* `parser/lexer.rs` `read_newline` (CR LF | CR | LF), `read_bytes`, `skip_whitespace`,
  `peek_token`                                                       → `readNewline`, `skipWs`
* `parser/objects.rs` `parse_stream_data_with_options` with the default (strict) options and
  `parse_dictionary_or_stream_with_options`' `Token::Stream` arm      → `streamData`, `parseStreamObj`

`Spec.Syntax.Obj` has no stream constructor (streams are indirect objects, never nested), so a
parsed stream object is the triple (entries in insertion order, payload, rest).  Not modelled:
the `endstream` search the code falls into when `/Length` is missing *and* options are lenient, or
when `/Length` is literally `-1` (the code's private marker): `Err.unmodelled`.
-/
namespace OxiVerif.Model.Stream
open OxiVerif.Spec.Syntax (Obj)
open OxiVerif.Model.Lexer

def kwStream : List Nat := [115, 116, 114, 101, 97, 109]
def kwEndstream : List Nat := [101, 110, 100, 115, 116, 114, 101, 97, 109]
def lengthKey : List Nat := [76, 101, 110, 103, 116, 104]

/-! ## writer -/

/-- `Dictionary::set("Length", n)`: replaces an existing entry -/
def setLength (kvs : List (List Nat × Obj)) (n : Nat) : List (List Nat × Obj) :=
  kvs.filter (fun kv => kv.1 != lengthKey) ++ [(lengthKey, .int (Int.ofNat n))]

/-- the bytes between the dictionary and the end of the stream object -/
def streamTail (data : List Nat) : List Nat :=
  10 :: (kwStream ++ 10 :: (data ++ 10 :: kwEndstream))

/-- `write_object_value (Object::Stream(dict, data))` -/
def serStream (kvs : List (List Nat × Obj)) (data : List Nat) : List Nat :=
  ser (.dict (setLength kvs data.length)) ++ streamTail data

/-! ## parser -/

inductive SErr where
  | lex (e : Err)
  /-- `ParseError::Io` (`read_bytes` hit the end of input) -/
  | io
  deriving Repr, DecidableEq

/-- `Lexer::read_newline`: CR LF, CR or LF; anything else is "Expected newline" -/
def readNewline : List Nat → Except SErr (List Nat)
  | 13 :: 10 :: r => .ok r
  | 13 :: r => .ok r
  | 10 :: r => .ok r
  | _ => .error (.lex .syntax)

/-- `Lexer::skip_whitespace` -/
def skipWs : List Nat → List Nat
  | [] => []
  | b :: r => if isAsciiWs b then skipWs r else b :: r

/-- `HashMap` semantics of the parsed dictionary: the last entry with the key -/
def lookupLast (k : List Nat) : List (List Nat × Obj) → Option Obj
  | [] => none
  | (k', v) :: rest =>
    match lookupLast k rest with
    | some x => some x
    | none => if k' == k then some v else none

/-- `parse_stream_data_with_options` (strict options) at the position after the keyword `stream` -/
def streamData (kvs : List (List Nat × Obj)) (inp : List Nat) : Except SErr (List Nat × List Nat) :=
  match lookupLast lengthKey kvs with
  | none => .error (.lex .missingKey)
  | some (.int len) =>
    if len == -1 then .error (.lex .unmodelled)
    else if len < 0 then .error (.lex .syntax)
    else
      match readNewline inp with
      | .error e => .error e
      | .ok r =>
        if r.length < len.toNat then .error .io
        else
          -- `peek_token` after `skip_whitespace`; `Token::EndStream` is then consumed
          match next (skipWs (r.drop len.toNat)) with
          | .ok (.endStream, rest) => .ok (r.take len.toNat, rest)
          | .ok _ => .error (.lex .unexpectedToken)
          | .error e => .error (.lex e)
  | some _ => .error (.lex .syntax)

/-- the loop after the dictionary in `parse_dictionary_or_stream_with_options`, `Token::Stream`
    arm included; `none` = "not a stream" (the caller gets a plain dictionary) -/
def afterDictStream : Nat → List (List Nat × Obj) → List Nat →
    Except SErr (Option (List Nat × List Nat))
  | 0, _, _ => .error (.lex .unmodelled)
  | fuel + 1, kvs, inp =>
    match next inp with
    | .error e => .error (.lex e)
    | .ok (.stream, rest) =>
      match streamData kvs rest with
      | .ok x => .ok (some x)
      | .error e => .error e
    | .ok (.comment _, rest) => afterDictStream fuel kvs rest
    | .ok _ => .ok none

/-- `PdfObject::parse` on input that starts with a dictionary: the stream object (entries in
    insertion order, payload, rest), or `none` when no `stream` keyword follows -/
def parseStreamObj (fuel : Nat) (inp : List Nat) :
    Except SErr (Option (List (List Nat × Obj) × List Nat × List Nat)) :=
  match next inp with
  | .error e => .error (.lex e)
  | .ok (.dictStart, r) =>
    match ObjParser.parseDictInner fuel r with
    | .error e => .error (.lex e)
    | .ok (kvs, r') =>
      match afterDictStream fuel kvs r' with
      | .error e => .error e
      | .ok none => .ok none
      | .ok (some (d, rest)) => .ok (some (kvs, d, rest))
  | .ok _ => .ok none

def parseStream (inp : List Nat) :=
  parseStreamObj (2 * inp.length + 4) inp

end OxiVerif.Model.Stream
