import OxiVerif.Base.Driver
import OxiVerif.Model.C08
import OxiVerif.Model.C08Wire
/-!
Driver for C08.  Request:

  `d <filters> <parms> <data> <ztab> <limits> <wfTok>`        (tokens: see Model/C08Wire.lean)

`wfTok` = `wf` (the harness built `data` with reference encoders and valid parameters: the stream is
well-formed) or `mal`.
Answer (both sides): `U=<res> <L>=<bres> <L>=<bres> …` — `U` = `PdfStream::decode`, the others
`PdfStream::decode_with_limit(L)`; `<bres>` = `<res>` with `ok:<hex>` abbreviated to
`ok:<len>:<fnv1a64>`.

Oracle = the statement of C08 on the implementation's answer:
  R1 a bounded call never panics;
  R2 a bounded `ok` has at most `L` bytes;
  R3 bounded `ok` and unbounded `ok` carry the same bytes (and a bounded `ok` is not an unbounded error);
  R4 a well-formed stream whose unbounded result has ≤ L bytes is decoded by the bounded call.
Failure reasons carry the model's explanation so that known findings can be matched narrowly.
-/
open OxiVerif OxiVerif.Flt

def fnv1a64 (bs : List Nat) : UInt64 :=
  bs.foldl (fun h b => (h ^^^ (UInt64.ofNat b)) * 1099511628211) 14695981039346656037

def hex64 (x : UInt64) : String :=
  let n := x.toNat
  String.ofList ((List.range 16).reverse.map fun i => hexDigit ((n / 16 ^ i) % 16))

def showBRes : Res (List Nat) → String
  | .ok o => s!"ok:{o.length}:{hex64 (fnv1a64 o)}"
  | r => showRes r

/-- bounded result as printed by the harness -/
inductive BTok where
  | ok (len : Nat) (hash : String)
  | err
  | panic (cls : String)
  | other
  deriving BEq

def parseBTok (s : String) : BTok :=
  match s.splitOn ":" with
  | ["ok", l, h] => match l.toNat? with
    | some n => .ok n h
    | none => .other
  | "err" :: _ => .err
  | "panic" :: c :: _ => .panic c
  | _ => .other

def isPanicTok (s : String) : Bool := s.startsWith "panic" || s.startsWith "abort" || s.startsWith "timeout"

/-- sizes of the buffers `decode_stream_with_limit` checks against the limit (per stage: the
decoder's output, then the predictor's output), computed by the model without a limit -/
def stageSizes (E : Ext) (p : ParmSpec) : Nat → List FName → List Nat → List Nat
  | _, [], _ => []
  | i, f :: fs, input =>
    let big := 2 ^ 62
    let parms := filterParams p i
    let dec : Res (List Nat) := match f with
      | .flate => decodeFlateWithLimit E input big
      | .hex => hexDec big input
      | .a85 => a85Dec big input
      | .lzw => lzwDec big (earlyChange parms) input
      | .rl => rlDec big input
      | _ => .err .decode
    match dec with
    | .ok d =>
      match boundedStage E big input f parms with
      | .ok o => d.length :: o.length :: stageSizes E p (i + 1) fs o
      | _ => [d.length]
    | _ => []

/-- where the model's bounded path panics (for narrow known-finding matchers): the ASCII85 group
value (u32 overflow) or `bpc * colors` of the PNG predictor (usize overflow) -/
def panicSite (E : Ext) (L : Nat) (p : ParmSpec) : Nat → List FName → List Nat → String
  | _, [], _ => "unexplained"
  | i, f :: fs, input =>
    let parms := filterParams p i
    let dec : Res (List Nat) := match f with
      | .flate => decodeFlateWithLimit E input L
      | .hex => hexDec L input
      | .a85 => a85Dec L input
      | .lzw => lzwDec L (earlyChange parms) input
      | .rl => rlDec L input
      | _ => .err .decode
    match dec with
    | .panic _ => if f == .a85 then "a85-group-value" else "unexplained"
    | .ok _ =>
      match boundedStage E L input f parms with
      | .panic _ => "png-bpc-times-colors"
      | .ok o => panicSite E L p (i + 1) fs o
      | _ => "unexplained"
    | _ => "unexplained"

def namesOf (fs : FilterSpec) : List FName :=
  match fs with
  | .single f => [f]
  | .array l => (filterNames l).getD []
  | _ => []

def hasPredictorOnOther (fs : FilterSpec) (p : ParmSpec) : Bool :=
  let names := namesOf fs
  (List.range names.length).any fun i =>
    match names[i]?, filterParams p i with
    | some f, some d => f != .flate && f != .lzw && d.predictor.asInt.isSome
    | _, _ => false

def handle (req impl : String) : String × String :=
  match req.splitOn " " with
  | ["d", fT, pT, dT, zT, lT, wfTok] =>
    match parseFilters? fT, parseParms? pT, bytesOfHex? dT, parseNats? lT with
    | some fs, some ps, some data, some limits =>
      match parseZTab? data zT with
      | none => ("bad-request", "na")
      | some zt =>
        let E := zt.ext
        let implToks := impl.splitOn " "
        let implU : String := String.ofList ((implToks.headD "").toList.drop 2)
        let implB : List (Nat × String) := (implToks.drop 1).filterMap fun t =>
          match t.splitOn "=" with
          | [l, r] => l.toNat?.map fun n => (n, r)
          | _ => none
        let mU := decodeStream E data fs ps
        let mUs := match mU with
          | .ext 0 => implU
          | r => showRes r
        let mB := limits.map fun L => (L, decodeStreamWithLimit E data fs ps L)
        let mBs := mB.map fun (L, r) =>
          let s := match r with
            | .ext 0 => ((implB.find? (fun (x : Nat × String) => x.1 == L)).map (fun (x : Nat × String) => x.2)).getD "ext"
            | r => showBRes r
          s!"{L}={s}"
        let model := " ".intercalate (s!"U={mUs}" :: mBs)
        -- oracle on the implementation's answer
        let uRes := parseRes? implU
        let sizes := stageSizes E ps 0 (namesOf fs) data
        let emptyArr := match fs with
          | .array [] => true
          | _ => false
        let fails : List String := implB.flatMap fun (L, tok) =>
          let mTok := ((mB.find? (·.1 == L)).map fun x => showBRes x.2).getD "?"
          match parseBTok tok with
          | .panic c =>
            let site := if mTok == tok then panicSite E L ps 0 (namesOf fs) data else "unexplained"
            [s!"fail:bounded-panic:{c}:{site}:L={L}"]
          | .other => [s!"fail:bounded-abnormal:{String.ofList (tok.toList.take 40)}:L={L}"]
          | .ok len h =>
            (if len > L then [s!"fail:exceeds-limit:len={len}:L={L}"] else []) ++
            (match uRes with
              | some (.ok u) =>
                if len == u.length && h == hex64 (fnv1a64 u) then []
                else
                  let why := if emptyArr then "empty-filter-array"
                    else if hasPredictorOnOther fs ps then "predictor-on-non-flate-lzw"
                    else "unexplained"
                  [s!"fail:bounded-differs-from-unbounded:{why}:L={L}"]
              | some (.err _) =>
                let why := if hasPredictorOnOther fs ps then "predictor-on-non-flate-lzw" else "unexplained"
                [s!"fail:bounded-ok-unbounded-err:{why}:L={L}"]
              | _ => [])
          | .err =>
            match uRes with
            | some (.ok u) =>
              if wfTok == "wf" && u.length ≤ L then
                let why := if sizes.any (· > L) then "intermediate-exceeds-limit" else "unexplained"
                [s!"fail:fits-but-rejected:{why}:n={u.length}:L={L}"]
              else []
            | _ => []
        let oracle :=
          if implB.length != limits.length then "fail:unparsable-impl-answer"
          else match fails.find? (fun f => (f.splitOn "unexplained").length > 1), fails with
            | some f, _ => f
            | none, f :: _ => f
            | none, [] => "ok"
        (model, oracle)
    | _, _, _, _ => ("bad-request", "na")
  | _ => ("bad-request", "na")

def main : IO Unit := runDriver handle
