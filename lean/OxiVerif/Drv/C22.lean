import OxiVerif.Base.Driver
import OxiVerif.Model.C22
import Std.Data.HashSet
/-!
Driver for C22.

request : `<sim|real> <wp|bp> p=<par> soe=<0|1> can=<no|pre|ext> cb=<0|1> jobs=<co|ce|cp|cc|so|se|sc|no|ne,…|-> sch=<kind>:<seed> it=<k> cov=<0|1>`
          (`so/se/sc` = `co/ce/cc` whose operation takes a few milliseconds on real threads: the jobs
          behind it are queued while it runs; the model does not distinguish them)
impl    : the set of distinct observations of `it` executions of the real code, joined by `|`;
          one observation = `n=<total>;r=<idx><S|F|C>.…;s=<successful>;f=<failed>;c=<0|1>;p=<t/c/f/r|->;ran=<idx.…>;prov=<idx.…>;b=<success_count/failure_count/cancelled_count/all_successful/rate-ok>[;bad=<snapshot>]`
          or `hang` (execute did not return).  `b` = `result.rs` arithmetic on the returned results
          (`BatchResult::{success_count,failure_count,cancelled_count,all_successful}`,
          `BatchSummary::success_rate`); `bad` = a progress snapshot seen by the callback that is
          out of bounds or goes backwards.

`cov=1` (tiny configurations, many schedules): the observed set must EQUAL the model's set.

MODEL  = IMPL when every observation is one of the final observations the model can reach for
         this configuration (exhaustive exploration of `C22.step` from `C22.init`), otherwise
         `unreachable:<first such observation>`.
ORACLE = the property's predicate on each observation: one result per job in submission order,
         counts match the results, progress counters end consistent, under stop_on_error no
         operation is entered by a job that provably started after a failure was recorded.
-/
open OxiVerif OxiVerif.C22

namespace C22Drv

structure Req where
  api : String
  cfg : Cfg
  cb : Bool
  par : Nat
  cov : Bool

def parseJob : String → Option JobSpec
  | "co" => some ⟨true, .ok, false⟩
  | "ce" => some ⟨true, .err, false⟩
  | "cp" => some ⟨true, .panic, false⟩
  | "cc" => some ⟨true, .ok, true⟩
  | "so" => some ⟨true, .ok, false⟩
  | "se" => some ⟨true, .err, false⟩
  | "sc" => some ⟨true, .ok, true⟩
  | "no" => some ⟨false, .ok, false⟩
  | "ne" => some ⟨false, .err, false⟩
  | _ => none

def field (pre : String) (s : String) : Option String :=
  if s.startsWith pre then some (String.ofList (s.toList.drop pre.length)) else none

def parseReq (req : String) : Option Req :=
  match req.splitOn " " with
  | [stream, api, p, soe, can, cb, jobs, _sch, _it, cov] =>
    if stream ≠ "sim" ∧ stream ≠ "real" then none else
    if api ≠ "wp" ∧ api ≠ "bp" then none else
    match (field "p=" p).bind String.toNat?, field "soe=" soe, field "can=" can, field "cb=" cb, field "jobs=" jobs with
    | some par, some soe, some can, some cb, some js =>
      let jl := if js = "-" then some [] else (js.splitOn ",").mapM parseJob
      match jl with
      | none => none
      | some jl =>
        if can ≠ "no" ∧ can ≠ "pre" ∧ can ≠ "ext" then none else
        if api = "bp" ∧ can = "ext" then none else
        if api = "wp" ∧ cb = "1" then none else
        if api = "bp" ∧ ((js.splitOn ",").contains "cc" ∨ (js.splitOn ",").contains "sc") then none else
        if par = 0 ∧ cb = "1" then none else
        some { api := api, cb := cb = "1", par := par, cov := cov = "cov=1",
               cfg := { jobs := jl, workers := par, soe := soe = "1", pre := can = "pre",
                        ext := can = "ext", monitor := api = "bp" ∧ cb = "1" } }
    | _, _, _, _, _ => none
  | _ => none

def kindChar : Kind → String
  | .success => "S" | .failed => "F" | .cancelled => "C"

def dotted (l : List String) : String := if l.isEmpty then "-" else String.intercalate "." l

def b01 (b : Bool) : String := if b then "1" else "0"

/-- what the harness prints for a final model state -/
def obsOf (r : Req) (s : St) : String :=
  let n := r.cfg.jobs.length
  let sm := summary r.cfg s
  let res := dotted (sm.map fun m => toString m.1 ++ kindChar m.2)
  let p := if r.api = "bp" ∧ ¬ r.cb then "-"
           else s!"{n}/{s.completed}/{s.failed}/{s.running}"
  let (sc, fc, cc) := resultCounts sm
  let (ts, tf) := tally sm
  s!"n={n};r={res};s={ts};f={tf};c={b01 s.cancelled};p={p};ran={dotted (s.ranLog.map toString)};prov={dotted (s.provLog.map toString)};b={sc}/{fc}/{cc}/{b01 (allSuccessful sm)}/1"

partial def explore (cfg : Cfg) (todo : List St) (seen : Std.HashSet St) (finals : List St) (hang : Bool) :
    List St × Bool × Nat :=
  match todo with
  | [] => (finals, hang, seen.size)
  | s :: rest =>
    let finals := if quiescent s then s :: finals else finals
    let hang := hang || stuck cfg s
    let (todo, seen) := (next cfg s).foldl (fun (acc : List St × Std.HashSet St) s' =>
      if acc.2.contains s' then acc else (s' :: acc.1, acc.2.insert s')) (rest, seen)
    explore cfg todo seen finals hang

/-- all final observations of the model for this request -/
def reachableFinals (r : Req) : List String × Nat :=
  if r.api = "bp" ∧ r.cfg.jobs.isEmpty then
    -- `execute`: `if total_jobs == 0 { return Ok(BatchSummary::empty()) }`
    (["n=0;r=-;s=0;f=0;c=0;p=-;ran=-;prov=-;b=0/0/0/1/1"], 0)
  else
    let s0 := init r.cfg
    let (fin, hang, nst) := explore r.cfg [s0] (Std.HashSet.emptyWithCapacity.insert s0) [] false
    let obs := (fin.map (obsOf r)).eraseDups
    (if hang then "hang" :: obs else obs, nst)

/-! ### oracle: parse one observation and evaluate the property's predicate on it -/

structure Obs where
  n : Nat
  res : List (Nat × String)
  s : Nat
  f : Nat
  prog : Option (List Nat)
  ran : List Nat
  prov : List Nat
  b : List Nat
  bad : Bool

def parseDotNat (s : String) : Option (List Nat) :=
  if s = "-" then some [] else (s.splitOn ".").mapM String.toNat?

def parseRes (s : String) : Option (List (Nat × String)) :=
  if s = "-" then some [] else
  (s.splitOn ".").mapM fun t =>
    let cs := t.toList
    match cs.reverse with
    | k :: ds => (String.ofList ds.reverse).toNat?.map fun i => (i, String.ofList [k])
    | [] => none

def parseObs (o : String) : Option Obs :=
  let fs := o.splitOn ";"
  let (fs, bad) := match fs.reverse with
    | l :: rest => if l.startsWith "bad=" then (rest.reverse, true) else (fs, false)
    | [] => (fs, false)
  match fs with
  | [n, r, s, f, _c, p, ran, prov, b] =>
    match (field "n=" n).bind String.toNat?, (field "r=" r).bind parseRes, (field "s=" s).bind String.toNat?,
          (field "f=" f).bind String.toNat?, field "p=" p, (field "ran=" ran).bind parseDotNat,
          (field "prov=" prov).bind parseDotNat, (field "b=" b).bind (fun t => (t.splitOn "/").mapM String.toNat?) with
    | some n, some res, some s, some f, some p, some ran, some prov, some b =>
      let prog := if p = "-" then some none else ((p.splitOn "/").mapM String.toNat?).map some
      match prog with
      | some prog => some { n := n, res := res, s := s, f := f, prog := prog, ran := ran, prov := prov, b := b, bad := bad }
      | none => none
    | _, _, _, _, _, _, _, _ => none
  | _ => none

def cnt (k : String) (res : List (Nat × String)) : Nat := (res.filter fun m => m.2 = k).length

/-- categories of the property's clauses violated by one observation -/
def verdict (r : Req) (o : String) : List String :=
  if o = "hang" then ["no-summary"] else
  match parseObs o with
  | none => ["unparsable-observation"]
  | some ob =>
    let n := r.cfg.jobs.length
    let c1 := if ob.n = n ∧ ob.res.map (·.1) = List.range n then [] else ["missing-result"]
    let c2 := if ob.s = cnt "S" ob.res ∧ ob.f = cnt "F" ob.res then [] else ["counts-mismatch"]
    -- progress counters end consistent with the results: completed = #Success, failed = #Failed,
    -- nothing running, completed + failed + #Cancelled = total; no bad snapshot on the way
    let c3 := match ob.prog with
      | none => []
      | some [t, c, f, run] =>
        if t = n ∧ c = cnt "S" ob.res ∧ f = cnt "F" ob.res ∧ run = 0 ∧ c + f + cnt "C" ob.res = ob.res.length
        then [] else ["progress-inconsistent"]
      | some _ => ["progress-inconsistent"]
    let c3 := if ob.bad ∧ c3.isEmpty then ["progress-inconsistent"] else c3
    -- result.rs: the three counts partition the results and agree with the summary's counters
    let c5 := match ob.b with
      | [sc, fc, cc, al, rate] =>
        if sc = cnt "S" ob.res ∧ fc = cnt "F" ob.res ∧ cc = cnt "C" ob.res ∧ sc + fc + cc = ob.res.length
           ∧ (al = 1 ↔ sc = ob.res.length) ∧ rate = 1 then [] else ["counts-mismatch"]
      | _ => ["counts-mismatch"]
    let c2 := if c2.isEmpty then c5 else c2
    -- stop-on-error: a job provably started after a failure was recorded (same worker thread, later)
    -- must not have entered its operation
    let failedIdx := (ob.res.filter fun m => m.2 = "F").map (·.1)
    let seqLate := r.par = 1 ∧ ob.ran.any fun j => failedIdx.any fun i => i < j
    let c4 := if r.cfg.soe ∧ (seqLate ∨ ¬ ob.prov.isEmpty) then ["ran-after-failure"] else []
    c1 ++ c2 ++ c3 ++ c4

def insStr (a : String) : List String → List String
  | [] => [a]
  | b :: l => if a ≤ b then a :: b :: l else b :: insStr a l
def sortStr (l : List String) : List String := l.foldr insStr []

def handle (req impl : String) : String × String :=
  match parseReq req with
  | none => ("bad-request", "na")
  | some r =>
    if impl.startsWith "unsupported" then (impl, "na") else
    let (finals, _) := reachableFinals r
    -- the property quantifies over parallelism >= 1; a pool without worker threads is only
    -- compared with the model
    if r.par = 0 then
      let obs := impl.splitOn "|"
      match obs.filter fun o => ¬ finals.contains o with
      | [] => (impl, "na")
      | o :: _ => ("unreachable:" ++ o, "na")
    else
    let obs := impl.splitOn "|"
    let unreach := obs.filter fun o => ¬ finals.contains o
    let model := match unreach with
      | [] => if r.cov then String.intercalate "|" (sortStr finals) else impl
      | o :: _ => "unreachable:" ++ o
    let found := obs.flatMap (verdict r)
    let cats := ["unparsable-observation", "no-summary", "missing-result", "counts-mismatch",
                 "progress-inconsistent", "ran-after-failure"].filter found.contains
    let cats := if unreach.isEmpty ∨ cats.isEmpty then cats else "not-explained-by-model" :: cats
    let oracle := if cats.isEmpty then "ok" else "fail:" ++ String.intercalate "+" cats
    (model, oracle)

end C22Drv

def main (args : List String) : IO Unit := do
  match args with
  | ["finals", req] =>
    -- debugging aid: print the model's reachable final observations for one request
    match C22Drv.parseReq req with
    | none => IO.println "bad-request"
    | some r =>
      let (f, n) := C22Drv.reachableFinals r
      IO.println s!"states={n} finals={f.length}"
      for o in f do IO.println o
  | _ => runDriver C22Drv.handle
