import OxiVerif.Base.Driver
import OxiVerif.Model.C02
import OxiVerif.Spec.C02
/-!
# Driver for C02 (line protocol of `harness/src/bin/c02/main.rs`)

Request `rt <cfg> <program>`; IMPL = the tokens `L:…` (what the library's own reader found in the
file the library wrote) and `S:…` (every object of that file as the independent strict scanner
found it, byte for byte).

MODEL = the same tokens re-derived from the request alone:
* `S:` tokens — the model WRITER (`C02.buildObjects`: ids, order, every dictionary, content
  stream bytes) serialized by `Model.ser`; not derived, taken from IMPL: the Flate code book
  (`z c` = the bytes whose strict inflation is `c`), the XMP packet (presence only) and the Info
  entries the user did not set (dates, default Creator/Producer, `oxidize-pdf-*`);
* `L:` tokens — the model READER (`C02.readDoc`: library object parser model on the serialized
  bytes, `C18.flatten`, `CT.parseContent`) applied to the model writer's objects.
ORACLE = the property: the `L:` observation and an independent reading of the `S:` objects
(`Spec.C02` over `Spec.Syntax.read`) both equal the authored content `C02.observe` (page count,
boxes, rotation, operators in call order with the authored operands, images).  Info strings are
compared model-vs-implementation only (the property's conclusion does not list them).
-/
namespace OxiVerif.C02.Drv
open OxiVerif
open OxiVerif.C02
open OxiVerif.Spec.Syntax (Obj)

def str (bs : Bytes) : String := String.ofList (bs.map Char.ofNat)
def hx (bs : Bytes) : String := hexField bs

/-! ## request -/

def tok (s : String) : Tok := ascii s

/-- a decimal token of the DSL: optional `-`, digits, optional `.` + 1–2 digits, canonical -/
def okTok (s : String) : Bool :=
  let cs := s.toList
  let body := match cs with
    | '-' :: r => r
    | r => r
  let ip := body.takeWhile Char.isDigit
  let rest := body.drop ip.length
  !ip.isEmpty && (ip.length == 1 || ip.head? != some '0') &&
  (rest.isEmpty || (rest.head? == some '.' && (rest.drop 1).all Char.isDigit &&
     1 ≤ (rest.drop 1).length && (rest.drop 1).length ≤ 2 && (rest.getLast? != some '0')))

def toks (l : List String) : Option (List Tok) :=
  if l.all okTok then some (l.map tok) else none

/-- UTF-8 → WinAnsi for the characters the generator uses (ASCII, U+00A0–U+00FF) -/
def winAnsi : Bytes → Option Bytes
  | [] => some []
  | 194 :: b :: r => if 160 ≤ b && b < 192 then (winAnsi r).map (b :: ·) else none
  | 195 :: b :: r => if 128 ≤ b && b < 192 then (winAnsi r).map ((b + 64) :: ·) else none
  | b :: r => if b < 128 then (winAnsi r).map (b :: ·) else none

def parseCol (l : List String) : Option Col :=
  match toks l with
  | some [g] => some (.gray g)
  | some [r, g, b] => some (.rgb r g b)
  | some [c, m, y, k] => some (.cmyk c m y k)
  | _ => none

def parseOp (a : List String) : Option DOp :=
  match a with
  | ["R", d] => d.toInt?.map .rotate
  | ["m", x, y] => (toks [x, y]).map fun _ => .moveTo (tok x) (tok y)
  | ["l", x, y] => (toks [x, y]).map fun _ => .lineTo (tok x) (tok y)
  | ["c", a, b, c, d, e, f] => (toks [a, b, c, d, e, f]).map fun _ => .curveTo (tok a) (tok b) (tok c) (tok d) (tok e) (tok f)
  | ["re", x, y, w, h] => (toks [x, y, w, h]).map fun _ => .rect (tok x) (tok y) (tok w) (tok h)
  | ["h"] => some .closePath
  | ["S"] => some .stroke
  | ["f"] => some .fill
  | ["B"] => some .fillStroke
  | ["n"] => some .endPath
  | ["W"] => some .clip
  | ["q"] => some .save
  | ["Q"] => some .restore
  | ["cm", a, b, c, d, e, f] => (toks [a, b, c, d, e, f]).map fun _ => .cm (tok a) (tok b) (tok c) (tok d) (tok e) (tok f)
  | ["w", x] => (toks [x]).map fun _ => .lineWidth (tok x)
  | ["J", v] => v.toNat?.bind fun n => if n < 3 then some (.lineCap n) else none
  | ["j", v] => v.toNat?.bind fun n => if n < 3 then some (.lineJoin n) else none
  | ["M", x] => (toks [x]).map fun _ => .miter (tok x)
  | ["d", a, b, ph] => (toks [a, b, ph]).map fun _ => .dash (tok a) (tok b) (tok ph)
  | ["ds"] => some .dashSolid
  | "rg" :: r => if r.length == 3 then (parseCol r).map .fillColor else none
  | "RG" :: r => if r.length == 3 then (parseCol r).map .strokeColor else none
  | "g" :: r => if r.length == 1 then (parseCol r).map .fillColor else none
  | "G" :: r => if r.length == 1 then (parseCol r).map .strokeColor else none
  | "k" :: r => if r.length == 4 then (parseCol r).map .fillColor else none
  | "K" :: r => if r.length == 4 then (parseCol r).map .strokeColor else none
  | ["T", f, size, x, y, h] =>
    match f.toNat?, toks [size, x, y], (bytesOfHex? h).bind winAnsi with
    | some fi, some _, some wa => if fi < 14 then some (.text fi (tok size) (tok x) (tok y) wa) else none
    | _, _, _ => none
  | ["I", name, cs, w, h, data, x, y, dw, dh] =>
    match w.toNat?, h.toNat?, bytesOfHex? data, toks [x, y, dw, dh] with
    | some w', some h', some bs, some _ =>
      if cs == "g" || cs == "r" then
        some (.image (ascii name) { gray := cs == "g", w := w', h := h', data := bs } (tok x) (tok y) (tok dw) (tok dh))
      else none
    | _, _, _, _ => none
  | _ => none

def parseOps : List String → Option (List DOp)
  | [] => some []
  | o :: r => match parseOp (o.splitOn ","), parseOps r with
    | some a, some b => some (a :: b)
    | _, _ => none

def parsePage (s : String) : Option PageD :=
  match s.splitOn ";" with
  | p :: ops =>
    match p.splitOn ",", parseOps ops with
    | ["P", w, h], some os => if okTok w && okTok h then some { w := tok w, h := tok h, ops := os } else none
    | _, _ => none
  | [] => none

def parsePages : List String → Option (List PageD)
  | [] => some []
  | p :: r => match parsePage p, parsePages r with
    | some a, some b => some (a :: b)
    | _, _ => none

def metaKey (k : String) : Option String :=
  match k with
  | "t" => some "Title" | "a" => some "Author" | "s" => some "Subject"
  | "k" => some "Keywords" | "c" => some "Creator" | "p" => some "Producer"
  | _ => none

/-- the Info strings in the order `write_info` sets them; `dt=` only moves the dates -/
def parseMeta (s : String) : Option (List (Bytes × Bytes)) :=
  if s == "-" then some [] else
  let items := (s.splitOn ";").map fun it => it.splitOn "="
  let get (k : String) : Option (Option Bytes) :=
    match items.filter (fun it => it.head? == some k) with
    | [] => some none
    | l => match l.getLast? with
      | some [_, v] => (bytesOfHex? v).map some
      | _ => none
  if !(items.all fun it => it.length == 2 && ((metaKey (it.headD "")).isSome || it.headD "" == "dt")) then none else
  ["t", "a", "s", "k", "c", "p"].foldr (fun k acc =>
    match get k, acc, metaKey k with
    | some (some v), some l, some name => some ((ascii name, v) :: l)
    | some none, some l, _ => some l
    | _, _, _ => none) (some [])

def parseProg (s : String) : Option Doc :=
  match s.splitOn "!" with
  | [m, ps] =>
    match parseMeta m with
    | none => none
    | some info =>
      if ps == "0" then some { info := info, pages := [] }
      else (parsePages (ps.splitOn "|")).map fun pages => { info := info, pages := pages }
  | _ => none

def parseCfg (s : String) : Option Cfg :=
  match s.splitOn ":" with
  | [k, z, _] =>
    let xo := match k with
      | "c" => some (false, false) | "x" => some (true, false)
      | "o" => some (false, true) | "xo" => some (true, true) | _ => none
    match xo, z with
    | some (x, o), "z" => some { xref := x, objstm := o, compress := true }
    | some (x, o), "n" => some { xref := x, objstm := o, compress := false }
    | _, _ => none
  | _ => none

/-! ## printing (the harness's canonical forms) -/

def commaJoin (l : List String) : String := ",".intercalate l

def showXOp : XOp → String
  | .num kw _ args => commaJoin (str kw :: args.map fun a => str (norm3 a))
  | .plain kw => str kw
  | .int kw v => str kw ++ ",i" ++ toString v
  | .dash arr ph => "d,[" ++ "_".intercalate (arr.map fun a => str (norm3 a)) ++ "]," ++ str (norm3 ph)
  | .font n size => "Tf,/" ++ hx n ++ "," ++ str (norm3 size)
  | .showText bs => "Tj,s" ++ hx bs
  | .xobj n => "Do,/" ++ hx n

def showOpsWith {α} (f : α → String) (l : List α) : String :=
  if l.isEmpty then "-" else ";".intercalate (l.map f)

def showImage (e : Bytes × Image) : String :=
  ":".intercalate [hx e.1, toString e.2.w, toString e.2.h,
    hx (ascii (if e.2.gray then "DeviceGray" else "DeviceRGB")), "8", hx e.2.data]

def showExpPage (p : ExpPage) : String :=
  "|".intercalate [commaJoin (p.mediaBox.map fun t => str (norm3 t)), toString p.rot,
    showOpsWith showXOp p.ops, showOpsWith showImage p.imgs]

partial def showArg : Model.CT.Arg → String
  | .num t => str (norm3 t)
  | .numI i => str (norm3 (Model.showInt i))
  | .int i => "i" ++ toString i
  | .name n => "/" ++ hx n
  | .str s => "s" ++ hx s
  | .nums xs => "[" ++ "_".intercalate (xs.map showArg) ++ "]"
  | .textArr xs => "[" ++ "_".intercalate (xs.map showArg) ++ "]"
  | .propsRef n => "/" ++ hx n
  | .propsInline _ => "<<>>"

def showParsed (p : Model.CT.Parsed) : String := commaJoin (str p.kw :: p.args.map showArg)

def optInt : Option Int → String
  | some i => toString i
  | none => "?"

def showImgR (i : ImgR) : String :=
  ":".intercalate [hx i.name, optInt i.w, optInt i.h, (i.cs.map hx).getD "?", optInt i.bpc, hx i.data]

def showPageR (p : PageR) : String :=
  "|".intercalate [commaJoin (p.mediaBox.map fun t => str (norm3 t)), toString p.rot,
    showOpsWith showParsed p.ops, showOpsWith showImgR p.imgs]

def infoLetter (k : Bytes) : String :=
  match str k with
  | "Title" => "T" | "Author" => "A" | "Subject" => "S" | "Keywords" => "K"
  | "Creator" => "C" | "Producer" => "P" | s => s

def showInfo (l : List (Bytes × Bytes)) : String :=
  if l.isEmpty then "-" else ";".intercalate (l.map fun e =>
    infoLetter e.1 ++ ":" ++ (match toTextUtf8 e.2 with
      | some t => hx t
      | none => "unmodelled"))

/-! ## the independent reading, printed the same way -/

def intKw (k : Bytes) : Bool := k == [74] || k == [106] || k == [84, 114]

partial def showSpecArg (asInt : Bool) : Obj → String
  | .int i => if asInt then "i" ++ toString i else str (norm3 (Model.showInt i))
  | .real t => str (norm3 t)
  | .name n => "/" ++ hx n
  | .str s => "s" ++ hx s
  | .hexstr s => "s" ++ hx s
  | .arr xs => "[" ++ "_".intercalate (xs.map (showSpecArg false)) ++ "]"
  | _ => "?"

def showSpecOp (o : Spec.C02.Op) : String := commaJoin (str o.kw :: o.args.map (showSpecArg (intKw o.kw)))

def specNum : Obj → String
  | .int i => str (norm3 (Model.showInt i))
  | .real t => str (norm3 t)
  | _ => "?"

def specInt : Option Obj → String
  | some (.int i) => toString i
  | _ => "?"

def showSpecImg (i : Spec.C02.Img) : String :=
  ":".intercalate [hx i.name, specInt (Spec.C02.getKey i.dict "Width"), specInt (Spec.C02.getKey i.dict "Height"),
    (match Spec.C02.getKey i.dict "ColorSpace" with
     | some (.name n) => hx n
     | _ => "?"), specInt (Spec.C02.getKey i.dict "BitsPerComponent"), hx i.data]

def showSpecPage (g : Spec.C02.SGraph) (l : Spec.C02.Leaf) : String :=
  let mb := match l.inh.mediaBox.bind (fun o => Spec.C02.deref g (g.length + 1) o) with
    | some (.plain (.arr xs)) => if xs.length == 4 then commaJoin (xs.map specNum) else "bad-mediabox"
    | _ => "no-mediabox"
  let rot := match l.inh.rotate with
    | none => "0"
    | some (.int i) => toString i
    | some _ => "bad-rotate"
  let ops := match Spec.C02.pageOps g l.dict with
    | some os => showOpsWith showSpecOp os
    | none => "err:content"
  let imgs := match Spec.C02.pageImages g l with
    | some is => showOpsWith showSpecImg is
    | none => "err:images"
  "|".intercalate [mb, rot, ops, imgs]

/-! ## IMPL tokens -/

structure STok where
  id : Nat
  /-- `D`, `S`, `M` or `err` -/
  kind : String
  body : Bytes := []
  raw : Bytes := []
  dec : Bytes := []
  deriving Inhabited

def parseSTok (t : String) : Option STok :=
  -- `S:o<id>=<kind>:…`
  match (t.drop 3).toString.splitOn "=" with
  | ids :: restParts =>
    let rest := "=".intercalate restParts
    match ids.toNat?, rest.splitOn ":" with
    | some id, ["M"] => some { id := id, kind := "M" }
    | some id, ["D", b] => (bytesOfHex? b).map fun bs => { id := id, kind := "D", body := bs }
    | some id, ["S", b, r, d] =>
      match bytesOfHex? b, bytesOfHex? r with
      | some bs, some rs =>
        if d == "=" then some { id := id, kind := "S", body := bs, raw := rs, dec := rs }
        else (bytesOfHex? d).map fun ds => { id := id, kind := "S", body := bs, raw := rs, dec := ds }
      | _, _ => none
    | some id, _ => some { id := id, kind := "err" }
    | _, _ => none
  | [] => none

def listEq (a b : Bytes) : Bool := a == b

/-- the Flate code book of this file -/
def codebook (ss : List STok) : List (Bytes × Bytes) :=
  ss.filterMap fun s => if s.kind == "S" && !(listEq s.raw s.dec) then some (s.dec, s.raw) else none

def zOf (cb : List (Bytes × Bytes)) (c : Bytes) : Bytes :=
  match cb.find? (fun e => listEq e.1 c) with
  | some e => e.2
  | none => [63]

def unzOf (cb : List (Bytes × Bytes)) (r : Bytes) : Option Bytes :=
  (cb.find? (fun e => listEq e.2 r)).map (·.1)

/-! ## MODEL tokens -/

def insertById (o : WObj) : List WObj → List WObj
  | [] => [o]
  | a :: r => if o.id < a.id then o :: a :: r else a :: insertById o r

def sortById (l : List WObj) : List WObj := l.foldr insertById []

def showWObj (o : WObj) : String :=
  "S:o" ++ toString o.id ++ "=" ++
  match o.body with
  | .plain v => "D:" ++ hx (Model.ser v)
  | .stream d raw dec => "S:" ++ hx (Model.ser (streamDict d raw)) ++ ":" ++ hx raw ++ ":" ++ (if listEq raw dec then "=" else hx dec)
  | .xmp => "M"

/-- does the object go into an object stream (`ObjectStreamWriter::can_compress`)? -/
def compressible (o : WObj) : Bool :=
  match o.body with
  | .plain _ => true
  | _ => false

def modelS (_cfg : Cfg) (objs : List WObj) : List String :=
  -- (until /repo 67304722 a raw cross-reference stream still declared /FlateDecode, C03-F1, and
  --  the strict scan stopped at the cross-reference stream; repaired, no special case is left)
  -- (until /repo 4d9cdfbe `use_object_streams` with a classic table buffered every non-stream
  --  object without giving it an entry, C03-F2: only streams were reachable; repaired — object
  --  streams are now used only together with a cross-reference stream)
    "S:ok,root=1,info=3" :: (sortById objs).map showWObj

/-- the library's object parser model on the bytes the model writer produced -/
def libParse (v : Obj) : Option Obj :=
  match Model.ObjParser.parse (Model.ser v) with
  | .ok (o, []) => some o
  | _ => none

def modelL (_cfg : Cfg) (cb : List (Bytes × Bytes)) (objs : List WObj) : List String :=
    match graphOf libParse (unzOf cb) objs with
    | none => ["L:err:model-parse"]
    | some g =>
      match readDoc g 1 (some 3) with
      | .error e => ["L:err:model-" ++ toString (repr e)]
      | .ok d =>
        ["L:ok", "L:n=" ++ toString d.pages.length] ++
        (d.pages.zipIdx.map fun (p, i) => "L:p" ++ toString i ++ "=" ++ showPageR p) ++
        ["L:info=" ++ showInfo d.info]

/-! ## ORACLE -/

def specGraph (ss : List STok) : Option Spec.C02.SGraph :=
  ss.foldr (fun s acc =>
    match acc with
    | none => none
    | some g =>
      if s.kind == "M" then some ((s.id, Spec.C02.SObj.stream (.dict []) []) :: g)
      else if s.kind == "err" then none
      else
        match Spec.Syntax.read s.body with
        | some (o, rest) =>
          if !(Spec.Syntax.skip false rest).isEmpty then none
          else if s.kind == "S" then some ((s.id, Spec.C02.SObj.stream o s.dec) :: g)
          else some ((s.id, Spec.C02.SObj.plain o) :: g)
        | none => none) (some [])

/-- first difference between the expected pages and the observed page strings -/
def comparePages (who : String) (d : Doc) (exp : List String) (got : List String) : Option String :=
  if exp.length != got.length then
    some (who ++ ":page-count expected=" ++ toString exp.length ++ " got=" ++ toString got.length)
  else
    let rec go (i : Nat) : List String → List String → List PageD → Option String
      | e :: er, g :: gr, p :: pr =>
        if e == g then go (i + 1) er gr pr
        else
          let ef := e.splitOn "|"
          let gf := g.splitOn "|"
          let part :=
            if ef.getD 0 "" != gf.getD 0 "" then "mediabox"
            else if ef.getD 1 "" != gf.getD 1 "" then "rotation"
            else if ef.getD 2 "" != gf.getD 2 "" then
              -- the regression of C02-F3: the order emitted before the repair (image drawn while
              -- text is pending)
              if gf.getD 2 "" == showOpsWith showXOp (emitOpsOld p) then "ops-reordered-draw-image-before-pending-text"
              else "ops-differ"
            else "images"
          some (who ++ ":p" ++ toString i ++ ":" ++ part)
      | _, _, _ => none
    go 0 exp got d.pages

def oracle (d : Doc) (implToks : List String) (ss : List STok) : String :=
  let exp := (observe d).map showExpPage
  -- (b) the independent reader
  let specRes : Option String :=
    match implToks.find? (fun t => t.startsWith "S:") with
    | none => some "spec:no-scan"
    | some hd =>
      if hd.startsWith "S:err" then some ("spec:scan-" ++ (hd.drop 6).toString)
      else
        let root := ((hd.splitOn "root=").getD 1 "").takeWhile Char.isDigit |>.toString |>.toNat?
        match root, specGraph ss with
        | none, _ => some "spec:no-root"
        | _, none => some "spec:object-syntax"
        | some r, some g =>
          match Spec.C02.pagesOf g r with
          | none => some "spec:page-tree-unreadable"
          | some leaves => comparePages "spec" d exp (leaves.map (showSpecPage g))
  -- (a) the library's own reader
  let libRes : Option String :=
    match implToks.find? (fun t => t.startsWith "L:") with
    | some "L:ok" =>
      let pages := implToks.filterMap fun t =>
        if t.startsWith "L:p" then some (((t.splitOn "=").drop 1 |> "=".intercalate)) else none
      comparePages "lib" d exp pages
    | some t => some ("lib:" ++ (t.drop 2).toString)
    | none => some "lib:no-answer"
  match libRes, specRes with
  | none, none => "ok"
  | some l, none => "fail:" ++ l
  | none, some s => "fail:" ++ s
  | some l, some s => "fail:" ++ l ++ " " ++ s

def handle (req impl : String) : String × String :=
  match req.splitOn " " with
  | ["rt", c, p] =>
    match parseCfg c, parseProg p with
    | some cfg, some d =>
      if impl.startsWith "err:" || impl.startsWith "panic" || impl.startsWith "abort" || impl == "timeout" then
        ("ok-expected", "fail:harness-" ++ (impl.take 60).toString)
      else
        let implToks := impl.splitOn " "
        let ss := implToks.filterMap fun t => if t.startsWith "S:o" then parseSTok t else none
        let cb := codebook ss
        -- Info entries the model does not derive: taken from the scanned Info object
        let extra : List (Bytes × Obj) :=
          match ss.find? (fun s => s.id == 3 && s.kind == "D") with
          | some s => match Spec.Syntax.read s.body with
            | some (.dict kvs, _) => kvs
            | _ => []
          | none => []
        let objs := buildObjects cfg (zOf cb) extra d
        let model := " ".intercalate (modelL cfg cb objs ++ modelS cfg objs)
        (model, oracle d implToks ss)
    | _, _ => ("err:bad-request", "na")
  | _ => ("err:bad-request", "na")

end OxiVerif.C02.Drv

def main : IO Unit := OxiVerif.runDriver OxiVerif.C02.Drv.handle
