import OxiVerif.Base.Driver
import OxiVerif.Model.ObjCanon
import OxiVerif.Model.C09
import OxiVerif.Model.C09Stream
import OxiVerif.Spec.C09Stream
/-!
Driver for C09.  Requests (see `harness/src/bin/c09.rs`):
  `obj d|o <tree tokens>`  MODEL = `hex(Model.ser tree)|canon(Model.ObjParser.parse …)|next two tokens`
                           ORACLE = the independent reader (`Spec.Syntax.read`) reads the
                           implementation's bytes back to the written value and leaves exactly the
                           trailer (T2), and the library's own answer is that value too (T1)
  `lex <hex>` / `tok <hex>`  correspondence only (ORACLE `na`)
  `img d|o <w> <hex>`      MODEL = `hex(Model.Stream.serStream imgDict data)|stm answer|reader:hex(data)`
                           ORACLE = the library's parser and `PdfReader` return the dictionary and
                           exactly `data` (T1), and the independent §7.3.8.1 reader reads the
                           implementation's bytes back to the same dictionary and payload (T2)
  `stm <hex>`              `Model.Stream.parseStream` against `PdfObject::parse` (ORACLE `na`)
-/
open OxiVerif OxiVerif.ObjCanon OxiVerif.Model OxiVerif.C09
open OxiVerif.Spec.Syntax (Obj)

def trailer : List Nat := [10, 62, 62, 10, 101, 110, 100, 111, 98, 106, 10]

def parseAndNext (inp : List Nat) : String :=
  match ObjParser.parse inp with
  | .ok (o, rest) => canonObj true o ++ "|" ++ showTokenStream 2 rest
  | .error e => showErr e ++ "|-"

def joinPlus (xs : List String) : String := "+".intercalate xs

def handleObj (tree : Obj) (impl : String) : String × String :=
  let bytes := ser tree
  let model := hexField bytes ++ "|" ++ parseAndNext (bytes ++ trailer)
  if hasNonFinite tree then (model, "na") else
  let want := readBack tree
  let wantS := canonObj false want
  match impl.splitOn "|" with
  | [ihex, icanon, inext] =>
    match bytesOfHex? ihex with
    | none => (model, "fail:unusable-impl-answer")
    | some ibytes =>
      -- T1: the library's own parser
      let t1 := icanon == canonObj false (readBackLib tree) && inext == ">>,endobj"
      -- T2: the independent reader on the implementation's bytes
      let t2 := match Spec.Syntax.read (ibytes ++ trailer) with
        | some (v, rest) => canonObj false v == wantS && rest == trailer
        | none => false
      -- the theorems' hypotheses, evaluated on this very case
      let sorted := sortDicts tree
      let safeLib := SafeLib sorted trailer
      let safeSpec := SafeSpec sorted trailer
      if t1 && t2 then (model, "ok")
      else if (safeLib && !t1) || (safeSpec && !t2) then
        (model, "fail:inside-the-proved-fragment:" ++ (if !t1 then "library-parser" else "independent-reader"))
      else
        -- which listed defect classes are present, and do they cover every failing half?
        let wantTree := readBack sorted
        let c1 : List String :=
          (if hasBadName NameAscii tree then ["nonascii"] else []) ++
          []
        -- no defect class is left on the independent-reader side: a T2 failure is never explained
        let c2 : List String := []
        let explained := (t1 || !c1.isEmpty) && (t2 || !c2.isEmpty) && model == impl
        let halves := joinPlus ((if t1 then [] else ["library-parser"]) ++ (if t2 then [] else ["independent-reader"]))
        if explained then
          (model, "fail:known:" ++ halves ++ ":" ++
            joinPlus (((if t1 then [] else c1) ++ (if t2 then [] else c2)).eraseDups))
        else (model, "fail:reads-back-different-value:" ++ halves)
  | _ => (model, "fail:unusable-impl-answer")

/-- `PdfObject::parse` with stream objects shown in full (`parse_stream_and_next` of the harness) -/
def stmAnswer (inp : List Nat) : String :=
  match Stream.parseStream inp with
  | .ok (some (kvs, d, rest)) =>
    "S " ++ canonObj true (.dict kvs) ++ " " ++ hexField d ++ "|" ++ showTokenStream 2 rest
  | .ok none =>
    match ObjParser.parse inp with
    | .ok (o, rest) => "O " ++ canonObj true o ++ "|" ++ showTokenStream 2 rest
    | .error e => showErr e ++ "|-"
  | .error (.lex e) => showErr e ++ "|-"
  | .error .io => "err:io|-"

/-- the dictionary `Image::to_pdf_object` builds for a raw DeviceGray image (without `/Length`,
    which the writer's `Object::Stream` arm sets) -/
def imgDict (w h : Nat) : List (List Nat × Obj) :=
  [(bytesOfString "Type", .name (bytesOfString "XObject")),
   (bytesOfString "Subtype", .name (bytesOfString "Image")),
   (bytesOfString "Width", .int w), (bytesOfString "Height", .int h),
   (bytesOfString "ColorSpace", .name (bytesOfString "DeviceGray")),
   (bytesOfString "BitsPerComponent", .int 8)]

def endobjTrailer : List Nat := [10, 101, 110, 100, 111, 98, 106, 10]

def handleImg (objstm : Bool) (w : Nat) (data : List Nat) (impl : String) : String × String :=
  if w == 0 || data.length % w != 0 || data.isEmpty then ("bad-request", "na") else
  let kvs := imgDict w (data.length / w)
  let body := Stream.serStream kvs data
  -- the whole-file `PdfReader` is run on the classic layout only (see the harness)
  let rdr := "reader:" ++ (if objstm then "n/a" else hexField data)
  let model := hexField body ++ "|" ++ stmAnswer (body ++ endobjTrailer) ++ "|" ++ rdr
  let wantDict := canonObj false (.dict (Stream.setLength kvs data.length))
  match impl.splitOn "|" with
  | [ihex, iparse, inext, irdr] =>
    match bytesOfHex? ihex with
    | none => (model, "fail:unusable-impl-answer")
    | some ibytes =>
      let t1 := iparse == "S " ++ wantDict ++ " " ++ hexField data && inext == "endobj,eof"
      let tr := irdr == rdr
      let t2 := match Spec.Stream.readStream (ibytes ++ endobjTrailer) with
        | some (k, d, rest) => canonObj false (.dict k) == wantDict && d == data && rest == endobjTrailer
        | none => false
      if t1 && tr && t2 then (model, "ok")
      else (model, "fail:stream-not-read-back:" ++ joinPlus
        ((if t1 then [] else ["library-parser"]) ++ (if tr then [] else ["library-reader"]) ++
         (if t2 then [] else ["independent-reader"])))
  | _ => (model, "fail:unusable-impl-answer")

def handle (req impl : String) : String × String :=
  match req.splitOn " " with
  | "obj" :: cfg :: toks =>
    if cfg != "d" && cfg != "o" then ("bad-request", "na") else
    match treeOfTokens toks with
    | some tree => handleObj tree impl
    | none => ("bad-request", "na")
  | ["lex", h] =>
    match bytesOfHex? h with
    | some b => (parseAndNext b, "na")
    | none => ("bad-request", "na")
  | ["stm", h] =>
    match bytesOfHex? h with
    | some b => (stmAnswer b, "na")
    | none => ("bad-request", "na")
  | ["img", cfg, w, h] =>
    if cfg != "d" && cfg != "o" then ("bad-request", "na") else
    match w.toNat?, bytesOfHex? h with
    | some wn, some b => handleImg (cfg == "o") wn b impl
    | _, _ => ("bad-request", "na")
  | ["tok", h] =>
    match bytesOfHex? h with
    | some b => (showTokenStream 64 b, "na")
    | none => ("bad-request", "na")
  | _ => ("bad-request", "na")

def main : IO Unit := runDriver handle
