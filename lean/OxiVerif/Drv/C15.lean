import OxiVerif.Base.Driver
import OxiVerif.Model.C14
import OxiVerif.Model.C14Spec
import OxiVerif.Model.C15
import OxiVerif.Model.C15Meta
/-!
Driver for C15.  Request / answer syntax: see `harness/src/bin/c15.rs`.
MODEL  = `E:` the reported elements with `parent_heading`/`heading_path` RE-COMPUTED by the model's
         `partitionHeadings` (per-page passes, then the document-level pass; levels from the reported
         title sizes ranked per page / over the document) `|Z:` echo `|C:` the
         model's `ragChunks` on the reported elements (word-proxy counter; the SHA-256 prefix of each
         chunk is taken from the harness's independent `sha2` computation) `|X:same`.
ORACLE = spec side on the implementation's answer, from the AUTHORED document only:
  content   all chunk texts concatenated = all authored texts concatenated (white space removed):
            every authored paragraph exactly once, in order, nothing else
  pages     page_numbers = sorted distinct authored pages of the items whose text overlaps the chunk
  breadcrumb heading_path = titles not yet closed by a later title of level ≤ theirs, over the whole
            document, for the first item of the chunk (`breadcrumb-page-reset` when the answer is
            what that rule gives if the stack is emptied at every page break — the repaired C15-F1;
            no open finding matches it any more)
  ids/links chunk_id = (doc_hash | sha8(full_text)) ":" index, index = position, prev/next = neighbours
  budget    token_estimate = words(text); not oversized → ≤ max_tokens
  determinism second process produced the identical dump (and identical element-markdown export)
-/
open OxiVerif OxiVerif.C14 OxiVerif.C15

namespace C15Drv

def strOfHex? (s : String) : Option Str := do
  let bs ← bytesOfHex? s
  let ba := ByteArray.mk (bs.map (fun b => UInt8.ofNat b)).toArray
  let str ← String.fromUTF8? ba
  pure str.toList

def hexOfStr (s : Str) : String :=
  hexField ((String.ofList s).toUTF8.toList.map (·.toNat))

def optStrOfHex? (s : String) : Option (Option Str) :=
  if s = "~" then some none else (strOfHex? s).map some

def hexOfOptStr : Option Str → String
  | none => "~"
  | some s => hexOfStr s

def kindOf? : String → Option Kind
  | "T" => some .title | "P" => some .paragraph | "B" => some .table | "H" => some .header
  | "F" => some .footer | "L" => some .listItem | "I" => some .image | "C" => some .codeBlock
  | "V" => some .keyValue | _ => none

def kindStr : Kind → String
  | .title => "T" | .paragraph => "P" | .table => "B" | .header => "H" | .footer => "F"
  | .listItem => "L" | .image => "I" | .codeBlock => "C" | .keyValue => "V"

def parsePayload (k : Kind) (p : String) : Option Payload :=
  match k with
  | .image => (optStrOfHex? p).map .image
  | .keyValue =>
    match p.splitOn "=" with
    | [a, b] => do pure (.kv (← strOfHex? a) (← strOfHex? b))
    | _ => none
  | .table =>
    if p = "." then some (.table [])
    else do
      let rows ← (p.splitOn "|").mapM fun r =>
        if r = "_" then some [] else (r.splitOn ":").mapM strOfHex?
      pure (.table rows)
  | _ => (strOfHex? p).map .text

def showPayload : Payload → String
  | .text s => hexOfStr s
  | .image a => hexOfOptStr a
  | .kv k v => hexOfStr k ++ "=" ++ hexOfStr v
  | .table rows =>
    if rows.isEmpty then "."
    else "|".intercalate (rows.map fun r =>
      if r.isEmpty then "_" else ":".intercalate (r.map hexOfStr))

def parseElem (s : String) : Option Elem :=
  match s.splitOn "," with
  | [k, id, page, ph, hp, font, p] => do
    let kind ← kindOf? k
    let id ← id.toNat?
    let page ← page.toNat?
    let ph ← optStrOfHex? ph
    let hp ← if hp = "." then some [] else (hp.splitOn "/").mapM strOfHex?
    let (fname, flags) ← match font.splitOn ":" with
      | [a, b] => some (a, b)
      | _ => none
    let fname ← optStrOfHex? fname
    let flags ← flags.toNat?
    let payload ← parsePayload kind p
    pure { kind := kind, payload := payload,
           md := { id := id, page := page, parentHeading := ph, headingPath := hp,
                   fontName := fname, fontSize := flags / 4 % 2 == 1, bold := flags % 2 == 1,
                   italic := flags / 2 % 2 == 1 } }
  | _ => none

def showElem (e : Elem) : String :=
  let m := e.md
  let hp := if m.headingPath.isEmpty then "." else "/".intercalate (m.headingPath.map hexOfStr)
  let flags := (if m.bold then 1 else 0) + (if m.italic then 2 else 0) + (if m.fontSize then 4 else 0)
  s!"{kindStr e.kind},{m.id},{m.page},{hexOfOptStr m.parentHeading},{hp},{hexOfOptStr m.fontName}:{flags},{showPayload e.payload}"

def parseElems (s : String) : Option (List Elem) :=
  if s = "." then some [] else (s.splitOn ";").mapM parseElem


def showNats (l : List Nat) : String := if l.isEmpty then "." else ".".intercalate (l.map toString)

def typeName : Kind → String
  | .title => "title" | .paragraph => "paragraph" | .table => "table" | .header => "header"
  | .footer => "footer" | .listItem => "list_item" | .image => "image" | .codeBlock => "code_block"
  | .keyValue => "key_value"

def bit (b : Bool) : String := if b then "1" else "0"

def showMeta (m : ChunkMeta) : String :=
  let pages := if m.regionPages.isEmpty then "_" else "-".intercalate (m.regionPages.map toString)
  s!"{bit m.flags.hasTable}{bit m.flags.hasList}{bit m.flags.hasCode}{bit m.flags.headingOnly}.{m.charCount}.{m.wordCount}.{m.sentenceCount}.{bit m.aggr.bold}{bit m.aggr.italic}.{hexOfOptStr m.aggr.dominantFont}.{pages}.{m.nBoxes}"

def showRag (c : RagChunk) (sha8 : String) (metaStr : String) : String :=
  let hp := if c.headingPath.isEmpty then "." else "/".intercalate (c.headingPath.map hexOfStr)
  let types := if c.types.isEmpty then "." else ".".intercalate (c.types.map typeName)
  let span := match c.pageSpan with | none => "~" | some (a, b) => s!"{a}-{b}"
  let ov := if c.oversized then "1" else "0"
  s!"{c.index}!{hexOfStr c.text}!{hexOfStr c.fullText}!{showNats c.pages}!{types}!{hexOfOptStr c.heading}!{c.tokenEstimate}!{ov}!{hp}!{hexOfStr c.chunkId}!{hexOfOptStr c.prev}!{hexOfOptStr c.next}!{span}!{sha8}!{metaStr}"

/-- an implementation chunk as reported -/
structure IRag where
  index : Nat
  text : Str
  fullText : Str
  pages : List Nat
  heading : Option Str
  tokenEstimate : Nat
  oversized : Bool
  headingPath : List Str
  chunkId : Str
  prev : Option Str
  next : Option Str
  sha8 : String

def parseNats (s : String) : Option (List Nat) :=
  if s = "." then some [] else (s.splitOn ".").mapM String.toNat?

def parseIRag (s : String) : Option IRag :=
  match s.splitOn "!" with
  | [idx, tx, ftx, pages, _types, h, te, ov, hp, cid, prev, next, _span, sha8, _meta] => do
    pure { index := ← idx.toNat?, text := ← strOfHex? tx, fullText := ← strOfHex? ftx,
           pages := ← parseNats pages, heading := ← optStrOfHex? h, tokenEstimate := ← te.toNat?,
           oversized := ov == "1",
           headingPath := ← (if hp = "." then some [] else (hp.splitOn "/").mapM strOfHex?),
           chunkId := ← strOfHex? cid, prev := ← optStrOfHex? prev, next := ← optStrOfHex? next,
           sha8 := sha8 }
  | _ => none

/-! authored document (mirror of `item_text` in the harness) -/
structure Item where
  kind : Char
  level : Nat
  id : Nat
  n : Nat
  page : Nat

def words : List String := ["alpha", "beta", "gamma", "delta", "omega", "sigma", "kappa", "theta"]

def itemText (it : Item) : Str :=
  if it.kind == 'h' then s!"T{it.id}x Heading".toList
  else
    let start : String := if it.kind == 'l' then s!"- L{it.id}x" else s!"P{it.id}x"
    let body := (List.range it.n).foldl (fun (s : String) i =>
      let w := words.getD ((it.id + i) % 8) ""
      let s := s ++ " " ++ w
      if it.kind == 'p' && i + 1 < it.n && (it.id + i) % 3 == 0 then s ++ "." else s) start
    (if it.kind == 'p' then body ++ "." else body).toList

def parseItem (page : Nat) (s : String) : Option Item :=
  match s.splitOn ":" with
  | [h, id] =>
    match h.toList with
    | 'h' :: l => do pure ⟨'h', ← (String.ofList l).toNat?, ← id.toNat?, 0, page⟩
    | _ => none
  | [k, id, n] =>
    if k = "p" ∨ k = "l" then do pure ⟨k.toList.headD 'p', 0, ← id.toNat?, ← n.toNat?, page⟩ else none
  | _ => none

def parsePagesFrom (p : Nat) : List String → Option (List Item)
  | [] => some []
  | s :: rest => do
    let here ← if s = "_" then some [] else (s.splitOn ",").mapM (parseItem p)
    let more ← parsePagesFrom (p + 1) rest
    pure (here ++ more)

/-- spec: breadcrumb of every item (titles include themselves); `reset` empties the stack at page breaks -/
def specPaths (reset : Bool) : Stack → Option Nat → List Item → List (List Str)
  | _, _, [] => []
  | stack, lastPage, it :: rest =>
    let stack := if reset && lastPage != some it.page then [] else stack
    let stack := if it.kind == 'h' then pushTitle stack it.level (itemText it) else stack
    stack.map (·.2) :: specPaths reset stack (some it.page) rest

/-- intervals [a, b) of consecutive texts in the concatenation of their stripped forms -/
def intervals : Nat → List Str → List (Nat × Nat)
  | _, [] => []
  | a, t :: r => let b := a + (stripWs t).length; (a, b) :: intervals b r

def overlaps (x y : Nat × Nat) : Bool := x.1 < y.2 && y.1 < x.2

def decideOracle (max : Nat) (docHash : Option Str) (items : List Item) (ics : List IRag) (x : String) :
    String :=
  let r : List String := if x = "same" then [] else ["nondeterministic"]
  let itemTexts := items.map itemText
  let A := (itemTexts.map stripWs).flatten
  let T := (ics.map (fun c => stripWs c.text)).flatten
  let contentOk := A == T
  let r := r ++ (if contentOk then [] else ["content"])
  let iv := intervals 0 itemTexts
  let cv := intervals 0 (ics.map (·.text))
  let itemsIv := items.zip iv
  let full := specPaths false [] none items
  let perPage := specPaths true [] none items
  let perChunk := (ics.zip cv).map fun (c, civ) =>
    let rows : List ((Item × (Nat × Nat)) × (List Str × List Str)) := itemsIv.zip (full.zip perPage)
    let mine := rows.filter (fun (x : (Item × (Nat × Nat)) × (List Str × List Str)) => overlaps x.1.2 civ)
    let pagesOk := c.pages == sortAsc (dedupFirst [] (mine.map (fun (x : (Item × (Nat × Nat)) × (List Str × List Str)) => x.1.1.page)))
    let bc : Nat := match mine with
      | x :: _ =>
        if c.headingPath == x.2.1 then 0 else if c.headingPath == x.2.2 then 1 else 2
      | [] => if c.headingPath.isEmpty then 0 else 2
    (pagesOk, bc)
  let r := r ++ (if !contentOk || perChunk.all (·.1) then [] else ["pages"])
  let r := r ++ (if !contentOk then [] else
    if perChunk.any (·.2 == 2) then ["breadcrumb"]
    else if perChunk.any (·.2 == 1) then ["breadcrumb-page-reset"] else [])
  let idsOk := (ics.zip (List.range ics.length)).all fun (c, i) =>
    c.index == i && c.chunkId == (docHash.getD c.sha8.toList) ++ [':'] ++ natStr i
  let r := r ++ (if idsOk then [] else ["ids"])
  let ids := ics.map (·.chunkId)
  let linksOk := (ics.zip (List.range ics.length)).all fun (c, i) =>
    c.prev == (if i = 0 then none else ids[i - 1]?) && c.next == ids[i + 1]?
  let r := r ++ (if linksOk then [] else ["links"])
  let r := r ++ (if ics.all (fun c => c.tokenEstimate == wordCount c.text &&
      (c.oversized || decide (wordCount c.text ≤ max))) then [] else ["budget"])
  if r.isEmpty then "ok" else "fail:" ++ ";".intercalate r

def sectionOf (tag : String) (parts : List String) : Option String :=
  (parts.find? (·.startsWith tag)).map (fun s => (s.drop tag.length).toString)

def handle (req impl : String) : String × String :=
  match req.splitOn " " with
  | ["doc", max, merge, prop, policy, ctx, src, pages] =>
    match max.toNat?, parsePagesFrom 0 (pages.splitOn "/") with
    | some max, some items =>
      let parts := impl.splitOn "|"
      match sectionOf "E:" parts, sectionOf "Z:" parts, sectionOf "C:" parts, sectionOf "X:" parts with
      | some e, some z, some c, some x =>
        match parseElems e, (if c = "." then some [] else (c.splitOn "#").mapM parseIRag) with
        | some els, some ics =>
          let sizes : List (Nat × Option Nat) :=
            if z = "." then [] else (z.splitOn ",").filterMap fun kv =>
              match kv.splitOn "=" with
              | [k, v] => k.toNat?.map fun k => (k, if v.startsWith "-" then none else v.toNat?)
              | _ => none
          -- the heading passes on the reported kinds/texts: per page (size ranking of the page),
          -- then over the whole document (size ranking of the document) — `partitionHeadings`
          let sizeOf := fun (e : Elem) => ((sizes.find? (·.1 == e.md.id)).bind (·.2)).filter (· > 0)
          let titleSizes := fun (l : List Elem) => l.filterMap fun e => if e.isTitle then sizeOf e else none
          let pageBuckets : List (Nat × List Nat) := (splitPages els).filterMap fun pg =>
            pg.head?.map fun f => (f.md.page, buckets (titleSizes pg))
          let levelOfPage := fun (e : Elem) =>
            levelOfSize (((pageBuckets.find? (·.1 == e.md.page)).map (·.2)).getD []) (sizeOf e)
          let docBuckets := buckets (titleSizes els)
          let levelOfDoc := fun (e : Elem) => levelOfSize docBuckets (sizeOf e)
          let els' := partitionHeadings levelOfPage levelOfDoc els
          let cfg : Config := { maxTokens := max, mergeAdjacent := merge == "1",
                                propagateHeadings := prop == "1", sameTypeOnly := policy == "S" }
          let mode : CtxMode := match ctx with
            | "N" => .none | "L" => .labeled | "P" => .prose | _ => .heading
          let docHash : Option Str := if src = "1" then some "dh".toList else none
          let source : Option Source :=
            if src = "0" then none
            else some ⟨some "Doc T".toList, some "Auth".toList, some "f.pdf".toList, docHash⟩
          let shas := ics.map (·.sha8)
          let H := fun (_ : Str) => ([] : Str)
          let rcs0 := ragChunks H cfg wordProxy mode source els
          -- SHA-256 is a parameter: take each chunk's digest prefix from the harness's computation
          let rcs := (rcs0.zip (List.range rcs0.length)).map fun (rc, i) =>
            let sha := shas.getD i "?"
            { rc with chunkId := contentChunkId (fun _ => sha.toList) docHash rc.index rc.fullText }
          let rcs := linkChunks rcs
          let cStr := if rcs.isEmpty then "."
            else
              let metas := (chunk cfg wordProxy els).map fun c => showMeta (chunkMeta c)
              "#".intercalate ((rcs.zip (List.range rcs.length)).map fun (rc, i) =>
                showRag rc (shas.getD i "?") (metas.getD i "?"))
          let eStr := if els'.isEmpty then "." else ";".intercalate (els'.map showElem)
          (s!"E:{eStr}|Z:{z}|C:{cStr}|X:same", decideOracle max docHash items ics x)
        | _, _ => ("unparsable-impl", "fail:unparsable-impl-answer")
      | _, _, _, _ => ("unparsable-impl", "fail:" ++ (if impl.startsWith "err:" then impl else "unparsable-impl-answer"))
    | _, _ => ("bad-request", "na")
  | _ => ("bad-request", "na")

end C15Drv

def main : IO Unit := runDriver C15Drv.handle
