import OxiVerif.Base.Driver
import OxiVerif.Model.C26
/-!
Driver for C26.  Requests (see harness/src/bin/c26.rs):
  `cmap <text-hex> <struct|-> <codes>`     `build <code_length> <adds|-> <codes>`

MODEL  = `Model/C26.lean` (tokenizer + parser state machine + lookup + builder) on the request.
ORACLE = a reference CMap interpreter written from the specification (ISO 32000-1 9.7.5/9.10.3,
Adobe TN 5014), evaluated on the STRUCTURE the generator rendered into the text — never on the
model — and compared with the implementation's answers:
  * code space: a code is valid iff some range has its length and every byte lies between the
    corresponding bytes of `lo` and `hi` (rectangular, TN 5014 §codespace ranges);
  * `Defines code` = every destination some entry gives it: bfchar `src = code`; bfrange offset form
    `lo ≤ code ≤ hi` (big-endian numbers, equal lengths) ↦ `dst + (code − lo)` (big-endian, mod
    256^|dst|); array form ↦ the (code − lo)-th element;
  * a code outside the code space maps to nothing; inside: nothing if `Defines` is empty, the value
    if all entries agree, any of the values if entries conflict (no stand on precedence);
  * the Unicode text of a destination is its UTF-16BE reading (only checked when that is
    well-formed).
For `build`: the spec side is the list of `add_mapping` calls (last call per code wins).
-/
open OxiVerif OxiVerif.C26

namespace C26Drv

def hexNatChars : List Char → Nat → Option Nat
  | [], acc => some acc
  | c :: r, acc => match hexVal? c with
    | some v => hexNatChars r (acc * 16 + v)
    | none => none

def hexNat? (s : String) : Option Nat := if s.isEmpty then none else hexNatChars s.toList 0
def toHex (n : Nat) : String := String.ofList (Nat.toDigits 16 n)

/-- `_` = empty byte string -/
def hb (bs : Bytes) : String := if bs.isEmpty then "_" else hexOfBytes bs
def unhb? (s : String) : Option Bytes := if s == "_" then some [] else bytesOfHexChars s.toList

def parseCodes (s : String) : Option (List Bytes) :=
  if s == "." then some [] else (s.splitOn ",").mapM unhb?

def showCps : Option (List Nat) → String
  | none => "~"
  | some [] => "_"
  | some l => ".".intercalate (l.map toHex)

def queryOne (m : CMap) (c : Bytes) : String :=
  let r := C26.map m c
  let v := if isValidCode m c then "v" else "i"
  match r with
  | none => s!"~/{v}/~"
  | some d => s!"{hb d}/{v}/{showCps (toUnicode d)}"

def query (m : CMap) (cs : List Bytes) : String :=
  if cs.isEmpty then "." else ",".intercalate (cs.map (queryOne m))

def joinOr (l : List String) : String := if l.isEmpty then "." else ",".intercalate l

def dump (m : CMap) : String :=
  let nm := match m.name with | some n => hb n | none => "~"
  let ih := match m.inherited with | some n => hb n | none => "~"
  let cs := m.codespace.map fun (a, b) => s!"{hb a}-{hb b}"
  let ms := m.mappings.map fun
    | .single s d => s!"s:{hb s}={hb d}"
    | .range lo hi d => s!"r:{hb lo}-{hb hi}={hb d}"
  s!"N={nm};W={m.wmode};I={ih};CS={joinOr cs};M={joinOr ms}"

/-! ### the reference interpreter (spec side) -/

structure Spec where
  cs : List (Bytes × Bytes)
  bc : List (Bytes × Bytes)
  br : List (Bytes × Bytes × Bytes)
  ba : List (Bytes × Bytes × List Bytes)

def num (bs : Bytes) : Nat := bs.foldl (fun a b => a * 256 + b) 0

def toBE : Nat → Nat → Bytes       -- value, length
  | _, 0 => []
  | v, n + 1 => toBE (v / 256) n ++ [v % 256]

def rectContains (lo hi c : Bytes) : Bool :=
  c.length == lo.length && c.length == hi.length &&
  (List.zip c (List.zip lo hi)).all fun (x, l, h) => l ≤ x && x ≤ h

def Spec.inCodespace (s : Spec) (c : Bytes) : Bool := s.cs.any fun (lo, hi) => rectContains lo hi c

def Spec.defines (s : Spec) (c : Bytes) : List Bytes :=
  (s.bc.filterMap fun (src, dst) => if src == c then some dst else none) ++
  (s.br.filterMap fun (lo, hi, dst) =>
    if c.length == lo.length && c.length == hi.length && num lo ≤ num c && num c ≤ num hi then
      some (toBE ((num dst + (num c - num lo)) % 256 ^ dst.length) dst.length)
    else none) ++
  (s.ba.filterMap fun (lo, hi, ds) =>
    if c.length == lo.length && c.length == hi.length && num lo ≤ num c && num c ≤ num hi then
      ds[num c - num lo]?
    else none)

/-- lexicographic interval test the implementation uses (only to NAME a known deviation) -/
def lexContains (lo hi c : Bytes) : Bool :=
  c.length == lo.length && c.length == hi.length && leLex lo c && leLex c hi

def parsePair (s : String) : Option (Bytes × Bytes) :=
  match s.splitOn "-" with
  | [a, b] => match unhb? a, unhb? b with
    | some a, some b => some (a, b)
    | _, _ => none
  | _ => none

def parseList {α} (f : String → Option α) (s : String) : Option (List α) :=
  if s == "!" then some [] else (s.splitOn ",").mapM f

def parseSpec (s : String) : Option Spec :=
  match s.splitOn "|" with
  | [a, b, c, d] =>
    let strip (p : String) (x : String) : Option String :=
      if x.startsWith p then some (String.ofList (x.toList.drop p.length)) else none
    match strip "cs:" a, strip "bc:" b, strip "br:" c, strip "ba:" d with
    | some a, some b, some c, some d =>
      let cs := parseList parsePair a
      let bc := parseList (fun e => match e.splitOn "=" with
        | [x, y] => match unhb? x, unhb? y with
          | some x, some y => some (x, y)
          | _, _ => none
        | _ => none) b
      let br := parseList (fun e => match e.splitOn "=" with
        | [x, y] => match parsePair x, unhb? y with
          | some (lo, hi), some y => some (lo, hi, y)
          | _, _ => none
        | _ => none) c
      let ba := parseList (fun e => match e.splitOn "=" with
        | [x, y] => match parsePair x, (if y == "!" then some [] else (y.splitOn ".").mapM unhb?) with
          | some (lo, hi), some ds => some (lo, hi, ds)
          | _, _ => none
        | _ => none) d
      match cs, bc, br, ba with
      | some cs, some bc, some br, some ba => some { cs, bc, br, ba }
      | _, _, _, _ => none
    | _, _, _, _ => none
  | _ => none

/-- strict UTF-16BE reading of a destination (spec side; written independently of the model) -/
def specUtf16 : List Nat → Option (List Nat)
  | [] => some []
  | [_] => none
  | a :: b :: r =>
    let u := a * 256 + b
    if 0xD800 ≤ u && u ≤ 0xDBFF then
      match r with
      | c :: d :: r' =>
        let l := c * 256 + d
        if 0xDC00 ≤ l && l ≤ 0xDFFF then (specUtf16 r').map (((u - 0xD800) * 1024 + (l - 0xDC00) + 0x10000) :: ·)
        else none
      | _ => none
    else if 0xDC00 ≤ u && u ≤ 0xDFFF then none
    else (specUtf16 r).map (u :: ·)

/-- one answer `mapped/valid/unicode` of the implementation -/
structure Ans where
  mapped : Option Bytes
  valid : Bool
  uni : String

def parseAns (s : String) : Option Ans :=
  match s.splitOn "/" with
  | [m, v, u] =>
    let mapped := if m == "~" then some none else (unhb? m).map some
    match mapped with
    | some mp => if v == "v" || v == "i" then some { mapped := mp, valid := v == "v", uni := u } else none
    | none => none
  | _ => none

/-- `none` = conforms; `some class` = deviation -/
def judge (s : Spec) (c : Bytes) (a : Ans) : Option String :=
  let inCs := s.inCodespace c
  let ds := s.defines c
  -- validity
  if a.valid != inCs then
    if a.valid && s.cs.any (fun (lo, hi) => lexContains lo hi c) then some "codespace-lexicographic-not-bytewise"
    else some "unexpected-validity"
  else
  match a.mapped with
  | none =>
    if inCs && !ds.isEmpty then some "unexpected-unmapped" else none
  | some d =>
    if !inCs then
      -- the property demands rejection outside the code space
      if ds.contains d then some "explicit-mapping-outside-codespace" else some "unexpected-mapped-outside-codespace"
    else if !ds.contains d then some "unexpected-value"
    else
      match specUtf16 d with
      | some cps => if a.uni == showCps (some cps) then none else some "unexpected-unicode"
      | none => none

def accum (acc : List (String × Nat × String)) (l : String) (c : String) : List (String × Nat × String) :=
  match acc with
  | [] => [(l, 1, c)]
  | (l', n, c') :: r => if l' == l then (l', n + 1, c') :: r else (l', n, c') :: accum r l c

def verdict (acc : List (String × Nat × String)) : String :=
  if acc.isEmpty then "ok"
  else "fail:" ++ " ".intercalate (acc.map fun (l, n, c) => s!"{l}*{n}[{c}]")

def oracleCmap (spec : Spec) (codes : List Bytes) (impl : String) : String :=
  match (impl.splitOn ";Q=") with
  | [_, q] =>
    let answers := if q == "." then some [] else (q.splitOn ",").mapM parseAns
    match answers with
    | some as =>
      if as.length != codes.length then "fail:shape" else
      verdict ((List.zip codes as).foldl (fun acc (c, a) =>
        match judge spec c a with
        | none => acc
        | some l => accum acc l (hb c)) [])
    | none => "fail:unparsable-impl-answer"
  | _ => if impl == "err:parse" then "fail:well-formed-cmap-rejected" else "fail:unparsable-impl-answer"

def parseCpsList (s : String) : Option (List Nat) :=
  if s == "_" then some [] else (s.splitOn ".").mapM hexNat?

def parseAdds (s : String) : Option (List (Bytes × List Nat)) :=
  if s == "-" then some [] else
  (s.splitOn ";").mapM fun a => match a.splitOn "=" with
    | [c, u] => match unhb? c, parseCpsList u with
      | some c, some u => some (c, u)
      | _, _ => none
    | _ => none

/-- last `add_mapping` per code wins -/
def lastAdd (adds : List (Bytes × List Nat)) (c : Bytes) : Option (List Nat) :=
  adds.foldl (fun acc (k, v) => if k == c then some v else acc) none

def oracleBuild (adds : List (Bytes × List Nat)) (codes : List Bytes) (impl : String) : String :=
  match impl.splitOn ";Q=" with
  | [_, q] =>
    let answers := if q == "." then some [] else (q.splitOn ",").mapM parseAns
    match answers with
    | some as =>
      if as.length != codes.length then "fail:shape" else
      verdict ((List.zip codes as).foldl (fun acc (c, a) =>
        let want := lastAdd adds c
        let got : Option String := a.mapped.map fun _ => a.uni
        if got == want.map (fun u => showCps (some u)) then acc else accum acc "builder-roundtrip" (hb c)) [])
    | none => "fail:unparsable-impl-answer"
  | _ => "fail:generated-cmap-does-not-parse"

def handle (req impl : String) : String × String :=
  match req.splitOn " " with
  | ["cmap", text, st, codes] =>
    match bytesOfHex? text, parseCodes codes with
    | some t, some cs =>
      -- a crash on any input is a failure to map (the property: every code is mapped or rejected)
      let crashed := impl.startsWith "panic" || impl.startsWith "abort" || impl.startsWith "timeout"
      match C26.parseText t with
      | none => ("err:parse", if crashed then "fail:panic-in-cmap-parse" else "na")
      | some m =>
        let model := dump m ++ ";Q=" ++ query m cs
        let oracle := if crashed then "fail:panic-in-cmap-parse" else if st == "-" then "na" else
          match parseSpec st with
          | some sp => oracleCmap sp cs impl
          | none => "na"
        (model, oracle)
    | _, _ => ("bad-request", "na")
  | ["build", len, adds, codes] =>
    match len.toNat?, parseAdds adds, parseCodes codes with
    | some n, some ad, some cs =>
      let text := C26.build n ad
      let m := C26.parse text
      (s!"T={hexField text};Q={query m cs}", oracleBuild ad cs impl)
    | _, _, _ => ("bad-request", "na")
  | _ => ("bad-request", "na")

end C26Drv

def main : IO Unit := OxiVerif.runDriver C26Drv.handle
