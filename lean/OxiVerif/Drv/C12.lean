import OxiVerif.Base.Driver
import OxiVerif.Model.C12
import OxiVerif.Model.C12Cff
import OxiVerif.Model.C12Bytes
/-!
Driver for C12.  Requests (space separated `key=value` fields after the op):

  `tt font=<id> used=<cp,…|-> size=<bytes> ng=<numGlyphs> cff=<0|1> cmap=<cp:gid,…|-> allcmap=<cp:gid,…|-|?> g=<gid:adv:lsb:desc;…|->`
      `subset_font(font, used chars)`;  `cmap` = the used code points the font maps (independent
      reader), `g` = facts of every glyph in the component closure, `desc` = `E` | `S<fp>` | `B` |
      `C<hdr>/<gid>.<rec>/…`
  `tg font=<id> used=<gid,…|-> cff=<0|1> g=<…>`      `subset_font_by_gids`
  `cf …`                                              CFF fonts (see Model/C12Cff.lean)

Implementation answers:
  `kind=full map=<cp:gid,…|->`                              original bytes returned
  `kind=subset map=<…> n=<numGlyphs'> wf=<ok|p,p…> g=<newgid:adv:lsb:desc;…>`
                         (facts read from the SUBSET BYTES by the independent sfnt reader)
  `err:<class>`
The model predicts everything except `wf` (structural well-formedness found by the reader), which
is echoed and judged by the oracle.

Byte level: when a `tt`/`tg` request also carries `flen=<file length> segs=<off>.<hex>,…` (the byte
runs of the ORIGINAL file the subsetter reads: directory, head/hhea/maxp/post/hmtx/loca, glyphs), the
implementation's answer ends with ` bytes=<hex of the subset FILE>` and the byte-level model
(Model/C12Bytes.lean) must reproduce that file byte for byte.
-/
open OxiVerif OxiVerif.C12

namespace C12Drv

def field (fs : List String) (k : String) : Option String :=
  fs.findSome? fun f => if f.startsWith (k ++ "=") then some ((f.drop (k.length + 1)).toString) else none

def parseNatList (s : String) : Option (List Nat) :=
  if s = "-" then some [] else (s.splitOn ",").mapM String.toNat?

def parsePairs (s : String) : Option (List (Nat × Nat)) :=
  if s = "-" then some []
  else (s.splitOn ",").mapM fun t =>
    match t.splitOn ":" with
    | [a, b] => match a.toNat?, b.toNat? with
      | some x, some y => some (x, y)
      | _, _ => none
    | _ => none

def parseDesc (s : String) : Option Glyph :=
  match s.toList with
  | ['E'] => some .empty
  | ['B'] => some .bad
  | 'S' :: r => (String.ofList r).toNat?.map .simple
  | 'C' :: r =>
    match (String.ofList r).splitOn "/" with
    | h :: cs =>
      match h.toNat?, cs.mapM (fun c => match c.splitOn "." with
          | [a, b] => match a.toNat?, b.toNat? with
            | some x, some y => some (x, y)
            | _, _ => none
          | _ => none) with
      | some hh, some l => some (.composite hh l)
      | _, _ => none
    | [] => none
  | _ => none

def showDesc : Glyph → String
  | .empty => "E"
  | .bad => "B"
  | .simple f => "S" ++ toString f
  | .composite h cs => "C" ++ toString h ++ String.join (cs.map fun p => "/" ++ toString p.1 ++ "." ++ toString p.2)

structure Fact where
  gid : Nat
  adv : Nat
  lsb : Int
  glyph : Glyph
  /-- `false` (a trailing `!` in the request): the strict reading of the ORIGINAL font differs from
      the loca-trusting reading the subsetter's reader performs (and the model is fed with) — glyph
      id ≥ numGlyphs, entry beyond the glyf/hmtx table, … : the font is damaged there and the
      oracle is silent about that glyph -/
  strict : Bool := true

def parseFacts (s : String) : Option (List Fact) :=
  if s = "-" then some []
  else (s.splitOn ";").mapM fun t =>
    match t.splitOn ":" with
    | [g, a, l, d] =>
      let flagged := d.endsWith "!"
      let d := if flagged then (d.dropEnd 1).toString else d
      match g.toNat?, a.toNat?, l.toInt?, parseDesc d with
      | some g, some a, some l, some d => some ⟨g, a, l, d, !flagged⟩
      | _, _, _, _ => none
    | _ => none

def lookupFact (fs : List Fact) (g : Nat) : Option Fact := fs.find? (·.gid == g)

def lookupPair (ps : List (Nat × Nat)) (k : Nat) : Option Nat := (ps.find? (·.1 == k)).map (·.2)

def mkFont (facts : List Fact) (cmap : List (Nat × Nat)) : Font :=
  { glyph := fun g => match lookupFact facts g with | some f => f.glyph | none => .bad
    adv := fun g => match lookupFact facts g with | some f => f.adv | none => 0
    lsb := fun g => match lookupFact facts g with | some f => f.lsb | none => 0
    cmap := lookupPair cmap }

/-- the ORIGINAL font as the strict reader sees it (spec side): damaged glyphs are `bad`, so that
    `flatten` is `none` for them and for every composite that reaches one -/
def strictFont (f : Font) (facts : List Fact) : Font :=
  { f with glyph := fun g => match lookupFact facts g with
      | some x => if x.strict then x.glyph else .bad
      | none => .bad }

def isStrict (facts : List Fact) (g : Nat) : Bool :=
  match lookupFact facts g with | some x => x.strict | none => false

def sortPairs (ps : List (Nat × Nat)) : List (Nat × Nat) :=
  ps.mergeSort fun a b => decide (a.1 ≤ b.1)

def showPairs (ps : List (Nat × Nat)) : String :=
  if ps.isEmpty then "-" else ",".intercalate ((sortPairs ps).map fun p => toString p.1 ++ ":" ++ toString p.2)

def showRows (rows : List Row) : String :=
  if rows.isEmpty then "-"
  else ";".intercalate ((List.range rows.length).zip rows |>.map fun (i, r) =>
    toString i ++ ":" ++ toString r.adv ++ ":" ++ toString r.lsb ++ ":" ++ showDesc r.glyph)

inductive Impl where
  | full (map : List (Nat × Nat))
  | subset (map : List (Nat × Nat)) (n : Nat) (wf : String) (rows : List Row)
  | err (c : String)
  | unparsable

def parseImpl (impl : String) : Impl :=
  if impl.startsWith "err:" then .err impl
  else
    let fs := impl.splitOn " "
    match field fs "kind", (field fs "map").bind parsePairs with
    | some "full", some m => .full m
    | some "subset", some m =>
      match (field fs "n").bind String.toNat?, field fs "wf", (field fs "g").bind parseFacts with
      | some n, some wf, some g => .subset m n wf (g.map fun f => ⟨f.adv, f.lsb, f.glyph⟩)
      | _, _, _ => .unparsable
    | _, _ => .unparsable

def wfVerdict (wf : String) : String :=
  if wf = "ok" then "ok"
  else
    -- every structural problem the independent reader finds is a violation of "the subset is a
    -- well-formed font file" — the head checksum conventions (`m:` items: head checksum computed
    -- with checkSumAdjustment = 0, whole file sums to 0xB1B0AFBA) included
    "fail:not-wellformed:" ++ ((wf.splitOn ",").headD wf)

/-- the property's per-glyph clause for one requested key (`g` = original glyph id, `g'` = the
    glyph id it resolves to in the subset) -/
def glyphVerdict (f : Font) (fuel : Nat) (rows : List Row) (g g' : Nat) : Option String :=
  if g' ≥ rows.length then some s!"fail:resolves-to-missing-glyph:{g}->{g'}"
  else if rowAdv rows g' ≠ some (f.adv g) then some s!"fail:advance-changed:gid{g}->{g'}"
  else
    match flatten f.glyph fuel g with
    | none => none     -- original not flattenable (cyclic / damaged): the property is silent
    | some t =>
      if flatten (rowGlyph rows) fuel g' = some t then none
      else some s!"fail:outline-changed:gid{g}->{g'}"

/-- diagnosis of the short-loca defect: is the start or end offset of new glyph `i` odd while the
    subset keeps the short `loca` format? -/
def oddOffsetAt (lf : Nat) (lens : List Nat) (i : Nat) : Bool :=
  let offs := glyphOffsets 0 lens
  useShort (lf == 0) (offs.getLastD 0) &&
    ((offs.getD i 0) % 2 == 1 || (offs.getD (i + 1) 0) % 2 == 1)

def refine (odd : Nat → Bool) (v : String) : String :=
  -- v = fail:outline-changed:gid<g>-><g'>  |  fail:not-wellformed:glyph-<i>:…
  if v.startsWith "fail:outline-changed:" then
    match ((v.splitOn "->").getD 1 "").toNat? with
    | some g' => if odd g' then v.replace "outline-changed" "outline-changed-odd-offset-in-short-loca" else v
    | none => v
  else if v.startsWith "fail:not-wellformed:glyph-" then
    match (((v.drop 26).toString.splitOn ":").getD 0 "").toNat? with
    | some i => if odd i then v.replace "not-wellformed" "not-wellformed-odd-offset-in-short-loca" else v
    | none => v
  else v

/-- odd offset at the glyph itself or at any glyph of its component tree (model rows) -/
def oddInTree (lf : Nat) (lens : List Nat) (rows : List Row) (i : Nat) : Bool :=
  match closure (rowGlyph rows) [i] with
  | some t => t.any (oddOffsetAt lf lens)
  | none => oddOffsetAt lf lens i

def modelRows (f : Font) (init : List Nat) : List Row :=
  match closure f.glyph init with
  | some needed => (buildRows f (sortGids needed)).getD []
  | none => []

def subsetLens (f : Font) (init : List Nat) (sl : List (Nat × Nat)) : List Nat :=
  match closure f.glyph init with
  | some needed => (sortGids needed).map fun g => (lookupPair sl g).getD 0
  | none => []


/-! byte-level requests -/

def unhexAux : List Char → List Nat → Option (List Nat)
  | [], acc => some acc.reverse
  | [_], _ => none
  | a :: b :: rest, acc =>
    match hexVal? a, hexVal? b with
    | some x, some y => unhexAux rest ((x * 16 + y) :: acc)
    | _, _ => none

def parseSegs (s : String) : Option (List (Nat × Bytes)) :=
  if s = "-" then some []
  else (s.splitOn ",").mapM fun t =>
    match t.splitOn "." with
    | [o, h] => match o.toNat?, unhexAux h.toList [] with
      | some o, some b => some (o, b)
      | _, _ => none
    | _ => none

def parseFile (fs : List String) : Option (Option File) :=
  match field fs "flen", field fs "segs" with
  | none, none => some none
  | some l, some sg =>
    match l.toNat?, parseSegs sg with
    | some l, some sg => some (some ⟨l, sg⟩)
    | _, _ => none
  | _, _ => none

/-- what the byte-level model appends to the abstract model's answer (and a cross-check that the
    two models take the same branch and return the same mapping) -/
def byteSuffix (abstractKind : String) (abstractMap : List (Nat × Nat)) (b : BAns) : String :=
  match b with
  | .subset m bytes =>
    if abstractKind = "subset" ∧ sortPairs m = sortPairs abstractMap then " bytes=" ++ hexField bytes
    else " bytes=models-disagree"
  | .full _ => if abstractKind = "full" then "" else " bytes=models-disagree:full"
  | .fullAll => if abstractKind = "fullAll" then "" else " bytes=models-disagree:fullAll"
  | .cff => if abstractKind = "cff" then "" else " bytes=models-disagree:cff"
  | .err => if abstractKind = "err" then "" else " bytes=models-disagree:err"
  | .gap => " bytes=model-read-a-byte-the-request-does-not-provide"
  | .stuck => " bytes=model-stuck"

def firstSome {α} (xs : List α) (f : α → Option String) : Option String := xs.findSome? f

def handleTT (fs : List String) (impl : String) : String × String :=
  match (field fs "used").bind parseNatList, (field fs "size").bind String.toNat?,
        (field fs "ng").bind String.toNat?, field fs "cff", (field fs "cmap").bind parsePairs,
        (field fs "g").bind parseFacts, field fs "allcmap",
        (field fs "lf").bind String.toNat?, (field fs "sl").bind parsePairs with
  | some used, some size, some ng, some cff, some cmap, some facts, some allc, some lf, some sl =>
    let f := mkFont facts cmap
    let odd := oddInTree lf (subsetLens f (initNeeded used f.cmap) sl) (modelRows f (initNeeded used f.cmap))
    let pi := parseImpl impl
    let wfEcho := match pi with | .subset _ _ wf _ => wf | _ => "ok"
    let abstract := subsetChars f size ng (cff == "1") used
    let bsuffix :=
      match parseFile fs with
      | none => " bytes=bad-segs"
      | some none => ""
      | some (some file) =>
        let b := subsetCharsBytes file f.cmap used
        match abstract with
        | .full m => byteSuffix "full" m b
        | .fullAll => byteSuffix "fullAll" [] b
        | .subset m _ => byteSuffix "subset" m b
        | .cff => byteSuffix "cff" [] b
        | .stuck => ""
    let model :=
      (match abstract with
      | .full m => "kind=full map=" ++ showPairs m
      | .fullAll => if allc = "?" then "model-needs-allcmap" else "kind=full map=" ++ allc
      | .subset m rows => s!"kind=subset map={showPairs m} n={rows.length} wf={wfEcho} g={showRows rows}"
      | .cff => "kind=cff"
      | .stuck => "model-stuck") ++ bsuffix
    -- spec side: the characters the font maps to a glyph it HAS (a cmap entry beyond
    -- numGlyphs is damage the property does not speak about)
    let mapped := used.filterMap fun c => (f.cmap c).bind fun g => if g < ng then some (c, g) else none
    let fs := strictFont f facts
    let fuel := facts.length + 2
    let oracle :=
      match pi with
      | .unparsable => "fail:unparsable-impl-answer"
      | .err _ => "fail:error-on-readable-font"
      | .full m =>
        match firstSome mapped fun (c, g) =>
            if lookupPair m c = some g then none else some s!"fail:full-font-mapping-wrong:U+{c}" with
        | some e => e
        | none => if mapped.isEmpty then "na" else "ok"
      | .subset m n wf rows =>
        match firstSome mapped fun (c, g) =>
            match lookupPair m c with
            | none => some s!"fail:requested-char-dropped:U+{c}"
            | some g' => if isStrict facts g then glyphVerdict fs fuel rows g g' else none with
        | some e => e
        | none => if n ≠ rows.length then "fail:numGlyphs-mismatch" else wfVerdict wf
    (model, refine odd oracle)
  | _, _, _, _, _, _, _, _, _ => ("bad-request", "na")

def handleTG (fs : List String) (impl : String) : String × String :=
  match (field fs "used").bind parseNatList, field fs "cff", (field fs "g").bind parseFacts,
        (field fs "lf").bind String.toNat?, (field fs "sl").bind parsePairs with
  | some used, some cff, some facts, some lf, some sl =>
    let f := mkFont facts []
    let odd := oddInTree lf (subsetLens f (insertNew (used.foldl insertNew []) 0) sl) (modelRows f (insertNew (used.foldl insertNew []) 0))
    let pi := parseImpl impl
    let wfEcho := match pi with | .subset _ _ wf _ => wf | _ => "ok"
    let abstract := subsetGids f (cff == "1") used
    let bsuffix :=
      match parseFile fs with
      | none => " bytes=bad-segs"
      | some none => ""
      | some (some file) =>
        let b := subsetGidsBytes file used
        match abstract with
        | .err => byteSuffix "err" [] b
        | .subset m _ => byteSuffix "subset" m b
        | .stuck => ""
    let model :=
      (match abstract with
      | .err => "err:subset"
      | .subset m rows => s!"kind=subset map={showPairs m} n={rows.length} wf={wfEcho} g={showRows rows}"
      | .stuck => "model-stuck") ++ bsuffix
    let fuel := facts.length + 2
    let damaged := facts.any fun x => x.glyph == .bad || !x.strict
    let fs := strictFont f facts
    let oracle :=
      match pi with
      | .unparsable => "fail:unparsable-impl-answer"
      | .err _ => if cff == "1" ∨ damaged then "na" else "fail:error-on-readable-font"
      | .full _ => "fail:unexpected-answer-kind"
      | .subset m n wf rows =>
        match firstSome used fun g =>
            match lookupPair m g with
            | none => some s!"fail:requested-glyph-dropped:{g}"
            | some g' => if isStrict facts g then glyphVerdict fs fuel rows g g' else none with
        | some e => e
        | none => if n ≠ rows.length then "fail:numGlyphs-mismatch" else wfVerdict wf
    (model, refine odd oracle)
  | _, _, _, _, _ => ("bad-request", "na")

/-! CFF requests: `cf font= used= size= ng= cid= cmap= g=<gid:width:fp;…>`; answers
    `kind=full map=` | `kind=rawcff map= n= wf= cs=<gid:cid,…> g=<gid:width:fp;…>` -/

def parseCffFacts (s : String) : Option (List (Nat × CffRow)) :=
  if s = "-" then some []
  else (s.splitOn ";").mapM fun t =>
    match t.splitOn ":" with
    | [g, w, f] => match g.toNat?, f.toNat? with
      | some g, some f => some (g, ⟨w, f⟩)
      | _, _ => none
    | _ => none

def showCffRows (rows : List CffRow) : String :=
  if rows.isEmpty then "-"
  else ";".intercalate ((List.range rows.length).zip rows |>.map fun (i, r) =>
    toString i ++ ":" ++ r.width ++ ":" ++ toString r.fp)

def handleCF (fs : List String) (impl : String) : String × String :=
  match (field fs "used").bind parseNatList, (field fs "size").bind String.toNat?,
        (field fs "ng").bind String.toNat?, (field fs "cmap").bind parsePairs,
        (field fs "g").bind parseCffFacts with
  | some used, some size, some ng, some cmap, some facts =>
    let cm := lookupPair cmap
    let fact : Gid → CffRow := fun g => ((facts.find? (·.1 == g)).map (·.2)).getD ⟨"?", 0⟩
    let f : Font := { glyph := fun _ => .bad, adv := fun _ => 0, lsb := fun _ => 0, cmap := cm }
    let ifs := impl.splitOn " "
    let ikind := field ifs "kind"
    let imap := (field ifs "map").bind parsePairs
    let echo (k : String) := (field ifs k).getD "?"
    let model :=
      match subsetChars f size ng true used with
      | .full m => "kind=full map=" ++ showPairs m
      | .cff =>
        if ikind = some "full" then
          -- `subset_cff_font` reported an error: the documented fallback is the full font with
          -- the mapping filtered to the used characters
          "kind=full map=" ++ showPairs (filterMapping cm used)
        else
          let (m, rows) := cffSubset cm fact used
          s!"kind=rawcff map={showPairs m} n={rows.length} wf={echo "wf"} cs={echo "cs"} g={showCffRows rows}"
      | _ => "model-stuck"
    let mapped := used.filterMap fun c => (cm c).map fun g => (c, g)
    let oracle :=
      match ikind, imap with
      | some "full", some m =>
        match firstSome mapped fun (c, g) =>
            if lookupPair m c = some g then none else some s!"fail:full-font-mapping-wrong:U+{c}" with
        | some e => e
        | none => if mapped.isEmpty then "na" else "ok"
      | some "rawcff", some m =>
        match (field ifs "g").bind parseCffFacts, (field ifs "n").bind String.toNat? with
        | some rows, some n =>
          match firstSome mapped fun (c, g) =>
              match lookupPair m c with
              | none => some s!"fail:requested-char-dropped:U+{c}"
              | some g' =>
                match rows.find? (·.1 == g') with
                | none => some s!"fail:resolves-to-missing-glyph:{g}->{g'}"
                | some (_, r) =>
                  if (fact g).width = "?" then none
                  else if r.width ≠ (fact g).width then some s!"fail:advance-changed:gid{g}->{g'}"
                  else if r.fp ≠ (fact g).fp then some s!"fail:charstring-changed:gid{g}->{g'}"
                  else none with
          | some e => e
          | none => if n ≠ rows.length then "fail:numGlyphs-mismatch" else wfVerdict (echo "wf")
        | _, _ => "fail:unparsable-impl-answer"
      | _, _ => if impl.startsWith "err:" then "fail:error-on-readable-font" else "fail:unparsable-impl-answer"
    (model, oracle)
  | _, _, _, _, _ => ("bad-request", "na")

def handle (req impl : String) : String × String :=
  match req.splitOn " " with
  | "tt" :: fs => handleTT fs impl
  | "tg" :: fs => handleTG fs impl
  | "cf" :: fs => handleCF fs impl
  | _ => ("bad-request", "na")

end C12Drv

def main : IO Unit := runDriver C12Drv.handle
