import OxiVerif.Base.Driver
import OxiVerif.Model.C18
/-!
Driver for C18.  Request / answer formats: see `harness/src/bin/c18.rs`.

MODEL  = the transcription of `flatten_page_tree` / `collect_inherited_attributes` /
         `create_parsed_page` / `PdfReader::page_count` run on the described object graph.
ORACLE = the specification side: an independent, strict, TOP-DOWN document-order traversal
         (ISO 32000-1 §7.7.3.2–7.7.3.4: depth-first over /Kids, inheritable attributes passed
         down) of the same description, compared with the implementation's answer.
         On trees that are not strictly well-formed the oracle only demands what the property
         demands of them: an answer (no hang/crash), no page listed twice, every listed page a
         dictionary reachable from the root through /Kids, count = list length.
-/
open OxiVerif OxiVerif.C18

/-! ### parsing -/

def dropStr (n : Nat) (s : String) : String := String.ofList (s.toList.drop n)
def hasPrefix (s pre : String) : Bool := pre.toList.isPrefixOf s.toList

def parseNat? (s : String) : Option Nat := s.toNat?

def parseInt? (s : String) : Option Int :=
  match s.toList with
  | '-' :: r => (String.ofList r).toNat?.map fun n => -(Int.ofNat n)
  | _ => s.toNat?.map Int.ofNat

/-- decimal token with at most one fractional digit `5`, value ×2 -/
def parseNum2? (s : String) : Option Int :=
  let (neg, body) := match s.toList with
    | '-' :: r => (true, String.ofList r)
    | _ => (false, s)
  let v := match body.splitOn "." with
    | [a] => a.toNat?.map (· * 2)
    | [a, "5"] => a.toNat?.map (· * 2 + 1)
    | [a, "0"] => a.toNat?.map (· * 2)
    | _ => none
  v.map fun n => if neg then -(Int.ofNat n) else Int.ofNat n

def parseElems (s : String) : List Elem :=
  if s = "-" then [] else
  (s.splitOn ",").map fun t => match t.toNat? with
    | some n => .ref n
    | none => .junk

def parseRefish (s : String) (other : String → Raw) : Raw :=
  match s.toList with
  | '@' :: r => match (String.ofList r).toNat? with
    | some n => .ref n
    | none => .junk
  | ['j'] => .junk
  | _ => other s

def parseBoxBody (s : String) : Raw :=
  .nums ((s.splitOn ":").map fun t => if t = "x" then none else parseNum2? t)

def parseKeysBody (s : String) : Raw :=
  if s = "-" then .keys [] else .keys (s.splitOn "+")

def parseKids (s : String) : Kids :=
  match s.toList with
  | '@' :: r => match (String.ofList r).toNat? with
    | some n => .ref n
    | none => .junk
  | ['j'] => .junk
  | _ => .direct (parseElems s)

def parseField (d : Dict) (f : String) : Option Dict :=
  match f.splitOn "=" with
  | [k, v] =>
    match k with
    | "T" => some { d with ty := match v with
        | "P" => .page | "S" => .pages | "X" => .other | _ => .nonName }
    | "K" => some { d with kids := parseKids v }
    | "C" => some { d with count := some (parseRefish v fun s => match parseInt? s with
        | some i => .int i | none => .junk) }
    | "P" => v.toNat?.map fun n => { d with parent := some n }
    | "M" => some { d with mb := some (parseRefish v parseBoxBody) }
    | "B" => some { d with cb := some (parseRefish v parseBoxBody) }
    | "R" => some { d with rot := some (parseRefish v fun s => match s.toList with
        | 'r' :: _ => .real
        | _ => match parseInt? s with
          | some i => .int i | none => .junk) }
    | "Z" => some { d with res := some (parseRefish v parseKeysBody) }
    | "O" => some { d with contents := true }
    | _ => none
  | _ => none

def parseObj (s : String) : Option (Nat × Obj) :=
  match s.splitOn " " with
  | id :: kind :: fields =>
    match id.toNat? with
    | none => none
    | some n =>
      match kind, fields with
      | "D", fs => (fs.foldlM parseField ({} : Dict)).map fun d => (n, .dict d)
      | "A", [e] => some (n, .arr (parseElems e))
      | "I", [i] => (parseInt? i).map fun v => (n, .raw (.int v))
      | "N", [] => some (n, .null)
      | "S", [_] => some (n, .stream)
      | "Y", [k] => some (n, .raw (parseKeysBody k))
      | "B", [b] => some (n, .raw (parseBoxBody b))
      | _, _ => none
  | _ => none

structure Req where
  cat : Nat
  root : Nat
  g : Graph

def parseReq (s : String) : Option Req :=
  match s.splitOn " | " with
  | head :: objs =>
    match head.splitOn " " with
    | ["pt", c, r] =>
      match c.toNat?, r.toNat?, objs.mapM parseObj with
      | some c, some r, some os => some { cat := c, root := r, g := os }
      | _, _, _ => none
    | _ => none
  | [] => none

/-! ### printing -/

def showInts (xs : List Int) : String := ",".intercalate (xs.map toString)

def showKeys : Option (List String) → String
  | none => "none"
  | some [] => "-"
  | some ks => "+".intercalate ks

def showPage (p : Page) : String :=
  s!"{p.id} m={showInts p.mediaBox} c={match p.cropBox with | some b => showInts b | none => "-"} r={p.rotation} z={showKeys p.resources}"

def showPageRes : PageRes → String
  | .ok p => showPage p
  | .err => "E"
  | .fuel => "FUEL"

def modelAnswer (r : Req) : String :=
  match (r.g.get r.root).asDict with
  | none => "root-not-dict"
  | some root =>
    let rc := readerPageCount r.g root
    match flatten r.g root with
    | none => s!"rc={rc} dc=FUEL"
    | some flat =>
      let pages := flat.map fun id => " | " ++ showPageRes (loadPage r.g id)
      let oob := if flat.isEmpty then "" else " | oob=" ++ showPageRes (getPage r.g flat flat.length)
      s!"rc={rc} dc={flat.length}" ++ String.join pages ++ oob

/-! ### specification side -/

structure SPage where
  id : Nat
  mb : Option (List Int)
  cb : Option (List Int)
  rot : Int
  res : Option (List String)

structure Env where
  mb : Option (List Int) := none
  cb : Option (List Int) := none
  rot : Option Int := none
  res : Option (List String) := none

/-- typed value of an attribute, `none` = not a direct, well-typed value (the strict reading
does not pronounce on such trees) -/
def boxVal : Raw → Option (List Int)
  | .nums xs => if xs.length = 4 then xs.mapM id else none
  | _ => none

def rotVal : Raw → Option Int
  | .int i => if -2147483648 ≤ i ∧ i < 2147483648 then some i else none
  | _ => none

def resVal (g : Graph) : Raw → Option (List String)
  | .keys ks => some ks
  | .ref n => match g.get n with
    | .raw (.keys ks) => some ks
    | _ => none
  | _ => none

def kidsStrict (g : Graph) : Kids → Option (List Nat)
  | .direct es => es.mapM fun e => match e with | .ref n => some n | .junk => none
  | .ref n => match g.get n with
    | .arr es => es.mapM fun e => match e with | .ref n => some n | .junk => none
    | _ => none
  | _ => none

def updEnv (g : Graph) (d : Dict) (e : Env) : Option Env := do
  let mb ← match d.mb with | none => some e.mb | some v => (boxVal v).map some
  let cb ← match d.cb with | none => some e.cb | some v => (boxVal v).map some
  let rot ← match d.rot with | none => some e.rot | some v => (rotVal v).map some
  let res ← match d.res with | none => some e.res | some v => (resVal g v).map some
  pure { mb := mb, cb := cb, rot := rot, res := res }

mutual
  /-- strict top-down traversal; state = ids already seen; `none` = not strictly well-formed -/
  def specNode (g : Graph) (fuel : Nat) (id : Nat) (parent : Option Nat) (env : Env)
      (seen : List Nat) : Option (List SPage × List Nat) :=
    match fuel with
    | 0 => none
    | fuel + 1 =>
      if id ∈ seen then none else
      match g.get id with
      | .dict d =>
        if d.parent != parent then none else
        match updEnv g d env with
        | none => none
        | some env' =>
          match d.ty with
          | .page =>
            some ([{ id := id, mb := env'.mb, cb := env'.cb, rot := env'.rot.getD 0, res := env'.res }], id :: seen)
          | .pages =>
            match kidsStrict g d.kids with
            | none => none
            | some ks => specKids g fuel ks id env' (id :: seen)
          | _ => none
      | _ => none
  def specKids (g : Graph) (fuel : Nat) (ks : List Nat) (parent : Nat) (env : Env)
      (seen : List Nat) : Option (List SPage × List Nat) :=
    match fuel with
    | 0 => none
    | fuel + 1 =>
      match ks with
      | [] => some ([], seen)
      | k :: rest =>
        match specNode g fuel k (some parent) env seen with
        | none => none
        | some (ps, seen') =>
          match specKids g fuel rest parent env seen' with
          | none => none
          | some (qs, seen'') => some (ps ++ qs, seen'')
end

/-- all ids reachable from the root through /Kids references (any typing), root included -/
def reach (g : Graph) : Nat → List Nat → List Nat → List Nat
  | 0, _, seen => seen
  | _, [], seen => seen
  | fuel + 1, n :: st, seen =>
    if n ∈ seen then reach g fuel st seen else
    match g.get n with
    | .dict d =>
      let ks := match d.kids with
        | .direct es => refsOf es
        | .ref m => match g.get m with | .arr es => refsOf es | _ => []
        | _ => []
      reach g fuel (ks ++ st) (n :: seen)
    | _ => reach g fuel st (n :: seen)

def totalKids (g : Graph) : Nat :=
  g.foldl (fun acc e => acc + match e.2 with
    | .dict d => (match d.kids with | .direct es => es.length | _ => 0)
    | .arr es => es.length
    | _ => 0) 0

structure IPage where
  id : Nat
  body : String    -- everything after the object number, or "E"

structure IAns where
  rc : String
  dc : Nat
  pages : List String
  oob : Option String

def parseImpl (s : String) : Option IAns :=
  match s.splitOn " | " with
  | head :: rest =>
    match head.splitOn " " with
    | [rc, dc] =>
      match rc.splitOn "=", dc.splitOn "=" with
      | ["rc", r], ["dc", d] =>
        match d.toNat? with
        | none => none
        | some dn =>
          let (oobs, pages) := rest.partition fun p => hasPrefix p "oob="
          some { rc := r, dc := dn, pages := pages, oob := oobs.head?.map (dropStr 4) }
      | _, _ => none
    | _ => none
  | [] => none

def pageIdOf (p : String) : Option Nat := (p.splitOn " ").head?.bind String.toNat?

def hasDup : List Nat → Bool
  | [] => false
  | a :: r => r.contains a || hasDup r

def specShow (g : Graph) (p : SPage) (implPage : String) : String :=
  -- a page without any MediaBox in its ancestry is not valid PDF; the spec side does not
  -- pronounce on the box then (it takes the implementation's).
  let implM := match (implPage.splitOn " ").filter (hasPrefix · "m=") with
    | [m] => dropStr 2 m
    | _ => "?"
  let _ := g
  s!"{p.id} m={match p.mb with | some b => showInts b | none => implM} c={match p.cb with | some b => showInts b | none => "-"} r={p.rot} z={showKeys (p.res.map sortKeys)}"

def firstMismatch (g : Graph) : List SPage → List String → Nat → Option String
  | [], [], _ => none
  | p :: ps, q :: qs, i =>
    if specShow g p q = q then firstMismatch g ps qs (i + 1)
    else some s!"page-{i}-expected({specShow g p q})"
  | _, _, i => some s!"page-list-length-at-{i}"

def oracle (r : Req) (impl : String) : String :=
  if hasPrefix impl "panic" || hasPrefix impl "abort" || hasPrefix impl "timeout" then
    "fail:no-answer(" ++ ((impl.splitOn ":").headD "") ++ ")"
  else
  match parseImpl impl with
  | none => "fail:unparsable-impl-answer"
  | some a =>
    let n := r.g.length
    let fuel := 2 * (n + totalKids r.g) + 4
    match specNode r.g fuel r.root none {} [] with
    | some (spec, _) =>
      -- strictly well-formed tree (apart, possibly, from /Count values)
      if a.dc != spec.length then s!"fail:page-count-{a.dc}-but-document-order-has-{spec.length}"
      else match firstMismatch r.g spec a.pages 0 with
        | some m => "fail:" ++ m
        | none =>
          if spec.length > 0 && a.oob != some "E" then "fail:index-past-the-end-accepted"
          else if a.rc != toString spec.length then
            -- which source did PdfReader::page_count follow instead of the traversal?
            let root := ((r.g.get r.root).asDict).getD {}
            let declared : Option Nat := match countValue r.g root.count with
              | some c => if wrapU32 c ≤ MAX_PAGE_COUNT then some (wrapU32 c) else none
              | none => none
            match declared with
            | some c =>
              if c = spec.length then s!"fail:reader-page-count-{a.rc}-with-correct-Count-{c}"
              else s!"fail:reader-page-count-not-from-traversal got={a.rc} declared={c} pages={spec.length}"
            | none =>
              s!"fail:reader-page-count-not-from-traversal got={a.rc} kids={(arrayLen r.g root.kids).getD 0} pages={spec.length}"
          else "ok"
    | none =>
      let ids := a.pages.filterMap pageIdOf
      let rch := reach r.g fuel [r.root] []
      if a.dc != a.pages.length then "fail:count-differs-from-listed-pages"
      else if hasDup ids then "fail:page-listed-twice"
      else if ids.any (fun i => !(rch.contains i) || (r.g.get i).asDict.isNone) then
        "fail:listed-page-not-reachable-from-root"
      else if ids.length > n then "fail:more-pages-than-objects"
      else "ok"

def handle (req impl : String) : String × String :=
  match parseReq req with
  | none => ("bad-request", "na")
  | some r => (modelAnswer r, oracle r impl)

def main : IO Unit := runDriver handle
