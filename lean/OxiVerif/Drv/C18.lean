import OxiVerif.Base.Driver
import OxiVerif.Model.C18
import OxiVerif.Model.C18Parse
import OxiVerif.Spec.C18
/-!
Driver for C18.  Request / answer formats: see `harness/src/bin/c18.rs`.

MODEL  = the transcription of `flatten_page_tree` / `collect_inherited_attributes` /
         `create_parsed_page` / `PdfReader::page_count` run on the described object graph.
ORACLE = the specification side: an independent, strict, TOP-DOWN document-order traversal
         (ISO 32000-1 §7.7.3.2–7.7.3.4: depth-first over /Kids, inheritable attributes passed
         down) of the same description, compared with the implementation's answer.
         On trees that are not strictly well-formed the oracle only demands what the property
         demands of them: an answer (no hang/crash), no page listed twice, every listed page a
         dictionary reachable from the root through /Kids, count = list length.
-/
open OxiVerif OxiVerif.C18

/-! ### specification side: `OxiVerif/Spec/C18.lean` -/

structure IPage where
  id : Nat
  body : String    -- everything after the object number, or "E"

structure IAns where
  rc : String
  dc : Nat
  pages : List String
  oob : Option String

def parseImpl (s : String) : Option IAns :=
  match s.splitOn " | " with
  | head :: rest =>
    match head.splitOn " " with
    | [rc, dc] =>
      match rc.splitOn "=", dc.splitOn "=" with
      | ["rc", r], ["dc", d] =>
        match d.toNat? with
        | none => none
        | some dn =>
          let (oobs, pages) := rest.partition fun p => hasPrefix p "oob="
          some { rc := r, dc := dn, pages := pages, oob := oobs.head?.map (dropStr 4) }
      | _, _ => none
    | _ => none
  | [] => none

def pageIdOf (p : String) : Option Nat := (p.splitOn " ").head?.bind String.toNat?

def hasDup : List Nat → Bool
  | [] => false
  | a :: r => r.contains a || hasDup r

def specShow (g : Graph) (p : SPage) (implPage : String) : String :=
  -- a page without any MediaBox in its ancestry is not valid PDF; the spec side does not
  -- pronounce on the box then (it takes the implementation's).
  let implM := match (implPage.splitOn " ").filter (hasPrefix · "m=") with
    | [m] => dropStr 2 m
    | _ => "?"
  let _ := g
  s!"{p.id} m={match p.mb with | some b => showInts b | none => implM} c={match p.cb with | some b => showInts b | none => "-"} r={p.rot} z={showKeys (p.res.map sortKeys)}"

def firstMismatch (g : Graph) : List SPage → List String → Nat → Option String
  | [], [], _ => none
  | p :: ps, q :: qs, i =>
    if specShow g p q = q then firstMismatch g ps qs (i + 1)
    else
      -- does the answer match a reading that ignores indirect MediaBox / CropBox / Rotate values?
      let pU : SPage := { p with mb := p.mbU, cb := p.cbU, rot := p.rotU }
      if p.viaRef && specShow g pU q = q then
        (match firstMismatch g ps qs (i + 1) with
         | none => some s!"indirect-attribute-value-ignored page-{i}"
         | some m => if hasPrefix m "indirect-attribute-value-ignored" then some m else some m)
      else some s!"page-{i}-expected({specShow g p q})"
  | _, _, i => some s!"page-list-length-at-{i}"

def oracle (r : Req) (impl : String) : String :=
  if hasPrefix impl "panic" || hasPrefix impl "abort" || hasPrefix impl "timeout" then
    "fail:no-answer(" ++ ((impl.splitOn ":").headD "") ++ ")"
  else
  match parseImpl impl with
  | none => "fail:unparsable-impl-answer"
  | some a =>
    let n := r.g.length
    let fuel := 2 * (n + totalKids r.g) + 4
    match specNode r.g fuel r.root none {} [] with
    | some (spec, _) =>
      -- strictly well-formed tree (apart, possibly, from /Count values)
      if a.dc != spec.length then s!"fail:page-count-{a.dc}-but-document-order-has-{spec.length}"
      else match firstMismatch r.g spec a.pages 0 with
        | some m => "fail:" ++ m
        | none =>
          if spec.length > 0 && a.oob != some "E" then "fail:index-past-the-end-accepted"
          else if a.rc != toString spec.length then
            -- which source did PdfReader::page_count follow instead of the traversal?
            let root := ((r.g.get r.root).asDict).getD {}
            let declared : Option Nat := match countValue r.g root.count with
              | some c => if wrapU32 c ≤ MAX_PAGE_COUNT then some (wrapU32 c) else none
              | none => none
            match declared with
            | some c =>
              if c = spec.length then s!"fail:reader-page-count-{a.rc}-with-correct-Count-{c}"
              else s!"fail:reader-page-count-not-from-traversal got={a.rc} declared={c} pages={spec.length}"
            | none =>
              s!"fail:reader-page-count-not-from-traversal got={a.rc} kids={(arrayLen r.g root.kids).getD 0} pages={spec.length}"
          else "ok"
    | none =>
      let ids := a.pages.filterMap pageIdOf
      let rch := reach r.g fuel [r.root] []
      if a.dc != a.pages.length then "fail:count-differs-from-listed-pages"
      else if a.rc != toString a.dc && a.rc != "E" then
        s!"fail:reader-page-count-{a.rc}-differs-from-listed-pages-{a.dc}"
      else if hasDup ids then "fail:page-listed-twice"
      else if ids.any (fun i => !(rch.contains i) || (r.g.get i).asDict.isNone) then
        "fail:listed-page-not-reachable-from-root"
      else if ids.length > n then "fail:more-pages-than-objects"
      else "ok"

/-! ### `big <n> <fan>`: regular two-level trees around the MAX_PAGES cap -/

def bigGraph (n fan : Nat) : Graph × Dict :=
  let ninner := (n + fan - 1) / fan
  let letter : Raw := .nums [some 0, some 0, some 1224, some 1584]
  let root : Dict := { ty := .pages, kids := .direct ((List.range ninner).map fun j => .ref (3 + j)),
                       count := some (.int (Int.ofNat n)), mb := some letter }
  let innerDict (j : Nat) : Dict :=
    { ty := .pages
      parent := some 2
      kids := .direct (((List.range n).filter fun i => j * fan ≤ i ∧ i < (j + 1) * fan).map fun i => Elem.ref (3 + ninner + i))
      count := some (.int (Int.ofNat (min ((j + 1) * fan) n - j * fan)))
      rot := some (.int (Int.ofNat ((j % 4) * 90))) }
  let inner := (List.range ninner).map fun j => (3 + j, Obj.dict (innerDict j))
  let leaves := (List.range n).map fun i => (3 + ninner + i, Obj.dict { ty := .page, parent := some (3 + i / fan) })
  ((2, .dict root) :: inner ++ leaves, root)

def bigProbes (fan dc : Nat) : List Nat :=
  ([0, fan - 1, fan, dc - 1].filter (· < dc)).eraseDups

def showProbe (i : Nat) : PageRes → String
  | .ok p => s!"{i}:{p.id} m={showInts p.mediaBox} c={if p.cropBox.isSome then "some" else "-"} r={p.rotation} z={if p.resources.isSome then "some" else "none"}"
  | .err => s!"{i}:E"
  | .fuel => s!"{i}:FUEL"

/-- the generic model run on the generated graph (small n only: the list-based model is quadratic) -/
def bigModel (n fan : Nat) : String :=
  let (g, root) := bigGraph n fan
  match flatten g root with
  | none => "dc=FUEL"
  | some flat =>
    let probes := (bigProbes fan flat.length).map fun i => " | " ++ showProbe i (getPage g flat i)
    s!"rc={match readerPageCount g root with | some n => toString n | none => "FUEL"} dc={flat.length}" ++ String.join probes ++
      (if flat.isEmpty then "" else " | oob=" ++ showPageRes (getPage g flat flat.length))

/-- closed form = `C18_flatten_document_order_truncated` (flat index = leaves in document order,
cut at MAX_PAGES) + `C18_inherit_nearest` instantiated for this tree shape -/
def bigFormula (n fan : Nat) : String :=
  let ninner := (n + fan - 1) / fan
  let dc := min n MAX_PAGES
  let rc := dc     -- `PdfReader::page_count` walks the tree like `PdfDocument::page_count`
  let probes := (bigProbes fan dc).map fun i =>
    s!" | {i}:{3 + ninner + i} m=0,0,1224,1584 c=- r={((i / fan) % 4) * 90} z=none"
  s!"rc={rc} dc={dc}" ++ String.join probes ++ (if dc = 0 then "" else " | oob=E")

def handleBig (n fan : Nat) (impl : String) : String × String :=
  let formula := bigFormula n fan
  let model := if n ≤ 1500 then (let m := bigModel n fan; if m = formula then m else "FORMULA-MISMATCH " ++ m) else formula
  -- spec side: document order is leaf i = object 3+#inner+i with the root's MediaBox and the
  -- inner node's Rotate; a list cut at the cap is accepted ("a truncated list"), the reader's
  -- count must be the length of that list
  let ninner := (n + fan - 1) / fan
  let expectPages := (formula.splitOn " | ").drop 1
  let implPages := (impl.splitOn " | ").drop 1
  let oracle :=
    if hasPrefix impl "panic" || hasPrefix impl "abort" || hasPrefix impl "timeout" then "fail:no-answer"
    else if implPages != expectPages then "fail:big-tree-pages-differ-from-document-order"
    else match (impl.splitOn " | ").head?.map (·.splitOn " ") with
      | some [rc, dc] =>
        if dc != s!"dc={min n MAX_PAGES}" then s!"fail:page-count-{dc}-but-document-order-has-{n}"
        else if rc != s!"rc={min n MAX_PAGES}" then
          (if n ≤ MAX_PAGE_COUNT then s!"fail:reader-page-count-{rc}-with-correct-Count-{n}"
           else s!"fail:reader-page-count-not-from-traversal got={dropStr 3 rc} kids={ninner} pages={n}")
        else "ok"
      | _ => "fail:unparsable-impl-answer"
  (model, oracle)

def handle (req impl : String) : String × String :=
  match req.splitOn " " with
  | ["big", n, fan] =>
    match n.toNat?, fan.toNat? with
    | some n, some fan => if fan = 0 then ("bad-request", "na") else handleBig n fan impl
    | _, _ => ("bad-request", "na")
  | _ =>
  match parseReq req with
  | none => ("bad-request", "na")
  | some r => (modelAnswer r, oracle r impl)

def main : IO Unit := runDriver handle
