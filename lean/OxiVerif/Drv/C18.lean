import OxiVerif.Base.Driver
import OxiVerif.Model.C18
import OxiVerif.Model.C18Parse
import OxiVerif.Spec.C18
/-!
Driver for C18.  Request / answer formats: see `harness/src/bin/c18.rs`.

MODEL  = the transcription of `flatten_page_tree` / `collect_inherited_attributes` /
         `create_parsed_page` / `PdfReader::page_count` run on the described object graph.
ORACLE = the specification side: an independent, strict, TOP-DOWN document-order traversal
         (ISO 32000-1 §7.7.3.2–7.7.3.4: depth-first over /Kids, inheritable attributes passed
         down) of the same description, compared with the implementation's answer.
         On trees that are not strictly well-formed the oracle only demands what the property
         demands of them: an answer (no hang/crash), no page listed twice, every listed page a
         dictionary reachable from the root through /Kids, count = list length.
-/
open OxiVerif OxiVerif.C18

/-! ### specification side: `OxiVerif/Spec/C18.lean` -/

structure IPage where
  id : Nat
  body : String    -- everything after the object number, or "E"

structure IAns where
  rc : String
  dc : Nat
  pages : List String
  oob : Option String

def parseImpl (s : String) : Option IAns :=
  match s.splitOn " | " with
  | head :: rest =>
    match head.splitOn " " with
    | [rc, dc] =>
      match rc.splitOn "=", dc.splitOn "=" with
      | ["rc", r], ["dc", d] =>
        match d.toNat? with
        | none => none
        | some dn =>
          let (oobs, pages) := rest.partition fun p => hasPrefix p "oob="
          some { rc := r, dc := dn, pages := pages, oob := oobs.head?.map (dropStr 4) }
      | _, _ => none
    | _ => none
  | [] => none

def pageIdOf (p : String) : Option Nat := (p.splitOn " ").head?.bind String.toNat?

def hasDup : List Nat → Bool
  | [] => false
  | a :: r => r.contains a || hasDup r

def specShow (g : Graph) (p : SPage) (implPage : String) : String :=
  -- a page without any MediaBox in its ancestry is not valid PDF; the spec side does not
  -- pronounce on the box then (it takes the implementation's).
  let implM := match (implPage.splitOn " ").filter (hasPrefix · "m=") with
    | [m] => dropStr 2 m
    | _ => "?"
  let _ := g
  s!"{p.id} m={match p.mb with | some b => showInts b | none => implM} c={match p.cb with | some b => showInts b | none => "-"} r={p.rot} z={showKeys (p.res.map sortKeys)}"

def firstMismatch (g : Graph) : List SPage → List String → Nat → Option String
  | [], [], _ => none
  | p :: ps, q :: qs, i =>
    if specShow g p q = q then firstMismatch g ps qs (i + 1)
    else some s!"page-{i}-expected({specShow g p q})"
  | _, _, i => some s!"page-list-length-at-{i}"

def oracle (r : Req) (impl : String) : String :=
  if hasPrefix impl "panic" || hasPrefix impl "abort" || hasPrefix impl "timeout" then
    "fail:no-answer(" ++ ((impl.splitOn ":").headD "") ++ ")"
  else
  match parseImpl impl with
  | none => "fail:unparsable-impl-answer"
  | some a =>
    let n := r.g.length
    let fuel := 2 * (n + totalKids r.g) + 4
    match specNode r.g fuel r.root none {} [] with
    | some (spec, _) =>
      -- strictly well-formed tree (apart, possibly, from /Count values)
      if a.dc != spec.length then s!"fail:page-count-{a.dc}-but-document-order-has-{spec.length}"
      else match firstMismatch r.g spec a.pages 0 with
        | some m => "fail:" ++ m
        | none =>
          if spec.length > 0 && a.oob != some "E" then "fail:index-past-the-end-accepted"
          else if a.rc != toString spec.length then
            -- which source did PdfReader::page_count follow instead of the traversal?
            let root := ((r.g.get r.root).asDict).getD {}
            let declared : Option Nat := match countValue r.g root.count with
              | some c => if wrapU32 c ≤ MAX_PAGE_COUNT then some (wrapU32 c) else none
              | none => none
            match declared with
            | some c =>
              if c = spec.length then s!"fail:reader-page-count-{a.rc}-with-correct-Count-{c}"
              else s!"fail:reader-page-count-not-from-traversal got={a.rc} declared={c} pages={spec.length}"
            | none =>
              s!"fail:reader-page-count-not-from-traversal got={a.rc} kids={(arrayLen r.g root.kids).getD 0} pages={spec.length}"
          else "ok"
    | none =>
      let ids := a.pages.filterMap pageIdOf
      let rch := reach r.g fuel [r.root] []
      if a.dc != a.pages.length then "fail:count-differs-from-listed-pages"
      else if hasDup ids then "fail:page-listed-twice"
      else if ids.any (fun i => !(rch.contains i) || (r.g.get i).asDict.isNone) then
        "fail:listed-page-not-reachable-from-root"
      else if ids.length > n then "fail:more-pages-than-objects"
      else "ok"

def handle (req impl : String) : String × String :=
  match parseReq req with
  | none => ("bad-request", "na")
  | some r => (modelAnswer r, oracle r impl)

def main : IO Unit := runDriver handle
