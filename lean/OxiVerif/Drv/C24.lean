import OxiVerif.Base.Driver
import OxiVerif.Spec.C24Png
import OxiVerif.Model.C24
import OxiVerif.Model.C07Inflate
/-!
Driver for C24.  Request / answer formats: see `harness/src/bin/c24.rs`.

MODEL  = the model's prediction of the harness answer (`Image::from_*` → writer → reader view).
         For generated (un-mutated) PNG requests the file bytes are first re-validated against the
         reference encoder `Spec.C24Png` (chunk layout, CRC-32, filtering, Adam7, stored zlib,
         Adler-32); a file that is not the reference encoding of its description makes MODEL
         `harness-png-is-not-the-reference-encoding` (a broken tie, never silently accepted).
ORACLE = the pixels the embedded image (+ SMask) denotes under PDF image semantics
         (ISO 32000-1 §8.9.5: rows padded to bytes, `BitsPerComponent`-bit samples, colour space
         component count, SMask = alpha) equal the pixels of the description (what an
         independent PNG decoder delivers), sample values compared as fractions of their scale.
-/
open OxiVerif OxiVerif.C24
open OxiVerif.Spec.C24Png (Desc Pixel)

namespace C24Drv

def optHex? (s : String) : Option (Option (List Nat)) :=
  if s = "." then some none else (bytesOfHex? s).map some

def parseNats (s : String) : Option (List Nat) := (s.splitOn ",").mapM String.toNat?

def showView (v : StreamView) : String :=
  s!"{v.width} {v.height} {v.bpc} {v.cs} {v.filter} {hexField v.data}"

def showEmbedded (e : Embedded) : String :=
  let sm := match e.smask with
    | none => "none"
    | some m => s!"{m.width},{m.height},{m.bpc},{m.cs},{m.filter},{hexField m.data}"
  s!"ok XObject/Image {showView e.main} {sm}"

def showOutcome (o : Outcome Image) : String :=
  match o with
  | .err e => "err:create:" ++ e.name
  | .panic => "panic:attempt to multiply with overflow"
  | .ok img => showEmbedded img.embed

/-! parsing the implementation's answer -/

def parseView (w h bpc cs f d : String) : Option StreamView :=
  match w.toNat?, h.toNat?, bpc.toNat?, bytesOfHex? d with
  | some w, some h, some b, some d => some { width := w, height := h, bpc := b, cs := cs, filter := f, data := d }
  | _, _, _, _ => none

structure ImplOk where
  ty : String
  main : StreamView
  smask : Option StreamView

def parseImpl (impl : String) : Option ImplOk :=
  match impl.splitOn " " with
  | ["ok", ty, w, h, bpc, cs, f, d, sm] =>
    match parseView w h bpc cs f d with
    | none => none
    | some main =>
      if sm = "none" then some { ty := ty, main := main, smask := none }
      else match sm.splitOn "," with
        | [w, h, bpc, cs, f, d] => (parseView w h bpc cs f d).map fun m => { ty := ty, main := main, smask := some m }
        | _ => none
  | _ => none

/-! PDF image semantics -/

def ncompOf (cs : String) : Option Nat :=
  if cs = "DeviceGray" then some 1 else if cs = "DeviceRGB" then some 3
  else if cs = "DeviceCMYK" then some 4 else none

/-- samples of a stream view, row by row: `some (list of per-pixel sample lists)` -/
def viewSamples (v : StreamView) : Except String (List (List Nat)) :=
  match ncompOf v.cs with
  | none => .error "colorspace"
  | some n =>
    if ¬ (v.bpc ∈ [1, 2, 4, 8, 16]) then .error "bpc"
    else
      let rb := (v.width * n * v.bpc + 7) / 8
      if v.data.length ≠ v.height * rb then .error "data-length"
      else
        let rows := if rb = 0 then List.replicate v.height [] else Spec.C24Png.chunksOf rb v.height v.data
        .ok (rows.flatMap fun row =>
          Spec.C24Png.chunksOf n v.width (Spec.C24Png.samplesOfRow v.bpc (v.width * n) row))

def firstBad (f : α → β → Bool) : List α → List β → Nat → Option Nat
  | [], [], _ => none
  | a :: as, b :: bs, i => if f a b then firstBad f as bs (i + 1) else some i
  | _, _, i => some i

def colourEq (p : Pixel) (u : List Nat) (umax : Nat) : Bool :=
  if u.length = p.comps.length then
    (List.zip p.comps u).all fun (v, x) => v * umax == x * p.cmax
  else if p.comps.length = 1 ∧ u.length = 3 then
    u.all fun x => p.comps.headD 0 * umax == x * p.cmax
  else false

/-- compare expected pixels with what the embedded image denotes -/
def comparePixels (w h : Nat) (expected : List Pixel) (o : ImplOk) : String :=
  if o.ty ≠ "XObject/Image" then "fail:type"
  else if o.main.width ≠ w ∨ o.main.height ≠ h then "fail:dims"
  else
    match viewSamples o.main with
    | .error e => "fail:" ++ e
    | .ok px =>
      let umax := 2 ^ o.main.bpc - 1
      match firstBad (fun p u => colourEq p u umax) expected px 0 with
      | some i => s!"fail:pixel-mismatch@{i}"
      | none =>
        match o.smask with
        | none =>
          match firstBad (fun (p : Pixel) (_ : Unit) => p.alpha == p.amax) expected (expected.map fun _ => ()) 0 with
          | some i => s!"fail:alpha-mismatch:no-smask@{i}"
          | none => "ok"
        | some m =>
          if m.width ≠ w ∨ m.height ≠ h ∨ m.cs ≠ "DeviceGray" then "fail:smask-shape"
          else
            match viewSamples m with
            | .error e => "fail:smask-" ++ e
            | .ok al =>
              let amaxA := 2 ^ m.bpc - 1
              match firstBad (fun (p : Pixel) (a : List Nat) => p.alpha * amaxA == a.headD 0 * p.amax) expected al 0 with
              | some i => s!"fail:alpha-mismatch@{i}"
              | none => "ok"

def judge (w h : Nat) (expected : List Pixel) (impl : String) : String :=
  if impl.startsWith "err:create:" then "fail:rejected:" ++ (impl.drop 11).toString
  else if impl.startsWith "panic" then "fail:panic"
  else if impl.startsWith "abort" ∨ impl = "timeout" then "fail:crash"
  else if impl.startsWith "err:" then "fail:" ++ impl
  else match parseImpl impl with
    | none => "fail:unparsable-impl-answer"
    | some o => comparePixels w h expected o

/-! independent chunk reader with CRC check (used to pull the IDAT payload out of files whose
zlib stream was produced by flate2 and to re-validate the rest of the file) -/

def parseChunks : Nat → List Nat → Option (List (List Nat × List Nat))
  | 0, _ => none
  | fuel + 1, rest =>
    if rest.isEmpty then some []
    else if rest.length < 12 then none
    else
      let len := be32At rest 0
      let td := (rest.drop 4).take (4 + len)
      let crc := be32At (rest.drop (8 + len)) 0
      if td.length ≠ 4 + len ∨ (rest.drop (8 + len)).length < 4 ∨ Spec.C24Png.crc32 td ≠ crc then none
      else if td.take 4 = tagIEND then some [(td.take 4, td.drop 4)]
      else (parseChunks fuel (rest.drop (12 + len))).map fun cs => (td.take 4, td.drop 4) :: cs

def idatPayload (png : List Nat) : Option (List Nat) :=
  (parseChunks (png.length + 1) (png.drop 8)).map fun cs =>
    (cs.filter fun c => c.1 = tagIDAT).flatMap (·.2)

/-! raw buffers -/

def rawExpected (bpc ncomp w h : Nat) (data : List Nat) : Option (List Pixel) :=
  let rb := (w * ncomp * bpc + 7) / 8
  if data.length ≠ h * rb ∨ ¬ (bpc ∈ [1, 2, 4, 8, 16]) then none
  else
    let rows := if rb = 0 then List.replicate h [] else Spec.C24Png.chunksOf rb h data
    some (rows.flatMap fun row =>
      (Spec.C24Png.chunksOf ncomp w (Spec.C24Png.samplesOfRow bpc (w * ncomp) row)).map fun s =>
        { comps := s, cmax := 2 ^ bpc - 1, alpha := 1, amax := 1 })

def rgbaExpected (w h : Nat) (data : List Nat) : Option (List Pixel) :=
  if data.length ≠ w * h * 4 then none
  else some ((Spec.C24Png.chunksOf 4 (w * h) data).map fun s =>
    { comps := s.take 3, cmax := 255, alpha := s.getD 3 0, amax := 255 })

def handle0 (req impl : String) : String × String :=
  match req.splitOn " " with
  | ["png", _cfg, w, h, depth, ct, il, filters, plte, trns, splits, z, anc, mutl, rows, png] =>
    match w.toNat?, h.toNat?, depth.toNat?, ct.toNat?, il.toNat?, optHex? plte, optHex? trns,
          parseNats splits, bytesOfHex? rows, bytesOfHex? png with
    | some w, some h, some depth, some ct, some il, some plte, some trns, some splits, some rows, some png =>
      let stored : Option Nat := if z = "f" then none else (z.drop 1).toString.toNat?
      let d : Desc := { w := w, h := h, depth := depth, ct := ct, il := il,
                        filters := filters.toList.map (fun c => c.toNat - 48),
                        plte := plte, trns := trns, splits := splits, stored := stored,
                        anc := anc.toList, rows := rows }
      if mutl = "-" then
        -- generated file: must be the reference encoding of its description
        let refOk : Bool :=
          d.valid && (match stored with
            | some _ => d.encode == png
            | none => match idatPayload png with
              | some zp => d.encodeWith zp == png
              | none => false)
        if !refOk then ("harness-png-is-not-the-reference-encoding", "na")
        else
          let raw := d.filteredStream
          -- zlib: stored streams by the model's own stored-block inflater; streams compressed by
          -- flate2 by the RFC 1950/1951 inflate of `Model/C07Inflate.lean` (fixed and dynamic
          -- Huffman blocks), whose result must be the reference scanline stream
          let inflate : Inflate := fun zs =>
            match stored with
            | some _ => storedInflate zs
            | none => match OxiVerif.Inflate.zlibInflate zs with
              | some out => .ok out
              | none => .unknown
          let m := showOutcome (Image.fromPngData inflate png)
          if stored.isNone ∧ OxiVerif.Inflate.zlibInflate (idatPayload png |>.getD []) ≠ some raw then
            ("harness-idat-does-not-inflate-to-the-reference-scanlines", "na")
          else (m, judge w h d.expectedPixels impl)
      else
        -- mutated file: own stored-block inflater; where that cannot tell (compressed block
        -- types) the externally supplied result of flate2 on the IDAT payload
        let ext : InflRes := match mutl.splitOn ":" with
          | [_, "E"] => .fail
          | [_, hx] => match bytesOfHex? hx with
            | some b => .ok b
            | none => .unknown
          | _ => .unknown
        let inflate : Inflate := fun zs =>
          match storedInflate zs with
          | .unknown => ext
          | r => r
        (showOutcome (Image.fromPngData inflate png), "na")
    | _, _, _, _, _, _, _, _, _, _ => ("bad-request", "na")
  | ["raw", kind, _cfg, w, h, bpc, data] =>
    match w.toNat?, h.toNat?, bpc.toNat?, bytesOfHex? data with
    | some w, some h, some bpc, some data =>
      let direct (cs : ColorSpace) (n : Nat) : String × String :=
        (showOutcome (.ok (Image.fromRawData data w h cs bpc)),
         match rawExpected bpc n w h data with
         | some e => judge w h e impl
         | none => "na")
      if kind = "rgb" then direct .deviceRGB 3
      else if kind = "gray" then direct .deviceGray 1
      else if kind = "cmyk" then direct .deviceCMYK 4
      else if kind = "grayd" then
        (showOutcome (Image.fromGrayData data w h),
         if w * h < u32Max then
           match rawExpected 8 1 w h data with
           | some e => judge w h e impl
           | none => "na"
         else "na")
      else if kind = "rgba" then
        (showOutcome (Image.fromRgbaData data w h),
         if w * h * 4 < u32Max then
           match rgbaExpected w h data with
           | some e => judge w h e impl
           | none => "na"
         else "na")
      else ("bad-request", "na")
    | _, _, _, _ => ("bad-request", "na")
  | ["jpeg", _cfg, data] =>
    match bytesOfHex? data with
    | some data =>
      let m := showOutcome (Image.fromJpegData data)
      let o :=
        if impl.startsWith "err:create:" then "na"
        else match parseImpl impl with
          | none => "fail:unparsable-impl-answer"
          | some o =>
            if o.main.filter ≠ "DCTDecode" then "fail:jpeg-filter"
            else if o.main.data ≠ data then "fail:jpeg-bytes-changed"
            else if o.smask.isSome then "fail:jpeg-smask"
            else "ok"
      (m, o)
    | none => ("bad-request", "na")
  | _ => ("bad-request", "na")

/-- Where the oracle fails the run only consults the known-findings matchers; so that a listed
finding cannot hide *another* deviation on the same input, a model/implementation disagreement is
appended to the failure reason (the matchers are anchored and then no longer match). -/
def handle (req impl : String) : String × String :=
  let (m, o) := handle0 req impl
  if o.startsWith "fail" ∧ m ≠ impl then (m, o ++ ";model-differs") else (m, o)

end C24Drv

def main : IO Unit := runDriver C24Drv.handle
