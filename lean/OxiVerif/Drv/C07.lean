import OxiVerif.Base.Driver
import OxiVerif.Model.C08
import OxiVerif.Model.C08Wire
import OxiVerif.Spec.C07Codecs
import OxiVerif.Model.C07Inflate
import OxiVerif.Model.C07Ccitt
/-!
Driver for C07.  Request:

  `rt <filters> <parms> <encspec> <plain> <data> <ztab>`

`filters`, `parms`, `ztab`: see Model/C08Wire.lean (what the decoder sees).  `encspec` tells how the
harness's reference encoders produced `data` from `plain`, one entry per filter, joined by `|`:
  `hex:<U|L>:<E|N>:<every>:<A|P>`   case, EOD `>` present?, white space every n bytes (0 = none)
                                      from the ASCII set (A) or the PDF set incl. NUL (P)
  `a85:<Y|N>:<every>:<A|P>`         `<~` prefix?, white space
  `rl:<p>.<p>…`                      packets `L<hex>` / `R<n>x<byte hex>` (`rl:` = none)
  `lzw:<0|1>:<clearAt>:<pred>`      EarlyChange, Clear policy, predictor
  `fl:s<block>:<pred>` | `fl:f0:<pred>` | `fl:z<hex>:<pred>`   zlib stored blocks | one fixed-Huffman block of
                                      literals | bytes compressed by flate2
  pred = `n` | `p<t>,<t>,…` (PNG row filter types; Columns/Colors/BitsPerComponent from `parms`) | `t` (TIFF 2)

  `cc <K> <columns> <rows> <blackIs1> <data> <expected>`  hand-made CCITT vector (see docs/C07.md)

The driver (1) re-encodes `plain` with the Lean reference encoders (Spec/C07Codecs.lean) and demands
`data` byte for byte — so the Rust encoders are validated on every case; for `fl:z` it demands that
the inflate table maps the given bytes to the expected stage input; (2) answers with the model's
`decodeStream`; (3) oracle: the implementation's answer must be `ok:<plain>`.
-/
open OxiVerif OxiVerif.Flt OxiVerif.Codec

inductive PredSpec where
  | none
  | png (types : List Nat)
  | tiff

inductive StageSpec where
  | hex (upper eod : Bool) (every : Nat) (pdfWs : Bool)
  | a85 (pre : Bool) (every : Nat) (pdfWs : Bool)
  | rl (ps : List Packet)
  | lzw (early : Bool) (clearAt : Nat) (pred : PredSpec)
  | flStored (block : Nat) (pred : PredSpec)
  | flGiven (bytes : List Nat) (pred : PredSpec)
  | flFixed (pred : PredSpec)

def parsePred? (s : String) : Option PredSpec :=
  match s.toList with
  | ['n'] => some .none
  | ['t'] => some .tiff
  | 'p' :: r => ((String.ofList r).splitOn ",").mapM String.toNat? |>.map .png
  | _ => none

def parsePacket? (s : String) : Option Packet :=
  match s.toList with
  | 'L' :: r => (bytesOfHex? (String.ofList r)).map .lit
  | 'R' :: r =>
    match (String.ofList r).splitOn "x" with
    | [n, b] => match n.toNat?, bytesOfHex? b with
      | some n, some [b] => some (.run n b)
      | _, _ => none
    | _ => none
  | _ => none

def parseStage? (s : String) : Option StageSpec :=
  match s.splitOn ":" with
  | ["hex", c, e, ev, w] => ev.toNat?.map fun n => .hex (c == "U") (e == "E") n (w == "P")
  | ["a85", p, ev, w] => ev.toNat?.map fun n => .a85 (p == "Y") n (w == "P")
  | ["rl", ps] => if ps = "" then some (.rl []) else ((ps.splitOn ".").mapM parsePacket?).map .rl
  | ["lzw", e, c, p] => match c.toNat?, parsePred? p with
    | some c, some p => some (.lzw (e == "1") c p)
    | _, _ => none
  | ["fl", k, p] =>
    match k.toList, parsePred? p with
    | 's' :: r, some p => (String.ofList r).toNat?.map fun b => .flStored b p
    | 'z' :: r, some p => (bytesOfHex? (String.ofList r)).map fun b => .flGiven b p
    | 'f' :: _, some p => some (.flFixed p)
    | _, _ => none
  | _ => none

def applyPredEnc (pred : PredSpec) (d : Option Dict) (body : List Nat) : List Nat :=
  let dd := d.getD {}
  let columns := (dd.columns.asInt.getD 1).toNat
  let colors := (dd.colors.asInt.getD 1).toNat
  let bpc := (dd.bpc.asInt.getD 8).toNat
  match pred with
  | .none => body
  | .png types => pngEnc (rowBytes columns colors bpc) (pngBpp colors bpc) types body
  | .tiff => tiffEnc columns colors bpc body

/-- encode the input of stage `s`; `none` = the request is inconsistent (RunLength packets do not
expand to the stage input, or the given deflate bytes do not inflate to it) -/
def encStage (zt : ZTab) (s : StageSpec) (d : Option Dict) (x : List Nat) : Option (List Nat) :=
  match s with
  | .hex upper eod every pdfWs =>
    some (sprinkle every (if pdfWs then pdfWhiteSpace else asciiWhiteSpace)
      (hexEnc upper x ++ (if eod then [62] else [])))
  | .a85 pre every pdfWs =>
    some (sprinkle every (if pdfWs then pdfWhiteSpace else asciiWhiteSpace)
      ((if pre then [60, 126] else []) ++ a85Enc x ++ [126, 62]))
  | .rl ps => if rlExpand ps == x && ps.all Packet.valid then some (rlSerialize ps) else none
  | .lzw early clearAt pred => some (lzwEnc early clearAt (applyPredEnc pred d x))
  | .flStored block pred => some (zlibStored block (applyPredEnc pred d x))
  | .flFixed pred => some (zlibFixed (applyPredEnc pred d x))
  | .flGiven bytes pred =>
    match lookupL bytes zt.z with
    | some (some plain) => if plain == applyPredEnc pred d x then some bytes else none
    | _ => none

def encodeChain (zt : ZTab) (ps : ParmSpec) : Nat → List StageSpec → List Nat → Option (List Nat)
  | _, [], x => some x
  | i, s :: ss, x => (encodeChain zt ps (i + 1) ss x).bind (encStage zt s (filterParams ps i))

def hasTiff : List StageSpec → Bool
  | [] => false
  | .lzw _ _ .tiff :: _ => true
  | .flStored _ .tiff :: _ => true
  | .flGiven _ .tiff :: _ => true
  | .flFixed .tiff :: _ => true
  | _ :: r => hasTiff r

def hasNulWs : List StageSpec → Bool
  | [] => false
  | .hex _ _ (_ + 1) true :: _ => true
  | .a85 _ (_ + 1) true :: _ => true
  | _ :: r => hasNulWs r

/-- an ASCII85 stage written without `<~` whose first digit is `<` (the decoder takes it for the
start of a `<~` prefix and drops the following byte) -/
def leadingLt (zt : ZTab) (ps : ParmSpec) : Nat → List StageSpec → List Nat → Bool
  | _, [], _ => false
  | i, s :: ss, plain =>
    let here := match s, (encodeChain zt ps (i + 1) ss plain) with
      | .a85 false _ _, some x => (a85Enc x).head? == some 60
      | _, _ => false
    here || leadingLt zt ps (i + 1) ss plain

/-- the model's inflate: the Lean RFC 1950/1951 decoder; only when it gives up (malformed data, never
the case for C07's reference-encoded streams) the answer flate2 gave, carried in the request -/
def leanExt (zt : ZTab) : Ext where
  zlib x := match OxiVerif.Inflate.zlibInflate x with
    | some p => .ok (some p)
    | none => zt.ext.zlib x
  recover := zt.ext.recover

/-- every `z` entry of the request (flate2's answer) must be reproduced by the Lean inflate -/
def inflateAgrees (zt : ZTab) : Bool :=
  zt.z.all fun (k, v) => match v with
    | some p => OxiVerif.Inflate.zlibInflate k == some p
    | none => true

def handle (req impl : String) : String × String :=
  match req.splitOn " " with
  | ["rt", fT, pT, eT, plT, dT, zT] =>
    match parseFilters? fT, parseParms? pT, (eT.splitOn "|").mapM parseStage?, bytesOfHex? plT, bytesOfHex? dT with
    | some fs, some ps, some stages, some plain, some data =>
      match parseZTab? data zT with
      | none => ("bad-request", "na")
      | some zt =>
        let model := if inflateAgrees zt then showRes (decodeStream (leanExt zt) data fs ps) else "lean-inflate-differs-from-flate2"
        let oracle :=
          match encodeChain zt ps 0 stages plain with
          | none => "fail:harness-request-inconsistent"
          | some expected =>
            if expected != data then "fail:harness-encoder-differs-from-lean-reference"
            else if impl == "ok:" ++ hexField plain then "ok"
            else
              let why := (if hasTiff stages then ["tiff-predictor-not-decoded"] else []) ++
                (if hasNulWs stages then ["nul-white-space"] else []) ++
                (if leadingLt zt ps 0 stages plain then ["a85-leading-lt"] else [])
              let why := if why.isEmpty then ["unexplained"] else why
              let why := if impl != model then why ++ ["model-differs"] else why
              "fail:decoded-differs:" ++ "+".intercalate why
        (model, oracle)
    | _, _, _, _, _ => ("bad-request", "na")
  | ["cc", k, cols, rows, _, dT, want] =>
    -- CCITTFaxDecode: hand-made T.4/T.6 vectors, oracle = the hand-computed image.  Model: the G4 stub
    -- (`Ccitt.g4Decode`) for K = -1; the G3 decoder is not modelled (answer echoed).
    let oracle := if impl == "ok:" ++ want then "ok" else "fail:ccitt-hand-vector-differs"
    match k, cols.toNat?, rows.toNat?, bytesOfHex? dT with
    | "-1", some c, some r, some data => ("ok:" ++ hexField (OxiVerif.Ccitt.g4Decode (max c 1) r data), oracle)
    | _, _, _, _ => (impl, oracle)
  | _ => ("bad-request", "na")

def main : IO Unit := runDriver handle
