import OxiVerif.Base.Driver
import OxiVerif.Model.C04
/-!
Driver for C04.  Request (see harness/src/bin/c04.rs):
  `h <mode> <damage> <rev;rev;…> <num.gen,…>`
MODEL  = what the model of the merge + dispatch answers for every queried object
ORACLE = the implementation's answers against §7.5.6 ("the newest section that mentions the number
         decides; free ⇒ null"), evaluated by `specResolve` on the same plan.
-/
open OxiVerif OxiVerif.C04

structure Rev where
  kind : Char            -- 'c' | 's' | 'z' | 'h' | 'y'
  xnum : Nat
  objs : List Phys
  ents : Sect
  hents : Sect := []                    -- entries of the /XRefStm stream (h / y)
  prev : Option (Option Nat) := none    -- `@k` / `@-`

def splitAt? (s : String) (seps : List Char) : Option (String × Char × String) :=
  let cs := s.toList
  match cs.span (fun c => !seps.contains c) with
  | (a, c :: b) => some (String.ofList a, c, String.ofList b)
  | _ => none

def parseItems (s : String) : Option (List (Nat × Nat)) :=
  if s = "" then some [] else
  (s.splitOn "_").mapM fun t =>
    match t.splitOn "~" with
    | [a, b] => match a.toNat?, b.toNat? with
      | some x, some y => some (x, y)
      | _, _ => none
    | _ => none

def parseObj (s : String) : Option Phys :=
  match s.splitOn "." with
  | num :: rest =>
    let rest := ".".intercalate rest
    match num.toNat?, splitAt? rest ['v', 'o', 'z'] with
    | some n, some (g, c, tail) =>
      match g.toNat? with
      | some g =>
        if c = 'v' then tail.toNat?.map fun v => ⟨n, g, .val v⟩
        else (parseItems tail).map fun it => ⟨n, g, .objstm it⟩
      | none => none
    | _, _ => none
  | _ => none

def parseEnt (s : String) : Option (Nat × Ent) :=
  match splitAt? s ['f', 'n', 'c'] with
  | some (num, c, tail) =>
    match num.toNat?, tail.splitOn "." with
    | some n, [a, b] =>
      match a.toNat?, b.toNat? with
      | some x, some y =>
        some (n, if c = 'f' then .free x y else if c = 'n' then .inuse x y else .comp x y)
      | _, _ => none
    | _, _ => none
  | none => none

def parseL {α} (s : String) (sep : String) (f : String → Option α) : Option (List α) :=
  if s = "." ∨ s = "" then some [] else (s.splitOn sep).mapM f

def hasComp (es : Sect) : Bool :=
  es.any (fun e => match e.2 with | .comp _ _ => true | _ => false)

def parseRev (s : String) : Option Rev :=
  match s.splitOn ":" with
  | [xkp, objs, ents] =>
    let (xk, prevS) : String × Option String := match xkp.splitOn "@" with
      | [a, b] => (a, some b)
      | _ => (xkp, none)
    let prev? : Option (Option (Option Nat)) := match prevS with
      | none => some none
      | some "-" => some (some none)
      | some t => t.toNat?.map fun k => some (some k)
    match xk.toList, prev? with
    | k :: r, some prev =>
      let xnum := (String.ofList r).toNat?
      let hyb := k = 'h' ∨ k = 'y'
      if (xkp.splitOn "@").length > 2 then none else
      if (k = 'c' ∧ r = []) ∨ ((k = 's' ∨ k = 'z' ∨ hyb) ∧ xnum.isSome) then
        let (tabS, stmS?) : String × Option String := match ents.splitOn "/" with
          | [a, b] => (a, some b)
          | _ => (ents, none)
        if hyb ≠ stmS?.isSome ∨ (ents.splitOn "/").length > 2 then none else
        match parseL objs "+" parseObj, parseL tabS "+" parseEnt, parseL (stmS?.getD ".") "+" parseEnt with
        | some os, some es, some hs =>
          if (k = 'c' ∨ hyb) ∧ hasComp es then none
          else some ⟨k, xnum.getD 0, os, es, hs, prev⟩
        | _, _, _ => none
      else none
    | _, _ => none
  | _ => none

def parseQuery (s : String) : Option (Nat × Nat) :=
  match s.splitOn "." with
  | [a, b] => match a.toNat?, b.toNat? with
    | some x, some y => some (x, y)
    | _, _ => none
  | _ => none

/-- physical objects in file order: a revision's objects, then its cross-reference stream -/
def physOf (revs : List Rev) : List Phys :=
  revs.flatMap fun r => r.objs ++ (if r.kind = 'c' then [] else [⟨r.xnum, 0, .xrefstm⟩])

def showRes : Res → String
  | .null => "null"
  | .val v => s!"v{v}"
  | .stream _ => "stm"
  | .err .ref => "err:ref"
  | .err .syn => "err:syn"
  | .err .key => "err:key"
  | .manual => "manual"

def showSRes : SRes → String
  | .null => "null"
  | .val v => s!"v{v}"
  | .stream _ => "stm"
  | _ => "?"

def isComp : Option Ent → Bool
  | some (.comp _ _) => true
  | _ => false

/-- what the stale compressed copy of `n` would read as -/
def staleCopy (chain : List Sect) (ph : List Phys) (fuel n : Nat) : Option String :=
  match firstComp chain n with
  | some (stm, _) =>
    match specResolve chain ph fuel stm 0 with
    | .stream (some items) => (lookupLast items n).map fun v => s!"v{v}"
    | _ => none
  | none => none

/-- value of the last physical top-level definition of `n` -/
def lastPhysical (ph : List Phys) (n : Nat) : Option String :=
  match (ph.filter (·.num = n)).getLast? with
  | some p => some (showRes (bodyRes p.body))
  | none => none

/-- the plan is a valid file: no number twice in a section, every in-use entry points at an object
    with that number and generation, every compressed entry names a slot of a (resolvable) object
    stream that holds that number.  The property speaks about valid histories only. -/
def nodupNums : List Nat → Bool
  | [] => true
  | x :: r => !r.contains x && nodupNums r

def wfPlan (chain : List Sect) (ph : List Phys) : Bool :=
  chain.all fun s =>
    nodupNums (s.map (·.1)) &&
    s.all fun (n, e) =>
      match e with
      | .free _ _ => true
      | .inuse off gen =>
        (match ph[off]? with
         | some p => p.num = n && p.gen = gen
         | none => false)
      | .comp stm idx =>
        (match specResolve chain ph (ph.length + 2) stm 0 with
         | .stream (some items) =>
           (match items[idx]? with
            | some (m, _) => m = n
            | none => false) && nodupNums (items.map (·.1))
         | _ => false)

def dedup (xs : List String) : List String :=
  xs.foldl (fun acc x => if acc.contains x then acc else acc ++ [x]) []

def handle (req impl : String) : String × String :=
  match req.splitOn " " with
  | ["h", mode, dmg, revs, qs] =>
    match parseL revs ";" parseRev, parseL qs "," parseQuery with
    | some revs, some qs =>
      if ¬ (mode = "strict" ∨ mode = "default") ∨ ¬ (dmg = "none" ∨ dmg = "nosx" ∨ dmg = "badsx") then
        ("bad-request", "na")
      else
      if revs.any (fun r => match r.prev with | some (some k) => k ≥ revs.length | _ => false) then
        ("bad-request", "na")
      else
      let ph := physOf revs
      -- the /Prev walk from the newest section (the one `startxref` names)
      let prevOf : Nat → Option Nat := fun i =>
        match revs[i]? with
        | some r => (match r.prev with
          | none => if i = 0 then none else some (i - 1)
          | some p => p)
        | none => none
      let order := if revs.isEmpty then [] else walkPrev prevOf (revs.length + 1) (revs.length - 1) []
      -- a walk that ended at a section seen before is a /Prev loop: not a valid file
      let looped : Bool := match order.getLast? with
        | some l => (match prevOf l with | some p => order.contains p | none => false)
        | none => false
      let redirected : Bool := revs.any (·.prev.isSome)
      -- what the code merges / what §7.5.6 + §7.5.8.4 prescribe (newest first)
      let chainImpl := order.filterMap fun i => revs[i]?.map fun r => hybridSectImpl r.ents r.hents
      let chain := order.filterMap fun i => revs[i]?.map fun r =>
        if r.kind = 'h' ∨ r.kind = 'y' then hybridSect r.ents r.hents else r.ents
      let hybridHidden : Bool := revs.any fun r => !r.hents.isEmpty
      let fuel := ph.length + 2
      let recovery := dmg ≠ "none"
      if recovery ∧ mode = "strict" then
        -- recovery disabled: the open fails, the property does not speak
        ("open-err:xref", "na")
      else
      let table := if recovery then addHeadersLatestWins Table.empty (headersOf ph) false
                   else merge chainImpl
      let model0 := qs.map fun (n, g) => showRes (load table ph fuel n g)
      -- `manual` = the reader's whole-file text search for a number of its hard-wired list that no
      -- merged section mentions but that is physically present (orphaned / hidden objects): outside
      -- the model, the implementation's answer is taken over at these positions (the ORACLE still
      -- judges them)
      let implMain := ((impl.splitOn "!").headD "").splitOn ","
      let model := if implMain.length = model0.length then
          (List.zip model0 implMain).map fun (m, i) => if m = "manual" then i else m
        else model0
      let modelS := if model.isEmpty then "." else ",".intercalate model
      -- IMPL = answers in the given order, then `!<order>:<answers>` for every order of asking
      -- (on one reader) that answered differently
      let implParts := impl.splitOn "!"
      let mainS := implParts.headD ""
      let extras : List (String × String) := implParts.tail.map fun e =>
        match e.splitOn ":" with
        | name :: rest => (name, ":".intercalate rest)
        | [] => ("?", "")
      let lists : List (String × List String) :=
        ("given", mainS.splitOn ",") :: extras.map fun (nm, l) => (nm, l.splitOn ",")
      if ¬ wfPlan chain ph ∨ looped = true ∨ (recovery ∧ redirected = true) then (modelS, "na") else
      if ¬ (revs.all fun r => nodupNums (r.ents.map (·.1)) ∧ nodupNums (r.hents.map (·.1))) then (modelS, "na") else
      if lists.any (fun l => l.2.length ≠ qs.length) ∨ impl.startsWith "open-err" then
        (modelS, "fail:other the file does not open / answer count differs")
      else
      let verdicts := lists.flatMap fun (oname, implL) =>
       (List.zip qs implL).map fun ((n, g), got) =>
        let spec := specResolve chain ph fuel n g
        let nw := newest chain n
        let tag := if oname = "given" then "" else s!" order={oname}"
        match spec with
        | .absent | .genMismatch | .illformed => ("skip", "")
        | _ =>
          let want := showSRes spec
          if recovery ∧ spec = SRes.null then ("skip", "")   -- free-ness lives only in the damaged data
          else if got = want then ("ok", "")
          else if oname ≠ "given" ∧ oname ≠ "fresh" ∧ ¬ recovery then
            -- the given order may be right and another order of asking the same reader is not:
            -- the answer depends on what the reader was asked before
            ("answer-depends-on-order", s!"obj={n} got={got} want={want}{tag}")
          else if ¬ recovery ∧ hybridHidden = true ∧ newest chainImpl n ≠ nw then
            -- the newest definition is only reachable through a /XRefStm stream
            ("xrefstm-of-hybrid-file-ignored", s!"obj={n} got={got} want={want}{tag}")
          else if ¬ recovery ∧ ¬ isComp nw ∧ staleCopy chain ph fuel n = some got then
            ("stale-compressed-copy-wins", s!"obj={n} got={got} want={want}{tag}")
          else if recovery ∧ isComp nw ∧
              (got = "null" ∨ got = "err:ref" ∨ lastPhysical ph n = some got) then
            ("recovery-skips-object-streams", s!"obj={n} got={got} want={want}{tag}")
          else ("other", s!"obj={n} got={got} want={want}{tag}")
      let bad := verdicts.filter fun v => v.1 ≠ "ok" ∧ v.1 ≠ "skip"
      if bad.isEmpty then
        (modelS, if verdicts.any (·.1 = "ok") then "ok" else "na")
      else
        let classes := dedup (bad.map (·.1))
        (modelS, "fail:" ++ "+".intercalate classes ++ " " ++ (bad.head?.map (·.2)).getD "")
    | _, _ => ("bad-request", "na")
  | _ => ("bad-request", "na")

def main : IO Unit := runDriver handle
