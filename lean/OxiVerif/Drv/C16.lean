import OxiVerif.Base.Driver
import OxiVerif.Model.C18Parse
import OxiVerif.Spec.C18
import OxiVerif.Model.C16
/-!
Driver for C16.  Request / answer formats: see `harness/src/bin/c16.rs`.

MODEL  = `Model/C16.lean` (transcription of the operations, of `Page::from_parsed_with_content`
         and of what the writer makes of the copied page) run on the source pages that the C18
         model extracts from the described document.
ORACLE = the property's spec side evaluated on the implementation's answer: the source pages
         come from the independent strict top-down traversal (`Spec/C18.lean`), the expected
         selection / permutation is written out directly per operation, and each output page
         (as read by the strict reference reader) must have the source page's MediaBox and
         CropBox, its /Rotate plus the requested angle modulo 360, its decoded content, its
         resource categories; the library's own reader must see the same as the strict reader.
         Requests with invalid parameters (out-of-range index, empty selection, bad angle …)
         are `na`.
-/
open OxiVerif OxiVerif.C18 OxiVerif.C16

/-! ### request parsing -/

def parseNatList (s : String) : Option (List Nat) :=
  if s = "-" then some [] else (s.splitOn ",").mapM String.toNat?

/-- `none` = malformed request; `some none` = `PageRange::parse` rejects the text -/
def parseRangeTok (s : String) : Option (Option PageRange) :=
  if s = "all" then some (some .all) else
  match s.toList with
  | 's' :: r => (String.ofList r).toNat?.map fun i => some (.single i)
  | 'r' :: r => match (String.ofList r).splitOn "-" with
    | [a, b] => match a.toNat?, b.toNat? with
      | some x, some y => some (some (.range x y))
      | _, _ => none
    | _ => none
  | 'l' :: r => if r.isEmpty then some (some (.list [])) else
      ((String.ofList r).splitOn ",").mapM String.toNat? |>.map fun l => some (.list l)
  | 'p' :: r => some (parseRange (String.ofList (r.map fun c => if c = '_' then ' ' else c)))
  | _ => none

def parseIntTok (s : String) : Option Int :=
  match s.toList with
  | '-' :: r => (String.ofList r).toNat?.map fun n => -(Int.ofNat n)
  | _ => s.toNat?.map Int.ofNat

/-- ranges of a `;` list: malformed → none; any rejected by `PageRange::parse` → `some none` -/
def parseRanges (s : String) : Option (Option (List PageRange)) :=
  match (s.splitOn ";").mapM parseRangeTok with
  | none => none
  | some rs => some (rs.mapM id)

inductive Op where
  | split (m : SplitMode)
  | splitmerge (m : SplitMode)
  | merge (rs : List PageRange)
  | extractPage (i : Nat) | extractPages (l : List Nat) | extractRange (r : PageRange)
  | reorder (l : List Nat) | reverse | swap (a b : Nat) | move (a b : Nat)
  | rotate (r : PageRange) (deg : Int)
  | rotate2 (r1 : PageRange) (d1 : Int) (r2 : PageRange) (d2 : Int)
  | rangeError            -- a `p…` range text rejected by `PageRange::parse`

def parseSplitMode (args : List String) : Option (Option SplitMode) :=
  match args with
  | ["single"] => some (some .single)
  | ["chunk", n] => n.toNat?.map fun k => some (.chunk k)
  | ["at", l] => (parseNatList l).map fun pts => some (.at pts)
  | ["ranges", rs] => (parseRanges rs).map fun o => o.map .ranges
  | _ => none

def parseOp (s : String) : Option Op :=
  match s.splitOn " " with
  | "split" :: rest => (parseSplitMode rest).map fun o => match o with
    | some m => .split m | none => .rangeError
  | "splitmerge" :: rest => (parseSplitMode rest).map fun o => match o with
    | some m => .splitmerge m | none => .rangeError
  | ["merge", rs] => (parseRanges rs).map fun o => match o with
    | some l => .merge l | none => .rangeError
  | ["extract", "page", i] => i.toNat?.map .extractPage
  | ["extract", "pages", l] => (parseNatList l).map .extractPages
  | ["extract", "range", r] => (parseRangeTok r).map fun o => match o with
    | some x => .extractRange x | none => .rangeError
  | ["reorder", l] => (parseNatList l).map .reorder
  | ["reverse"] => some .reverse
  | ["swap", a, b] => match a.toNat?, b.toNat? with
    | some x, some y => some (.swap x y) | _, _ => none
  | ["move", a, b] => match a.toNat?, b.toNat? with
    | some x, some y => some (.move x y) | _, _ => none
  | ["rotate", r, d] => match parseRangeTok r, parseIntTok d with
    | some (some x), some dd => some (.rotate x dd)
    | some none, some _ => some .rangeError
    | _, _ => none
  | ["rotate2", r1, d1, r2, d2] => match parseRangeTok r1, parseIntTok d1, parseRangeTok r2, parseIntTok d2 with
    | some (some x), some a, some (some y), some b => some (.rotate2 x a y b)
    | some none, some _, some _, some _ => some .rangeError
    -- the harness parses r2 only after the first rotation succeeded; handled in `runModel`
    | some (some x), some a, some none, some _ => some (.rotate2 x a (.list [0, 0]) 12345)
    | _, _, _, _ => none
  | _ => none

/-! ### model side -/

def showOut (o : Out) : String :=
  s!"m={showInts o.mediaBox} c={match o.cropBox with | some b => showInts b | none => "-"} r={o.rotation} z={if o.res.isEmpty then "-" else "+".intercalate o.res} k={if o.content = "" then "-" else o.content}"

def showDoc (d : List Out) : String := "[" ++ ";".intercalate (d.map showOut) ++ "] lib=same"

def showErr : Err → String
  | .oob => "err:oob" | .range => "err:range" | .nopages => "err:nopages"
  | .rotation => "err:rotation" | .parse => "err:parse"

def showOutcome (o : Outcome (List (List Out))) : String :=
  match o with
  | .ok docs => "ok " ++ " / ".intercalate (docs.map showDoc)
  | .err e => showErr e
  | .panic => "panic"

def one (o : Outcome (List Out)) : Outcome (List (List Out)) :=
  match o with
  | .ok d => .ok [d]
  | .err e => .err e
  | .panic => .panic

def rotateDeg (ps : List Src) (r : PageRange) (deg : Int) : Outcome (List Out) :=
  match fromDegrees deg with
  | none => .err .rotation
  | some a => rotate ps r a

def runModel (ps : List Src) (op : Op) : Outcome (List (List Out)) :=
  match op with
  | .rangeError => .err .range
  | .split m => split ps m
  | .splitmerge m =>
    match split ps m with
    | .ok parts => one (merge (parts.map fun d => (d.map reread, PageRange.all)))
    | .err e => .err e
    | .panic => .panic
  | .merge rs => one (merge (rs.map fun r => (ps, r)))
  | .extractPage i => one (extractPage ps i)
  | .extractPages l => one (extractPages ps l)
  | .extractRange r => one (extractPageRange ps r)
  | .reorder l => one (reorder ps l)
  | .reverse => one (reverse ps)
  | .swap a b => one (swap ps a b)
  | .move a b => one (move ps a b)
  | .rotate r d => one (rotateDeg ps r d)
  | .rotate2 r1 d1 r2 d2 =>
    match rotateDeg ps r1 d1 with
    | .ok mid => if d2 = 12345 then .err .range else one (rotateDeg (mid.map reread) r2 d2)
    | .err e => .err e
    | .panic => .panic

/-! ### specification side -/

structure SpecPage where
  mb : Option (List Int)
  cb : Option (List Int)
  rot : Int
  res : List String
  content : String      -- streams joined by a newline, trailing newlines removed

def stripNlRev : List Char → List Char
  | 'a' :: '0' :: r => stripNlRev r
  | r => r

/-- remove trailing newline bytes (`0a`) of a hex text -/
def stripNl (s : String) : String := String.ofList (stripNlRev s.toList.reverse).reverse

def specStreams (g : Graph) (d : Dict) : Option (List String) :=
  match d.contentsRef with
  | none => if d.contents then none else some []
  | some n => match g.get n with
    | .stream h => some [h]
    | .arr es => es.mapM fun e => match e with
      | .ref m => match g.get m with
        | .stream h => some h
        | _ => none
      | .junk => none
    | _ => none

def specPages (r : Req) : Option (List SpecPage) :=
  let n := r.g.length
  match specNode r.g (2 * (n + totalKids r.g) + 4) r.root none {} [] with
  | none => none
  | some (ps, _) => ps.mapM fun p =>
      match r.g.get p.id with
      | .dict d => (specStreams r.g d).map fun ss =>
          { mb := p.mb, cb := p.cb, rot := p.rot, res := (p.res.getD []),
            content := stripNl ("0a".intercalate ss) }
      | _ => none

/-- expected output: per document, per page: (index of the source page, angle added) -/
abbrev Expect := List (List (Nat × Int))

def idxOk (n : Nat) (l : List Nat) : Bool := l.all (· < n)

def rangeSel (n : Nat) : PageRange → Option (List Nat)
  | .all => some (List.range n)
  | .single i => if i < n then some [i] else none
  | .range a b => if a ≤ b ∧ b < n then some ((List.range n).filter fun i => a ≤ i ∧ i ≤ b) else none
  | .list l => if idxOk n l then some l else none

def chunksOf (k : Nat) : Nat → List Nat → List (List Nat)
  | 0, _ => []
  | _, [] => []
  | fuel + 1, l => l.take k :: chunksOf k fuel (l.drop k)

def strictlyIncreasing : List Nat → Bool
  | a :: b :: r => a < b && strictlyIncreasing (b :: r)
  | _ => true

/-- cut `0..n` before each point -/
def cutAt (n : Nat) (pts : List Nat) : List (List Nat) :=
  let bounds := 0 :: pts ++ [n]
  (bounds.zip (bounds.drop 1)).map fun (a, b) => (List.range n).filter fun i => a ≤ i ∧ i < b

def plain (l : List Nat) : List (Nat × Int) := l.map fun i => (i, 0)

def specSplit (n : Nat) : SplitMode → Option (List (List Nat))
  | .single => some ((List.range n).map fun i => [i])
  | .chunk k => if k = 0 then none else some (chunksOf k n (List.range n))
  | .at pts => if strictlyIncreasing pts && pts.all (fun p => 0 < p ∧ p < n) then some (cutAt n pts) else none
  | .ranges rs => match rs.mapM (rangeSel n) with
    | some sels => if sels.all (fun s => !s.isEmpty) then some sels else none
    | none => none

def normDeg (d : Int) : Option Int := if d % 90 = 0 then some (d % 360) else none

def expect (n : Nat) : Op → Option Expect
  | .rangeError => none
  | .split m => if n = 0 then none else (specSplit n m).map fun docs => docs.map plain
  | .splitmerge m => if n = 0 then none else (specSplit n m).bind fun docs =>
      -- "merging the parts of a split document gives back the original page sequence":
      -- stated for splits that partition the document
      if docs.flatten = List.range n then some [plain (List.range n)] else some [plain docs.flatten]
  | .merge rs => (rs.mapM (rangeSel n)).map fun sels => [plain sels.flatten]
  | .extractPage i => if i < n then some [plain [i]] else none
  | .extractPages l => if idxOk n l ∧ !l.isEmpty then some [plain l] else none
  | .extractRange r => (rangeSel n r).bind fun l => if l.isEmpty then none else some [plain l]
  | .reorder l => if idxOk n l ∧ !l.isEmpty ∧ n > 0 then some [plain l] else none
  | .reverse => if n = 0 then none else some [plain (List.range n).reverse]
  | .swap a b => if a < n ∧ b < n then
      some [plain ((List.range n).map fun i => if i = a then b else if i = b then a else i)] else none
  | .move a b => if a < n ∧ b < n then
      let rest := (List.range n).filter (· != a)
      some [plain (rest.take b ++ [a] ++ rest.drop b)] else none
  | .rotate r d => match rangeSel n r, normDeg d with
    | some sel, some a => some [(List.range n).map fun i => (i, if sel.contains i then a else 0)]
    | _, _ => none
  | .rotate2 r1 d1 r2 d2 => match rangeSel n r1, normDeg d1, rangeSel n r2, normDeg d2 with
    | some s1, some a1, some s2, some a2 =>
      some [(List.range n).map fun i => (i, (if s1.contains i then a1 else 0) + (if s2.contains i then a2 else 0))]
    | _, _, _, _ => none

structure IPage where
  m : String
  c : String
  r : Int
  z : List String
  k : String

def fieldOf (toks : List String) (pre : String) : Option String :=
  (toks.find? fun t => pre.toList.isPrefixOf t.toList).map fun t => String.ofList (t.toList.drop pre.length)

def parseIPage (s : String) : Option IPage :=
  let toks := s.splitOn " "
  match fieldOf toks "m=", fieldOf toks "c=", fieldOf toks "r=", fieldOf toks "z=", fieldOf toks "k=" with
  | some m, some c, some r, some z, some k =>
    (parseIntTok r).map fun ri =>
      { m := m, c := c, r := ri, z := if z = "-" ∨ z = "none" then [] else z.splitOn "+", k := if k = "-" then "" else k }
  | _, _, _, _, _ => none

/-- `[p;p;…] lib=same` -/
def parseIDoc (s : String) : Except String (List IPage) :=
  match s.splitOn "] lib=" with
  | [body, lib] =>
    if lib != "same" then .error "library-reader-and-strict-reader-disagree"
    else
      let inner := String.ofList (body.toList.drop 1)
      if inner = "" then .ok [] else
      match (inner.splitOn ";").mapM parseIPage with
      | some ps => .ok ps
      | none => .error "unparsable-page"
  | _ => .error ("output-not-readable:" ++ String.ofList (s.toList.take 60))

/-- geometry tags, checked last so that any other deviation is reported first -/
def checkPage (sp : SpecPage) (angle : Int) (ip : IPage) : Except String (List String) := do
  if stripNl ip.k != sp.content then throw "content-differs"
  if (ip.r - (sp.rot + angle)) % 360 != 0 then throw s!"rotation-{ip.r}-expected-{(sp.rot + angle) % 360}"
  if !(sp.res.all fun k => ip.z.contains k) then throw "resource-category-lost"
  if !(ip.z.all fun k => k = "Font" || sp.res.contains k) then throw "resource-category-invented"
  let mut tags : List String := []
  match sp.mb with
  | some mb =>
    if ip.m != showInts mb then
      let shifted := [0, 0, mb.getD 2 0 - mb.getD 0 0, mb.getD 3 0 - mb.getD 1 0]
      if ip.m = showInts shifted ∧ (mb.getD 0 0 != 0 ∨ mb.getD 1 0 != 0) then
        tags := tags ++ ["mediabox-origin-lost"]
      else throw s!"mediabox-{ip.m}-expected-{showInts mb}"
  | none => pure ()
  match sp.cb with
  | some cb =>
    if ip.c = "-" then tags := tags ++ ["cropbox-dropped"]
    else if ip.c != showInts cb then throw s!"cropbox-{ip.c}-expected-{showInts cb}"
  | none => if ip.c != "-" then throw "cropbox-invented"
  return tags

def mergeTags (a b : List String) : List String := b.foldl (fun acc t => if acc.contains t then acc else acc ++ [t]) a

def checkDocs (spec : List SpecPage) : Expect → List String → Except String (List String)
  | [], [] => .ok []
  | e :: es, d :: ds => do
    let ips ← parseIDoc d
    if ips.length != e.length then throw s!"document-has-{ips.length}-pages-expected-{e.length}"
    let mut tags : List String := []
    for ((i, a), ip) in e.zip ips do
      match spec[i]? with
      | none => throw "spec-index"
      | some sp =>
        let t ← checkPage sp a ip
        tags := mergeTags tags t
    let rest ← checkDocs spec es ds
    return mergeTags tags rest
  | es, ds => .error s!"{ds.length}-documents-expected-{es.length}"

def oracle (r : Req) (op : Op) (impl : String) : String :=
  match specPages r with
  | none => "na"
  | some spec =>
    match expect spec.length op with
    | none => "na"
    | some e =>
      if !("ok ".toList.isPrefixOf impl.toList) then
        "fail:valid-request-answered-" ++ String.ofList (impl.toList.take 40)
      else
        let docs := (String.ofList (impl.toList.drop 3)).splitOn " / "
        match checkDocs spec e docs with
        | .error m => "fail:" ++ m
        | .ok [] => "ok"
        | .ok tags => "fail:geometry:" ++ ",".intercalate (["mediabox-origin-lost", "cropbox-dropped"].filter tags.contains)

def handle (req impl : String) : String × String :=
  match req.splitOn " # " with
  | [ops, tree] =>
    match parseOp ops, parseReq tree with
    | some op, some r =>
      let model := match (r.g.get r.root).asDict with
        | none => "root-not-dict"
        | some root => match srcPages r.g root with
          | none => "err:parse"
          | some ps => showOutcome (runModel ps op)
      (model, oracle r op impl)
    | _, _ => ("bad-request", "na")
  | _ => ("bad-request", "na")

def main : IO Unit := runDriver handle
