import OxiVerif.Base.Driver
import OxiVerif.Model.C13
import OxiVerif.Spec.C13Read
/-!
Driver for C13.  Request `emb <api> <font>:<cps>[/<font>:<cps>…]`; implementation answer
`lib=<cps>;show=<hex strings>;tu=<ToUnicode streams>;w=</W arrays>;facts=<original font facts>;file=<hex>`.

MODEL  = the library extractor's text (`libSegment` per line), the shown hexadecimal strings (`showHex`),
         the bytes of every ToUnicode stream (`renderCMap (usedBmp texts)`), the bytes of every `/W` array
         (`renderW` over ⌊advance·1000/upem⌋ of the original font's advances); `facts`/`file` echoed.
ORACLE = the property, evaluated on the FILE by an independent reader (`Spec.C10File` + `Spec.C13Read`):
  (a) extraction: page 1 content stream → `Tf`/`Tj` → 2-byte codes (Identity-H) → the font's /ToUnicode
      CMap read per §9.10.3 → UTF-16 → must equal the authored string of every segment; the library's own
      `TextExtractor` text must equal the segments joined by line feeds;
  (b) widths: the `/W` (else `/DW`) entry of every used CID equals advance·1000/unitsPerEm of the ORIGINAL
      font (facts; floor or ceiling accepted = "the writer's rounding");
  (c) glyphs (TrueType): `/CIDToGIDMap` sends every shown CID to a glyph id that exists in the embedded
      `FontFile2` (`< maxp.numGlyphs`, not `.notdef`), whose `hmtx` advance is the original glyph's, distinct
      glyphs staying distinct.  OpenType/CFF: only that a non-empty `FontFile3` is embedded (partial).
  Also reported: a `bfrange` whose destination's last byte overflows (§9.10.3 "shall be ≤ 255 − (hi − lo)").
-/
open OxiVerif OxiVerif.C13 OxiVerif.PdfFile OxiVerif.C13Read
open OxiVerif.Spec.Syntax (Obj CTok)

namespace C13Drv

def hexNatChars : List Char → Nat → Option Nat
  | [], acc => some acc
  | c :: r, acc => match hexVal? c with
    | some v => hexNatChars r (acc * 16 + v)
    | none => none
def hexNat? (s : String) : Option Nat := if s.isEmpty then none else hexNatChars s.toList 0
def toHex (n : Nat) : String := String.ofList (Nat.toDigits 16 n)
def parseCps (s : String) : Option (List Nat) := if s == "-" then some [] else (s.splitOn ".").mapM hexNat?
def showCps (l : List Nat) : String := if l.isEmpty then "-" else ".".intercalate (l.map toHex)
def bstr (s : String) : List Nat := s.toUTF8.toList.map (·.toNat)
def sOf (b : List Nat) : String := String.ofList (b.map Char.ofNat)

structure FontFacts where
  name : String
  upem : Nat
  numGlyphs : Nat
  chars : List (Nat × Nat × Nat)     -- code point, original gid, advance
  deriving Repr

def parseFacts (s : String) : Option (List FontFacts) :=
  (s.splitOn "|").mapM fun f =>
    match f.splitOn "=" with
    | [name, body] =>
      match body.splitOn "," with
      | u :: n :: items =>
        match u.toNat?, n.toNat?, items.mapM (fun it => match it.splitOn "-" with
            | [c, g, a] => match hexNat? c, g.toNat?, a.toNat? with
              | some c, some g, some a => some (c, g, a)
              | _, _, _ => none
            | _ => none) with
        | some u, some n, some cs => some { name, upem := u, numGlyphs := n, chars := cs }
        | _, _, _ => none
      | _ => none
    | _ => none

/-- (api `t`/`g`, page, font, text); with api `mix` every segment is `<t|g><page>@<font>:<cps>` -/
abbrev Seg := Char × Nat × String × List Nat

def parseSegs (api : String) (s : String) : Option (List Seg) :=
  (s.splitOn "/").mapM fun seg =>
    let hdr : Option (Char × Nat × String) :=
      if api == "mix" then
        match seg.splitOn "@" with
        | [pre, rest] => match pre.toList with
          | [a, d] => if (a == 't' || a == 'g') && d.isDigit then some (a, d.toNat - 48, rest) else none
          | _ => none
        | _ => none
      else if api == "text" then some ('t', 0, seg) else if api == "gfx" then some ('g', 0, seg) else none
    match hdr with
    | some (a, pg, rest) =>
      match rest.splitOn ":" with
      | [f, cps] => (parseCps cps).map fun c => (a, pg, f, c)
      | _ => none
    | none => none

def Seg.font (x : Seg) : String := x.2.2.1
def Seg.text (x : Seg) : List Nat := x.2.2.2

def onPage (segs : List Seg) (p : Nat) : List Seg := segs.filter (·.2.1 == p)
/-- `generate_content_with_page_info` (painter model): operators come out in call order — each
context is flushed into `page_ops` when the other one is asked for -/
def contentOrder (segs : List Seg) (p : Nat) : List Seg := onPage segs p
def nPages (segs : List Seg) : Nat := (segs.foldl (fun m x => max m x.2.1) 0) + 1

def ltBytes : List Nat → List Nat → Bool
  | [], [] => false
  | [], _ :: _ => true
  | _ :: _, [] => false
  | a :: x, b :: y => if a < b then true else if b < a then false else ltBytes x y

def insertB (x : List Nat) : List (List Nat) → List (List Nat)
  | [] => [x]
  | y :: r => if ltBytes y x then y :: insertB x r else x :: y :: r
def sortB (l : List (List Nat)) : List (List Nat) := l.foldr insertB []

def hexList (l : List (List Nat)) : String := if l.isEmpty then "-" else ",".intercalate (l.map hexField)

def dedupS : List String → List String
  | [] => []
  | x :: r => if r.contains x then dedupS r else x :: dedupS r

def field (pre : String) (s : String) : Option String :=
  if s.startsWith pre then some (String.ofList (s.toList.drop pre.length)) else none

def isScalar (c : Nat) : Bool := c ≤ 0x10FFFF && !(0xD800 ≤ c && c ≤ 0xDFFF)

/-- stream object number behind a key -/
def refNum : Option Obj → Option Nat
  | some (.ref n _) => some n
  | _ => none

/-- one page: the shown strings in content order against the authored segments -/
def pageVerdicts (f : File) (page : Obj) (expected : List Seg) : List String × List (List Nat × List Nat) :=
  match refNum (Obj.get page "Contents") with
  | none => (["unexpected no-contents"], [])
  | some cn =>
  match f.stream cn with
  | none => (["unexpected contents-not-a-stream"], [])
  | some (_, cdata) =>
  match Spec.Syntax.readContent cdata with
  | none => (["unexpected content-stream-does-not-parse"], [])
  | some toks =>
  let shows := showOps toks [] none
  if shows.length != expected.length then ([s!"unexpected {shows.length}-show-operations-for-{expected.length}-segments"], shows) else
  let fontDictOf (rn : List Nat) : Option Obj :=
    match f.getR page "Resources" with
    | some r => match f.getR r "Font" with
      | some fd => f.getR fd (sOf rn)
      | none => none
    | none => none
  ((List.zip expected shows).map fun (sg, (rn, bytes)) =>
    let fname := sg.font
    let s := sg.text
    if sOf rn != fname then s!"unexpected font-resource-{sOf rn}-for-{fname}" else
    match fontDictOf rn with
    | none => "unexpected no-font-dictionary"
    | some fd =>
      if !(nameIs (Obj.get fd "Subtype") "Type0" && nameIs (Obj.get fd "Encoding") "Identity-H") then "unexpected not-type0-identity-h" else
      match refNum (Obj.get fd "ToUnicode") with
      | none => "unexpected no-tounicode"
      | some tn =>
        match f.stream tn with
        | none => "unexpected tounicode-not-a-stream"
        | some (_, tdata) =>
          let cm := parseToUnicode tdata
          let codes := pairs bytes
          let defs := codes.map cm.defines
          if defs.any (fun d => match d with | [] => false | x :: r => r.any (· != x)) then "unexpected conflicting-tounicode-entries" else
          let text := C10.utf16Dec (units (defs.flatMap fun d => d.headD []))
          if text == s then
            (if cm.lowByteOverflow.isEmpty then "ok" else "bfrange-last-byte-overflow")
          else if s.any (· > 0xFFFF) && text == s.filter (· ≤ 0xFFFF) then "astral-not-recoverable"
          else s!"unexpected independent-extraction-{showCps text}-for-{showCps s}", shows)

def oracle (segs : List Seg) (facts : List FontFacts) (libI tuI showI : String) (fb : List Nat) : String :=
  match openFile fb with
  | none => "fail:unexpected independent-reader-cannot-open-file"
  | some f =>
  let pages := f.pages
  let np := nPages segs
  if pages.length != np then s!"fail:unexpected {pages.length}-pages-for-{np}" else
  let per := (List.range np).map fun p => pageVerdicts f (pages.getD p .null) (contentOrder segs p)
  let perSeg := per.flatMap (·.1)
  let shows := per.flatMap (·.2)
  -- the harness' cut of the shown strings must be what the walk found
  let showOk := (if showI == "-" then some [] else (showI.splitOn ",").mapM fun h => bytesOfHexChars h.toList) == some (shows.map (·.2))
  if !showOk && !perSeg.any (·.startsWith "unexpected") then "fail:unexpected harness-show-cut-differs-from-content-stream" else
  let anyAstral := segs.any fun x => x.text.any (· > 0xFFFF)
  -- library extraction, page by page: one line per segment, top to bottom
  let expectLib := (List.range np).map fun p => [10].intercalate ((onPage segs p).map Seg.text)
  let libPages := (libI.splitOn "/").map parseCps
  let libOk := libPages == expectLib.map some
  let libCls := if libOk then "ok" else if anyAstral then "astral-not-recoverable" else "unexpected library-extraction"
  -- the font dictionary of a font: on the first page that uses it
  let fontDictOf (fname : String) : Option Obj :=
    match segs.find? (·.font == fname) with
    | none => none
    | some sg =>
      match f.getR (pages.getD sg.2.1 .null) "Resources" with
      | some r => match f.getR r "Font" with
        | some fd => f.getR fd fname
        | none => none
      | none => none
  -- ToUnicode streams cut by the harness = the ones the walk finds
  let fontNames := dedupS (segs.map Seg.font)
  let tuWalk := fontNames.filterMap fun fname =>
    match fontDictOf fname with
    | some fd => match refNum (Obj.get fd "ToUnicode") with
      | some tn => (f.stream tn).map (·.2)
      | none => none
    | none => none
  if hexList (sortB tuWalk) != tuI then "fail:unexpected harness-tounicode-cut-differs-from-walk" else
  -- widths and glyphs per font
  let perFont : List String := facts.map fun ff =>
    match fontDictOf ff.name with
    | none => "unexpected no-font-dictionary"
    | some fd =>
      match f.getR fd "DescendantFonts" with
      | some (.arr (d0 :: _)) =>
        match f.resolve d0 with
        | none => "unexpected no-descendant"
        | some cf =>
          let wArr := match f.getR cf "W" with | some (.arr xs) => xs | _ => []
          let dw : Int := match f.getR cf "DW" with | some (.int v) => v | _ => 1000
          let bmp := ff.chars.filter fun (c, g, _) => c ≤ 0xFFFF && g != 0
          let badW := bmp.filter fun (c, _, a) =>
            let declared := (wLookup (wArr.length + 1) wArr c).getD dw
            !(declared ≥ 0 && (declared.toNat == a * 1000 / ff.upem || declared.toNat == (a * 1000 + ff.upem - 1) / ff.upem))
          if !badW.isEmpty then s!"unexpected width-of-{toHex (badW.headD (0,0,0)).1}-differs-from-font" else
          if nameIs (Obj.get cf "Subtype") "CIDFontType2" then
            match f.getR cf "FontDescriptor" with
            | none => "unexpected no-descriptor"
            | some desc =>
              match refNum (Obj.get desc "FontFile2"), refNum (Obj.get cf "CIDToGIDMap") with
              | some fn, some mn =>
                match f.stream fn, f.stream mn with
                | some (_, fdata), some (_, mdata) =>
                  let fa := fdata.toArray
                  match sfntFacts fa with
                  | none => "unexpected embedded-font-unreadable"
                  | some sf =>
                    if sf.upem != ff.upem then "unexpected embedded-upem-differs" else
                    let gl := bmp.map fun (c, g, a) => (c, g, a, C13.readGid mdata c)
                    let bad := gl.filter fun (_, _, a, ng) => match ng with
                      | some n => n == 0 || n ≥ sf.numGlyphs || sf.advance fa n != some a
                      | none => true
                    if !bad.isEmpty then s!"unexpected glyph-of-{toHex (bad.headD (0,0,0,none)).1}-missing-or-wrong-advance" else
                    -- distinct original glyphs stay distinct
                    let clash := gl.any fun (_, g1, _, n1) => gl.any fun (_, g2, _, n2) => g1 != g2 && n1 == n2
                    if clash then "unexpected two-glyphs-share-an-id" else
                    -- astral: the shown surrogate CIDs have no glyph
                    if ff.chars.any (fun (c, _, _) => c > 0xFFFF) then "astral-not-recoverable" else "ok"
                | _, _ => "unexpected font-file-or-cidtogidmap-not-a-stream"
              | _, _ => "unexpected no-fontfile2-or-cidtogidmap"
          else
            match f.getR cf "FontDescriptor" with
            | some desc =>
              match refNum (Obj.get desc "FontFile3") with
              | some fn => match f.stream fn with
                | some (_, d) => if d.isEmpty then "unexpected empty-font-file" else
                    (if ff.chars.any (fun (c, _, _) => c > 0xFFFF) then "astral-not-recoverable" else "ok")
                | none => "unexpected font-file-not-a-stream"
              | none => "unexpected no-fontfile3"
            | none => "unexpected no-descriptor"
      | _ => "unexpected no-descendant"
  let all := libCls :: (perSeg ++ perFont)
  match all.find? (·.startsWith "unexpected") with
  | some u => "fail:" ++ u
  | none =>
    if all.contains "astral-not-recoverable" then "fail:astral-not-recoverable"
    else if all.contains "bfrange-last-byte-overflow" then "fail:bfrange-last-byte-overflow"
    else "ok"

def handle (req impl : String) : String × String :=
  match req.splitOn " " with
  | ["emb", api, segS] =>
    match parseSegs api segS with
    | none => ("bad-request", "na")
    | some segs =>
      if segs.any (fun x => x.text.isEmpty || x.text.any (!isScalar ·)) then ("bad-request", "na") else
      let np := nPages segs
      if (List.range np).any (fun p => (onPage segs p).isEmpty) then ("bad-request", "na") else
      let libM := "/".intercalate ((List.range np).map fun p =>
        showCps ([10].intercalate ((onPage segs p).map fun x => libSegment x.text)))
      let showM := ",".intercalate ((List.range np).flatMap fun p => (contentOrder segs p).map fun x => sOf (showHex x.text))
      let fonts := dedupS (segs.map Seg.font)
      -- the document's used characters of a font: the union over both contexts and all pages
      let tuM := hexList (sortB (fonts.map fun fn => renderCMap (usedBmp ((segs.filter (·.font == fn)).map Seg.text))))
      match impl.splitOn ";" with
      | [l, sh, tu, wv, fc, fl] =>
        match field "lib=" l, field "show=" sh, field "tu=" tu, field "w=" wv, field "facts=" fc, field "file=" fl with
        | some lI, some shI, some tuI, some _wI, some fcI, some fI =>
          match parseFacts fcI with
          | none => (s!"lib={libM};show={showM};tu={tuM}", "fail:unparsable-impl-answer")
          | some facts =>
            let wM := hexList (sortB (facts.map fun ff =>
              renderW ((ff.chars.filter (·.2.1 != 0)).map fun (c, _, a) => (c, pdfWidth a ff.upem))))
            -- with a character above U+FFFF the extractor loses alignment on the unmapped surrogate codes
            -- (byte-wise resynchronisation, guessed encodings when nothing decodes): not modelled, echoed
            let libM := if segs.any (fun x => x.text.any (· > 0xFFFF)) then lI else libM
            let model := s!"lib={libM};show={showM};tu={tuM};w={wM};facts={fcI};file={fI}"
            let orc := match bytesOfHex? fI with
              | some fb => oracle segs facts lI tuI shI fb
              | none => "fail:unparsable-impl-answer"
            (model, orc)
        | _, _, _, _, _, _ => (s!"lib={libM};show={showM};tu={tuM}", "fail:unparsable-impl-answer")
      | _ => (s!"lib={libM};show={showM};tu={tuM}", if impl.startsWith "err:" then "fail:unexpected " ++ impl else "fail:unparsable-impl-answer")
  | _ => ("bad-request", "na")

end C13Drv

def main : IO Unit := OxiVerif.runDriver C13Drv.handle
