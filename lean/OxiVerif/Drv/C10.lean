import OxiVerif.Base.Driver
import OxiVerif.Model.C10
import OxiVerif.Spec.C10File
/-!
Driver for C10.  Request `txt <site> <cps>`; implementation answer
`tok=<hex>;lib=<cps>;file=<hex>` or `err:<class>` (the API refused the text).

MODEL  = `tok = token carrier s`, `lib = libRoundtrip carrier s` (the library's lexer + `decode_text_string`
         on the modelled token), the refusals of the two fill paths (`fillAccepts`) and of the note editor
         (blank contents); `file` is the oracle's input and is echoed.
ORACLE = the property: the text read back must be the text supplied — (a) by the library (`lib`),
         (b) by an independent reader: `Spec.C10File` opens the FILE the real writer produced (last
         `startxref`, classic cross-reference sections along `/Prev`, newest entry wins), walks to the
         value (trailer `/Info`; `/Root /Outlines /First /Title`; first page `/Annots` → `/Subtype /Text` →
         `/Contents`; `/Root /AcroForm /Fields[0] /V`), and decodes the string per §7.9.2.2 with
         PDFDocEncoding from Annex D — leniently: a byte whose slot Annex D leaves undefined counts as
         the code point of the same number, so nothing is demanded where the standard is silent.
A failure is classed by a spec-side feature of the INPUT and by which reader(s) disagree; a failure
outside the listed classes is `unexpected`.
-/
open OxiVerif OxiVerif.C10 OxiVerif.PdfFile
open OxiVerif.Spec.Syntax (Obj)

namespace C10Drv

def hexNatChars : List Char → Nat → Option Nat
  | [], acc => some acc
  | c :: r, acc => match hexVal? c with
    | some v => hexNatChars r (acc * 16 + v)
    | none => none
def hexNat? (s : String) : Option Nat := if s.isEmpty then none else hexNatChars s.toList 0
def toHex (n : Nat) : String := String.ofList (Nat.toDigits 16 n)
def parseCps (s : String) : Option (List Nat) := if s == "-" then some [] else (s.splitOn ".").mapM hexNat?
def showCps (l : List Nat) : String := if l.isEmpty then "-" else ".".intercalate (l.map toHex)
def showOpt : Option (List Nat) → String
  | some l => showCps l
  | none => "none"

def infoSites : List String := ["title", "author", "subject", "keywords", "creator", "producer"]

/-- sites already writing through `Object::text_string` / `text_string_bytes` in /repo (one repair per
site group; a site not listed still uses the old carrier) -/
def repaired : List String := infoSites ++ ["outline", "annot", "field", "fielddv", "fillw", "ifill"]

def carrierOf (site : String) : Option Carrier :=
  if infoSites.contains site || ["outline", "annot", "field", "fielddv", "fillw"].contains site then
    some (if repaired.contains site then .txt else .lit8)
  else if site == "ifill" then some (if repaired.contains site then .txtHex else .hex8)
  else if site == "note" || site == "noteupd" then some .hex16
  else none

/-- Rust `char::is_whitespace` (Unicode `White_Space`) -/
def isRustWs (c : Nat) : Bool :=
  (9 ≤ c && c ≤ 13) || c == 0x20 || c == 0x85 || c == 0xA0 || c == 0x1680 || (0x2000 ≤ c && c ≤ 0x200A) ||
  c == 0x2028 || c == 0x2029 || c == 0x202F || c == 0x205F || c == 0x3000

def infoKey : String → String
  | "title" => "Title" | "author" => "Author" | "subject" => "Subject"
  | "keywords" => "Keywords" | "creator" => "Creator" | _ => "Producer"

def strBytes : Option Obj → Option (List Nat)
  | some (.str b) => some b
  | _ => none

def textAnnots (f : File) : List Obj :=
  match f.pages with
  | p :: _ =>
    match f.getR p "Annots" with
    | some (.arr xs) => (xs.filterMap f.resolve).filter fun d => nameIs (Obj.get d "Subtype") "Text"
    | _ => []
  | [] => []

/-- the independent reader's walk to the string at the site -/
def specValue (f : File) (site : String) : Option (List Nat) :=
  if infoSites.contains site then
    match f.getR f.trailer "Info" with
    | some d => strBytes (f.getR d (infoKey site))
    | none => none
  else if site == "outline" then
    match f.root with
    | some r => strBytes (f.path r ["Outlines", "First", "Title"])
    | none => none
  else if site == "annot" then
    match textAnnots f with
    | d :: _ => strBytes (f.getR d "Contents")
    | [] => none
  else if site == "note" || site == "noteupd" then
    match (textAnnots f).getLast? with
    | some d => strBytes (f.getR d "Contents")
    | none => none
  else
    match f.root with
    | some r =>
      match f.path r ["AcroForm", "Fields"] with
      | some (.arr (x :: _)) =>
        match f.resolve x with
        | some d => strBytes (f.getR d (if site == "fielddv" then "DV" else "V"))
        | none => none
      | _ => none
    | none => none

def field (pre : String) (s : String) : Option String :=
  if s.startsWith pre then some (String.ofList (s.toList.drop pre.length)) else none

def handle (req impl : String) : String × String :=
  match req.splitOn " " with
  | ["txt", site, cps] =>
    match parseCps cps, carrierOf site with
    | some s, some k =>
      if s.any (fun c => c > 0x10FFFF || (0xD800 ≤ c && c ≤ 0xDFFF)) then ("bad-request", "na") else
      let isFill := site == "fillw" || site == "ifill"
      let isNote := site == "note" || site == "noteupd"
      if isFill && !fillAccepts s then
        ("err:encoding",
          if impl == "err:encoding" then s!"fail:{site} refused-not-winansi"
          else if impl.startsWith "err:" then s!"fail:{site} unexpected-error"
          else "na")     -- accepted after all: the comparison MODEL ≠ IMPL reports it
      else if isNote && s.all isRustWs then
        ("err:structure", if impl.startsWith "err:" then "na" else "na")
      else
      let tokM := token k s
      match impl.splitOn ";" with
      | [t, l, fl] =>
        match field "tok=" t, field "lib=" l, field "file=" fl with
        | some tI, some lI, some fI =>
          let model := s!"tok={hexField tokM};lib={showOpt (libRoundtrip k s)};file={fI}"
          let oracle :=
            match bytesOfHex? fI with
            | none => "fail:unparsable-impl-answer"
            | some fb =>
              let libOk := parseCps lI == some s
              match openFile fb with
              | none => s!"fail:{site} unexpected:independent-reader-cannot-open-file"
              | some f =>
                match specValue f site with
                | none => s!"fail:{site} unexpected:independent-reader-finds-no-string"
                | some b =>
                  -- the token the harness cut must be the string the independent walk found
                  let cutOk := match bytesOfHex? tI with
                    | some tb => (match Spec.Syntax.readObj 1 (tb ++ [10]) with
                      | some (.str b', _) => b' == b
                      | _ => false)
                    | none => false
                  if !cutOk then s!"fail:{site} unexpected:token-not-the-value-in-the-file" else
                  let specOk := specDecodeLenient b == s
                  if libOk && specOk then "ok" else
                  let who := if !libOk && !specOk then "both" else if !libOk then "library" else "independent-reader"
                  let cls :=
                    if k == .hex16 || k == .txt || k == .txtHex then "unexpected"
                    else if s.any (· ≥ 0x80) then "utf8-bytes-in-text-string"
                    else if s.any (fun c => 0x18 ≤ c && c ≤ 0x1F) then "c0-read-as-accent"
                    else "unexpected"
                  let cls := if (cls == "utf8-bytes-in-text-string" && who == "both") ||
                                (cls == "c0-read-as-accent" && who == "independent-reader") then cls
                             else if cls.startsWith "unexpected" then cls else "unexpected:" ++ cls
                  s!"fail:{site} {cls} {who}"
          (model, oracle)
        | _, _, _ => (s!"tok={hexField tokM};lib={showOpt (libRoundtrip k s)}", "fail:unparsable-impl-answer")
      | _ =>
        (s!"tok={hexField tokM};lib={showOpt (libRoundtrip k s)}",
          if impl.startsWith "err:" then s!"fail:{site} unexpected-error" else "fail:unparsable-impl-answer")
    | _, _ => ("bad-request", "na")
  | _ => ("bad-request", "na")

end C10Drv

def main : IO Unit := OxiVerif.runDriver C10Drv.handle
