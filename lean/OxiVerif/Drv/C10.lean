import OxiVerif.Base.Driver
import OxiVerif.Model.C10
/-!
Driver for C10.  Request `txt <site> <cps>`; implementation answer `raw=<hex>;lib=<cps>`.
MODEL  = `raw = emit s`, `lib = libDecode (libUnescape raw)`.
ORACLE = the property: the text read back must be the text supplied — (a) by the library (`lib`),
(b) by an independent reader = `specDecode (specUnescape raw)` applied to the raw bytes the real
writer put into the file.  A failure is classed by a spec-side feature of the INPUT and by which
reader(s) disagree; anything else is `unexpected`.
-/
open OxiVerif OxiVerif.C10

namespace C10Drv

def hexNatChars : List Char → Nat → Option Nat
  | [], acc => some acc
  | c :: r, acc => match hexVal? c with
    | some v => hexNatChars r (acc * 16 + v)
    | none => none
def hexNat? (s : String) : Option Nat := if s.isEmpty then none else hexNatChars s.toList 0
def toHex (n : Nat) : String := String.ofList (Nat.toDigits 16 n)
def parseCps (s : String) : Option (List Nat) := if s == "-" then some [] else (s.splitOn ".").mapM hexNat?
def showCps (l : List Nat) : String := if l.isEmpty then "-" else ".".intercalate (l.map toHex)

def sites : List String := ["title", "author", "subject", "keywords", "creator", "producer", "outline", "annot"]

def notInPdfDoc (c : Nat) : Bool := (c < 0x20 && c != 0x09 && c != 0x0A && c != 0x0D) || c == 0x7F

def handle (req impl : String) : String × String :=
  match req.splitOn " " with
  | ["txt", site, cps] =>
    match parseCps cps with
    | some s =>
      if !sites.contains site || s.any (fun c => c > 0x10FFFF || (0xD800 ≤ c && c ≤ 0xDFFF)) then ("bad-request", "na") else
      let raw := emit s
      let model := s!"raw={hexField raw};lib={showCps (libDecode (libUnescape (raw.length + 1) raw))}"
      let oracle :=
        match impl.splitOn ";" with
        | [r, l] =>
          if !r.startsWith "raw=" || !l.startsWith "lib=" then "fail:unparsable-impl-answer" else
          match bytesOfHex? (String.ofList (r.toList.drop 4)), parseCps (String.ofList (l.toList.drop 4)) with
          | some rawI, some libI =>
            let spec := specDecode (specUnescape (rawI.length + 1) rawI)
            let libOk := libI == s
            let specOk := spec == s
            if libOk && specOk then "ok" else
            let who := if !libOk && !specOk then "both" else if !libOk then "library" else "independent-reader"
            let cls :=
              if s.any (· ≥ 0x80) then "utf8-bytes-in-text-string"
              else if s.any notInPdfDoc then "control-not-in-pdfdoc"
              else if s.contains 0x0D then "raw-cr-read-as-lf"
              else "unexpected"
            -- the known classes fail in a known way; anything else is unexpected
            let cls := if (cls == "utf8-bytes-in-text-string" && who == "both") ||
                          (cls == "control-not-in-pdfdoc" && who == "independent-reader") ||
                          (cls == "raw-cr-read-as-lf" && who == "independent-reader") then cls else "unexpected:" ++ cls
            s!"fail:{site} {cls} {who}"
          | _, _ => "fail:unparsable-impl-answer"
        | _ => "fail:" ++ site ++ " no-readback"
      (model, oracle)
    | none => ("bad-request", "na")
  | _ => ("bad-request", "na")

end C10Drv

def main : IO Unit := OxiVerif.runDriver C10Drv.handle
