import OxiVerif.Base.Driver
import OxiVerif.Model.C03
import OxiVerif.Spec.C03File
/-!
Driver for C03 (builder b0320).  Requests (see harness/src/bin/c03/main.rs):
  `doc <cfg> <program>`   IMPL = FACTS extracted from the real bytes by the strict scanner.
        MODEL  = the same FACTS line re-derived by the layout model from the PRIMARY facts only
                 (configuration, object numbers in file order, object body lengths, object-stream
                 member numbers and lengths, compressed length of the xref stream): every offset,
                 the cross-reference entries, /W, /Size, /Index, `startxref`, `%%EOF`, file length,
                 object-stream ids/offsets//First are recomputed.
        ORACLE = `FileWF` (the spec side of C03) evaluated on IMPL's facts.
  `xrefenc <entries>`     MODEL = `widths`/`encodeEntries`/`xrefStreamDict`; ORACLE = the entries decode back.
  `objstm <id:hex,…>`     MODEL = `genStreamData`; ORACLE = every member is where the index says.
-/
open OxiVerif OxiVerif.C03

namespace C03Drv

def fieldsOf (s : String) : List (String × String) :=
  (s.splitOn " ").filterMap fun t =>
    match t.splitOn "=" with
    | [k, v] => some (k, v)
    | _ => none

def fld (fs : List (String × String)) (k : String) : Option String :=
  (fs.find? (fun e => e.1 == k)).map (·.2)

def natFld (fs : List (String × String)) (k : String) : Option Nat := (fld fs k).bind String.toNat?

structure FObj where
  num : Nat
  gen : Nat
  off : Nat
  len : Nat
  slen : Option Nat

/-- `num.gen@off+len[sL]` -/
def parseObj (t : String) : Option FObj :=
  match t.splitOn "@" with
  | [ng, rest] =>
    match ng.splitOn ".", rest.splitOn "+" with
    | [n, g], [off, ls] =>
      let (l, sl) := match ls.splitOn "s" with
        | [l] => (l, none)
        | [l, s] => (l, s.toNat?)
        | _ => ("", none)
      match n.toNat?, g.toNat?, off.toNat?, l.toNat? with
      | some n, some g, some off, some l => some { num := n, gen := g, off := off, len := l, slen := sl }
      | _, _, _, _ => none
    | _, _ => none
  | _ => none

def parseList {α} (f : String → Option α) (sep : String) (s : String) : Option (List α) :=
  if s = "-" ∨ s = "" then some [] else (s.splitOn sep).mapM f

/-- one RLE item `f0:65535` / `n15:0` / `c1000000:3`, optional `*k` -/
def parseRun (t : String) : Option (Entry × Nat) :=
  let (body, cnt) := match t.splitOn "*" with
    | [b] => (b, some 1)
    | [b, c] => (b, c.toNat?)
    | _ => ("", none)
  match body.toList, cnt with
  | c :: r, some k =>
    match (String.ofList r).splitOn ":" with
    | [a, b] =>
      match a.toNat?, b.toNat? with
      | some a, some b =>
        if c = 'f' then some (.free a b, k) else if c = 'n' then some (.inUse a b, k)
        else if c = 'c' then some (.compressed a b, k) else none
      | _, _ => none
    | _ => none
  | _, _ => none

def showEntry : Entry → String
  | .free a g => s!"f{a}:{g}"
  | .inUse a g => s!"n{a}:{g}"
  | .compressed a g => s!"c{a}:{g}"

/-- run-length encode (same convention as the harness) -/
def rleGo : Entry → Nat → List Entry → List (Entry × Nat) → List (Entry × Nat)
  | cur, k, [], acc => ((cur, k) :: acc).reverse
  | cur, k, e :: r, acc => if e = cur then rleGo cur (k + 1) r acc else rleGo e 1 r ((cur, k) :: acc)

def rle : List Entry → List (Entry × Nat)
  | [] => []
  | e :: r => rleGo e 1 r []

def showRuns (rs : List (Entry × Nat)) : String :=
  if rs.isEmpty then "-" else
  ",".intercalate (rs.map fun (e, k) => if k = 1 then showEntry e else s!"{showEntry e}*{k}")

structure FStm where
  id : Nat
  n : Nat
  first : Nat
  dl : Nat
  members : List (Nat × Nat)   -- (number, relative offset)

/-- `id:N:First:dl:num/off+num/off…` -/
def parseStm (t : String) : Option FStm :=
  match t.splitOn ":" with
  | [id, n, first, dl, ms] =>
    let mem := parseList (fun m => match m.splitOn "/" with
      | [a, b] => match a.toNat?, b.toNat? with
        | some a, some b => some (a, b)
        | _, _ => none
      | _ => none) "+" ms
    match id.toNat?, n.toNat?, first.toNat?, dl.toNat?, mem with
    | some id, some n, some first, some dl, some mem => some { id := id, n := n, first := first, dl := dl, members := mem }
    | _, _, _, _, _ => none
  | _ => none

def showStm (s : FStm) : String :=
  s!"{s.id}:{s.n}:{s.first}:{s.dl}:" ++ "+".intercalate (s.members.map fun (a, b) => s!"{a}/{b}")

structure ReqCfg where
  cfg : Cfg
  ver : String
  pages : Nat

def parseReq (cfg prog : String) : Option ReqCfg :=
  match cfg.splitOn ":" with
  | [k, z, ver] =>
    let kk := if k = "c" then some (false, false) else if k = "x" then some (true, false)
      else if k = "o" then some (false, true) else if k = "xo" then some (true, true) else none
    let zz := if z = "z" then some true else if z = "n" then some false else none
    match kk, zz with
    | some (x, o), some z =>
      some { cfg := Cfg.effective { xrefStreams := x, objStreams := o, compress := z }, ver := ver,
             pages := (prog.splitOn "|").length }
    | _, _ => none
  | _ => none

/-- member lengths from consecutive relative offsets and the decoded length -/
def memberLens (first dl : Nat) : List (Nat × Nat) → List (Nat × Nat)
  | [] => []
  | [(id, off)] => [(id, dl - first - off - 1)]
  | (id, off) :: (id2, off2) :: r => (id, off2 - off - 1) :: memberLens first dl ((id2, off2) :: r)

def chunkPairs (fuel : Nat) (l : List (Nat × Nat)) : List (List (Nat × Nat)) := chunks kMaxPerStream fuel l

/-- the model's answer for a `doc` request, recomputed from the primary facts -/
def modelFacts (rc : ReqCfg) (fs : List (String × String)) : Option String := do
  let objs ← (fld fs "objs").bind (parseList parseObj ",")
  let stms ← (fld fs "stm").bind (parseList parseStm ";")
  let verLen := rc.ver.length
  let hl := 5 + verLen + 1
  let start := hl + 6
  -- the cross-reference stream (if any) is the last object of the file
  let bodyObjs := if rc.cfg.xrefStreams then objs.dropLast else objs
  let sizes : List (Nat × Nat) := bodyObjs.map fun o => (o.num, o.len + 1 - ((dec o.num).length + 7) - 8)
  let offs := planOffsets start sizes
  let x := offs.reverse
  let xo := planEnd start sizes
  -- object streams: re-pack the member numbers the way `flush_object_streams` does
  let allMembers : List (Nat × Nat) := stms.flatMap fun s => memberLens s.first s.dl s.members
  let sorted := allMembers.mergeSort (fun a b => a.1 ≤ b.1)
  let packs := chunkPairs sorted.length sorted
  let mstms : List FStm := (List.range packs.length).zipWith (fun k c =>
    let mo := memberOffsets 0 c
    let dlObjs := c.foldl (fun a m => a + m.2 + 1) 0
    let first := indexLen mo
    { id := kFirstStreamId + k, n := c.length, first := first, dl := first + dlObjs, members := mo }) packs
  let cmap : List (Nat × Nat × Nat) := mstms.flatMap fun s =>
    (List.range s.members.length).zipWith (fun i m => (m.1, s.id, i)) s.members
  let showObj := fun (id off len : Nat) (sl : Option Nat) =>
    s!"{id}.0@{off}+{len}" ++ (match sl with | some l => s!"s{l}" | none => "")
  let objStrs := (List.zip bodyObjs (List.zip offs sizes)).map fun (o, (p, sz)) =>
    showObj p.1 p.2 (objTotal sz.1 sz.2 - 1) o.slen
  let stmStr := if mstms.isEmpty then "-" else ";".intercalate (mstms.map showStm)
  let common2 := fun (sx : Nat) =>
    let eof := sx + 10 + (dec xo).length + 1
    s!"sx={sx} eof={eof} len={eof + 6} stm={stmStr} nrefs={(fld fs "nrefs").getD "?"} unres=- cat=1 lib=ok:{rc.pages}"
  if rc.cfg.xrefStreams then
    let sid ← natFld fs "sid"
    let es := xrefStreamEntries x cmap sid xo
    let w := widths es
    let size := es.length
    let dl := size * (w.1 + w.2.1 + w.2.2)
    let rl := if rc.cfg.compress then (natFld fs "rl").getD 0 else dl
    let dict := emitDict (xrefStreamDictCfg rc.cfg.compress size 1 3 w rl)
    let total := (objHeader sid).length + dict.length + 1 + 7 + rl + 10 + 1 + 7
    let objStrs := objStrs ++ [showObj sid xo (total - 1) (some rl)]
    let sx := xo + total + 1
    pure (s!"ok ver={rc.ver} hl={hl} objs={",".intercalate objStrs} xk=s xo={xo} sid={sid} " ++
      s!"W={w.1}/{w.2.1}/{w.2.2} idx=0/{size} flt={if rc.cfg.compress then 1 else 0} rl={rl} dl={dl} ents={showRuns (rle es)} contig=1 " ++
      s!"size={size} root=1.0 info=3.0 tkeys={if rc.cfg.compress then "Filter," else ""}Index,Info,Length,Root,Size,Type,W " ++ common2 sx)
  else
    let es := classicEntries x
    let size := maxId x + 1
    let dictLen := (emitDict [(kInfo, refBytes 3), (kRoot, refBytes 1), (kSize, dec size)]).length
    let sx := xo + classicXrefLen es.length + 8 + dictLen + 1
    pure (s!"ok ver={rc.ver} hl={hl} objs={if objStrs.isEmpty then "-" else ",".intercalate objStrs} xk=c xo={xo} " ++
      s!"ents={showRuns (rle es)} contig=1 size={size} root=1.0 info=3.0 tkeys=Info,Root,Size " ++ common2 sx)

/-! ### FileWF — the spec side, evaluated on the facts of the REAL file -/

/-- walk the entry runs with the running object number -/
def checkRuns (objs : List FObj) (stms : List FStm) : Nat → List (Entry × Nat) → Option String
  | _, [] => none
  | n, (e, k) :: r =>
    let bad : Option String :=
      match e with
      | .free _ _ => none
      | .inUse off g =>
        -- k > 1 would mean two object numbers share one offset
        if k ≠ 1 then some s!"entries-{n}-and-{n+1}-share-an-offset"
        else if objs.any (fun o => o.off = off ∧ o.num = n ∧ o.gen = g) then none
        else some s!"entry-{n}-does-not-point-at-its-object"
      | .compressed stm idx =>
        if k ≠ 1 then some s!"entries-{n}-and-{n+1}-share-a-slot"
        else match stms.find? (fun s => s.id = stm) with
          | none => some s!"entry-{n}-names-a-missing-object-stream"
          | some s => match s.members[idx]? with
            | some (m, _) => if m = n then none else some s!"entry-{n}-slot-holds-object-{m}"
            | none => some s!"entry-{n}-slot-out-of-range"
    match bad with
    | some b => some b
    | none => checkRuns objs stms (n + k) r

def lastRunInUse : List (Entry × Nat) → Bool
  | [] => false
  | rs => match rs.getLast? with
    | some (.free _ _, _) => false
    | some _ => true
    | none => false

def fileWF (impl : String) : String :=
  if impl.startsWith "scanerr:" then
    let cls := ((impl.splitOn " ").headD "").splitOn ":"
    "fail:strict-scan:" ++ ":".intercalate ((cls.drop 1).take 2)
  else if !(impl.startsWith "ok ") then "fail:no-file:" ++ ((impl.splitOn " ").headD "")
  else
    let fs := fieldsOf impl
    match (fld fs "objs").bind (parseList parseObj ","), (fld fs "stm").bind (parseList parseStm ";"),
          (fld fs "ents").bind (parseList parseRun ","), natFld fs "size", natFld fs "xo" with
    | some objs, some stms, some runs, some size, some xo =>
      let total := runs.foldl (fun a r => a + r.2) 0
      if fld fs "contig" != some "1" then "fail:xref-sections-not-contiguous-from-0"
      else if runs.head? != some (.free 0 65535, 1) then "fail:entry-0-is-not-the-free-list-head"
      else if size ≠ total then s!"fail:size-{size}-but-{total}-entries"
      else if !lastRunInUse runs then "fail:size-exceeds-highest-object-number"
      else match checkRuns objs stms 0 runs with
        | some b => "fail:" ++ b
        | none =>
          if fld fs "xk" == some "s" ∧
             !(objs.any fun o => o.off = xo ∧ some o.num = natFld fs "sid") then "fail:startxref-not-at-xref-stream"
          else if stms.any (fun s => s.n ≠ s.members.length) then "fail:objstm-N"
          else if fld fs "unres" != some "-" then "fail:unresolved-reference-" ++ (fld fs "unres").getD "?"
          else if fld fs "cat" != some "1" then "fail:root-is-not-a-catalog"
          else if !((fld fs "lib").getD "").startsWith "ok:" then "fail:library-strict-open-" ++ (fld fs "lib").getD "?"
          else "ok"
    | _, _, _, _, _ => "fail:unparsable-facts"

/-! ### function-level requests -/
def parseEntryTok (t : String) : Option Entry := (parseRun t).map (·.1)

def handleXrefEnc (spec impl : String) : String × String :=
  match parseList parseEntryTok "," spec with
  | none => ("bad-request", "na")
  | some es =>
    let w := widths es
    let data := encodeEntries w es
    let m := s!"W={w.1}/{w.2.1}/{w.2.2} size={es.length} idx=0/{es.length} flt=1 data={hexField data}"
    -- oracle: the implementation's bytes decode (with the implementation's /W) to the entries
    let fs := fieldsOf impl
    let o := match (fld fs "W").map (·.splitOn "/"), (fld fs "data").bind bytesOfHex? with
      | some [a, b, c], some bytes =>
        match a.toNat?, b.toNat?, c.toNat? with
        | some a, some b, some c =>
          if decodeEntries (a, b, c) es.length bytes = some es then "ok" else "fail:entries-do-not-decode-back"
        | _, _, _ => "fail:unparsable-impl-answer"
      | _, _ => "fail:unparsable-impl-answer"
    (m, o)

def parseMember (t : String) : Option (Nat × List Nat) :=
  match t.splitOn ":" with
  | [a, b] => match a.toNat?, bytesOfHex? b with
    | some a, some b => some (a, b)
    | _, _ => none
  | _ => none

def handleObjStm (spec impl : String) : String × String :=
  match parseList parseMember "," spec with
  | none => ("bad-request", "na")
  | some ms =>
    if ms.isEmpty then ("err:empty", if impl = "err:empty" then "ok" else "fail:empty-stream-accepted") else
    let p := genStreamData 0 ms
    let m := s!"N={ms.length} First={p.1.length} lenok=1 data={hexField (p.1 ++ p.2)}"
    let fs := fieldsOf impl
    let o := match natFld fs "N", natFld fs "First", (fld fs "data").bind bytesOfHex? with
      | some n, some first, some data =>
        if n ≠ ms.length then "fail:N" else
        match readPairs n (data.take first) with
        | none => "fail:index-unreadable"
        | some pairs =>
          if (List.zip pairs ms).all (fun (pr, mb) =>
              pr.1 = mb.1 ∧ ((data.drop (first + pr.2)).take mb.2.length == mb.2)
                ∧ (data.drop (first + pr.2 + mb.2.length)).head? == some 32)
          then (if fld fs "lenok" == some "1" then "ok" else "fail:Length") else "fail:member-not-where-the-index-says"
      | _, _, _ => "fail:unparsable-impl-answer"
    (m, o)

def handle (req impl : String) : String × String :=
  match req.splitOn " " with
  | ["doc", cfg, prog] =>
    match parseReq cfg prog with
    | none => ("bad-request", "na")
    | some rc =>
      let o := fileWF impl
      if impl.startsWith "ok " then
        match modelFacts rc (fieldsOf impl) with
        | some m => (m, o)
        | none => ("model:unparsable-facts", o)
      else
        -- no facts: the model mirrors the code — `/Filter /FlateDecode` over uncompressed
        -- cross-reference data cannot be inflated by any reader
        if rc.cfg.xrefStreams ∧ !rc.cfg.compress then
          ("scanerr:xref-stream-data:inflate-failed" ++ (impl.drop "scanerr:xref-stream-data:inflate-failed".length).toString, o)
        else ("model:expected-a-readable-file", o)
  | ["xrefenc", spec] => handleXrefEnc spec impl
  | ["objstm", spec] => handleObjStm spec impl
  | _ => ("bad-request", "na")

end C03Drv

def main : IO Unit := runDriver C03Drv.handle
