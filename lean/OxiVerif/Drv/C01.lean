import OxiVerif.Base.Driver
import OxiVerif.Model.C01Xref
/-!
Driver for C01.  For every KERNEL request the model's executable definitions predict the
implementation's canonical answer (value, `err`, a panic of a given kind, a hang); the ORACLE is the
property itself evaluated on the implementation's answer: a `panic:*`, `abort:*` or `timeout` is a
failure, labelled with whether the model predicted exactly that failure
(`fail:<class>-as-modelled:<kernel>:<detail>`) or not (`fail:<class>-unmodelled:…`).
For EXPLORATION requests (`explore`, `xfile`, `content`) the model makes no prediction (it echoes
the implementation's answer); only the oracle judges them.
-/
open OxiVerif OxiVerif.C01

def optsOf (p : String) : Option LexOpts :=
  match p with
  | "strict" => some ⟨false, false⟩
  | "default" => some ⟨false, true⟩
  | "tolerant" => some ⟨true, true⟩
  | "lenient" => some ⟨true, true⟩
  | "skip" => some ⟨true, true⟩
  | _ => none

def intOrAbsent (s : String) : Option (Option Int) :=
  if s = "_" then some none else (s.toInt?).map some

def intsOf (s : String) : Option (List Int) :=
  if s = "." then some [] else (s.splitOn ",").mapM String.toInt?

def renderTok : Tok → String
  | .bool b => if b then "B1" else "B0"
  | .int i => "I" ++ toString i
  | .real => "F"
  | .str s => "S" ++ hexField s
  | .name n => "N" ++ hexField n
  | .arrStart => "["
  | .arrEnd => "]"
  | .dictStart => "<<"
  | .dictEnd => ">>"
  | .kStream => "stream"
  | .kEndStream => "endstream"
  | .kObj => "obj"
  | .kEndObj => "endobj"
  | .kStartXRef => "startxref"
  | .null => "Z"
  | .comment => "C"
  | .eof => "E"
  | .refKw => "N52"

def lexLt : Bytes → Bytes → Bool
  | [], [] => false
  | [], _ => true
  | _, [] => false
  | a :: as, b :: bs => if a < b then true else if a > b then false else lexLt as bs

def insertSorted {α} (lt : α → α → Bool) (x : α) : List α → List α
  | [] => [x]
  | y :: ys => if lt x y then x :: y :: ys else y :: insertSorted lt x ys

def sortBy {α} (lt : α → α → Bool) (xs : List α) : List α := xs.foldl (fun acc x => insertSorted lt x acc) []

/-- HashMap semantics: the last insertion of a key wins; output sorted by key -/
def dedupLast {α} (kvs : List (Bytes × α)) : List (Bytes × α) :=
  let rec go : List (Bytes × α) → List (Bytes × α) → List (Bytes × α)
    | [], acc => acc
    | kv :: rest, acc => if rest.any (fun x => x.1 == kv.1) then go rest acc else go rest (kv :: acc)
  sortBy (fun a b => lexLt a.1 b.1) (go kvs [])

partial def renderObj : Obj → String
  | .null => "Z"
  | .bool b => if b then "B1" else "B0"
  | .int i => "I" ++ toString i
  | .real => "F"
  | .str s => "S" ++ hexField s
  | .name n => "N" ++ hexField n
  | .arr xs => "[" ++ ",".intercalate (xs.map renderObj) ++ "]"
  | .dict kvs => "<" ++ ";".intercalate ((dedupLast kvs).map fun kv => hexField kv.1 ++ ":" ++ renderObj kv.2) ++ ">"
  | .ref n g => "r" ++ toString n ++ "." ++ toString g

/-- model-side stack class from a call depth: `s` up to 64 activations, `D` from 8192, in between the
class depends on frame sizes the model does not know (`?` → the driver echoes the implementation) -/
def stackClass (d : Nat) : String := if d ≤ 64 then "s" else if d ≥ 8192 then "D" else "?"

def lastWord (s : String) : String := (s.splitOn " ").getLast!

def withClass (body : String) (d : Nat) (impl : String) : String :=
  let c := stackClass d
  body ++ " " ++ (if c = "?" then lastWord impl else c)

def panicKindOfMsg (m : String) : String :=
  let has (p : String) : Bool := (m.splitOn p).length > 1
  if has "attempt to add with overflow" then "add"
  else if has "attempt to multiply with overflow" then "mul"
  else if has "attempt to subtract with overflow" then "sub"
  else if has "remainder with a divisor of zero" then "rem0"
  else if has "not a char boundary" then "boundary"
  else if has "out of bounds" ∨ has "out of range" ∨ has "slice index" then "index"
  else if has "capacity overflow" then "alloc"
  else "other"

/-- what the model predicted, for the oracle -/
inductive Pred where
  | fine | panic (k : PK) | hang | deep | none

/-- the property evaluated on the implementation's answer -/
def oracle (kernel impl : String) (p : Pred) : String :=
  if impl.startsWith "panic:" then
    let k := panicKindOfMsg impl
    match p with
    | .panic pk => if pk.name = k then s!"fail:panic-as-modelled:{kernel}:{k}" else s!"fail:panic-unmodelled:{kernel}:{k}"
    | .none => s!"fail:panic-explore:{kernel}:{k}"
    | _ => s!"fail:panic-unmodelled:{kernel}:{k}"
  else if impl.startsWith "abort" then
    match p with
    | .panic .alloc => s!"fail:alloc-abort-as-modelled:{kernel}"
    | .deep => s!"fail:stack-overflow-as-modelled:{kernel}"
    | .none => s!"fail:abort-explore:{kernel}"
    | _ => s!"fail:abort-unmodelled:{kernel}"
  else if impl = "timeout" then
    match p with
    | .hang => s!"fail:hang-as-modelled:{kernel}"
    | .panic .alloc => s!"fail:alloc-abort-as-modelled:{kernel}"
    | .none => s!"fail:timeout-explore:{kernel}"
    | _ => s!"fail:timeout-unmodelled:{kernel}"
  else "ok"

def predOf {α} (o : Outcome α) : Pred :=
  match o with
  | .ok _ => .fine
  | .err => .fine
  | .panic k => .panic k
  | .diverge => .hang

def showOutcome {α} (o : Outcome α) (f : α → String) : String :=
  match o with
  | .ok a => f a
  | .err => "err"
  | .panic k => "panic:" ++ k.name
  | .diverge => "hang"

def natsStr (xs : List Nat) : String := if xs.isEmpty then "." else ",".intercalate (xs.map toString)

def dedupNat (xs : List Nat) : List Nat :=
  (sortBy (fun a b => decide (a < b)) xs).foldr (fun x acc => match acc with
    | y :: _ => if x == y then acc else x :: acc
    | [] => [x]) []

def repBytes (pfx unit : Bytes) (n : Nat) (sfx : Bytes) : Bytes :=
  pfx ++ (List.replicate n unit).flatten ++ sfx

/-- depth and body of a `rep` request evaluated at size `n` -/
def repEval (kind : String) (o : LexOpts) (bs : Bytes) : String × Nat :=
  match kind with
  | "lex" =>
    let r := nextToken o bs
    (showOutcome r.tok renderTok, r.depth)
  | "obj" =>
    let r := parseTop o bs
    (showOutcome r.val (fun _ => "ok"), max r.depth r.st.lexDepth)
  | _ => ("", cSkipDepth bs)

def hexLines (s : String) : Option (List Bytes) :=
  if s = "." then some [] else (s.splitOn "/").mapM bytesOfHex?

def prevSections (spec : String) : Option (List (Nat × Option Nat)) :=
  let items := spec.splitOn ","
  let rec go : List String → Nat → Option (List (Nat × Option Nat))
    | [], _ => some []
    | s :: rest, i =>
      let p : Option (Option Nat) :=
        if s = "_" then some none
        else if s = "x" then some (some 1000)
        else if s = "h" then some (some 2000)
        else match s.toList with
          | 'p' :: ds => (String.ofList ds).toNat?.map some
          | _ => none
      match p, go rest (i + 1) with
      | some pv, some r => some ((i, pv) :: r)
      | _, _ => none
  go items 0

def kidsOf (s : String) : Option (List Nat) :=
  if s = "" then some [] else (s.splitOn ".").mapM String.toNat?

def treeGraph (parts : List String) : Option (List (Nat × PNode)) :=
  let rec go : List String → Nat → Option (List (Nat × PNode))
    | [], _ => some []
    | s :: rest, i =>
      let n : Option PNode :=
        if s = "P" then some .page
        else if s = "O" then some .other
        else match s.toList with
          | 'N' :: ks => (kidsOf (String.ofList ks)).map .pages
          | _ => none
      match n, go rest (i + 1) with
      | some nv, some r => some ((i, nv) :: r)
      | _, _ => none
  go parts 0

def handle (req impl : String) : String × String :=
  let bad : String × String := ("bad-request", "na")
  match req.splitOn " " with
  | ["a85", h] =>
    match bytesOfHex? h with
    | some bs =>
      let r := a85Decode bs MAX_DECOMPRESSED_SIZE
      (showOutcome r (fun v => "ok:" ++ hexField v), oracle "a85" impl (predOf r))
    | none => bad
  | ["pred", p, cols, colors, bpc, h] =>
    match intOrAbsent p, intOrAbsent cols, intOrAbsent colors, intOrAbsent bpc, bytesOfHex? h with
    | some p, some cols, some colors, some bpc, some bs =>
      -- /Predictor 2 (TIFF) is not modelled here: no prediction, only the oracle
      if (p.map predictorModelled).getD true = false then (impl, oracle "pred" impl .none)
      else
        let r := filterThenPredict bs p cols bpc colors
        (showOutcome r (fun v => "ok:" ++ hexField v), oracle "pred" impl (predOf r))
    | _, _, _, _, _ => bad
  | ["lex", pre, h] =>
    match optsOf pre, bytesOfHex? h with
    | some o, some bs =>
      let (toks, e, d) := lexAll o (bs.length + 2) bs [] 0
      let tail := match e with
        | .ok _ => "E"
        | .err => "err"
        | .panic k => "panic:" ++ k.name
        | .diverge => "hang"
      let body := ",".intercalate (toks.map renderTok ++ [tail])
      (withClass body d impl, oracle "lex" impl (if d ≥ 8192 then .deep else predOf e))
    | _, _ => bad
  | ["obj", pre, h] =>
    match optsOf pre, bytesOfHex? h with
    | some o, some bs =>
      let r := parseTop o bs
      let d := max r.depth r.st.lexDepth
      if r.st.sawStream then (impl, oracle "obj" impl .none)
      else (withClass (showOutcome r.val renderObj) d impl, oracle "obj" impl (if d ≥ 8192 then .deep else predOf r.val))
    | _, _ => bad
  | ["rep", kind, pre, pfx, unit, n, sfx] =>
    match optsOf pre, bytesOfHex? pfx, bytesOfHex? unit, n.toNat?, bytesOfHex? sfx with
    | some o, some pfx, some unit, some n, some sfx =>
      -- beyond 600 repetitions the depth is extrapolated linearly: by then the object parser has hit
      -- `MAX_OBJECT_NESTING` (slope 0, `C01_obj_depth_bounded`), the lexer's depth is constant
      -- (`C01_lex_depth_const`) and the content tokenizer's grows by one per unit
      -- (`C01_witness_content_depth`); the driver itself never recurses deeply
      let n0 := min n 600
      let (body, d0) := repEval kind o (repBytes pfx unit n0 sfx)
      let d := if n > n0 then
          let (_, d1) := repEval kind o (repBytes pfx unit (n0 + 1) sfx)
          d0 + (d1 - d0) * (n - n0)
        else d0
      let body := if kind = "content" then (impl.splitOn " ").head! else body
      (withClass body d impl, oracle ("rep-" ++ kind) impl (if d ≥ 8192 then .deep else .fine))
    | _, _, _, _, _ => bad
  | ["xrs", w, idx, size, h] =>
    match intsOf w, (if idx = "_" then some none else (intsOf idx).map some), intOrAbsent size, bytesOfHex? h with
    | some w, some idx, some size, some bs =>
      let r := xrsEntries w idx size bs
      let f := fun (es : List XEntry) =>
        "ok:" ++ (if es.isEmpty then "." else ",".intercalate (es.map fun e => s!"{e.obj}.{e.kind}.{e.f1}.{e.f2}"))
      (showOutcome r f, oracle "xrs" impl (predOf r))
    | _, _, _, _ => bad
  | ["xref", ls] =>
    match hexLines ls with
    | some lines =>
      let r := classicXref strictOpts lines
      match r with
      | .ok (_, true) => (impl, oracle "xref" impl .none)
      | _ => (showOutcome r (fun x => "ok:" ++ natsStr (dedupNat x.1)), oracle "xref" impl (predOf r))
    | none => bad
  | ["objstm", n, first, h] =>
    match n.toInt?, first.toInt?, bytesOfHex? h with
    | some n, some first, some bs =>
      let r := objStm n first bs
      match r with
      | .ok (_, true) => (impl, oracle "objstm" impl .none)
      | _ =>
        let f := fun (x : List (Nat × Obj) × Bool) =>
          -- HashMap<u32, _>: last insertion wins, sorted by number
          let kvs := x.1
          let rec go : List (Nat × Obj) → List (Nat × Obj) → List (Nat × Obj)
            | [], acc => acc
            | kv :: rest, acc => if rest.any (fun y => y.1 == kv.1) then go rest acc else go rest (kv :: acc)
          let ds := sortBy (fun a b => decide (a.1 < b.1)) (go kvs [])
          "ok:" ++ (if ds.isEmpty then "." else "|".intercalate (ds.map fun kv => toString kv.1 ++ "=" ++ renderObj kv.2))
        (showOutcome r f, oracle "objstm" impl (predOf r))
    | _, _, _ => bad
  | ["stmlen", len, avail] =>
    match len.toInt?, avail.toNat? with
    | some len, some avail =>
      let r := streamRead (2 ^ 30) len avail
      let m := match r with
        | .ok _ => "ok:" ++ toString len
        | .err => "err"
        | .panic _ => "abort"
        | .diverge => "hang"
      (m, oracle "stmlen" impl (predOf r))
    | _, _ => bad
  | ["rot", r, a] =>
    match r.toInt?, a.toInt? with
    | some r, some a =>
      let o := rotateCompose r a
      (showOutcome o (fun _ => "ok"), oracle "rot" impl (predOf o))
    | _, _ => bad
  | ["cmapoff", code, start] =>
    match bytesOfHex? code, bytesOfHex? start with
    | some code, some start =>
      -- the range test `code >= start` (lexicographic, equal lengths) guards the call
      let o : Outcome Nat := if lexLt code start then .ok 0 else calculateOffset code start
      (showOutcome o (fun _ => "ok"), oracle "cmapoff" impl (predOf o))
    | _, _ => bad
  | ["label", start, offset] =>
    match start.toInt?, offset.toNat? with
    | some start, some offset =>
      let o := labelNumber (asU U32 start) offset
      (showOutcome o (fun n => "ok:" ++ toString n), oracle "label" impl (predOf o))
    | _, _ => bad
  | ["rc4", key] =>
    match bytesOfHex? key with
    | some k =>
      let o := rc4FirstIndex k.length
      (showOutcome o (fun _ => "ok"), oracle "rc4" impl (predOf o))
    | none => bad
  | ["prev", start, spec] =>
    match start.toNat?, prevSections spec with
    | some start, some secs =>
      let o := prevChain secs start
      (showOutcome o (fun v => "ok:" ++ natsStr (dedupNat v)), oracle "prev" impl (predOf o))
    | _, _ => bad
  | ["tree", spec] =>
    match spec.splitOn ";" with
    | rk :: nodes =>
      match kidsOf rk, treeGraph nodes with
      | some rk, some g =>
        let fuel := rk.length + (g.foldl (fun a e => a + (match e.2 with
          | .pages ks => ks.length + 1
          | _ => 1)) 0) + 2
        match flattenRun MAX_PAGES g fuel ⟨rk, [], []⟩ with
        | some s => ("ok:" ++ natsStr s.pages.reverse, oracle "tree" impl .fine)
        | none => ("hang", oracle "tree" impl .hang)
      | _, _ => bad
    | [] => bad
  | "explore" :: _ => (impl, oracle "explore" impl .none)
  | "xfile" :: _ => (impl, oracle "xfile" impl .none)
  | "content" :: _ => (impl, oracle "content" impl .none)
  | _ => bad

def main : IO Unit := runDriver handle
