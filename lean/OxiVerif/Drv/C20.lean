import OxiVerif.Base.Driver
import OxiVerif.Model.C20
import OxiVerif.Model.C20Rewrite
/-!
Driver for C20 (builder b0320).  Request `det <cfg> <program>`; IMPL = `distinct=<k> runs=<n> …`
(see harness/src/bin/c20.rs).
  MODEL  = what the order-oracle model says for the configuration: every emission site reached
           is independent of the oracle (`Props/C20`), so `distinct=1` under every configuration.
  ORACLE = the property itself on the observed outputs: ok iff all serialisations are identical.
-/
open OxiVerif

namespace C20Drv

def fieldsOf (s : String) : List (String × String) :=
  (s.splitOn " ").filterMap fun t =>
    match t.splitOn "=" with
    | [k, v] => some (k, v)
    | _ => none

def fld (fs : List (String × String)) (k : String) : Option String :=
  (fs.find? (fun e => e.1 == k)).map (·.2)

def handle (req impl : String) : String × String :=
  match req.splitOn " " with
  | ["det", cfg, prog] =>
    match cfg.splitOn ":" with
    | [k, _, _] =>
      let fs := fieldsOf impl
      let runs := (fld fs "runs").getD "6"
      let xs := k = "x" ∨ k = "xo"
      let oracle :=
        match (fld fs "distinct").bind String.toNat? with
        | some 1 => "ok"
        | some _ => "fail:nondeterministic:" ++ (fld fs "where").getD "?"
        | none => "fail:no-output:" ++ ((impl.splitOn " ").headD "")
      -- every site of the model is independent of the order oracle (`Props/C20`), also the
      -- cross-reference stream dictionary (`C20_xref_stream_dict`) and the /AP appearance-stream
      -- allocation (`C20_ap_stream_allocation`) since their repair: one output, always
      let _ := xs
      -- …except the re-write of the same Document value (`Model/C20Rewrite.lean`): FormManager
      -- fields (`F,t` / `F,c`) together with /T-carrying widget annotations (`F,x`) on a document
      -- without AcroForm make the second serialisation list more /Fields (C20-F3)
      let has (k : String) := (prog.splitOn k).length > 1
      let hasMgr := has ";F,t," || has ";F,c,"
      let w : List Nat := if has ";F,x," then [2] else []
      let tw := OxiVerif.C20.writeTwice hasMgr [1] w none
      let model :=
        if tw.1 == tw.2 then s!"distinct=1 runs={runs}"
        else if fld fs "distinct" == some "2" ∧ fld fs "same" == some "0" ∧ fld fs "fresh" == some "1"
                ∧ fld fs "where" == some "body" then impl
        else "distinct=2 same=0 fresh=1 where=body"
      (model, oracle)
    | _ => ("bad-request", "na")
  | _ => ("bad-request", "na")

end C20Drv

def main : IO Unit := runDriver C20Drv.handle
