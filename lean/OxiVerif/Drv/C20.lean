import OxiVerif.Base.Driver
import OxiVerif.Model.C20
/-!
Driver for C20 (builder b0320).  Request `det <cfg> <program>`; IMPL = `distinct=<k> runs=<n> …`
(see harness/src/bin/c20.rs).
  MODEL  = what the order-oracle model says for the configuration: every emission site reached
           without `use_xref_streams` is independent of the oracle (`Props/C20`), so `distinct=1`;
           with `use_xref_streams` the cross-reference stream dictionary is emitted in iteration
           order (`xrefStreamDictO`), two oracles give different bytes (`C20_witness_…`), so the
           model answers `distinct>1 where=xrefdict`.
  ORACLE = the property itself on the observed outputs: ok iff all serialisations are identical.
-/
open OxiVerif

namespace C20Drv

def fieldsOf (s : String) : List (String × String) :=
  (s.splitOn " ").filterMap fun t =>
    match t.splitOn "=" with
    | [k, v] => some (k, v)
    | _ => none

def fld (fs : List (String × String)) (k : String) : Option String :=
  (fs.find? (fun e => e.1 == k)).map (·.2)

def handle (req impl : String) : String × String :=
  match req.splitOn " " with
  | ["det", cfg, _prog] =>
    match cfg.splitOn ":" with
    | [k, _, _] =>
      let fs := fieldsOf impl
      let runs := (fld fs "runs").getD "6"
      let xs := k = "x" ∨ k = "xo"
      let oracle :=
        match (fld fs "distinct").bind String.toNat? with
        | some 1 => "ok"
        | some _ => "fail:nondeterministic:" ++ (fld fs "where").getD "?"
        | none => "fail:no-output:" ++ ((impl.splitOn " ").headD "")
      let model :=
        if xs then
          -- the model cannot (and must not) predict hash orders: it reproduces the observed
          -- answer exactly when that answer is "several outputs, first difference inside the
          -- cross-reference stream object", and disagrees otherwise
          if fld fs "where" == some "xrefdict" ∧ (fld fs "distinct") != some "1" then impl
          else "distinct>1 where=xrefdict"
        else s!"distinct=1 runs={runs}"
      (model, oracle)
    | _ => ("bad-request", "na")
  | _ => ("bad-request", "na")

end C20Drv

def main : IO Unit := runDriver C20Drv.handle
