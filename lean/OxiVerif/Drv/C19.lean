import OxiVerif.Base.Driver
import OxiVerif.Model.C19
/-!
Driver for C19 (request / answer format: harness/src/bin/c19.rs).

MODEL  = `<mode>|<entries>|<root>` predicted by the model of the fall-back switch, the chunked
         header scan (chunk 64 KiB, as `scan_object_headers` fixes it), latest-wins and the catalog
         search, followed by the implementation's page counts and dumps (these are oracle input).
ORACLE = the property: the damaged file opens to the same catalog, page count and the same value
         for every object of the intact file.
-/
open OxiVerif OxiVerif.C19

def decodeSegments (s : String) : Option Bytes :=
  ((s.splitOn ",").mapM (fun (t : String) =>
    match t.toList with
    | 'h' :: r => bytesOfHex? (String.ofList r)
    | 'r' :: r =>
      match (String.ofList r).splitOn "." with
      | [b, c] =>
        match bytesOfHex? b, c.toNat? with
        | some [bb], some n => some (List.replicate n bb)
        | _, _ => none
      | _ => none
    | _ => none)).map List.flatten

/-- the intact file's own table, read strictly: (num, offset, gen) of the in-use entries -/
def takeDigits : Bytes → Bytes × Bytes
  | [] => ([], [])
  | c :: r => if isDigit c then let (d, t) := takeDigits r; (c :: d, t) else ([], c :: r)

def intactEntries (f : Bytes) : List (Nat × Nat × Nat) :=
  -- last occurrence of "xref\n0 "
  let pat := ascii "xref\n0 "
  let rec lastPos (b : Bytes) (i : Nat) (best : Option Nat) : Option Nat :=
    match b with
    | [] => best
    | _ :: r => lastPos r (i + 1) (if startsWith b pat then some i else best)
  match lastPos f 0 none with
  | none => []
  | some p =>
    let b := f.drop (p + pat.length)
    let (cnt, b1) := takeDigits b
    let n := digitsVal cnt
    let b2 := b1.drop 1
    (List.range n).filterMap fun i =>
      let line := (b2.drop (20 * i)).take 20
      if line.length = 20 ∧ line[17]? = some 110 then
        some (i, digitsVal (line.take 10), digitsVal ((line.drop 11).take 5))
      else none

def lastXrefPos (b : Bytes) (i : Nat) (best : Option Nat) : Option Nat :=
  match b with
  | [] => best
  | _ :: r => lastXrefPos r (i + 1) (if startsWith b (ascii "xref\n0 ") then some i else best)

def parseDump (s : String) : String × List (String × String) :=
  match s.splitOn ";" with
  | [c, r] => (c, (r.splitOn ",").filterMap fun kv => match kv.splitOn "=" with
      | [k, v] => some (k, v)
      | _ => none)
  | _ => (s, [])

/-- `xs` = the file has a cross-reference stream: the fall-back switch is then not predicted (the
    mode is taken from the implementation's answer), everything after it is -/
def judge (ops : String) (intact damaged : Bytes) (impl : String) (truth : List (Nat × Nat × Nat))
    (bodyEnd : Nat) (xs compressed : Bool) : String × String :=
      let parts := impl.splitOn "|"
      match parts with
      | [imode, _ientries, _iroot, pages, di, dd] =>
        -- the fall-back switch (`parse_with_options`): the primary parse survives iff the last
        -- `startxref` of the tail still names a line `xref` that is followed by a complete trailer
        let tail := damaged.drop (damaged.length - 1024)
        let sxN : Option Nat :=
          let pat := ascii "startxref"
          let rec lastPos (b : Bytes) (best : Option Bytes) : Option Bytes :=
            match b with
            | [] => best
            | _ :: r => lastPos r (if startsWith b pat then some (b.drop pat.length) else best)
          match lastPos tail none with
          | some after =>
            let after := after.dropWhile fun c => isEol c
            let (d, rest) := takeDigits after
            if d.isEmpty then none
            else if rest.isEmpty ∨ isEol (rest.headD 0) then some (digitsVal d) else none
          | none => none
        let primaryOk : Bool := match sxN with
          | some n =>
            let atN := damaged.drop n
            decide (n < damaged.length) && startsWith atN (ascii "xref") && isEol ((atN.drop 4).headD 0) &&
              (match findSub (ascii "trailer") atN 0 with
               | some t => containsSub (atN.drop t) (ascii ">>")
               | none => false)
          | none => false
        let primaryOk : Bool := if xs then imode = "primary" else primaryOk
        let hs := if primaryOk then [] else scanChunked 65536 damaged
        let es := recoveredEntries hs
        let predicted :=
          if ¬ primaryOk then
            let root := findRootRecovery damaged es
            let eS := if es.isEmpty then "-" else ",".intercalate (es.map fun (n, o, g) => s!"{n}:{o}:{g}")
            s!"recovery|{eS}|{(root.map fun r => s!"{r}.{rootGen es r}").getD "none"}"
          else
            -- the damaged table still parses: no reconstruction, trailer as written
            s!"{if xs then imode else "primary"}|-|{_iroot}"
        let model := predicted ++ "|" ++ pages ++ "|" ++ di ++ "|" ++ dd
        -- oracle
        let (ci, oi) := parseDump di
        let (cd, od) := parseDump dd
        let pagesOk : Bool := match pages.splitOn "," with
          | [a, b] => a == b
          | _ => false
        let diffs : List String := oi.filterMap fun (k, v) =>
          match od.find? (·.1 = k) with
          | some (_, v') => if v = v' then none else some k
          | none => some k
        -- where the intact file's cross-reference section starts (objects lie before it)
        -- a recovered offset that is no true header offset but lies inside the body: the scan took
        -- a line of stream / string / comment data for a header
        -- the scan reports the start of the line, the table the first digit: blanks may lie between
        let sameHeader := fun (roff toff : Nat) =>
          decide (roff ≤ toff) && ((intact.drop roff).take (toff - roff)).all fun c => c = 32 || c = 9
        let isFalseHeader := fun (n : Nat) =>
          match truth.find? (·.1 = n), es.find? (·.1 = n) with
          | some (_, toff, _), some (_, roff, _) =>
            !sameHeader roff toff && decide (roff < bodyEnd) && !(truth.any fun (_, o, _) => sameHeader roff o)
          | _, _ => false
        let anyFalse : Bool := imode = "recovery" && truth.any fun (n, _, _) => isFalseHeader n
        -- a true header that does not start its line (`endobj 5 0 obj`): the line-based scan cannot see it
        let notAtLineStart := fun (toff : Nat) =>
          let before := ((intact.take toff).reverse).dropWhile fun c => c = 32 || c = 9
          match before with
          | [] => false
          | c :: _ => !isEol c
        let isMissed := fun (n : Nat) =>
          match truth.find? (·.1 = n) with
          | some (_, toff, _) =>
            notAtLineStart toff && (match es.find? (·.1 = n) with
              | some (_, roff, _) => !sameHeader roff toff
              | none => true)
          | none => false
        let anyMissed : Bool := imode = "recovery" && truth.any fun (n, _, _) => isMissed n
        -- the intact trailer's /Root
        let rootNum : Nat :=
          match findSub (ascii "/Root ") intact 0 with
          | some p => digitsVal (takeDigits (intact.drop (p + 6))).1
          | none => 0
        -- the catalog search of the recovery picked another object than the file's catalog
        let wrongRoot : Bool := imode = "recovery" && (_iroot.splitOn ".").headD "" ≠ toString rootNum
        let classOf := fun (k : String) =>
          let n := ((k.splitOn ".").headD "").toNat?.getD 0
          if imode = "primary" then "damaged-table-accepted-without-reconstruction"
          else if isMissed n then "header-not-at-line-start-missed"
          else if isFalseHeader n then "scan-picked-a-false-header"
          else if anyFalse || anyMissed then "follows-false-header"
          else "other"
        let classes := diffs.map classOf
        let classes := classes ++
          (if ci = cd ∧ pagesOk then [] else
            if imode = "primary" then ["damaged-table-accepted-without-reconstruction"]
            else if anyMissed then ["header-not-at-line-start-missed"]
            else if anyFalse then ["scan-picked-a-false-header"]
            else if wrongRoot then ["catalog-search-picked-wrong-object"]
            else [if ci = cd then "page-count-differs" else "catalog-differs"])
        let classes := classes.filter (· ≠ "follows-false-header")
        -- generation numbers other than 0 do not occur in a never-updated file (ISO 32000-1
        -- §7.5.4): outside the class of files the property speaks about
        -- object streams are excluded by the property's class as well
        let outOfClass : Bool := compressed || truth.any fun (_, _, g) => g ≠ 0
        let uniq := (classes.foldl (fun acc x => if acc.contains x then acc else acc ++ [x]) []).toArray.qsort (· < ·) |>.toList
        let detail := match diffs with
          | k :: _ => s!" obj={k}"
          | [] => ""
        if ops = "none" ∨ outOfClass then (model, "na")
        else if uniq.isEmpty then (model, "ok")
        else (model, "fail:" ++ "+".intercalate uniq ++ detail)
      | _ => (impl, "fail:unparsable-answer")

def handle (req impl : String) : String × String :=
  match req.splitOn " " with
  | ["d", ops, intactS, damagedS] =>
    match decodeSegments intactS, decodeSegments damagedS with
    | some intact, some damaged =>
      judge ops intact damaged impl (intactEntries intact) ((lastXrefPos intact 0 none).getD intact.length) false false
    | _, _ => ("bad-request", "na")
  | ["x", ops, objsS, intactS, damagedS] =>
    -- objsS: `num.gen:offset` (top-level object) or `num.gen:c` (inside an object stream), `,`-joined
    match decodeSegments intactS, decodeSegments damagedS with
    | some intact, some damaged =>
      let items := (objsS.splitOn ",").filterMap fun (t : String) =>
        match t.splitOn ":" with
        | [ng, o] =>
          (match ng.splitOn "." with
           | [n, g] => (match n.toNat?, g.toNat? with
              | some n, some g => some (n, g, o.toNat?)
              | _, _ => none)
           | _ => none)
        | _ => none
      let truth := items.filterMap fun (n, g, o) => o.map fun o => (n, o, g)
      let compressed := items.any fun (_, _, o) => o.isNone
      let bodyEnd := (truth.map (·.2.1)).foldl max 0 + 1
      judge ops intact damaged impl truth bodyEnd true compressed
    | _, _ => ("bad-request", "na")
  | _ => ("bad-request", "na")

def main : IO Unit := runDriver handle
