import OxiVerif.Base.Driver
import OxiVerif.Model.C19
/-!
Driver for C19 (request / answer format: harness/src/bin/c19.rs).

MODEL  = `<mode>|<entries>|<root>` predicted by the model of the fall-back switch, the chunked
         header scan (chunk 64 KiB, as `scan_object_headers` fixes it), latest-wins and the catalog
         search, followed by the implementation's page counts and dumps (these are oracle input).
ORACLE = the property: the damaged file opens to the same catalog, page count and the same value
         for every object of the intact file.
-/
open OxiVerif OxiVerif.C19

def decodeSegments (s : String) : Option Bytes :=
  ((s.splitOn ",").mapM (fun (t : String) =>
    match t.toList with
    | 'h' :: r => bytesOfHex? (String.ofList r)
    | 'r' :: r =>
      match (String.ofList r).splitOn "." with
      | [b, c] =>
        match bytesOfHex? b, c.toNat? with
        | some [bb], some n => some (List.replicate n bb)
        | _, _ => none
      | _ => none
    | _ => none)).map List.flatten

/-- the intact file's own table, read strictly: (num, offset, gen) of the in-use entries -/
def takeDigits : Bytes → Bytes × Bytes
  | [] => ([], [])
  | c :: r => if isDigit c then let (d, t) := takeDigits r; (c :: d, t) else ([], c :: r)

def intactEntries (f : Bytes) : List (Nat × Nat × Nat) :=
  -- last occurrence of "xref\n0 "
  let pat := ascii "xref\n0 "
  let rec lastPos (b : Bytes) (i : Nat) (best : Option Nat) : Option Nat :=
    match b with
    | [] => best
    | _ :: r => lastPos r (i + 1) (if startsWith b pat then some i else best)
  match lastPos f 0 none with
  | none => []
  | some p =>
    let b := f.drop (p + pat.length)
    let (cnt, b1) := takeDigits b
    let n := digitsVal cnt
    let b2 := b1.drop 1
    (List.range n).filterMap fun i =>
      let line := (b2.drop (20 * i)).take 20
      if line.length = 20 ∧ line[17]? = some 110 then
        some (i, digitsVal (line.take 10), digitsVal ((line.drop 11).take 5))
      else none

def parseDump (s : String) : String × List (String × String) :=
  match s.splitOn ";" with
  | [c, r] => (c, (r.splitOn ",").filterMap fun kv => match kv.splitOn "=" with
      | [k, v] => some (k, v)
      | _ => none)
  | _ => (s, [])

def handle (req impl : String) : String × String :=
  match req.splitOn " " with
  | ["d", ops, intactS, damagedS] =>
    match decodeSegments intactS, decodeSegments damagedS with
    | some intact, some damaged =>
      let parts := impl.splitOn "|"
      match parts with
      | [imode, _ientries, _iroot, pages, di, dd] =>
        -- the fall-back switch (`parse_with_options`): the primary parse survives iff the last
        -- `startxref` of the tail still names a line `xref` that is followed by a complete trailer
        let tail := damaged.drop (damaged.length - 1024)
        let sxN : Option Nat :=
          let pat := ascii "startxref"
          let rec lastPos (b : Bytes) (best : Option Bytes) : Option Bytes :=
            match b with
            | [] => best
            | _ :: r => lastPos r (if startsWith b pat then some (b.drop pat.length) else best)
          match lastPos tail none with
          | some after =>
            let after := after.dropWhile fun c => isEol c
            let (d, rest) := takeDigits after
            if d.isEmpty then none
            else if rest.isEmpty ∨ isEol (rest.headD 0) then some (digitsVal d) else none
          | none => none
        let primaryOk : Bool := match sxN with
          | some n =>
            let atN := damaged.drop n
            decide (n < damaged.length) && startsWith atN (ascii "xref") && isEol ((atN.drop 4).headD 0) &&
              (match findSub (ascii "trailer") atN 0 with
               | some t => containsSub (atN.drop t) (ascii ">>")
               | none => false)
          | none => false
        let hs := if primaryOk then [] else scanChunked 65536 damaged
        let es := recoveredEntries hs
        let predicted :=
          if ¬ primaryOk then
            let root := findRoot damaged es
            let eS := if es.isEmpty then "-" else ",".intercalate (es.map fun (n, o, g) => s!"{n}:{o}:{g}")
            s!"recovery|{eS}|{(root.map toString).getD "none"}"
          else
            -- the damaged table still parses: no reconstruction, trailer as written
            s!"primary|-|{_iroot}"
        let model := predicted ++ "|" ++ pages ++ "|" ++ di ++ "|" ++ dd
        -- oracle
        let (ci, oi) := parseDump di
        let (cd, od) := parseDump dd
        let truth := intactEntries intact
        let pagesOk : Bool := match pages.splitOn "," with
          | [a, b] => a == b
          | _ => false
        let diffs : List String := oi.filterMap fun (k, v) =>
          match od.find? (·.1 = k) with
          | some (_, v') => if v = v' then none else some k
          | none => some k
        let classOf := fun (k : String) =>
          let n := ((k.splitOn ".").headD "").toNat?.getD 0
          if imode = "primary" then "damaged-table-accepted-without-reconstruction"
          else
            match truth.find? (·.1 = n), es.find? (·.1 = n) with
            | some (_, toff, _), some (_, roff, _) =>
              if toff ≠ roff then "scan-picked-a-false-header" else "other"
            | _, _ => "other"
        let rootGenNonZero : Bool :=
          match findSub (ascii "/Root ") intact 0 with
          | some p =>
            let b := intact.drop (p + 6)
            let (_, r1) := takeDigits b
            let (g, _) := takeDigits (r1.drop 1)
            digitsVal g ≠ 0
          | none => false
        let classes := diffs.map classOf
        let classes := classes ++
          (if ci = cd then [] else
            if imode = "primary" then ["damaged-table-accepted-without-reconstruction"]
            else if classes.contains "scan-picked-a-false-header" then ["scan-picked-a-false-header"]
            else if rootGenNonZero then ["recovery-assumes-generation-0-for-the-catalog"] else ["catalog-differs"]) ++
          (if pagesOk then [] else
            if imode = "primary" then ["damaged-table-accepted-without-reconstruction"]
            else if classes.contains "scan-picked-a-false-header" then ["scan-picked-a-false-header"]
            else if rootGenNonZero then ["recovery-assumes-generation-0-for-the-catalog"] else ["page-count-differs"])
        let uniq := (classes.foldl (fun acc x => if acc.contains x then acc else acc ++ [x]) []).toArray.qsort (· < ·) |>.toList
        let detail := match diffs with
          | k :: _ => s!" obj={k}"
          | [] => ""
        if ops = "none" then (model, "na")
        else if uniq.isEmpty then (model, "ok")
        else (model, "fail:" ++ "+".intercalate uniq ++ detail)
      | _ => (impl, "fail:unparsable-answer")
    | _, _ => ("bad-request", "na")
  | _ => ("bad-request", "na")

def main : IO Unit := runDriver handle
