import OxiVerif.Base.Driver
import OxiVerif.Model.C27
import OxiVerif.Spec.C27Pdf
/-!
Driver for C27 (request grammar: see `harness/src/bin/c27.rs`).

MODEL  = what the transcription of the Rust code answers.
ORACLE = ISO 32000-1 §12.4.2 evaluated on the implementation's answer:
  `fail:label-mismatch`       some label differs from the specification's (any cause but the next)
  `fail:letters-bijective26`  the only deviations are letter-style labels that equal the
                              bijective base-26 ("spreadsheet column") rendering of the value
  `fail:prefix-not-text-string`  a /P with non-ASCII characters is written as raw UTF-8 bytes (C27-F2)
  `fail:written-labels`       the /PageLabels object written into a document does not read back
                              (independent reader) to the authored labels
-/
open OxiVerif OxiVerif.C27

def styleOfTok : String → Option Style
  | "D" => some .decimal | "R" => some .upperRoman | "r" => some .lowerRoman
  | "A" => some .upperLetters | "a" => some .lowerLetters | "N" => some .none
  | _ => none

def parseAdd (s : String) : Option (Nat × Label) :=
  match s.splitOn "." with
  | [sp, sty, st, pfx] =>
    match sp.toNat?, styleOfTok sty, st.toNat? with
    | some sp, some sty, some st =>
      if pfx = "~" then some (sp, { style := sty, pfx := none, start := st })
      else match bytesOfHex? pfx with
        | some bs => some (sp, { style := sty, pfx := some bs, start := st })
        | none => none
    | _, _, _ => none
  | _ => none

def parseAdds (s : String) : Option (List (Nat × Label)) :=
  if s = "_" then some [] else (s.splitOn ";").mapM parseAdd

def parseIndices (s : String) : Option (List Nat) := (s.splitOn ",").mapM String.toNat?

def enc (bs : List Nat) : String :=
  let n := bs.length
  if n ≤ 48 then hexField bs
  else s!"L{n}.{hexOfBytes (bs.take 16)}.{hexOfBytes (bs.drop (n - 16))}"

def showRes : Res → String
  | .absent => "~"
  | .panic => "!"
  | .label bs => "=" ++ enc bs

def isLetters (s : Style) : Bool := s = .upperLetters ∨ s = .lowerLetters
def isRoman (s : Style) : Bool := s = .upperRoman ∨ s = .lowerRoman

/-- `enc (pfx ++ Spec.number style n)` without materialising the (n−1)/26+1 letters Table 159
prescribes for a huge `n` -/
def specEnc (style : Style) (pfx : List Nat) (n : Nat) : String :=
  let k := (n - 1) / 26 + 1
  if isLetters style ∧ k > 64 then
    let c := (if style = .upperLetters then 65 else 97) + (n - 1) % 26
    s!"L{pfx.length + k}.{hexOfBytes ((pfx ++ List.replicate 16 c).take 16)}.{hexOfBytes (List.replicate 16 c)}"
  else enc (pfx ++ charsToBytes (Spec.number style n))

/-- verdict for one label: 0 ok/na, 1 bijective-26 deviation, 2 any other deviation -/
def judgeNumber (style : Style) (pfx : List Nat) (n : Nat) (implTok : String) : Nat :=
  if style ≠ .none ∧ n > U32_MAX then 0            -- beyond Annex C integer limits: not judged
  else if (isLetters style ∨ isRoman style) ∧ n = 0 then 0   -- /St shall be ≥ 1: not judged
  else
    let want := "=" ++ specEnc style pfx n
    if implTok = want then 0
    else if isLetters style ∧
        implTok = "=" ++ enc (pfx ++ charsToBytes (toLetters n (style = .upperLetters))) then 1
    else 2

def judgeIndex (adds : List (Nat × Label)) (withDefault : Bool) (idx : Nat) (implTok : String) : Nat :=
  match Spec.applicable adds idx with
  | none =>
    if withDefault then
      if idx + 1 > U32_MAX then 0
      else if implTok = "=" ++ enc ((toString (idx + 1)).toList.map Char.toNat) then 0 else 2
    else if implTok = "~" then 0 else 2
  | some (s, l) => judgeNumber l.style (l.pfx.getD []) (l.start + (idx - s)) implTok

def verdict (js : List Nat) : String :=
  if js.any (· = 2) then "fail:label-mismatch"
  else if js.any (· = 1) then "fail:letters-bijective26"
  else "ok"

/-! ### dumps of `/Nums` (the `fd` / `td` requests) -/

def showObjOpt (o : Option Obj) (want : String) : String :=
  match o, want with
  | none, _ => "~"
  | some (.name s), "name" => s
  | some (.str bs), "str" => hexField bs
  | some (.int i), "int" => toString i
  | _, _ => "?"

def dumpPairs : List Elem → Option (List String)
  | [] => some []
  | .obj (.int k) :: .dict d :: r =>
    (dumpPairs r).map fun rest =>
      s!"{k}|{showObjOpt d.s "name"}|{showObjOpt d.p "str"}|{showObjOpt d.st "int"}|{showObjOpt d.type "name"}" :: rest
  | _ => none

def dumpTree (t : Tree) : String :=
  if t.isEmpty then "_" else
  match dumpPairs (toNums t) with
  | some ls => ";".intercalate ls
  | none => "?pair"

def parseVal (v : String) : Option Obj :=
  if v = "x" then some .other else
  match v.toList with
  | 'i' :: r => (String.ofList r).toInt?.map .int
  | 'n' :: r => some (.name (String.ofList r))
  | 's' :: r => (bytesOfHex? (String.ofList r)).map .str
  | _ => none

def parseField (d : LabelDict) (f : String) : Option LabelDict :=
  match f.splitOn "=" with
  | [k, v] =>
    match parseVal v with
    | none => none
    | some o =>
      if k = "S" then some { d with s := some o }
      else if k = "Type" then some { d with type := some o }
      else if k = "P" then some { d with p := some o }
      else if k = "St" then some { d with st := some o }
      else none
  | _ => none

def parseElem (e : String) : Option Elem :=
  match e.toList with
  | 'd' :: r =>
    let fs := String.ofList r
    if fs = "" then some (.dict ⟨none, none, none, none⟩)
    else (fs.splitOn "/").foldlM parseField (⟨none, none, none, none⟩ : LabelDict) |>.map .dict
  | _ => (parseVal e).map .obj

/-! ### the written /PageLabels object, read by the independent reader -/

open PdfMini in
def readLabelDict (kvs : List (List Nat × PVal)) : Option Label :=
  if !keysDistinct kvs then none else
  let typeOk := match lookup "Type" kvs with
    | none => true
    | some (.name n) => n = "PageLabel".toList.map Char.toNat
    | _ => false
  let style : Option Style := match lookup "S" kvs with
    | none => some .none
    | some (.name [68]) => some .decimal
    | some (.name [82]) => some .upperRoman
    | some (.name [114]) => some .lowerRoman
    | some (.name [65]) => some .upperLetters
    | some (.name [97]) => some .lowerLetters
    | _ => none
  let pfx : Option (Option (List Nat)) := match lookup "P" kvs with
    | none => some none
    | some (.str bs) => some (some bs)
    | _ => none
  let st : Option Nat := match lookup "St" kvs with
    | none => some 1
    | some (.int i) => if i ≥ 0 then some i.toNat else none
    | _ => none
  match typeOk, style, pfx, st with
  | true, some s, some p, some st => some { style := s, pfx := p, start := st }
  | _, _, _, _ => none

open PdfMini in
def readNums : List PVal → Option (List (Nat × Label))
  | [] => some []
  | .int k :: .dict kvs :: r =>
    if k < 0 then none else
    match readLabelDict kvs, readNums r with
    | some l, some rest => some ((k.toNat, l) :: rest)
    | _, _ => none
  | _ => none

def strictlyAscending : List Nat → Bool
  | a :: b :: r => a < b && strictlyAscending (b :: r)
  | _ => true

open PdfMini in
/-- what a reader following §7.9.7 / §12.4.2 gets out of the written object -/
def readPageLabels (raw : List Nat) : Option (List (Nat × Label)) :=
  match parseAll raw with
  | some [.dict kvs] =>
    match lookup "Nums" kvs with
    | some (.arr vs) =>
      match readNums vs with
      | some t => if strictlyAscending (t.map (·.1)) then some t else none
      | none => none
    | _ => none
  | _ => none

/-- `(Spec.label t idx).map enc`, computed without materialising huge letter runs -/
def specLabelOpt (t : List (Nat × Label)) (idx : Nat) : Option String :=
  (Spec.applicable t idx).map fun (s, l) =>
    -- beyond the integer limits of Annex C the label is not judged (and a Roman numeral of
    -- 4·10⁹ would be millions of `m`s): compare the range only
    if l.style ≠ .none ∧ l.start + (idx - s) > U32_MAX then
      s!"beyond-u32:{s}:{l.start}:{hexField (l.pfx.getD [])}:{(l.style.toPdfName).getD "~"}"
    else specEnc l.style (l.pfx.getD []) (l.start + (idx - s))

def handle (req impl : String) : String × String :=
  match req.splitOn " " with
  | ["fmt", sty, n] =>
    match styleOfTok sty, n.toNat? with
    | some sty, some n =>
      (showRes (.label (charsToBytes (sty.format n))), verdict [judgeNumber sty [] n impl])
    | _, _ => ("bad-request", "na")
  | [op, adds, idx] =>
    if op = "lab" ∨ op = "rt" ∨ op = "def" then
      match parseAdds adds, parseIndices idx with
      | some adds, some idx =>
        let t := build adds
        let model : String :=
          if op = "lab" then ",".intercalate (idx.map fun i => showRes (getLabel t i))
          else if op = "rt" then
            match fromDict (some (toNums t)) with
            | some t2 => ",".intercalate (idx.map fun i => showRes (getLabel t2 i))
            | none => "none"
          else ",".intercalate (idx.map fun i => showRes (getLabelOrDefault t i))
        let toks := impl.splitOn ","
        let oracle :=
          if toks.length ≠ idx.length then "fail:label-mismatch"
          else verdict ((List.zip idx toks).map fun (i, tok) => judgeIndex adds (op = "def") i tok)
        (model, oracle)
      | _, _ => ("bad-request", "na")
    else if op = "doc" then
      match parseAdds adds, parseIndices idx, bytesOfHex? impl with
      | some adds, some idx, some raw =>
        let t := build adds
        match readPageLabels raw with
        | none => (dumpTree t, "fail:written-labels-unreadable")
        | some rd =>
          -- translation validation: what the independent reader gets out of the written bytes
          -- is exactly the tree the model holds
          let model := if decide (rd = t) then impl else dumpTree t
          -- every queried page, plus the pages around every range start
          -- (the extra probes skip Roman numerals beyond 50000: thousands of `m`s, quadratic here;
          -- the queried pages `idx` are judged whatever they are)
          let cheap (i : Nat) : Bool := match Spec.applicable adds i with
            | some (s, l) =>
              !((l.style = .upperRoman || l.style = .lowerRoman) && l.start + (i - s) > 50000)
            | none => true
          let probes := idx ++ (adds.flatMap fun a => [a.1 - 1, a.1, a.1 + 1, a.1 + 27]).filter cheap
          let bad := probes.any fun i => specLabelOpt rd i ≠ specLabelOpt adds i
          -- /P is a text string (§7.9.2.2): the reader decodes it (PDFDocEncoding or, after
          -- FE FF, UTF-16BE) and must see the authored characters
          let want := Spec.finalRanges adds
          let pfxBad := rd.length ≠ want.length ∨
            (List.zip rd want).any fun (r, w) => ¬ Spec.prefixReadsBack r.2.pfx w.2.pfx
          -- … the modelled defect: the authored UTF-8 bytes verbatim, some of them ≥ 0x80
          let pfxRawUtf8 := rd.length = want.length ∧ (List.zip rd want).all fun (r, w) =>
            Spec.prefixReadsBack r.2.pfx w.2.pfx ∨
              (r.2.pfx = w.2.pfx ∧ (r.2.pfx.getD []).any (· ≥ 128))
          (model, if bad then "fail:written-labels"
            else if pfxBad then (if pfxRawUtf8 then "fail:prefix-not-text-string" else "fail:written-labels-prefix")
            else "ok")
      | _, _, _ => (impl ++ "?", "na")
    else ("bad-request", "na")
  | ["fd", nums] =>
    let parsed : Option (Option (List Elem)) :=
      if nums = "@missing" ∨ nums = "@notarray" then some none
      else if nums = "_" then some (some [])
      else ((nums.splitOn ",").mapM parseElem).map some
    match parsed with
    | some v =>
      match fromDict v with
      | some t => (dumpTree t, "na")
      | none => ("none", "na")
    | none => ("bad-request", "na")
  | ["td", adds] =>
    match parseAdds adds with
    | some adds =>
      let t := build adds
      -- spec side: a reader applying Table 159 defaults to the dumped entries sees the authored
      -- ranges (sorted, later additions replacing earlier ones with the same start)
      let want := (Spec.finalRanges adds).map fun (k, l) =>
        s!"{k}|{(l.style.toPdfName).getD "~"}|{match l.pfx with | some p => hexField p | none => "~"}|{if l.start = 1 then "~" else toString l.start}|PageLabel"
      let wantS := if want.isEmpty then "_" else ";".intercalate want
      (dumpTree t, if impl = wantS then "ok" else "fail:label-mismatch")
    | none => ("bad-request", "na")
  | _ => ("bad-request", "na")

def main : IO Unit := runDriver handle
