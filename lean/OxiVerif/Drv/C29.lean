import OxiVerif.Base.Driver
import OxiVerif.Model.C29
/-!
Driver for C29.  Requests:
  `seq <cap> <op,op,…>`                 one sequential history on `LruCache`
  `conc <cap> <ops>|<ops>|… # <probe>`  per-thread histories on a shared `ObjectCache`, then a
                                         sequential probe after all threads joined
ops: `g<k>` get, `p<k>:<v>` put, `c` clear, `l` len.  outs: `-` none, `v<n>`, `u`, `s<n>`.
-/
open OxiVerif OxiVerif.C29

def parseOp (t : String) : Option Op :=
  match t.toList with
  | ['c'] => some .clear
  | ['l'] => some .len
  | 'g' :: r => (String.ofList r).toNat?.map .get
  | 'p' :: r =>
    match (String.ofList r).splitOn ":" with
    | [a, b] => match a.toNat?, b.toNat? with
      | some k, some v => some (.put k v)
      | _, _ => none
    | _ => none
  | _ => none

def parseOut (t : String) : Option Out :=
  match t.toList with
  | ['-'] => some .none
  | ['u'] => some .unit
  | 'v' :: r => (String.ofList r).toNat?.map .val
  | 's' :: r => (String.ofList r).toNat?.map .size
  | _ => none

def showOut : Out → String
  | .none => "-"
  | .unit => "u"
  | .val v => "v" ++ toString v
  | .size n => "s" ++ toString n

def parseList {α} (f : String → Option α) (s : String) : Option (List α) :=
  if s = "" ∨ s = "." then some [] else (s.splitOn ",").mapM f

def showOuts (os : List Out) : String :=
  if os.isEmpty then "." else ",".intercalate (os.map showOut)

def firstDiff (a b : List Out) (i : Nat := 0) : Option Nat :=
  match a, b with
  | [], [] => none
  | x :: xs, y :: ys => if x = y then firstDiff xs ys (i + 1) else some i
  | _, _ => some i

def handle (req impl : String) : String × String :=
  match req.splitOn " " with
  | ["seq", cap, ops] =>
    match cap.toNat?, parseList parseOp ops with
    | some c, some os =>
      let m := Impl.run (Impl.new c) os
      let spec := Spec.run (Spec.new c) os
      let oracle := match parseList parseOut impl with
        | some io => match firstDiff io spec with
          | none => "ok"
          | some i => s!"fail:differs-from-abstract-LRU-at-op-{i}"
        | none => "fail:unparsable-impl-answer"
      (showOuts m, oracle)
    | _, _ => ("bad-request", "na")
  | ["conc", cap, ths, "#", probe] =>
    match cap.toNat?, (ths.splitOn "|").mapM (parseList parseOp), parseList parseOp probe with
    | some c, some tops, some pops =>
      match impl.splitOn "#" with
      | [ti, pi] =>
        match (ti.splitOn "|").mapM (parseList parseOut), parseList parseOut pi with
        | some touts, some pouts =>
          if touts.length ≠ tops.length ∨ pouts.length ≠ pops.length ∨
             (List.zip tops touts).any (fun (a, b) => a.length ≠ b.length) then
            ("shape-mismatch", "fail:shape")
          else
            let hist := (List.zip tops touts).map fun (a, b) => List.zip a b
            let fuel := (tops.map List.length).foldl (· + ·) 0
            if linearisable fuel (Impl.new c) hist (List.zip pops pouts) then (impl, "ok")
            else ("no-linearisation", "fail:no-sequential-history-explains-the-results")
        | _, _ => ("unparsable-impl", "fail:unparsable-impl-answer")
      | _ => ("unparsable-impl", "fail:unparsable-impl-answer")
    | _, _, _ => ("bad-request", "na")
  | _ => ("bad-request", "na")

def main : IO Unit := runDriver handle
