import OxiVerif.Base.Driver
import OxiVerif.Model.C29
/-!
Driver for C29.  Requests:
  `seq <cap> <op,op,…>`                 one sequential history on `LruCache`
  `oseq <cap> <ops>`                    the same on one `ObjectCache` (single thread)
  `mm <cache_size> <ops>`               on `MemoryManager::new(options).cache()` (`nocache` if None)
  `conc <cap> <ops>|<ops>|… # <probe>`  per-thread histories on a shared `ObjectCache`, then a
                                         sequential probe after all threads joined
ops: `g<k>` get, `p<k>:<v>` put, `c` clear, `l` len, `e` is_empty (LruCache), `t` stats (ObjectCache).
outs: `-` none, `v<n>`, `u`, `s<n>`, `b0`/`b1`, `t<size>:<cap>`.
-/
open OxiVerif OxiVerif.C29

def parseOp (t : String) : Option Op :=
  match t.toList with
  | ['c'] => some .clear
  | ['l'] => some .len
  | ['e'] => some .isEmpty
  | ['t'] => some .stats
  | 'g' :: r => (String.ofList r).toNat?.map .get
  | 'p' :: r =>
    match (String.ofList r).splitOn ":" with
    | [a, b] => match a.toNat?, b.toNat? with
      | some k, some v => some (.put k v)
      | _, _ => none
    | _ => none
  | _ => none

def parseOut (t : String) : Option Out :=
  match t.toList with
  | ['-'] => some .none
  | ['u'] => some .unit
  | 'v' :: r => (String.ofList r).toNat?.map .val
  | 's' :: r => (String.ofList r).toNat?.map .size
  | ['b', '0'] => some (.flag false)
  | ['b', '1'] => some (.flag true)
  | 't' :: r =>
    match (String.ofList r).splitOn ":" with
    | [a, b] => match a.toNat?, b.toNat? with
      | some n, some c => some (.stats n c)
      | _, _ => none
    | _ => none
  | _ => none

def showOut : Out → String
  | .none => "-"
  | .unit => "u"
  | .val v => "v" ++ toString v
  | .size n => "s" ++ toString n
  | .flag b => if b then "b1" else "b0"
  | .stats n c => "t" ++ toString n ++ ":" ++ toString c

def parseList {α} (f : String → Option α) (s : String) : Option (List α) :=
  if s = "" ∨ s = "." then some [] else (s.splitOn ",").mapM f

def showOuts (os : List Out) : String :=
  if os.isEmpty then "." else ",".intercalate (os.map showOut)

def firstDiff (a b : List Out) (i : Nat := 0) : Option Nat :=
  match a, b with
  | [], [] => none
  | x :: xs, y :: ys => if x = y then firstDiff xs ys (i + 1) else some i
  | _, _ => some i

/-- The property's clauses evaluated directly on the implementation's answers (independent of
the refinement): a hit returns the value most recently stored under that key since the last
clear; no reported size exceeds the capacity; `stats` reports the construction-time capacity. -/
def directClauses (cap : Nat) (ops : List Op) (outs : List Out) : Option String :=
  let rec go (i : Nat) (f : Nat → Option Nat) : List Op → List Out → Option String
    | op :: ops, o :: outs =>
      let bad : Option String := match op, o with
        | .get k, .val v => if f k = some v then none else some s!"fail:hit-is-not-the-value-last-stored-at-op-{i}"
        | .get _, .none => none
        | .len, .size n => if n ≤ cap then none else some s!"fail:size-exceeds-capacity-at-op-{i}"
        | .stats, .stats n c =>
          if n > cap then some s!"fail:size-exceeds-capacity-at-op-{i}"
          else if c ≠ cap then some s!"fail:stats-capacity-differs-at-op-{i}" else none
        | .isEmpty, .flag _ => none
        | .put _ _, .unit => none
        | .clear, .unit => none
        | _, _ => some s!"fail:answer-of-the-wrong-kind-at-op-{i}"
      match bad with
      | some b => some b
      | none => go (i + 1) (track f op) ops outs
    | [], [] => none
    | _, _ => some "fail:answer-count-differs"
  go 0 (fun _ => none) ops outs

def seqOracle (c : Nat) (os : List Op) (impl : String) : String :=
  match parseList parseOut impl with
  | some io =>
    match directClauses c os io with
    | some b => b
    | none => match firstDiff io (Spec.run (Spec.new c) os) with
      | none => "ok"
      | some i => s!"fail:differs-from-abstract-LRU-at-op-{i}"
  | none => "fail:unparsable-impl-answer"

def handle (req impl : String) : String × String :=
  match req.splitOn " " with
  | ["seq", cap, ops] =>
    match cap.toNat?, parseList parseOp ops with
    | some c, some os =>
      -- `LruCache` has no `stats`
      if os.any (· == .stats) then ("bad-request", "na") else
      (showOuts (Impl.run (Impl.new c) os), seqOracle c os impl)
    | _, _ => ("bad-request", "na")
  | ["oseq", cap, ops] =>
    match cap.toNat?, parseList parseOp ops with
    | some c, some os =>
      -- `ObjectCache` has no `is_empty`
      if os.any (· == .isEmpty) then ("bad-request", "na") else
      (showOuts (Impl.run (Impl.new c) os), seqOracle c os impl)
    | _, _ => ("bad-request", "na")
  | ["mm", n, ops] =>
    match n.toNat?, parseList parseOp ops with
    | some n, some os =>
      if os.any (· == .isEmpty) then ("bad-request", "na") else
      match managerCache n with
      | none => ("nocache", if impl = "nocache" then "ok" else "fail:manager-built-a-cache-of-capacity-0")
      | some st => (showOuts (Impl.run st os), if impl = "nocache" then "fail:manager-built-no-cache" else seqOracle n os impl)
    | _, _ => ("bad-request", "na")
  | ["conc", cap, ths, "#", probe] =>
    match cap.toNat?, (ths.splitOn "|").mapM (parseList parseOp), parseList parseOp probe with
    | some c, some tops, some pops =>
      match impl.splitOn "#" with
      | [ti, pi] =>
        match (ti.splitOn "|").mapM (parseList parseOut), parseList parseOut pi with
        | some touts, some pouts =>
          if touts.length ≠ tops.length ∨ pouts.length ≠ pops.length ∨
             (List.zip tops touts).any (fun (a, b) => a.length ≠ b.length) then
            ("shape-mismatch", "fail:shape")
          else
            let hist := (List.zip tops touts).map fun (a, b) => List.zip a b
            let fuel := (tops.map List.length).foldl (· + ·) 0
            if linearisable fuel (Impl.new c) hist (List.zip pops pouts) then (impl, "ok")
            else ("no-linearisation", "fail:no-sequential-history-explains-the-results")
        | _, _ => ("unparsable-impl", "fail:unparsable-impl-answer")
      | _ => ("unparsable-impl", "fail:unparsable-impl-answer")
    | _, _, _ => ("bad-request", "na")
  | _ => ("bad-request", "na")

def main : IO Unit := runDriver handle
