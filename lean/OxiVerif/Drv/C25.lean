import OxiVerif.Base.Driver
import OxiVerif.Model.C25
/-!
Driver for C25.  Requests (E ∈ W M S P, K ∈ L W M P, numbers hex) — see harness/src/bin/c25.rs:
  `encs E lo hi` `enc E lo hi` `dec E lo hi` `wdc lo hi` `ed K lo hi`   (run-length coded answers)
  `sencs E cps` `senc E cps` `sdec E bytes`                              (string level)

MODEL  = the generated tables + `Model/C25.lean` evaluated on the request.
ORACLE = Annex D (`Spec/AnnexD.lean`) evaluated on the IMPLEMENTATION's answer, per byte / per code
point:  decode: a defined slot must decode to its Annex D code point;  strict encode: a repertoire
character must get its Annex D byte, anything else must be refused (C0 controls / DEL may pass through
as themselves into an undefined slot);  lossy encode: same, and there is no way to refuse, so any
other output is a silent replacement.  Every deviating byte / code point is put into a named class
(a spec-side predicate on the input AND the exact wrong answer); whatever fits no class is
`unexpected` and listed.  String level additionally: the string result must be the composition of
the per-character results (first refusal reported, order and length kept).
-/
open OxiVerif OxiVerif.C25 OxiVerif.AnnexD

namespace C25Drv

def hexNatChars : List Char → Nat → Option Nat
  | [], acc => some acc
  | c :: r, acc => match hexVal? c with
    | some v => hexNatChars r (acc * 16 + v)
    | none => none

def hexNat? (s : String) : Option Nat :=
  if s.isEmpty then none else hexNatChars s.toList 0

def toHex (n : Nat) : String := String.ofList (Nat.toDigits 16 n)

def encOf? : String → Option Enc
  | "W" => some .winAnsi | "M" => some .macRoman | "S" => some .standard | "P" => some .pdfDoc
  | _ => none

def encLetter : Enc → String
  | .winAnsi => "W" | .macRoman => "M" | .standard => "S" | .pdfDoc => "P"

def edOf? : String → Option EdEnc
  | "L" => some .latin1 | "W" => some .windows1252 | "M" => some .macRoman | "P" => some .pdfDoc
  | _ => none

/-- canonical token of one result -/
inductive Tok
  | n | i | u | s
  | bytes (l : List Nat)
  | cp (c : Nat)
  | cps (l : List Nat)
  deriving BEq, Inhabited

def Tok.render : Tok → String
  | .n => "n" | .i => "i" | .u => "u" | .s => "s"
  | .bytes l => "=" ++ hexOfBytes l
  | .cp c => "=" ++ toHex c
  | .cps l => "=[" ++ ".".intercalate (l.map toHex) ++ "]"

def isSurrogate (x : Nat) : Bool := 0xD800 ≤ x && x ≤ 0xDFFF

def tokBytes (x : Nat) (bs : List Nat) : Tok :=
  if bs == [x] then .i else if bs == utf8Enc x then .u else .bytes bs

def tokCps (x : Nat) (l : List Nat) : Tok :=
  match l with
  | [] => .n
  | [c] => if c == x then .i else .cp c
  | _ => .cps l

inductive Op | encs | enc | dec | wdc | ed
  deriving BEq

/-- the MODEL's token for one input of a range request -/
def modelTok (op : Op) (e : Enc) (k : EdEnc) (x : Nat) : Tok :=
  match op with
  | .encs => if isSurrogate x then .s else
      match strictChar e x with
      | none => .n
      | some b => tokBytes x [b]
  | .enc => if isSurrogate x then .s else tokBytes x (lossyChar e x)
  | .dec => tokCps x (decode e [x])
  | .wdc => tokCps x (winansiDecodeChar x).toList
  | .ed => tokCps x [edDecodeByte k x]

def renderRun (a b : Nat) (t : Tok) : String :=
  (if a == b then toHex a else toHex a ++ "-" ++ toHex b) ++ ":" ++ t.render

def pushRun (acc : String) (r : String) : String := if acc.isEmpty then r else acc ++ "," ++ r

/-- run-length coding of `f` over `x..=hi` -/
def rleLoop (f : Nat → Tok) (hi : Nat) : Nat → Nat → Nat → Tok → String → String
  | 0, _, _, _, acc => acc
  | fuel + 1, x, start, cur, acc =>
    let t := f x
    let (start', cur', acc') := if t == cur then (start, cur, acc) else (x, t, pushRun acc (renderRun start (x - 1) cur))
    if x == hi then pushRun acc' (renderRun start' hi cur') else rleLoop f hi fuel (x + 1) start' cur' acc'

def rle (f : Nat → Tok) (lo hi : Nat) : String :=
  rleLoop f hi (hi - lo + 1) lo lo (f lo) ""

/-! ### oracle -/

/-- what the implementation did for one input, recovered from its token -/
inductive Res
  | refused                 -- `None` / `Err`
  | out (l : List Nat)      -- bytes (encode) or code points (decode)
  | skip                    -- surrogate: not a `char`
  deriving BEq

def resOfTok (isEnc : Bool) (x : Nat) : Tok → Res
  | .n => if isEnc then .refused else .out []
  | .i => .out [x]
  | .u => .out (utf8Enc x)
  | .s => .skip
  | .bytes l => .out l
  | .cp c => .out [c]
  | .cps l => .out l

def specEnc (e : Enc) (x : Nat) : Option Nat := if x > 0xFFFF then none else AnnexD.enc e x

def passthrough (e : Enc) (x : Nat) : Bool := (x < 0x20 || x == 0x7F) && (AnnexD.dec e x).isNone

/-- `none` = conforms to Annex D; `some label` = deviation of that class -/
def classify (op : Op) (e : Enc) (k : EdEnc) (x : Nat) (r : Res) : Option String :=
  if r == .skip then none else
  match op with
  | .encs =>
    match specEnc e x with
    | some b0 =>
      if r == .out [b0] then none
      else if e == .macRoman && b0 ≥ 0xB0 && r == .refused then some "mac-gap-refused"
      else if e == .standard && (x == 0x27 || x == 0x60) && r == .out [x] then some "std-ascii-quote"
      else if e == .standard && x ≥ 0x80 && r == .refused then some "std-nonascii-refused"
      else if e == .pdfDoc && x ≥ 0x80 && r == .refused then some "pdf-nonascii-refused"
      else some "unexpected"
    | none =>
      if r == .refused then none
      else if passthrough e x && r == .out [x] then none
      else if e == .macRoman && x == 0x2260 && r == .out [0xAD] then some "mac-notequal"
      else if e == .pdfDoc && 0x18 ≤ x && x ≤ 0x1F && r == .out [x] then some "pdf-accent-ctl"
      else some "unexpected"
  | .enc =>
    match specEnc e x with
    | some b0 =>
      if r == .out [b0] then none
      else if e == .macRoman && b0 ≥ 0xB0 && r == .out [0x3F] then some "mac-gap-qmark"
      else if e == .standard && (x == 0x27 || x == 0x60) && r == .out [x] then some "std-ascii-quote"
      else if e == .standard && x ≥ 0x80 && r == .out (utf8Enc x) then some "std-utf8"
      else if e == .pdfDoc && x ≥ 0x80 && r == .out (utf8Enc x) then some "pdf-utf8"
      else some "unexpected"
    | none =>
      if passthrough e x && r == .out [x] then none
      else if e == .winAnsi && r == .out [0x3F] then some "win-lossy-qmark"
      else if e == .macRoman && x == 0x2260 && r == .out [0xAD] then some "mac-notequal"
      else if e == .macRoman && r == .out [0x3F] then some "mac-lossy-qmark"
      else if e == .standard && x ≥ 0x80 && r == .out (utf8Enc x) then some "std-utf8"
      else if e == .pdfDoc && 0x18 ≤ x && x ≤ 0x1F && r == .out [x] then some "pdf-accent-ctl"
      else if e == .pdfDoc && x ≥ 0x80 && r == .out (utf8Enc x) then some "pdf-utf8"
      else some "unexpected"
  | .dec | .wdc =>
    match AnnexD.dec e x with
    | none => none
    | some u =>
      if r == .out [u] then none
      else if op == .wdc then some "unexpected"
      else if e == .macRoman && x == 0xDB && r == .out [0x20AC] then some "mac-db-euro"
      else if e == .standard && (x == 0x27 || x == 0x60) && r == .out [x] then some "std-ascii-quote"
      else if e == .standard && x ≥ 0x80 && r == .out [0xFFFD] then some "std-high-fffd"
      else if e == .pdfDoc && 0x18 ≤ x && x ≤ 0x1F && r == .out [x] then some "pdf-accent-ctl"
      else if e == .pdfDoc && x ≥ 0x80 && r == .out [0xFFFD] then some "pdf-high-fffd"
      else some "unexpected"
  | .ed =>
    match k with
    | .latin1 => none      -- ISO 8859-1 is not an Annex D encoding: the property is silent
    | _ =>
      match AnnexD.dec e x with
      | none => none
      | some u =>
        if r == .out [u] then none
        else if k == .macRoman && x ≥ 0xB0 && r == .out [0xFFFD] then some "edmac-high-fffd"
        else if k == .pdfDoc && 0x18 ≤ x && x ≤ 0x1F && r == .out [x] then some "edpdf-accent-ctl"
        else if k == .pdfDoc && 0x80 ≤ x && x ≤ 0xA0 && r == .out [x] then some "edpdf-latin1-high"
        else some "unexpected"

/-- the Annex D encoding an `EnhancedDecoder` encoding claims to be -/
def edSpecEnc : EdEnc → Enc
  | .latin1 => .winAnsi | .windows1252 => .winAnsi | .macRoman => .macRoman | .pdfDoc => .pdfDoc

structure Cls where
  label : String
  count : Nat
  first : Nat
  last : Nat
  pts : List Nat      -- first few points (only shown for `unexpected`)

def addDev (acc : List Cls) (label : String) (x : Nat) : List Cls :=
  match acc with
  | [] => [{ label, count := 1, first := x, last := x, pts := [x] }]
  | c :: r =>
    if c.label == label then
      { c with count := c.count + 1, last := x, pts := if c.pts.length < 12 then c.pts ++ [x] else c.pts } :: r
    else c :: addDev r label x

def renderCls (c : Cls) : String :=
  if c.label == "unexpected" then
    s!"unexpected*{c.count}[{",".intercalate (c.pts.map toHex)}]"
  else s!"{c.label}*{c.count}[{toHex c.first}..{toHex c.last}]"

def verdict (tag : String) (acc : List Cls) : String :=
  if acc.isEmpty then "ok" else s!"fail:{tag} " ++ " ".intercalate (acc.map renderCls)

def parseTok (s : String) : Option Tok :=
  match s.toList with
  | ['n'] => some .n | ['i'] => some .i | ['u'] => some .u | ['s'] => some .s
  | '=' :: '[' :: r =>
    match r.reverse with
    | ']' :: m => ((String.ofList m.reverse).splitOn ".").mapM hexNat? |>.map .cps
    | _ => none
  | '=' :: r => some (.bytes ((bytesOfHexChars r).getD []))  -- refined by `fixTok`
  | _ => none

/-- `=hex` is a byte string for encode requests and one code point for decode requests -/
def parseTokFor (isEnc : Bool) (s : String) : Option Tok :=
  match s.toList with
  | '=' :: '[' :: _ => parseTok s
  | '=' :: r =>
    if isEnc then (bytesOfHexChars r).map .bytes else (hexNatChars r 0).map .cp
  | _ => parseTok s

def classifyRange (op : Op) (e : Enc) (k : EdEnc) (isEnc : Bool) (t : Tok) :
    Nat → Nat → List Cls → List Cls
  | 0, _, acc => acc
  | fuel + 1, x, acc =>
    let acc := match classify op e k x (resOfTok isEnc x t) with
      | none => acc
      | some l => addDev acc l x
    classifyRange op e k isEnc t fuel (x + 1) acc

/-- walk the implementation's runs; they must tile `lo..=hi` exactly -/
def oracleRuns (op : Op) (e : Enc) (k : EdEnc) (isEnc : Bool) (hi : Nat) :
    List String → Nat → List Cls → Option (List Cls)
  | [], next, acc => if next == hi + 1 then some acc else none
  | run :: rest, next, acc =>
    match run.splitOn ":" with
    | [rng, tok] =>
      match parseTokFor isEnc tok with
      | none => none
      | some t =>
        let ab := match rng.splitOn "-" with
          | [a] => (hexNat? a).map fun a => (a, a)
          | [a, b] => match hexNat? a, hexNat? b with
            | some a, some b => some (a, b)
            | _, _ => none
          | _ => none
        match ab with
        | some (a, b) =>
          if a != next || b < a || b > hi then none
          else oracleRuns op e k isEnc hi rest (b + 1) (classifyRange op e k isEnc t (b - a + 1) a acc)
        | none => none
    | _ => none

def opName : Op → String
  | .encs => "encs" | .enc => "enc" | .dec => "dec" | .wdc => "wdc" | .ed => "ed"

def handleRange (op : Op) (e : Enc) (k : EdEnc) (tagE : String) (lo hi : Nat) (impl : String) : String × String :=
  let isEnc := op == .encs || op == .enc
  let model := rle (modelTok op e k) lo hi
  let oracle :=
    if op == .ed && k == .latin1 then "na" else
    match oracleRuns op e k isEnc hi (impl.splitOn ",") lo [] with
    | some acc => verdict (opName op ++ "-" ++ tagE) acc
    | none => "fail:unparsable-impl-answer"
  (model, oracle)

def parseCps (s : String) : Option (List Nat) :=
  if s == "-" then some [] else (s.splitOn ".").mapM hexNat?

def showCps (l : List Nat) : String := if l.isEmpty then "-" else ".".intercalate (l.map toHex)
def showToks (l : List Tok) : String := if l.isEmpty then "-" else ",".intercalate (l.map Tok.render)

def parseToks (isEnc : Bool) (s : String) : Option (List Tok) :=
  if s == "-" then some [] else (s.splitOn ",").mapM (parseTokFor isEnc)

def classifyList (op : Op) (e : Enc) (isEnc : Bool) : List Nat → List Tok → List Cls → List Cls
  | x :: xs, t :: ts, acc =>
    let acc := match classify op e .latin1 x (resOfTok isEnc x t) with
      | none => acc
      | some l => addDev acc l x
    classifyList op e isEnc xs ts acc
  | _, _, acc => acc

/-- composition law of `encode_strict`: first refusal is reported, else the bytes in order -/
def composeStrict : List Nat → List Res → Option String
  | [], [] => some "ok:"
  | x :: xs, r :: rs =>
    match r with
    | .refused => some ("err:" ++ toHex x)
    | .out l =>
      match composeStrict xs rs with
      | some t =>
        if t.startsWith "ok:" then some ("ok:" ++ hexOfBytes l ++ String.ofList (t.toList.drop 3)) else some t
      | none => none
    | .skip => none
  | _, _ => none

def handle (req impl : String) : String × String :=
  match req.splitOn " " with
  | [op, e, lo, hi] =>
    match hexNat? lo, hexNat? hi with
    | some lo, some hi =>
      if lo > hi || hi > 0x10FFFF then ("bad-request", "na") else
      match op, encOf? e, edOf? e with
      | "encs", some e', _ => handleRange .encs e' .latin1 e lo hi impl
      | "enc", some e', _ => handleRange .enc e' .latin1 e lo hi impl
      | "dec", some e', _ => if hi > 0xFF then ("bad-request", "na") else handleRange .dec e' .latin1 e lo hi impl
      | "ed", _, some k => if hi > 0xFF then ("bad-request", "na") else handleRange .ed (edSpecEnc k) k e lo hi impl
      | _, _, _ => ("bad-request", "na")
    | _, _ => ("bad-request", "na")
  | ["wdc", lo, hi] =>
    match hexNat? lo, hexNat? hi with
    | some lo, some hi =>
      if lo > hi || hi > 0xFF then ("bad-request", "na") else handleRange .wdc .winAnsi .latin1 "W" lo hi impl
    | _, _ => ("bad-request", "na")
  | [op, e, arg] =>
    match encOf? e with
    | none => ("bad-request", "na")
    | some e' =>
      if op == "sencs" || op == "senc" then
        match parseCps arg with
        | none => ("bad-request", "na")
        | some cps =>
          if cps.any (fun c => isSurrogate c || c > 0x10FFFF) then ("bad-request", "na") else
          let strict := op == "sencs"
          let o := if strict then Op.encs else Op.enc
          let mtoks := cps.map (modelTok o e' .latin1)
          let mres : String := if strict then
              match encodeStrict e' cps with
              | .ok bs => "ok:" ++ hexField bs
              | .error c => "err:" ++ toHex c
            else hexField (encode e' cps)
          let model := mres ++ ";" ++ showToks mtoks
          let oracle := match impl.splitOn ";" with
            | [r, ts] =>
              match parseToks true ts with
              | some toks =>
                if toks.length != cps.length then "fail:shape" else
                let ress := (List.zip cps toks).map fun (x, t) => resOfTok true x t
                let composed : Option String := if strict then
                    (composeStrict cps ress).map fun t => if t == "ok:" then "ok:-" else t
                  else some (hexField (ress.flatMap fun r => match r with | .out l => l | _ => []))
                if composed != some r then s!"fail:{op}-{e} string-result-is-not-the-composition-of-the-per-char-results"
                else verdict (op ++ "-" ++ e) (classifyList o e' true cps toks [])
              | none => "fail:unparsable-impl-answer"
            | _ => "fail:unparsable-impl-answer"
          (model, oracle)
      else if op == "sdec" then
        match bytesOfHex? arg with
        | none => ("bad-request", "na")
        | some bs =>
          let mtoks := bs.map (modelTok .dec e' .latin1)
          let model := showCps (decode e' bs) ++ ";" ++ showToks mtoks
          let oracle := match impl.splitOn ";" with
            | [r, ts] =>
              match parseToks false ts, parseCps r with
              | some toks, some rc =>
                if toks.length != bs.length then "fail:shape" else
                let ress := (List.zip bs toks).map fun (x, t) => resOfTok false x t
                let composed := ress.flatMap fun r => match r with | .out l => l | _ => []
                -- single-byte encodings decode byte by byte; the UTF-8 pass-through of S/P does not
                if (e' == .winAnsi || e' == .macRoman) && composed != rc then
                  s!"fail:sdec-{e} string-result-is-not-the-composition-of-the-per-byte-results"
                else verdict ("sdec-" ++ e) (classifyList .dec e' false bs toks [])
              | _, _ => "fail:unparsable-impl-answer"
            | _ => "fail:unparsable-impl-answer"
          (model, oracle)
      else ("bad-request", "na")
  | _ => ("bad-request", "na")

end C25Drv

def main : IO Unit := OxiVerif.runDriver C25Drv.handle
