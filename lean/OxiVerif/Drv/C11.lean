import OxiVerif.Base.Driver
import OxiVerif.Model.C11
import OxiVerif.Spec.C11
/-!
Driver for C11.

Request (one line, fields separated by one space):
  `c11 o:<8 bits>:<cr>:<thr>:<max|-> <fonts> <stream0> <stream1> …`
  bits   = preserve_layout sort_by_position detect_columns merge_hyphenated reconstruct_paragraphs
           include_artifacts reorder_columns reading_order
  cr     = CarriageReturnHandling 0 Remove | 1 ReplaceWithSpace | 2 NormalizeLineEnding
  thr    = threshold set (geometry only, not interpreted here)
  fonts  = `;`-separated: `s<k>` standard font k, WinAnsiEncoding |
           `t<baseHex>.<n>.<extras>`, Type0/Identity-H, ToUnicode `bfrange <0001>..<n> ↦ base…` and
           extras = `-` | `<code4hex>=<utf16hex>` joined by `+` (bfchar)
  stream = `<fmap>/<xmap>/<matrix>/<ops>`; stream 0 is the page, the others are form XObjects;
           fmap: resource name `F<i>` ↦ i-th entry (a font index); xmap: `X<i>` ↦ a stream index
  ops    = `,`-separated: BT ET q Q T* EMC Tf:<name>:<size> Td:x:y TD:x:y Tm:<6 nums joined by _>
           cm:<6> Tc:n Tw:n Tz:n TL:n Ts:n Tr:n Tj:<hex> Tq:<hex> (') Tqq:aw:ac:<hex> (")
           TJ:<items joined by ;> (h<hex> | n<num>) Do:<name> BMC:<tag> BDC:<tag>:<mcid|->:<at>
           BDR:… (the same through /Properties); at = `-` none | `e` empty | UTF-16BE hex

Implementation answer: `ok t<0|1> b<0|1> d<0|1> x<hex> f<hex>` (see harness/src/bin/c11.rs).

MODEL: the events of the geometry-free operator loop (`C11.events`) determine the emitted runs.  The
geometry oracle is unknown to the driver, so the model's answer is the SET of outputs over all `Ω`:
sequence-exact when the option combination preserves emission order, multiset otherwise; a run-final
hyphen is optional under `merge_hyphenated` (definitely fused before a `'`/`"` on the flat path);
a prefix when the byte budget truncated.  The model answer is the implementation's own answer when
it lies in that set, else the canonical member of the set.

ORACLE: the same comparison (always as multisets) against the runs of the reference semantics
`Spec.shown`; plus `b1` (budget respected) and `d1` (three runs identical).
-/
open OxiVerif OxiVerif.C11

/-! ### parsing -/

def isNumTok (s : String) : Bool :=
  let cs := s.toList
  let cs := match cs with
    | '-' :: r => r
    | r => r
  let intPart := cs.takeWhile Char.isDigit
  let rest := cs.dropWhile Char.isDigit
  !intPart.isEmpty && (rest.isEmpty || (match rest with
    | '.' :: f => !f.isEmpty && f.all Char.isDigit
    | _ => false))

def six? (s : String) : Bool :=
  let p := s.splitOn "_"
  p.length == 6 && p.all isNumTok

def hexNat? (s : String) : Option Nat :=
  if s.isEmpty then none else
  s.toList.foldlM (fun acc c => (hexVal? c).map (fun v => acc * 16 + v)) 0

def units? (s : String) : Option (List Nat) :=
  (bytesOfHex? s).bind fun bs =>
    let rec go : List Nat → Option (List Nat)
      | [] => some []
      | [_] => none
      | a :: b :: r => (go r).map ((a * 256 + b) :: ·)
    go bs

def tagOk (t : String) : Bool := !t.isEmpty && t.toList.all Char.isAlphanum

def atField? (s : String) : Option (Option (List Nat)) :=
  if s = "-" then some none
  else if s = "e" then some (some [])
  else (units? s).bind fun u => some (utf16Dec u |>.getD (u.map fun _ => 0xFFFD) |> some)

def parseOp (t : String) : Option Op :=
  match t.splitOn ":" with
  | ["BT"] => some .bt
  | ["ET"] => some .et
  | ["q"] => some .q
  | ["Q"] => some .Q
  | ["T*"] => some .other
  | ["EMC"] => some .emc
  | ["Tf", f, s] => if isNumTok s then f.toNat?.map .tf else none
  | ["Td", x, y] => if isNumTok x && isNumTok y then some .other else none
  | ["TD", x, y] => if isNumTok x && isNumTok y then some .other else none
  | ["Tm", m] => if six? m then some .other else none
  | ["cm", m] => if six? m then some .other else none
  | ["Tc", n] => if isNumTok n then some .other else none
  | ["Tw", n] => if isNumTok n then some .other else none
  | ["Tz", n] => if isNumTok n then some .other else none
  | ["TL", n] => if isNumTok n then some .other else none
  | ["Ts", n] => if isNumTok n then some .other else none
  | ["Tr", n] => (n.toNat?).bind fun v => if v < 256 then some .other else none
  | ["Tj", h] => (bytesOfHex? h).map .tj
  | ["Tq", h] => (bytesOfHex? h).map .quote
  | ["Tqq", aw, ac, h] => if isNumTok aw && isNumTok ac then (bytesOfHex? h).map .quote else none
  | ["TJ", items] =>
    if items.isEmpty then some (.tjArr []) else
    ((items.splitOn ";").mapM fun (it : String) =>
      match it.toList with
      | 'h' :: r => (bytesOfHex? (String.ofList r)).map TjItem.str
      | 'n' :: r => if isNumTok (String.ofList r) then some TjItem.num else none
      | _ => none).map .tjArr
  | ["Do", x] => x.toNat?.map .doX
  | ["BMC", tag] => if tagOk tag then some (.bmc (tag == "Artifact")) else none
  | [kw, tag, mcid, atf] =>
    if (kw == "BDC" || kw == "BDR") && tagOk tag && (mcid == "-" || (match mcid.toNat? with | some v => decide (v < 4294967296) | none => false)) then
      (atField? atf).map fun a => .bdc (tag == "Artifact") a
    else none
  | _ => none

def parseFont (t : String) : Option Font :=
  match t.toList with
  | 's' :: r => ((String.ofList r).toNat?).bind fun k => if k < 14 then some .simple else none
  | 't' :: r =>
    match (String.ofList r).splitOn "." with
    | [b, n, ex] =>
      match hexNat? b, n.toNat? with
      | some base, some n =>
        if base > 0xFFFF || n > 0xFFFF then none else
        if ex == "-" then some (.type0 base n [])
        else
          ((ex.splitOn "+").mapM fun (e : String) =>
            match e.splitOn "=" with
            | [c, u] => match hexNat? c, units? u with
              | some c, some u => if c ≤ 0xFFFF then some (c, u) else none
              | _, _ => none
            | _ => none).map (.type0 base n)
      | _, _ => none
    | _ => none
  | _ => none

def idxList? (s : String) : Option (List Nat) :=
  if s == "-" then some [] else (s.splitOn ".").mapM String.toNat?

def splitN4 (s : String) : Option (String × String × String × String) :=
  match s.splitOn "/" with
  | a :: b :: c :: d :: rest => some (a, b, c, "/".intercalate (d :: rest))
  | _ => none

def parseStream (t : String) : Option Stream :=
  match splitN4 t with
  | some (fm, xm, mx, ops) =>
    if !(mx == "-" || six? mx) then none else
    match idxList? fm, idxList? xm,
          (if ops == "-" then some [] else (ops.splitOn ",").mapM parseOp) with
    | some f, some x, some o => some { fmap := f, xmap := x, ops := o }
    | _, _, _ => none
  | none => none

def parseBits (s : String) : Option (List Bool) :=
  if s.length == 8 && s.toList.all (fun c => c == '0' || c == '1') then
    some (s.toList.map (· == '1')) else none

def parseReq (req : String) : Option (Opts × Prog) :=
  match req.splitOn " " with
  | "c11" :: o :: fonts :: s0 :: rest =>
    match o.splitOn ":" with
    | ["o", bits, cr, thr, mx] =>
      match parseBits bits, cr.toNat?, thr.toNat?,
            (if mx == "-" then some none else mx.toNat?.map some) with
      | some [pl, sp, dc, mh, rp, ia, rc, ro], some cr, some thr, some mx =>
        if cr > 2 || thr > 2 then none else
        match (if fonts == "-" then some [] else (fonts.splitOn ";").mapM parseFont),
              (s0 :: rest).mapM parseStream with
        | some fs, some ss =>
          let okIdx := ss.all fun s =>
            s.fmap.all (· < fs.length) && s.xmap.all (fun x => x != 0 && x < ss.length)
          if okIdx then
            some ({ pl, sp, dc, mh, rp, ia, rc, ro, cr, max := mx }, { fonts := fs, streams := ss })
          else none
        | _, _ => none
      | _, _, _, _ => none
    | _ => none
  | _ => none

/-! ### patterns -/

/-- a character of the expected output; `opt` = a run-final hyphen that `merge_hyphenated` may fuse -/
structure PTok where
  c : Nat
  opt : Bool
  deriving Repr

/-- `extra` = how many more run-final hyphens than the last one may be fused (layout path only:
    an empty fragment behind the run leaves the text ending in the next hyphen, which the next
    line-wrap merge fuses again; the flat path fuses only in front of a non-empty text). -/
def runToks (mh : Bool) (run : List Nat) (extra : Nat := 0) : List PTok :=
  let n := run.length
  let trail := (run.reverse.takeWhile (· == HY)).length
  let optN := min trail (1 + extra)
  (List.range n).zip run |>.filterMap fun (i, c) =>
    if isWs c then none else some { c := c, opt := mh && n ≤ i + optN && c == HY }

def emptyFragsAhead : List Ev → Nat
  | [] => 0
  | .frag [] :: r => 1 + emptyFragsAhead r
  | .frag _ :: _ => 0
  | _ :: r => emptyFragsAhead r

/-- pattern of the flat text from the events.  A run-final hyphen is certainly fused when the very
    next accumulating event is a `'`/`"` show (and no budget can refuse it). -/
def flatPattern (mh : Bool) (noBudget : Bool) : List Ev → List PTok
  | [] => []
  | .app _ txt :: r =>
    let nextIsNl := match r.find? (fun e => match e with | .frag _ => false | _ => true) with
      | some (.app .nl t) => !t.isEmpty
      | _ => false
    let toks := runToks mh txt
    let toks := if mh && noBudget && nextIsNl && endsWithHy txt then toks.dropLast else toks
    toks ++ flatPattern mh noBudget r
  | _ :: r => flatPattern mh noBudget r

def fragPattern (mh : Bool) : List Ev → List PTok
  | [] => []
  | .frag txt :: r => runToks mh txt (emptyFragsAhead r) ++ fragPattern mh r
  | _ :: r => fragPattern mh r

def canonical (p : List PTok) : List Nat := p.map (·.c)

/-- split off the leading block of hyphen tokens: (required, optional, rest) -/
def hyBlock : List PTok → Nat × Nat × List PTok
  | [] => (0, 0, [])
  | t :: r =>
    if t.c == HY then
      let (a, b, rest) := hyBlock r
      if t.opt then (a, b + 1, rest) else (a + 1, b, rest)
    else (0, 0, t :: r)

/-- sequence match; `pre` = the implementation may have stopped early (byte budget) -/
def matchSeq (pre : Bool) : Nat → List PTok → List Nat → Bool
  | 0, _, _ => false
  | fuel + 1, pat, xs =>
    match pat with
    | [] => xs.isEmpty
    | t :: p =>
      if t.c == HY then
        let (r, o, rest) := hyBlock pat
        let h := (xs.takeWhile (· == HY)).length
        let xs' := xs.drop h
        if xs'.isEmpty && pre then h ≤ r + o
        else r ≤ h && h ≤ r + o && matchSeq pre fuel rest xs'
      else match xs with
        | [] => pre
        | x :: r => x == t.c && matchSeq pre fuel p r

def countOf (c : Nat) (l : List Nat) : Nat := (l.filter (· == c)).length

/-- multiset match; `sub` = the implementation may have stopped early -/
def matchMulti (sub : Bool) (pat : List PTok) (xs : List Nat) : Bool :=
  let req := (pat.filter (!·.opt)).map (·.c)
  let opt := (pat.filter (·.opt)).length
  let all := (req ++ xs).eraseDups
  all.all fun c =>
    let r := countOf c req
    let x := countOf c xs
    let hi := if c == HY then r + opt else r
    (sub || r ≤ x) && x ≤ hi

/-! ### answers -/

def cpsOfHex? (s : String) : Option (List Nat) :=
  (bytesOfHex? s).bind fun bs =>
    (String.fromUTF8? (ByteArray.mk (bs.map UInt8.ofNat).toArray)).map fun t => t.toList.map Char.toNat

def hexOfCps (cs : List Nat) : String :=
  hexField ((String.ofList (cs.map Char.ofNat)).toUTF8.toList.map UInt8.toNat)

structure ImplAns where
  t : Bool
  b : Bool
  d : Bool
  x : List Nat
  f : List Nat

def parseImpl (s : String) : Option ImplAns :=
  match s.splitOn " " with
  | ["ok", t, b, d, x, f] =>
    let flag (p : Char) (w : String) : Option Bool :=
      match w.toList with
      | [q, '0'] => if q == p then some false else none
      | [q, '1'] => if q == p then some true else none
      | _ => none
    match flag 't' t, flag 'b' b, flag 'd' d, x.toList, f.toList with
    | some t, some b, some d, 'x' :: xr, 'f' :: fr =>
      match cpsOfHex? (String.ofList xr), cpsOfHex? (String.ofList fr) with
      | some x, some f => some { t, b, d, x, f }
      | _, _ => none
    | _, _, _, _, _ => none
  | _ => none

def b01 (b : Bool) : String := if b then "1" else "0"

def handle (req impl : String) : String × String :=
  match parseReq req with
  | none => ("bad-request", "na")
  | some (o, P) =>
    let (stFinal, evs) := events P o.ia o.cr
    if stFinal.unmodelled then ("unmodelled", "na") else
    let lay := o.pl || o.rc
    let hasFrag := evs.any fun e => match e with | .frag _ => true | _ => false
    let flatP := flatPattern o.mh o.max.isNone evs
    let fragP := fragPattern o.mh evs
    -- which pattern `.text` follows, and whether emission order survives
    let xPat := if lay && hasFrag then fragP else flatP
    let xSeq := (!o.pl && !o.rc && !o.ro) || (o.pl && !o.sp && !o.rp)
    let fPat : List PTok := if o.pl then fragP else []
    let fSeq := !o.sp && !o.rp
    let fuel (p : List PTok) (x : List Nat) := p.length + x.length + 2
    match parseImpl impl with
    | none =>
      (s!"ok t0 b1 d1 x{hexOfCps (canonical xPat)} f{hexOfCps (canonical fPat)}",
       "fail:implementation-gave-no-extraction")
    | some a =>
      let cut := a.t && o.max.isSome
      let xOk := if xSeq then matchSeq cut (fuel xPat a.x) xPat a.x else matchMulti cut xPat a.x
      let fOk := if fSeq then matchSeq cut (fuel fPat a.f) fPat a.f else matchMulti cut fPat a.f
      let tOk := o.max.isSome || !a.t
      let model :=
        s!"ok t{b01 (if tOk then a.t else false)} b1 d1 " ++
        s!"x{hexOfCps (if xOk then a.x else canonical xPat)} " ++
        s!"f{hexOfCps (if fOk then a.f else canonical fPat)}"
      -- oracle: the reference semantics
      let ref := Spec.run P o.ia
      let oracle :=
        if !ref.ok then s!"na:{ref.why}" else
          let sp := ref.runs.reverse.flatMap (runToks o.mh)
          -- a conservation failure that the unchanged code's model reproduces exactly, on an input
          -- that exercises a listed quirk, is reported under that quirk's name
          let quirks := (if ref.nestedAT then ["nested-actualtext"] else []) ++
                        (if ref.inherited then ["inherited-font-name"] else [])
          -- the same runs with EVERY run-final hyphen optional: a failure that disappears under
          -- this pattern is explained by hyphen fusion alone (the shape of finding C11-F4, repaired:
          -- each line-wrap append with an empty text popped one more hyphen)
          let spAll := ref.runs.reverse.flatMap (fun r => runToks o.mh r r.length)
          let chain := o.mh && matchMulti cut spAll a.x && (!o.pl || matchMulti cut spAll a.f)
          -- a listed open defect the reference run met comes first: a lost `/ActualText` replacement
          -- that consists of hyphens only (`--`, C11-F1) also "disappears once every run-final hyphen
          -- is optional" and is not a hyphen chain
          let lose (what : String) :=
            if xOk && fOk && !quirks.isEmpty then "fail:quirk[" ++ ",".intercalate quirks ++ "]"
            else if xOk && fOk && chain then "fail:quirk[hyphen-chain]"
            else what
          if !a.d then "fail:not-deterministic"
          else if !a.b then "fail:text-longer-than-max_extracted_bytes"
          else if a.t && o.max.isNone then "fail:truncated-without-a-budget"
          else if !matchMulti cut sp a.x then
            lose (if matchMulti true sp a.x then "fail:text-loses-shown-characters"
                  else "fail:text-has-characters-not-shown")
          else if o.pl && !matchMulti cut sp a.f then lose "fail:fragments-do-not-conserve-shown-characters"
          else if !o.pl && !a.f.isEmpty then "fail:fragments-without-preserve_layout"
          else "ok"
      (model, oracle)

def main : IO Unit := runDriver handle
